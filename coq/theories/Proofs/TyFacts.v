(* C16 - proofs about Model/Ty.v (compat) and Model/TySpec.v (subb) and the declarative relation sub. *)
From Verif Require Import Base.Prelude Model.Ty Model.TyPipe Model.TySpec.

(* ---------- sizes and lists ---------- *)
Lemma size_pos : forall t, 1 <= size t.
Proof. destruct t; simpl; lia. Qed.

Lemma In_size_le : forall x l, In x l -> size x <= list_sum (map size l).
Proof.
  intros x l; induction l as [|y l IH]; simpl; intros H; [contradiction|].
  destruct H as [->|H]; [lia|]. specialize (IH H). lia.
Qed.

Lemma forallb_ext_in {A} (f g : A -> bool) l :
  (forall x, In x l -> f x = g x) -> forallb f l = forallb g l.
Proof.
  induction l as [|y l IH]; simpl; intros H; [reflexivity|].
  rewrite (H y) by auto. rewrite IH; auto.
Qed.

Lemma existsb_ext_in {A} (f g : A -> bool) l :
  (forall x, In x l -> f x = g x) -> existsb f l = existsb g l.
Proof.
  induction l as [|y l IH]; simpl; intros H; [reflexivity|].
  rewrite (H y) by auto. rewrite IH; auto.
Qed.

Lemma forallb2_ext_in {A B} (f g : A -> B -> bool) l1 l2 :
  (forall x y, In x l1 -> In y l2 -> f x y = g x y) -> forallb2 f l1 l2 = forallb2 g l1 l2.
Proof.
  revert l2; induction l1 as [|x l1 IH]; intros [|y l2] H; simpl; try reflexivity.
  rewrite (H x y) by (simpl; auto). rewrite IH; auto.
  intros; apply H; simpl; auto.
Qed.

(* ---------- bounded iteration: fuel irrelevance and unfolding ---------- *)
Definition local (st : (ty -> ty -> bool) -> ty -> ty -> bool) : Prop :=
  forall r1 r2 a b,
    (forall x y, size x + size y < size a + size b -> r1 x y = r2 x y) -> st r1 a b = st r2 a b.

Lemma iterF_stable st : local st ->
  forall n m a b, size a + size b < n -> size a + size b < m -> iterF st n a b = iterF st m a b.
Proof.
  intros L n; induction n as [|n IH]; intros m a b Hn Hm; [lia|].
  destruct m as [|m]; [lia|]. simpl. apply L. intros x y Hxy. apply IH; lia.
Qed.

Lemma iterF_unfold st : local st ->
  forall a b, iterF st (S (size a + size b)) a b = st (fun x y => iterF st (S (size x + size y)) x y) a b.
Proof.
  intros L a b.
  change (iterF st (S (size a + size b)) a b) with (st (iterF st (size a + size b)) a b).
  apply L. intros x y Hxy. apply iterF_stable; auto; lia.
Qed.

Ltac sz :=
  repeat match goal with
  | H : In _ _ |- _ => apply In_size_le in H
  end; simpl in *; lia.

Lemma step_local : local step.
Proof.
  intros r1 r2 a b H. unfold step.
  destruct (is_var a); [reflexivity|].
  destruct (check_identical_or_any a b); [reflexivity|].
  assert (Hu : handle_union r1 a b = handle_union r2 a b).
  { unfold handle_union.
    destruct a as [c| | |l|o args|o|t m|e|n bd cs|x]; try (destruct b; try reflexivity; f_equal; apply existsb_ext_in; intros; apply H; sz).
    - f_equal. apply forallb_ext_in; intros; apply H; sz.
    - destruct t; try (destruct b; try reflexivity; f_equal; apply existsb_ext_in; intros; apply H; sz).
      f_equal. apply forallb_ext_in; intros; apply H; sz. }
  rewrite Hu. destruct (handle_union r2 a b); [reflexivity|].
  assert (Ht : typevar_compatible r1 a b = typevar_compatible r2 a b).
  { unfold typevar_compatible. destruct b; try reflexivity.
    rewrite (existsb_ext_in (fun c => r1 a c) (fun c => r2 a c)) by (intros; apply H; sz).
    destruct bound; [rewrite (H a t) by sz|]; reflexivity. }
  rewrite Ht. destruct (typevar_compatible r2 a b); [reflexivity|].
  assert (Hg : handle_generic r1 a b = handle_generic r2 a b).
  { unfold handle_generic, compare_annotated, compare_args.
    destruct a as [c| | |l|o args|o|t m|e|n bd cs|x]; destruct b as [c'| | |l'|o' args'|o'|t' m'|e'|n' bd' cs'|x']; simpl;
      try reflexivity;
      try (f_equal; apply H; sz);
      try (rewrite (forallb2_ext_in r1 r2) by (intros; apply H; sz); reflexivity).
    all: try (rewrite (H nd_obj nd_obj) by sz; rewrite (H e e') by sz; reflexivity).
    all: try (rewrite (H t t') by sz; reflexivity).
    all: try (rewrite (H t nd_obj) by sz; reflexivity). }
  rewrite Hg. reflexivity.
Qed.

Lemma head_sub_local r1 r2 a b :
  (forall x y, size x + size y < size a + size b -> r1 x y = r2 x y) -> head_sub r1 a b = head_sub r2 a b.
Proof.
  intros H. unfold head_sub.
  destruct a as [c| | |l|o args|o|t m|e|n bd cs|x]; destruct b as [c'| | |l'|o' args'|o'|t' m'|e'|n' bd' cs'|x'];
    try reflexivity; try (apply H; sz).
  rewrite (forallb2_ext_in r1 r2) by (intros; apply H; sz); reflexivity.
Qed.

Lemma target_sub_local r1 r2 a b :
  (forall x y, size x + size y < size a + size b -> r1 x y = r2 x y) -> target_sub r1 a b = target_sub r2 a b.
Proof.
  intros H. unfold target_sub.
  destruct b as [c'| | |l'|o' args'|o'|t' m'|e'|n' bd' cs'|x']; try (apply head_sub_local; exact H).
  - apply existsb_ext_in; intros; apply H; sz.
  - apply H; sz.
  - rewrite (existsb_ext_in (fun y => r1 a y) (fun y => r2 a y) cs') by (intros; apply H; sz).
    destruct bd' as [bd'|]; [rewrite (H a bd') by sz|]; reflexivity.
Qed.

Lemma sstep_local : local sstep.
Proof.
  intros r1 r2 a b H. unfold sstep.
  assert (HT := target_sub_local r1 r2 a b H).
  destruct b as [c'| | |l'|o' args'|o'|t' m'|e'|n' bd' cs'|x']; try reflexivity.
  all: destruct a as [c| | |l|o args|o|t m|e|n bd cs|x]; try reflexivity; try exact HT;
    try (apply forallb_ext_in; intros; apply H; sz);
    try (apply H; sz).
  all: destruct bd as [bd|]; [apply H; sz|]; destruct cs as [|c0 cs]; [exact HT|];
    apply (forallb_ext_in (fun x => r1 x _) (fun x => r2 x _) (c0 :: cs)); intros; apply H; sz.
Qed.

Lemma compat_unfold : forall a b, compat a b = step compat a b.
Proof. intros. unfold compat, compatF. apply (iterF_unfold step step_local). Qed.

Lemma subb_unfold : forall a b, subb a b = sstep subb a b.
Proof. intros. unfold subb. apply (iterF_unfold sstep sstep_local). Qed.

(* ---------- induction on sizes ---------- *)
Lemma ty_size_ind (P : ty -> Prop) :
  (forall a, (forall x, size x < size a -> P x) -> P a) -> forall a, P a.
Proof.
  intros H a. remember (size a) as n eqn:E. revert a E.
  induction n as [n IH] using lt_wf_ind. intros a ->. apply H. intros x Hx. exact (IH (size x) Hx x eq_refl).
Qed.

Lemma pair_size_ind (P : ty -> ty -> Prop) :
  (forall a b, (forall x y, size x + size y < size a + size b -> P x y) -> P a b) -> forall a b, P a b.
Proof.
  intros H a b. remember (size a + size b) as n eqn:E. revert a b E.
  induction n as [n IH] using lt_wf_ind. intros a b ->. apply H. intros x y Hxy. exact (IH _ Hxy x y eq_refl).
Qed.

(* ---------- equality ---------- *)
Lemma str_eqb_refl : forall x, str_eqb x x = true.
Proof. induction x as [|c x IH]; simpl; [reflexivity|]. rewrite Ascii.eqb_refl, IH. reflexivity. Qed.
Lemma cls_eqb_refl : forall c, cls_eqb c c = true. Proof. destruct c; reflexivity. Qed.
Lemma origin_eqb_refl : forall c, origin_eqb c c = true. Proof. destruct c; reflexivity. Qed.
Lemma cls_le_refl : forall c, cls_le c c = true. Proof. destruct c; reflexivity. Qed.
Lemma origin_le_refl : forall c, origin_le c c = true. Proof. destruct c; reflexivity. Qed.
Lemma meta_eqb_refl : forall m, meta_eqb m m = true.
Proof. destruct m; simpl; [apply str_eqb_refl|apply Z.eqb_refl]. Qed.
Lemma metas_eqb_refl : forall m, list_eqb meta_eqb m m = true.
Proof. induction m as [|x m IH]; simpl; [reflexivity|]. rewrite meta_eqb_refl, IH. reflexivity. Qed.

Lemma ty_seqb_refl : forall a, ty_seqb a a = true.
Proof.
  induction a as [a IH] using ty_size_ind.
  assert (G : forall l, (forall x, In x l -> size x < size a) ->
     (fix go (l1 l2 : list ty) {struct l1} : bool :=
        match l1 with
        | [] => match l2 with [] => true | _ :: _ => false end
        | x :: r1 => match l2 with [] => false | y :: r2 => ty_seqb x y && go r1 r2 end
        end) l l = true).
  { induction l as [|x l IHl]; intros Hl; [reflexivity|].
    rewrite (IH x) by (apply Hl; simpl; auto). rewrite IHl; [reflexivity|]. intros; apply Hl; simpl; auto. }
  destruct a as [c| | |l|o args|o|t m|e|n bd cs|x]; simpl; try reflexivity.
  - apply cls_eqb_refl.
  - apply G. intros x Hx. sz.
  - rewrite origin_eqb_refl. apply G. intros x Hx. sz.
  - apply origin_eqb_refl.
  - rewrite IH by sz. apply metas_eqb_refl.
  - apply IH; sz.
  - rewrite str_eqb_refl. rewrite G by (intros x Hx; sz).
    destruct bd as [bd|]; [rewrite IH by sz|]; reflexivity.
  - apply str_eqb_refl.
Qed.

Lemma ty_eqb_refl : forall a, ty_eqb a a = true.
Proof.
  induction a as [a IH] using ty_size_ind.
  assert (G : forall l, (forall x, In x l -> size x < size a) ->
     (fix go (l1 l2 : list ty) {struct l1} : bool :=
        match l1 with
        | [] => match l2 with [] => true | _ :: _ => false end
        | x :: r1 => match l2 with [] => false | y :: r2 => ty_eqb x y && go r1 r2 end
        end) l l = true).
  { induction l as [|x l IHl]; intros Hl; [reflexivity|].
    rewrite (IH x) by (apply Hl; simpl; auto). rewrite IHl; [reflexivity|]. intros; apply Hl; simpl; auto. }
  destruct a as [c| | |l|o args|o|t m|e|n bd cs|x]; try reflexivity.
  - apply cls_eqb_refl.
  - simpl. assert (E : forallb (fun x => existsb (fun y => ty_eqb x y) l) l = true).
    { apply forallb_forall. intros x Hx. apply existsb_exists. exists x. split; [exact Hx|]. apply IH. sz. }
    assert (E2 : forallb (fun y => existsb (fun x => ty_eqb x y) l) l = true).
    { apply forallb_forall. intros x Hx. apply existsb_exists. exists x. split; [exact Hx|]. apply IH. sz. }
    rewrite E, E2. reflexivity.
  - simpl. rewrite origin_eqb_refl. apply G. intros x Hx. sz.
  - simpl. apply origin_eqb_refl.
  - simpl. rewrite IH by sz. apply metas_eqb_refl.
  - simpl. apply IH; sz.
  - apply ty_seqb_refl.
  - simpl. apply str_eqb_refl.
Qed.

(* ---------- first laws of compat (no hypothesis) ---------- *)
Lemma compat_reflexive : forall a, compat a a = true.
Proof.
  intros a. rewrite compat_unfold. unfold step, check_identical_or_any.
  destruct (is_var a); [reflexivity|].
  destruct (is_unres a || is_unres a); [reflexivity|]. rewrite ty_eqb_refl. reflexivity.
Qed.

Lemma compat_any : forall a, compat a TAny = true.
Proof.
  intros a. rewrite compat_unfold. unfold step, check_identical_or_any.
  destruct (is_var a); [reflexivity|].
  destruct (is_unres a || is_unres TAny); [reflexivity|]. simpl. rewrite orb_true_r. reflexivity.
Qed.

Lemma compat_noannotation : forall a, compat a TNoAnn = true /\ compat TNoAnn a = true.
Proof.
  intros a. split; rewrite compat_unfold; unfold step, check_identical_or_any.
  - destruct (is_var a); [reflexivity|].
    destruct (is_unres a || is_unres TNoAnn); [reflexivity|]. simpl. rewrite !orb_true_r. reflexivity.
  - simpl. destruct (is_unres a); [reflexivity|]. simpl. rewrite !orb_true_r. reflexivity.
Qed.

Lemma compat_unresolvable : forall a x, compat a (TUnres x) = true /\ compat (TUnres x) a = true.
Proof.
  intros a x. split; rewrite compat_unfold; unfold step, check_identical_or_any.
  - destruct (is_var a); [reflexivity|]. simpl. rewrite orb_true_r. reflexivity.
  - reflexivity.
Qed.

Lemma compat_typevar_source : forall n bd cs b, compat (TVar n bd cs) b = true.
Proof. intros. rewrite compat_unfold. reflexivity. Qed.

(* ---------- the reference decision procedure subb ---------- *)
Lemma subb_top : forall a b, is_top b = true -> subb a b = true.
Proof. intros a b H. rewrite subb_unfold. destruct b; try discriminate; reflexivity. Qed.

Lemma subb_noann_l : forall b, subb TNoAnn b = true.
Proof. intros b. rewrite subb_unfold. destruct b; reflexivity. Qed.
Lemma subb_unres_l : forall x b, subb (TUnres x) b = true.
Proof. intros x b. rewrite subb_unfold. destruct b; reflexivity. Qed.

Lemma forallb_true {A} (l : list A) : forallb (fun _ => true) l = true.
Proof. induction l; simpl; auto. Qed.

Lemma subb_src_union : forall l b, subb (TUnion l) b = forallb (fun x => subb x b) l.
Proof.
  intros l b. rewrite subb_unfold.
  destruct b; try reflexivity; simpl; symmetry;
    rewrite (forallb_ext_in _ (fun _ => true)) by (intros; apply subb_top; reflexivity); apply forallb_true.
Qed.

Lemma subb_src_annot : forall t m b, subb (TAnnot t m) b = subb t b.
Proof.
  intros t m b. rewrite subb_unfold.
  destruct b; try reflexivity; simpl; symmetry; apply subb_top; reflexivity.
Qed.

Lemma subb_src_var_bound : forall n bd cs b, subb (TVar n (Some bd) cs) b = subb bd b.
Proof.
  intros n bd cs b. rewrite subb_unfold.
  destruct b; try reflexivity; simpl; symmetry; apply subb_top; reflexivity.
Qed.

Lemma subb_src_var_constr : forall n c cs b, subb (TVar n None (c :: cs)) b = forallb (fun x => subb x b) (c :: cs).
Proof.
  intros n c cs b. rewrite subb_unfold.
  destruct b; try reflexivity; cbn [sstep]; symmetry;
    rewrite (forallb_ext_in _ (fun _ => true)) by (intros; apply subb_top; reflexivity); apply forallb_true.
Qed.

Lemma subb_atomic : forall a b, atomic a = true -> is_top b = false -> subb a b = target_sub subb a b.
Proof.
  intros a b Ha Hb. rewrite subb_unfold. unfold sstep.
  destruct b; try discriminate; destruct a as [c0| | |l0|o0 args0|o0|t0 m0|e0|n0 bd cs|x0]; try discriminate; try reflexivity;
    destruct bd; try discriminate; destruct cs; try discriminate; reflexivity.
Qed.

(* introduction on the target side: whatever accepts through `t` for atomic sources accepts for all sources *)
Lemma subb_target_intro : forall t b',
  is_top b' = false ->
  (forall a, atomic a = true -> subb a t = true -> target_sub subb a b' = true) ->
  forall x, subb x t = true -> subb x b' = true.
Proof.
  intros t b' Hb' Hat. induction x as [x IH] using ty_size_ind. intros Hx.
  destruct x as [c| | |l|o args|o|p m|e|n bd cs|u].
  all: try (rewrite subb_atomic by (reflexivity || exact Hb'); apply Hat; [reflexivity|exact Hx]).
  - apply subb_noann_l.
  - rewrite subb_src_union in *. apply forallb_forall. intros y Hy.
    apply IH; [sz|]. rewrite forallb_forall in Hx. apply Hx; exact Hy.
  - rewrite subb_src_annot in *. apply IH; [sz|exact Hx].
  - destruct bd as [bd|].
    + rewrite subb_src_var_bound in *. apply IH; [sz|exact Hx].
    + destruct cs as [|c0 cs].
      * rewrite subb_atomic by (reflexivity || exact Hb'). apply Hat; [reflexivity|exact Hx].
      * rewrite subb_src_var_constr in *. apply forallb_forall. intros y Hy.
        apply IH; [sz|]. rewrite forallb_forall in Hx. apply Hx; exact Hy.
  - apply subb_unres_l.
Qed.

Lemma subb_union_r : forall x t l, In t l -> subb x t = true -> subb x (TUnion l) = true.
Proof.
  intros x t l Hin. apply subb_target_intro; [reflexivity|].
  intros a _ Ha. simpl. apply existsb_exists. exists t. auto.
Qed.

Lemma subb_annot_r : forall x t m, subb x t = true -> subb x (TAnnot t m) = true.
Proof. intros x t m. apply subb_target_intro; [reflexivity|]. intros a _ Ha. exact Ha. Qed.

Lemma subb_var_r_bound : forall x n bd cs, subb x bd = true -> subb x (TVar n (Some bd) cs) = true.
Proof.
  intros x n bd cs. apply subb_target_intro; [reflexivity|]. intros a _ Ha. simpl. rewrite Ha. reflexivity.
Qed.

Lemma subb_var_r_constr : forall x n bd cs c, In c cs -> subb x c = true -> subb x (TVar n bd cs) = true.
Proof.
  intros x n bd cs c Hin. apply subb_target_intro; [reflexivity|]. intros a _ Ha.
  assert (E : existsb (fun y => subb a y) cs = true) by (apply existsb_exists; exists c; auto).
  simpl. destruct bd; destruct cs; simpl in *; try contradiction; rewrite ?E, ?orb_true_r; reflexivity.
Qed.

Lemma subb_var_r_free : forall x n, subb x (TVar n None []) = true.
Proof.
  intros x n. apply (subb_target_intro TAny); [reflexivity| |apply subb_top; reflexivity].
  intros a _ _. reflexivity.
Qed.

Lemma forallb2_refl (f : ty -> ty -> bool) l : (forall x, In x l -> f x x = true) -> forallb2 f l l = true.
Proof. induction l as [|x l IH]; simpl; intros H; [reflexivity|]. rewrite H by auto. apply IH. auto. Qed.

Lemma subb_refl : forall a, subb a a = true.
Proof.
  induction a as [a IH] using ty_size_ind.
  destruct a as [c| | |l|o args|o|p m|e|n bd cs|u].
  - rewrite subb_atomic by reflexivity. simpl. apply cls_le_refl.
  - apply subb_top; reflexivity.
  - apply subb_top; reflexivity.
  - rewrite subb_src_union. apply forallb_forall. intros x Hx. apply (subb_union_r x x l Hx). apply IH. sz.
  - rewrite subb_atomic by reflexivity. simpl. rewrite origin_le_refl, Nat.eqb_refl. simpl.
    apply forallb2_refl. intros x Hx. apply IH. sz.
  - rewrite subb_atomic by reflexivity. simpl. apply origin_le_refl.
  - rewrite subb_src_annot. apply subb_annot_r. apply IH. sz.
  - rewrite subb_atomic by reflexivity. simpl. apply IH. sz.
  - destruct bd as [bd|].
    + rewrite subb_src_var_bound. apply subb_var_r_bound. apply IH. sz.
    + destruct cs as [|c0 cs]; [apply subb_var_r_free|].
      rewrite subb_src_var_constr. apply forallb_forall. intros x Hx.
      apply (subb_var_r_constr x n None (c0 :: cs) x Hx). apply IH. sz.
  - apply subb_top; reflexivity.
Qed.

(* ---------- subb decides the declarative relation sub ---------- *)
Lemma forallb2_Forall2 {A B} (f : A -> B -> bool) (R : A -> B -> Prop) l1 l2 :
  length l1 = length l2 -> forallb2 f l1 l2 = true ->
  (forall x y, In x l1 -> In y l2 -> f x y = true -> R x y) -> Forall2 R l1 l2.
Proof.
  revert l2; induction l1 as [|x l1 IH]; intros [|y l2] HL HF HR; simpl in *; try discriminate; constructor.
  - apply andb_prop in HF. apply HR; auto. tauto.
  - apply andb_prop in HF. apply IH; [lia|tauto|]. intros; apply HR; auto.
Qed.

Lemma Forall2_forallb2 {A B} (f : A -> B -> bool) (R : A -> B -> Prop) l1 l2 :
  Forall2 R l1 l2 -> (forall x y, In x l1 -> In y l2 -> R x y -> f x y = true) ->
  forallb2 f l1 l2 = true /\ length l1 = length l2.
Proof.
  induction 1 as [|x y l1 l2 Hxy HF IH]; intros HR; simpl; [auto|].
  rewrite (HR x y) by (simpl; auto). destruct IH as [-> ->]; [|auto]. intros; apply HR; simpl; auto.
Qed.

Lemma target_var_inv r a n bd cs :
  target_sub r a (TVar n bd cs) = true ->
  (bd = None /\ cs = []) \/ (exists x, bd = Some x /\ r a x = true) \/ (exists c, In c cs /\ r a c = true).
Proof.
  unfold target_sub. intros H.
  destruct bd as [x|].
  - apply orb_prop in H. destruct H as [H|H]; [right; left; eauto|].
    apply existsb_exists in H. destruct H as [c [Hc Hr]]. right; right; eauto.
  - destruct cs as [|c0 cs]; [left; auto|].
    rewrite orb_false_l in H. apply existsb_exists in H. destruct H as [c [Hc Hr]]. right; right; eauto.
Qed.

Lemma sub_of_target_var a n bd cs :
  target_sub subb a (TVar n bd cs) = true ->
  (forall y, subb a y = true -> size y < size (TVar n bd cs) -> sub a y) -> sub a (TVar n bd cs).
Proof.
  intros H IH. apply target_var_inv in H. destruct H as [[-> ->]|[[x [-> Hx]]|[c [Hc Hx]]]].
  - apply S_var_r_free.
  - apply S_var_r_bound. apply IH; [auto|sz].
  - apply (S_var_r_constr _ _ _ _ c Hc). apply IH; [auto|sz].
Qed.

Lemma subb_sound : forall a b, subb a b = true -> sub a b.
Proof.
  intros a b; pattern a, b; apply pair_size_ind; clear a b; intros a b IH H.
  destruct (is_top b) eqn:Hb.
  { destruct b; try discriminate; constructor. }
  destruct a as [c| | |l|o args|o|p m|e|n bd cs|u].
  3: constructor.
  9: constructor.
  3: { rewrite subb_src_union in H. rewrite forallb_forall in H. apply S_union_l. intros x Hx. apply IH; [sz|auto]. }
  5: { rewrite subb_src_annot in H. apply S_annot_l. apply IH; [sz|auto]. }
  6: { destruct bd as [bd|].
       - rewrite subb_src_var_bound in H. apply S_var_l_bound. apply IH; [sz|auto].
       - destruct cs as [|c0 cs].
         + rewrite subb_atomic in H by (reflexivity || exact Hb).
           destruct b as [c'| | |l'|o' args'|o'|t' m'|e'|n' bd' cs'|x']; try discriminate; cbn [target_sub head_sub] in H; try discriminate.
           * apply existsb_exists in H. destruct H as [t [Ht Hs]]. apply (S_union_r _ _ t Ht). apply IH; [sz|auto].
           * apply S_annot_r. apply IH; [sz|auto].
           * apply sub_of_target_var; [exact H|]. intros y Hy Hsz. apply IH; [simpl in *; lia|auto].
         + rewrite subb_src_var_constr in H. rewrite forallb_forall in H.
           apply S_var_l_constr. intros x Hx. apply IH; [sz|auto]. }
  all: rewrite subb_atomic in H by (reflexivity || exact Hb).
  all: destruct b as [c'| | |l'|o' args'|o'|t' m'|e'|n' bd' cs'|x']; try discriminate; cbn [target_sub head_sub] in H; try discriminate.
  all: try (apply existsb_exists in H; destruct H as [t [Ht Hs]]; apply (S_union_r _ _ t Ht); apply IH; [sz|auto]).
  all: try (apply S_annot_r; apply IH; [sz|auto]).
  all: try (apply sub_of_target_var; [exact H|]; intros y Hy Hsz; apply IH; [simpl in *; lia|auto]).
  - apply S_cls; auto.
  - apply andb_prop in H. destruct H as [H H3]. apply andb_prop in H. destruct H as [H1 H2].
    apply Nat.eqb_eq in H2. apply S_gen; [auto|].
    apply (forallb2_Forall2 subb); auto. intros x y Hx Hy Hxy. apply IH; [sz|auto].
  - apply S_gen_bare; auto.
  - apply S_gen_array. apply IH; [sz|auto].
  - apply S_bare_gen; auto.
  - apply S_bare_bare; auto.
  - apply S_bare_array; auto.
  - apply S_array_gen. apply IH; [sz|auto].
  - apply S_array_bare; auto.
  - apply S_array. apply IH; [sz|auto].
Qed.

Lemma subb_complete : forall a b, sub a b -> subb a b = true.
Proof.
  intros a b; pattern a, b; apply pair_size_ind; clear a b; intros a b IH H.
  inversion H; subst.
  - apply subb_refl.
  - apply subb_top; reflexivity.
  - apply subb_noann_l.
  - apply subb_top; reflexivity.
  - apply subb_unres_l.
  - apply subb_top; reflexivity.
  - rewrite subb_src_union. apply forallb_forall. intros x Hx. apply IH; [sz|auto].
  - apply (subb_union_r a t l); [auto|]. apply IH; [sz|auto].
  - rewrite subb_atomic by reflexivity. simpl. auto.
  - rewrite subb_atomic by reflexivity. cbn [target_sub head_sub].
    match goal with HF : Forall2 sub _ _ |- _ =>
      destruct (Forall2_forallb2 subb sub _ _ HF) as [E1 E2]; [intros x y Hx Hy Hxy; apply IH; [sz|auto]|] end.
    rewrite E1, E2, Nat.eqb_refl.
    match goal with HO : origin_le _ _ = true |- _ => rewrite HO end. reflexivity.
  - rewrite subb_atomic by reflexivity. simpl. auto.
  - rewrite subb_atomic by reflexivity. simpl. auto.
  - rewrite subb_atomic by reflexivity. simpl. auto.
  - rewrite subb_src_annot. apply IH; [sz|auto].
  - apply subb_annot_r. apply IH; [sz|auto].
  - rewrite subb_atomic by reflexivity. cbn [target_sub head_sub]. apply IH; [sz|auto].
  - rewrite subb_atomic by reflexivity. cbn [target_sub head_sub]. apply IH; [sz|auto].
  - rewrite subb_atomic by reflexivity. simpl. auto.
  - rewrite subb_atomic by reflexivity. cbn [target_sub head_sub]. apply IH; [sz|auto].
  - rewrite subb_atomic by reflexivity. simpl. auto.
  - apply subb_var_r_free.
  - apply subb_var_r_bound. apply IH; [sz|auto].
  - match goal with HI : In ?c ?cs |- _ => apply (subb_var_r_constr a n bd cs c HI) end. apply IH; [sz|auto].
  - rewrite subb_src_var_bound. apply IH; [sz|auto].
  - rewrite subb_src_var_constr. apply forallb_forall. intros x Hx. apply IH; [sz|auto].
Qed.

Theorem subb_iff_sub : forall a b, subb a b = true <-> sub a b.
Proof. intros; split; [apply subb_sound|apply subb_complete]. Qed.

(* ====================================================================================== *)
(* compat agrees with the reference (sources without TypeVar)                                *)
(* ====================================================================================== *)

(* ---------- inversion of the side conditions ---------- *)
Lemma wf_inv_union l : wf (TUnion l) = true -> l <> [] /\ (forall x, In x l -> wf x = true).
Proof.
  simpl. intros H. apply andb_prop in H. destruct H as [H1 H2]. split.
  - destruct l; [discriminate|congruence].
  - apply forallb_forall. exact H2.
Qed.
Lemma wf_inv_gen o l : wf (TGen o l) = true -> l <> [] /\ (forall x, In x l -> wf x = true).
Proof.
  simpl. intros H. apply andb_prop in H. destruct H as [H1 H2]. split.
  - destruct l; [discriminate|congruence].
  - apply forallb_forall. exact H2.
Qed.
Lemma wf_inv_annot p m : wf (TAnnot p m) = true -> is_annot_like p = false /\ wf p = true.
Proof. simpl. intros H. apply andb_prop in H. destruct H as [H1 H2]. split; [destruct (is_annot_like p); [discriminate|reflexivity]|exact H2]. Qed.
Lemma wf_inv_array e : wf (TArray e) = true -> wf e = true.
Proof. auto. Qed.
Lemma wf_inv_var n bd cs : wf (TVar n bd cs) = true ->
  (forall x, bd = Some x -> wf x = true) /\ (forall c, In c cs -> wf c = true).
Proof.
  simpl. intros H. apply andb_prop in H. destruct H as [H1 H2]. split.
  - intros x ->. exact H1.
  - apply forallb_forall. exact H2.
Qed.
Lemma notv_inv_union l : notv (TUnion l) = true -> forall x, In x l -> notv x = true.
Proof. simpl. intros H. apply forallb_forall. exact H. Qed.
Lemma notv_inv_gen o l : notv (TGen o l) = true -> forall x, In x l -> notv x = true.
Proof. simpl. intros H. apply forallb_forall. exact H. Qed.

Lemma cls_eqb_le c d : cls_eqb c d = true -> cls_le c d = true.
Proof. destruct c, d; simpl; auto. Qed.
Lemma origin_eqb_le c d : origin_eqb c d = true -> origin_le c d = true.
Proof. destruct c, d; simpl; auto. Qed.

Lemma existsb_const_true {A} (l : list A) : l <> [] -> existsb (fun _ => true) l = true.
Proof. destruct l; [congruence|reflexivity]. Qed.

(* Python's == implies the reference relation (for sources without TypeVar: TypeVars compare by identity) *)
Lemma ty_eqb_go_Forall2 : forall l1 l2,
  (fix go (l1 l2 : list ty) {struct l1} : bool :=
     match l1 with
     | [] => match l2 with [] => true | _ :: _ => false end
     | x :: r1 => match l2 with [] => false | y :: r2 => ty_eqb x y && go r1 r2 end
     end) l1 l2 = true -> Forall2 (fun x y => ty_eqb x y = true) l1 l2.
Proof.
  induction l1 as [|x l1 IH]; intros [|y l2] H; try discriminate; constructor.
  - apply andb_prop in H. tauto.
  - apply IH. apply andb_prop in H. tauto.
Qed.

Lemma check_false_inv a b : check_identical_or_any a b = false ->
  is_unres a = false /\ is_unres b = false /\ ty_eqb a b = false /\ is_any b = false /\ is_noann a = false /\ is_noann b = false.
Proof.
  unfold check_identical_or_any. destruct (is_unres a), (is_unres b); simpl; try discriminate.
  destruct (ty_eqb a b), (is_any b), (is_noann a), (is_noann b); simpl; try discriminate. intros _; repeat split; reflexivity.
Qed.

Lemma typevar_compatible_target r a n bd cs :
  typevar_compatible r a (TVar n bd cs) = Some (target_sub r a (TVar n bd cs)).
Proof.
  unfold typevar_compatible, target_sub.
  destruct bd as [x|]; destruct cs as [|c0 cs]; simpl; try reflexivity.
  - rewrite orb_false_r. reflexivity.
  - destruct (r a c0 || existsb (fun c => r a c) cs); [rewrite orb_true_r|rewrite orb_false_r]; reflexivity.
  - destruct (r a c0 || existsb (fun c => r a c) cs); reflexivity.
Qed.

Lemma target_var_ext r1 r2 a n bd cs :
  (forall y, bd = Some y \/ In y cs -> r1 a y = r2 a y) ->
  target_sub r1 a (TVar n bd cs) = target_sub r2 a (TVar n bd cs).
Proof.
  intros H. unfold target_sub.
  rewrite (existsb_ext_in (fun y => r1 a y) (fun y => r2 a y) cs) by (intros; apply H; auto).
  destruct bd as [x|]; [rewrite (H x) by auto|]; reflexivity.
Qed.

Lemma size_var_part n bd cs y : bd = Some y \/ In y cs -> size y < size (TVar n bd cs).
Proof. intros [->|H]; [simpl; lia|sz]. Qed.

Lemma wf_var_part n bd cs y : wf (TVar n bd cs) = true -> bd = Some y \/ In y cs -> wf y = true.
Proof. intros W H. apply wf_inv_var in W. destruct W as [W1 W2]. destruct H; auto. Qed.

Ltac bcase := repeat match goal with |- context [if ?c then _ else _] => destruct c end; try reflexivity.

Lemma forallb_map {A B} (f : B -> bool) (g : A -> B) l : forallb f (map g l) = forallb (fun x => f (g x)) l.
Proof. induction l as [|x l IH]; simpl; [reflexivity|]. rewrite IH. reflexivity. Qed.

Lemma forallb2_map_l {A A' B} (f : A' -> B -> bool) (g : A -> A') l1 l2 :
  forallb2 f (map g l1) l2 = forallb2 (fun x y => f (g x) y) l1 l2.
Proof. revert l2; induction l1 as [|x l1 IH]; intros [|y l2]; simpl; try reflexivity. rewrite IH. reflexivity. Qed.

Lemma notv_vars_unknown : forall a, notv a = true -> vars_unknown a = a.
Proof.
  induction a as [a IH] using ty_size_ind. intros H.
  assert (G : forall l, (forall x, In x l -> size x < size a) -> forallb notv l = true -> map vars_unknown l = l).
  { induction l as [|x l IHl]; intros Hs Hn; [reflexivity|]. simpl in *. apply andb_prop in Hn. destruct Hn as [H1 H2].
    rewrite (IH x) by auto. rewrite IHl; auto. }
  destruct a as [c| | |l|o args|o|p m|e|n bd cs|u]; simpl in *; try reflexivity; try discriminate.
  - rewrite G; [reflexivity|intros x Hx; sz|exact H].
  - rewrite G; [reflexivity|intros x Hx; sz|exact H].
  - rewrite IH; [reflexivity|lia|exact H].
  - rewrite IH; [reflexivity|lia|exact H].
Qed.

Lemma subb_of_eqb_unknown : forall a b, ty_eqb a b = true -> subb (vars_unknown a) b = true.
Proof.
  intros a b; pattern a, b; apply pair_size_ind; clear a b; intros a b IH He.
  destruct a as [c| | |l|o args|o|p m|e|n bd cs|u]; destruct b as [c'| | |l'|o' args'|o'|p' m'|e'|n' bd' cs'|u'];
    try discriminate; try (apply subb_top; reflexivity); try apply subb_noann_l.
  - rewrite subb_atomic by reflexivity. simpl. apply cls_eqb_le. exact He.
  - cbn [vars_unknown]. rewrite subb_src_union, forallb_map. apply forallb_forall. intros x Hx.
    simpl in He. apply andb_prop in He. destruct He as [He _]. rewrite forallb_forall in He.
    specialize (He x Hx). apply existsb_exists in He. destruct He as [y [Hy Hxy]].
    apply (subb_union_r _ y l' Hy). apply IH; [sz|exact Hxy].
  - simpl in He. apply andb_prop in He. destruct He as [Ho Hg]. apply ty_eqb_go_Forall2 in Hg.
    cbn [vars_unknown]. rewrite subb_atomic by reflexivity. cbn [target_sub head_sub].
    rewrite forallb2_map_l, map_length.
    destruct (Forall2_forallb2 (fun x y => subb (vars_unknown x) y) _ _ _ Hg) as [E1 E2].
    { intros x y Hx Hy Hxy. apply IH; [sz|exact Hxy]. }
    rewrite E1, E2, Nat.eqb_refl, (origin_eqb_le _ _ Ho). reflexivity.
  - rewrite subb_atomic by reflexivity. simpl. apply origin_eqb_le. exact He.
  - simpl in He. apply andb_prop in He. destruct He as [He _].
    cbn [vars_unknown]. rewrite subb_src_annot. apply subb_annot_r. apply IH; [sz|exact He].
  - cbn [vars_unknown]. rewrite subb_atomic by reflexivity. cbn [target_sub head_sub]. apply IH; [sz|exact He].
Qed.

Lemma check_true_subb_unknown a b : check_identical_or_any a b = true -> subb (vars_unknown a) b = true.
Proof.
  unfold check_identical_or_any. intros H.
  destruct (is_unres a) eqn:E1. { destruct a; try discriminate. apply subb_unres_l. }
  destruct (is_unres b) eqn:E2. { apply subb_top. unfold is_top. rewrite E2, !orb_true_r. reflexivity. }
  simpl in H. destruct (ty_eqb a b) eqn:E3. { apply subb_of_eqb_unknown; auto. }
  destruct (is_any b) eqn:E4. { apply subb_top. unfold is_top. rewrite E4. reflexivity. }
  destruct (is_noann a) eqn:E5. { destruct a; try discriminate. apply subb_noann_l. }
  simpl in H. apply subb_top. unfold is_top. rewrite H, orb_true_r. reflexivity.
Qed.

Ltac side :=
  first
    [ assumption | reflexivity
    | match goal with
      | W : wf (TUnion _) = true |- wf _ = true => apply (proj2 (wf_inv_union _ W)); assumption
      | W : wf (TGen _ _) = true |- wf _ = true => apply (proj2 (wf_inv_gen _ _ W)); assumption
      | W : wf (TAnnot _ _) = true |- wf _ = true => apply (proj2 (wf_inv_annot _ _ W))
      | W : wf (TArray _) = true |- wf _ = true => exact W
      end ].

(* The complete characterisation of the model: is_type_compatible is the reference relation with every TypeVar of
   the source read as unknown. *)
Theorem compat_characterised : forall a b, wf a = true -> wf b = true -> compat a b = subb (vars_unknown a) b.
Proof.
  intros a b; pattern a, b; apply pair_size_ind; clear a b; intros a b IH Wa Wb.
  rewrite compat_unfold. unfold step.
  destruct (is_var a) eqn:Hvar. { destruct a; try discriminate. symmetry. apply subb_noann_l. }
  destruct (check_identical_or_any a b) eqn:Hc. { symmetry. apply check_true_subb_unknown; auto. }
  apply check_false_inv in Hc. destruct Hc as (Ua & Ub & Eab & Ab & Na & Nb).
  assert (Tb : is_top b = false). { unfold is_top. rewrite Ab, Nb, Ub. reflexivity. }
  assert (TV : forall n bd cs, b = TVar n bd cs ->
               target_sub compat a b = target_sub (fun _ y => subb (vars_unknown a) y) a b).
  { intros n bd cs ->. apply target_var_ext. intros y Hy. apply IH; auto.
    - pose proof (size_var_part n bd cs y Hy). lia.
    - eapply wf_var_part; eauto. }
  destruct a as [c| | |l|o args|o|p m|e|n bd cs|u]; try discriminate.
  - (* class *)
    cbn [vars_unknown] in *. rewrite (subb_atomic (TCls c) b eq_refl Tb).
    destruct b as [c'| | |l'|o' args'|o'|p' m'|e'|n' bd' cs'|u']; try discriminate.
    + simpl. bcase.
    + simpl. apply existsb_ext_in. intros y Hy. apply IH; [sz|side|side].
    + reflexivity.
    + reflexivity.
    + simpl. apply IH; [sz|side|side].
    + simpl. rewrite IH by (first [sz|side]). destruct c; reflexivity.
    + cbn [handle_union]. rewrite typevar_compatible_target. eapply TV; eauto.
  - (* Any *)
    cbn [vars_unknown] in *. rewrite (subb_atomic TAny b eq_refl Tb).
    destruct b as [c'| | |l'|o' args'|o'|p' m'|e'|n' bd' cs'|u']; try discriminate.
    + reflexivity.
    + simpl. apply existsb_ext_in. intros y Hy. apply IH; [sz|side|side].
    + reflexivity.
    + reflexivity.
    + simpl. apply IH; [sz|side|side].
    + simpl. rewrite IH by (first [sz|side]). reflexivity.
    + cbn [handle_union]. rewrite typevar_compatible_target. eapply TV; eauto.
  - (* union source *)
    cbn [vars_unknown]. rewrite subb_src_union, forallb_map. simpl. apply forallb_ext_in. intros x Hx.
    apply IH; [sz|side|side].
  - (* parametrised generic *)
    cbn [vars_unknown] in *. rewrite (subb_atomic (TGen o (map vars_unknown args)) b eq_refl Tb).
    destruct (wf_inv_gen _ _ Wa) as [Ne Wargs].
    destruct b as [c'| | |l'|o' args'|o'|p' m'|e'|n' bd' cs'|u']; try discriminate.
    + reflexivity.
    + simpl. apply existsb_ext_in. intros y Hy. apply (IH (TGen o args) y); [sz|side|side].
    + destruct (wf_inv_gen _ _ Wb) as [Ne' Wargs'].
      cbn [handle_union typevar_compatible handle_generic annot_parts origins_compatible args_of target_sub head_sub].
      unfold compare_args. rewrite forallb2_map_l, map_length.
      rewrite (forallb2_ext_in compat (fun x y => subb (vars_unknown x) y) args args')
        by (intros x y Hx Hy; apply IH; [sz|side|side]).
      destruct args; [congruence|]. destruct args'; [congruence|]. cbn [is_nil orb].
      destruct (origin_le o o'); [|reflexivity]. cbn [andb].
      destruct (length (t :: args) =? length (t0 :: args')); reflexivity.
    + simpl. unfold compare_args. simpl. rewrite ?orb_true_r. bcase.
    + simpl. apply (IH (TGen o args) p'); [sz|side|side].
    + cbn [handle_union typevar_compatible handle_generic annot_parts target_sub head_sub].
      apply (IH (TGen o args) nd_obj); [sz|side|side].
    + cbn [handle_union]. rewrite typevar_compatible_target. eapply TV; eauto.
  - (* bare generic *)
    cbn [vars_unknown] in *. rewrite (subb_atomic (TBare o) b eq_refl Tb).
    destruct b as [c'| | |l'|o' args'|o'|p' m'|e'|n' bd' cs'|u']; try discriminate.
    + reflexivity.
    + simpl. apply existsb_ext_in. intros y Hy. apply IH; [sz|side|side].
    + simpl. unfold compare_args. simpl. rewrite ?orb_true_r. bcase.
    + simpl. unfold compare_args. simpl. rewrite ?orb_true_r. bcase.
    + simpl. apply IH; [sz|side|side].
    + simpl. rewrite IH by (first [sz|side]). destruct o; reflexivity.
    + cbn [handle_union]. rewrite typevar_compatible_target. eapply TV; eauto.
  - (* Annotated source *)
    cbn [vars_unknown]. rewrite subb_src_annot.
    destruct (wf_inv_annot _ _ Wa) as [Lp Wp].
    destruct (is_union p) eqn:Hnu.
    { destruct p as [c| | |lp|o args|o|p0 m0|e0|n0 bd0 cs0|u]; try discriminate.
      cbn [vars_unknown]. rewrite subb_src_union, forallb_map. simpl. apply forallb_ext_in. intros x Hx.
      apply IH; [sz|side|side]. }
    set (q := vars_unknown p).
    assert (Hp : (forall y, is_top y = false -> subb q y = target_sub subb q y)
                 /\ (forall e', target_sub subb q (TArray e') = subb q nd_obj)
                 \/ (forall y, subb q y = true)).
    { subst q. destruct p as [c| | |lp|o args|o|p0 m0|e0|n0 bd0 cs0|u]; try discriminate; cbn [vars_unknown].
      - left; split; [intros y Hy; apply subb_atomic; [reflexivity|exact Hy]|]. intros e'. destruct c; reflexivity.
      - left; split; [intros y Hy; apply subb_atomic; [reflexivity|exact Hy]|]. reflexivity.
      - right. apply subb_noann_l.
      - left; split; [intros y Hy; apply subb_atomic; [reflexivity|exact Hy]|]. reflexivity.
      - left; split; [intros y Hy; apply subb_atomic; [reflexivity|exact Hy]|]. intros e'. destruct o; reflexivity.
      - right. apply subb_noann_l.
      - right. apply subb_unres_l. }
    assert (HU : handle_union compat (TAnnot p m) b =
                 match b with TUnion l => Some (existsb (fun t => compat (TAnnot p m) t) l) | _ => None end).
    { destruct p; try discriminate; reflexivity. }
    rewrite HU. clear HU.
    assert (IHa : forall y, size y < size b -> wf y = true -> compat (TAnnot p m) y = subb q y).
    { intros y Hy Wy. rewrite IH by (first [simpl in *; lia|side]). cbn [vars_unknown]. apply subb_src_annot. }
    assert (IHp : forall y, size y <= size b -> wf y = true -> compat p y = subb q y).
    { intros y Hy Wy. apply IH; [simpl in *; lia|side|side]. }
    destruct b as [c'| | |l'|o' args'|o'|p' m'|e'|n' bd' cs'|u']; try discriminate.
    + cbn [typevar_compatible handle_generic annot_parts]. apply IHp; [lia|side].
    + rewrite (existsb_ext_in _ (fun t => subb q t)) by (intros y Hy; apply IHa; [sz|side]).
      destruct Hp as [[Hp2 _]|Hp].
      * rewrite Hp2 by reflexivity. reflexivity.
      * rewrite Hp. rewrite (existsb_ext_in _ (fun _ => true)) by (intros y Hy; apply Hp).
        apply existsb_const_true. apply (proj1 (wf_inv_union _ Wb)).
    + cbn [typevar_compatible handle_generic annot_parts]. apply IHp; [lia|side].
    + cbn [typevar_compatible handle_generic annot_parts]. apply IHp; [lia|side].
    + cbn [typevar_compatible handle_generic annot_parts compare_annotated].
      rewrite IHp by (first [simpl; lia|side]).
      destruct Hp as [[Hp2 _]|Hp].
      * rewrite (Hp2 (TAnnot p' m')) by reflexivity. cbn [target_sub]. destruct (subb q p'); reflexivity.
      * rewrite !Hp. reflexivity.
    + cbn [typevar_compatible handle_generic annot_parts compare_annotated].
      rewrite IHp by (first [simpl; lia|side]).
      destruct Hp as [[Hp2 Hp3]|Hp].
      * rewrite (Hp2 (TArray e')) by reflexivity. rewrite Hp3. destruct (subb q nd_obj); reflexivity.
      * rewrite !Hp. reflexivity.
    + rewrite typevar_compatible_target.
      rewrite (target_var_ext compat (fun _ y => subb q y) _ n' bd' cs').
      2: { intros y Hy. apply IHa.
           - apply (size_var_part n' bd' cs' y Hy).
           - eapply wf_var_part; eauto. }
      destruct Hp as [[Hp2 _]|Hp].
      * rewrite (Hp2 (TVar n' bd' cs')) by reflexivity. reflexivity.
      * rewrite Hp. unfold target_sub. destruct bd' as [x|]; [rewrite Hp; reflexivity|].
        destruct cs' as [|c0 cs']; [reflexivity|]. simpl. rewrite Hp. reflexivity.
  - (* Array source *)
    cbn [vars_unknown] in *. rewrite (subb_atomic (TArray (vars_unknown e)) b eq_refl Tb).
    destruct b as [c'| | |l'|o' args'|o'|p' m'|e'|n' bd' cs'|u']; try discriminate.
    + simpl. rewrite IH by (first [sz|side]). destruct c'; reflexivity.
    + simpl. apply existsb_ext_in. intros y Hy. apply (IH (TArray e) y); [sz|side|side].
    + cbn [handle_union typevar_compatible handle_generic annot_parts target_sub head_sub].
      apply (IH nd_obj); [sz|side|side].
    + simpl. rewrite IH by (first [sz|side]). destruct o'; reflexivity.
    + cbn [handle_union typevar_compatible handle_generic annot_parts compare_annotated target_sub].
      apply (IH (TArray e) p'); [sz|side|side].
    + cbn [handle_union typevar_compatible handle_generic annot_parts compare_annotated target_sub head_sub].
      rewrite compat_reflexive. cbn [negb]. apply IH; [sz|side|side].
    + cbn [handle_union]. rewrite typevar_compatible_target. eapply TV; eauto.
Qed.

Theorem compat_eq_subb : forall a b, wf a = true -> wf b = true -> notv a = true -> compat a b = subb a b.
Proof. intros a b Wa Wb Va. rewrite (compat_characterised a b Wa Wb), (notv_vars_unknown a Va). reflexivity. Qed.

Theorem compat_iff_sub_unknown : forall a b,
  wf a = true -> wf b = true -> (compat a b = true <-> sub (vars_unknown a) b).
Proof. intros a b Wa Wb. rewrite (compat_characterised a b Wa Wb). apply subb_iff_sub. Qed.

Theorem compat_iff_sub_partial : forall a b,
  wf a = true -> wf b = true -> notv a = true -> (compat a b = true <-> sub a b).
Proof. intros a b Wa Wb Va. rewrite (compat_eq_subb a b Wa Wb Va). apply subb_iff_sub. Qed.

(* the unguarded statement is false: a TypeVar source is accepted whatever its bound *)
Definition tv_str : ty := TVar (s "T") (Some (TCls CStr)) [].
Theorem compat_iff_sub_refuted : exists a b, wf a = true /\ wf b = true /\ compat a b = true /\ ~ sub a b.
Proof.
  exists tv_str, (TCls CInt). repeat split; try reflexivity.
  intros H. apply subb_iff_sub in H. vm_compute in H. discriminate.
Qed.

(* union source = all members *)
Theorem compat_union_src : forall l b,
  wf (TUnion l) = true -> wf b = true -> compat (TUnion l) b = forallb (fun x => compat x b) l.
Proof.
  intros l b Wa Wb. rewrite (compat_characterised _ _ Wa Wb). cbn [vars_unknown].
  rewrite subb_src_union, forallb_map.
  apply forallb_ext_in. intros x Hx. symmetry. apply compat_characterised; side.
Qed.

(* union target = some member, for a source that is not itself split *)
Definition splits (a : ty) : bool :=
  match a with TUnion _ | TAnnot (TUnion _) _ => true | _ => false end.

Lemma subb_union_tgt_unsplit : forall q l, l <> [] ->
  (atomic q = true \/ q = TNoAnn \/ exists u, q = TUnres u) ->
  subb q (TUnion l) = existsb (fun t => subb q t) l.
Proof.
  intros q l Ne [Hp|[->|[u ->]]].
  - rewrite subb_atomic by (auto; reflexivity). reflexivity.
  - rewrite subb_noann_l. rewrite (existsb_ext_in _ (fun _ => true)) by (intros; apply subb_noann_l).
    symmetry. apply existsb_const_true. exact Ne.
  - rewrite subb_unres_l. rewrite (existsb_ext_in _ (fun _ => true)) by (intros; apply subb_unres_l).
    symmetry. apply existsb_const_true. exact Ne.
Qed.

Theorem compat_union_tgt : forall a l,
  wf a = true -> wf (TUnion l) = true -> splits a = false ->
  compat a (TUnion l) = existsb (fun t => compat a t) l.
Proof.
  intros a l Wa Wb Sa.
  rewrite (existsb_ext_in _ (fun t => subb (vars_unknown a) t)) by (intros t Ht; apply compat_characterised; side).
  rewrite (compat_characterised _ _ Wa Wb).
  assert (Ne : l <> []) by apply (proj1 (wf_inv_union _ Wb)).
  destruct a as [c| | |la|o args|o|p m|e|n bd cs|u]; try discriminate; cbn [vars_unknown];
    try (apply subb_union_tgt_unsplit; eauto; left; reflexivity).
  rewrite subb_src_annot. rewrite (existsb_ext_in _ (fun t => subb (vars_unknown p) t)) by (intros; apply subb_src_annot).
  destruct (wf_inv_annot _ _ Wa) as [Lp Wp].
  destruct p as [c| | |lp|o args|o|p0 m0|e0|n0 bd0 cs0|u]; try discriminate; cbn [vars_unknown];
    apply subb_union_tgt_unsplit; eauto; left; reflexivity.
Qed.

Theorem compat_union_tgt_intro : forall a t l,
  wf a = true -> wf (TUnion l) = true -> In t l -> compat a t = true -> compat a (TUnion l) = true.
Proof.
  intros a t l Wa Wb Ht H. rewrite (compat_characterised _ _ Wa Wb).
  apply (subb_union_r _ t l Ht). rewrite <- (compat_characterised a t Wa) by side. exact H.
Qed.

(* ---------- completeness without TypeVar guard ---------- *)

Lemma existsb_mono {A} (f g : A -> bool) l :
  (forall x, In x l -> f x = true -> g x = true) -> existsb f l = true -> existsb g l = true.
Proof.
  intros H E. apply existsb_exists in E. destruct E as [x [Hx Hf]]. apply existsb_exists. exists x. auto.
Qed.

Lemma forallb2_mono {A B} (f g : A -> B -> bool) l1 l2 :
  (forall x y, In x l1 -> In y l2 -> f x y = true -> g x y = true) -> forallb2 f l1 l2 = true -> forallb2 g l1 l2 = true.
Proof.
  revert l2; induction l1 as [|x l1 IH]; intros [|y l2] H E; simpl in *; try reflexivity.
  apply andb_prop in E. destruct E as [E1 E2]. rewrite (H x y) by auto. apply IH; auto.
Qed.

(* reading the TypeVars of the source as unknown only makes it more compatible *)
Lemma subb_vars_unknown_mono : forall a b, subb a b = true -> subb (vars_unknown a) b = true.
Proof.
  intros a b; pattern a, b; apply pair_size_ind; clear a b; intros a b IH H.
  destruct (is_top b) eqn:Tb. { apply subb_top. exact Tb. }
  assert (TS : forall q, atomic q = true -> atomic a = true ->
               (forall y, size y < size b -> subb a y = true -> subb q y = true) ->
               (head_sub subb a b = true -> head_sub subb q b = true) ->
               target_sub subb a b = true -> target_sub subb q b = true).
  { intros q Hq Ha Hy Hh. unfold target_sub.
    destruct b as [c'| | |l'|o' args'|o'|p' m'|e'|n' bd' cs'|u']; try discriminate; try exact Hh.
    - apply existsb_mono. intros y Hin. apply Hy. sz.
    - apply Hy. sz.
    - destruct bd' as [x|].
      + intros E. apply orb_prop in E. destruct E as [E|E].
        * rewrite (Hy x) by (simpl; lia || exact E). reflexivity.
        * rewrite (existsb_mono _ (fun y => subb q y) cs' (fun y Hin => Hy y ltac:(sz)) E). apply orb_true_r.
      + destruct cs' as [|c0 cs']; [reflexivity|]. intros E. rewrite orb_false_l in *.
        apply (existsb_mono _ (fun y => subb q y) (c0 :: cs') (fun y Hin => Hy y ltac:(sz)) E). }
  destruct a as [c| | |l|o args|o|p m|e|n bd cs|u]; cbn [vars_unknown]; try exact H; try apply subb_noann_l.
  - rewrite subb_src_union in *. rewrite forallb_map. rewrite forallb_forall in *. intros x Hx.
    apply IH; [sz|auto].
  - rewrite (subb_atomic (TGen o args) b eq_refl Tb) in H. rewrite (subb_atomic (TGen o (map vars_unknown args)) b eq_refl Tb).
    revert H. apply TS; try reflexivity.
    + intros y Hy E.
      assert (K := IH (TGen o args) y ltac:(simpl in *; lia) E). exact K.
    + unfold head_sub. destruct b as [c'| | |l'|o' args'|o'|p' m'|e'|n' bd' cs'|u']; auto.
      * rewrite map_length, forallb2_map_l. intros E. apply andb_prop in E. destruct E as [E E3].
        rewrite E. simpl. revert E3. apply forallb2_mono. intros x y Hx Hy. apply IH. sz.
      * intros E. exact (IH (TGen o args) nd_obj ltac:(simpl in *; lia) E).
  - rewrite subb_src_annot in *. apply IH; [sz|auto].
  - rewrite (subb_atomic (TArray e) b eq_refl Tb) in H. rewrite (subb_atomic (TArray (vars_unknown e)) b eq_refl Tb).
    revert H. apply TS; try reflexivity.
    + intros y Hy E. exact (IH (TArray e) y ltac:(simpl in *; lia) E).
    + unfold head_sub. destruct b as [c'| | |l'|o' args'|o'|p' m'|e'|n' bd' cs'|u']; auto.
      apply IH. sz.
Qed.

Lemma sub_vars_unknown_mono : forall a b, sub a b -> sub (vars_unknown a) b.
Proof. intros a b H. apply subb_iff_sub. apply subb_vars_unknown_mono. apply subb_iff_sub. exact H. Qed.

(* completeness without TypeVar guard: whatever the reference accepts, the code accepts *)
Theorem compat_complete : forall a b, wf a = true -> wf b = true -> sub a b -> compat a b = true.
Proof.
  intros a b Wa Wb H. rewrite (compat_characterised a b Wa Wb). apply subb_vars_unknown_mono. apply subb_iff_sub. exact H.
Qed.
