(* C16 - proofs about Model/Ty.v (compat) and Model/TySpec.v (subb) and the declarative relation sub. *)
From Verif Require Import Base.Prelude Model.Ty Model.TyPipe Model.TySpec.

(* ---------- sizes and lists ---------- *)
Lemma size_pos : forall t, 1 <= size t.
Proof. destruct t; simpl; lia. Qed.

Lemma In_size_le : forall x l, In x l -> size x <= list_sum (map size l).
Proof.
  intros x l; induction l as [|y l IH]; simpl; intros H; [contradiction|].
  destruct H as [->|H]; [lia|]. specialize (IH H). lia.
Qed.

Lemma forallb_ext_in {A} (f g : A -> bool) l :
  (forall x, In x l -> f x = g x) -> forallb f l = forallb g l.
Proof.
  induction l as [|y l IH]; simpl; intros H; [reflexivity|].
  rewrite (H y) by auto. rewrite IH; auto.
Qed.

Lemma existsb_ext_in {A} (f g : A -> bool) l :
  (forall x, In x l -> f x = g x) -> existsb f l = existsb g l.
Proof.
  induction l as [|y l IH]; simpl; intros H; [reflexivity|].
  rewrite (H y) by auto. rewrite IH; auto.
Qed.

Lemma forallb2_ext_in {A B} (f g : A -> B -> bool) l1 l2 :
  (forall x y, In x l1 -> In y l2 -> f x y = g x y) -> forallb2 f l1 l2 = forallb2 g l1 l2.
Proof.
  revert l2; induction l1 as [|x l1 IH]; intros [|y l2] H; simpl; try reflexivity.
  rewrite (H x y) by (simpl; auto). rewrite IH; auto.
  intros; apply H; simpl; auto.
Qed.

(* ---------- bounded iteration: fuel irrelevance and unfolding ---------- *)
Definition local (st : (ty -> ty -> bool) -> ty -> ty -> bool) : Prop :=
  forall r1 r2 a b,
    (forall x y, size x + size y < size a + size b -> r1 x y = r2 x y) -> st r1 a b = st r2 a b.

Lemma iterF_stable st : local st ->
  forall n m a b, size a + size b < n -> size a + size b < m -> iterF st n a b = iterF st m a b.
Proof.
  intros L n; induction n as [|n IH]; intros m a b Hn Hm; [lia|].
  destruct m as [|m]; [lia|]. simpl. apply L. intros x y Hxy. apply IH; lia.
Qed.

Lemma iterF_unfold st : local st ->
  forall a b, iterF st (S (size a + size b)) a b = st (fun x y => iterF st (S (size x + size y)) x y) a b.
Proof.
  intros L a b.
  change (iterF st (S (size a + size b)) a b) with (st (iterF st (size a + size b)) a b).
  apply L. intros x y Hxy. apply iterF_stable; auto; lia.
Qed.

Ltac sz :=
  repeat match goal with
  | H : In _ _ |- _ => apply In_size_le in H
  end; simpl in *; lia.

Lemma step_local : local step.
Proof.
  intros r1 r2 a b H. unfold step.
  destruct (is_var a); [reflexivity|].
  destruct (check_identical_or_any a b); [reflexivity|].
  assert (Hu : handle_union r1 a b = handle_union r2 a b).
  { unfold handle_union.
    destruct a as [c| | |l|o args|o|t m|e|n bd cs|x]; try (destruct b; try reflexivity; f_equal; apply existsb_ext_in; intros; apply H; sz).
    - f_equal. apply forallb_ext_in; intros; apply H; sz.
    - destruct t; try (destruct b; try reflexivity; f_equal; apply existsb_ext_in; intros; apply H; sz).
      f_equal. apply forallb_ext_in; intros; apply H; sz. }
  rewrite Hu. destruct (handle_union r2 a b); [reflexivity|].
  assert (Ht : typevar_compatible r1 a b = typevar_compatible r2 a b).
  { unfold typevar_compatible. destruct b; try reflexivity.
    rewrite (existsb_ext_in (fun c => r1 a c) (fun c => r2 a c)) by (intros; apply H; sz).
    destruct bound; [rewrite (H a t) by sz|]; reflexivity. }
  rewrite Ht. destruct (typevar_compatible r2 a b); [reflexivity|].
  assert (Hg : handle_generic r1 a b = handle_generic r2 a b).
  { unfold handle_generic, compare_annotated, compare_args.
    destruct a as [c| | |l|o args|o|t m|e|n bd cs|x]; destruct b as [c'| | |l'|o' args'|o'|t' m'|e'|n' bd' cs'|x']; simpl;
      try reflexivity;
      try (f_equal; apply H; sz);
      try (rewrite (forallb2_ext_in r1 r2) by (intros; apply H; sz); reflexivity).
    all: try (rewrite (H nd_obj nd_obj) by sz; rewrite (H e e') by sz; reflexivity).
    all: try (rewrite (H t t') by sz; reflexivity).
    all: try (rewrite (H t nd_obj) by sz; reflexivity). }
  rewrite Hg. reflexivity.
Qed.

Lemma head_sub_local r1 r2 a b :
  (forall x y, size x + size y < size a + size b -> r1 x y = r2 x y) -> head_sub r1 a b = head_sub r2 a b.
Proof.
  intros H. unfold head_sub.
  destruct a as [c| | |l|o args|o|t m|e|n bd cs|x]; destruct b as [c'| | |l'|o' args'|o'|t' m'|e'|n' bd' cs'|x'];
    try reflexivity; try (apply H; sz).
  rewrite (forallb2_ext_in r1 r2) by (intros; apply H; sz); reflexivity.
Qed.

Lemma target_sub_local r1 r2 a b :
  (forall x y, size x + size y < size a + size b -> r1 x y = r2 x y) -> target_sub r1 a b = target_sub r2 a b.
Proof.
  intros H. unfold target_sub.
  destruct b as [c'| | |l'|o' args'|o'|t' m'|e'|n' bd' cs'|x']; try (apply head_sub_local; exact H).
  - apply existsb_ext_in; intros; apply H; sz.
  - apply H; sz.
  - rewrite (existsb_ext_in (fun y => r1 a y) (fun y => r2 a y) cs') by (intros; apply H; sz).
    destruct bd' as [bd'|]; [rewrite (H a bd') by sz|]; reflexivity.
Qed.

Lemma sstep_local : local sstep.
Proof.
  intros r1 r2 a b H. unfold sstep.
  assert (HT := target_sub_local r1 r2 a b H).
  destruct b as [c'| | |l'|o' args'|o'|t' m'|e'|n' bd' cs'|x']; try reflexivity.
  all: destruct a as [c| | |l|o args|o|t m|e|n bd cs|x]; try reflexivity; try exact HT;
    try (apply forallb_ext_in; intros; apply H; sz);
    try (apply H; sz).
  all: destruct bd as [bd|]; [apply H; sz|]; destruct cs as [|c0 cs]; [exact HT|];
    apply (forallb_ext_in (fun x => r1 x _) (fun x => r2 x _) (c0 :: cs)); intros; apply H; sz.
Qed.

Lemma compat_unfold : forall a b, compat a b = step compat a b.
Proof. intros. unfold compat, compatF. apply (iterF_unfold step step_local). Qed.

Lemma subb_unfold : forall a b, subb a b = sstep subb a b.
Proof. intros. unfold subb. apply (iterF_unfold sstep sstep_local). Qed.

(* ---------- induction on sizes ---------- *)
Lemma ty_size_ind (P : ty -> Prop) :
  (forall a, (forall x, size x < size a -> P x) -> P a) -> forall a, P a.
Proof.
  intros H a. remember (size a) as n eqn:E. revert a E.
  induction n as [n IH] using lt_wf_ind. intros a ->. apply H. intros x Hx. exact (IH (size x) Hx x eq_refl).
Qed.

Lemma pair_size_ind (P : ty -> ty -> Prop) :
  (forall a b, (forall x y, size x + size y < size a + size b -> P x y) -> P a b) -> forall a b, P a b.
Proof.
  intros H a b. remember (size a + size b) as n eqn:E. revert a b E.
  induction n as [n IH] using lt_wf_ind. intros a b ->. apply H. intros x y Hxy. exact (IH _ Hxy x y eq_refl).
Qed.

(* ---------- equality ---------- *)
Lemma str_eqb_refl : forall x, str_eqb x x = true.
Proof. induction x as [|c x IH]; simpl; [reflexivity|]. rewrite Ascii.eqb_refl, IH. reflexivity. Qed.
Lemma cls_eqb_refl : forall c, cls_eqb c c = true. Proof. destruct c; reflexivity. Qed.
Lemma origin_eqb_refl : forall c, origin_eqb c c = true. Proof. destruct c; reflexivity. Qed.
Lemma cls_le_refl : forall c, cls_le c c = true. Proof. destruct c; reflexivity. Qed.
Lemma origin_le_refl : forall c, origin_le c c = true. Proof. destruct c; reflexivity. Qed.
Lemma meta_eqb_refl : forall m, meta_eqb m m = true.
Proof. destruct m; simpl; [apply str_eqb_refl|apply Z.eqb_refl]. Qed.
Lemma metas_eqb_refl : forall m, list_eqb meta_eqb m m = true.
Proof. induction m as [|x m IH]; simpl; [reflexivity|]. rewrite meta_eqb_refl, IH. reflexivity. Qed.

Lemma ty_seqb_refl : forall a, ty_seqb a a = true.
Proof.
  induction a as [a IH] using ty_size_ind.
  assert (G : forall l, (forall x, In x l -> size x < size a) ->
     (fix go (l1 l2 : list ty) {struct l1} : bool :=
        match l1 with
        | [] => match l2 with [] => true | _ :: _ => false end
        | x :: r1 => match l2 with [] => false | y :: r2 => ty_seqb x y && go r1 r2 end
        end) l l = true).
  { induction l as [|x l IHl]; intros Hl; [reflexivity|].
    rewrite (IH x) by (apply Hl; simpl; auto). rewrite IHl; [reflexivity|]. intros; apply Hl; simpl; auto. }
  destruct a as [c| | |l|o args|o|t m|e|n bd cs|x]; simpl; try reflexivity.
  - apply cls_eqb_refl.
  - apply G. intros x Hx. sz.
  - rewrite origin_eqb_refl. apply G. intros x Hx. sz.
  - apply origin_eqb_refl.
  - rewrite IH by sz. apply metas_eqb_refl.
  - apply IH; sz.
  - rewrite str_eqb_refl. rewrite G by (intros x Hx; sz).
    destruct bd as [bd|]; [rewrite IH by sz|]; reflexivity.
  - apply str_eqb_refl.
Qed.

Lemma ty_eqb_refl : forall a, ty_eqb a a = true.
Proof.
  induction a as [a IH] using ty_size_ind.
  assert (G : forall l, (forall x, In x l -> size x < size a) ->
     (fix go (l1 l2 : list ty) {struct l1} : bool :=
        match l1 with
        | [] => match l2 with [] => true | _ :: _ => false end
        | x :: r1 => match l2 with [] => false | y :: r2 => ty_eqb x y && go r1 r2 end
        end) l l = true).
  { induction l as [|x l IHl]; intros Hl; [reflexivity|].
    rewrite (IH x) by (apply Hl; simpl; auto). rewrite IHl; [reflexivity|]. intros; apply Hl; simpl; auto. }
  destruct a as [c| | |l|o args|o|t m|e|n bd cs|x]; try reflexivity.
  - apply cls_eqb_refl.
  - simpl. assert (E : forallb (fun x => existsb (fun y => ty_eqb x y) l) l = true).
    { apply forallb_forall. intros x Hx. apply existsb_exists. exists x. split; [exact Hx|]. apply IH. sz. }
    assert (E2 : forallb (fun y => existsb (fun x => ty_eqb x y) l) l = true).
    { apply forallb_forall. intros x Hx. apply existsb_exists. exists x. split; [exact Hx|]. apply IH. sz. }
    rewrite E, E2. reflexivity.
  - simpl. rewrite origin_eqb_refl. apply G. intros x Hx. sz.
  - simpl. apply origin_eqb_refl.
  - simpl. rewrite IH by sz. apply metas_eqb_refl.
  - simpl. apply IH; sz.
  - apply ty_seqb_refl.
  - simpl. apply str_eqb_refl.
Qed.

(* ---------- first laws of compat (no hypothesis) ---------- *)
Lemma compat_reflexive : forall a, compat a a = true.
Proof.
  intros a. rewrite compat_unfold. unfold step, check_identical_or_any.
  destruct (is_var a); [reflexivity|].
  destruct (is_unres a || is_unres a); [reflexivity|]. rewrite ty_eqb_refl. reflexivity.
Qed.

Lemma compat_any : forall a, compat a TAny = true.
Proof.
  intros a. rewrite compat_unfold. unfold step, check_identical_or_any.
  destruct (is_var a); [reflexivity|].
  destruct (is_unres a || is_unres TAny); [reflexivity|]. simpl. rewrite orb_true_r. reflexivity.
Qed.

Lemma compat_noannotation : forall a, compat a TNoAnn = true /\ compat TNoAnn a = true.
Proof.
  intros a. split; rewrite compat_unfold; unfold step, check_identical_or_any.
  - destruct (is_var a); [reflexivity|].
    destruct (is_unres a || is_unres TNoAnn); [reflexivity|]. simpl. rewrite !orb_true_r. reflexivity.
  - simpl. destruct (is_unres a); [reflexivity|]. simpl. rewrite !orb_true_r. reflexivity.
Qed.

Lemma compat_unresolvable : forall a x, compat a (TUnres x) = true /\ compat (TUnres x) a = true.
Proof.
  intros a x. split; rewrite compat_unfold; unfold step, check_identical_or_any.
  - destruct (is_var a); [reflexivity|]. simpl. rewrite orb_true_r. reflexivity.
  - reflexivity.
Qed.

Lemma compat_typevar_source : forall n bd cs b, compat (TVar n bd cs) b = true.
Proof. intros. rewrite compat_unfold. reflexivity. Qed.

(* ---------- the reference decision procedure subb ---------- *)
Lemma subb_top : forall a b, is_top b = true -> subb a b = true.
Proof. intros a b H. rewrite subb_unfold. destruct b; try discriminate; reflexivity. Qed.

Lemma subb_noann_l : forall b, subb TNoAnn b = true.
Proof. intros b. rewrite subb_unfold. destruct b; reflexivity. Qed.
Lemma subb_unres_l : forall x b, subb (TUnres x) b = true.
Proof. intros x b. rewrite subb_unfold. destruct b; reflexivity. Qed.

Lemma forallb_true {A} (l : list A) : forallb (fun _ => true) l = true.
Proof. induction l; simpl; auto. Qed.

Lemma subb_src_union : forall l b, subb (TUnion l) b = forallb (fun x => subb x b) l.
Proof.
  intros l b. rewrite subb_unfold.
  destruct b; try reflexivity; simpl; symmetry;
    rewrite (forallb_ext_in _ (fun _ => true)) by (intros; apply subb_top; reflexivity); apply forallb_true.
Qed.

Lemma subb_src_annot : forall t m b, subb (TAnnot t m) b = subb t b.
Proof.
  intros t m b. rewrite subb_unfold.
  destruct b; try reflexivity; simpl; symmetry; apply subb_top; reflexivity.
Qed.

Lemma subb_src_var_bound : forall n bd cs b, subb (TVar n (Some bd) cs) b = subb bd b.
Proof.
  intros n bd cs b. rewrite subb_unfold.
  destruct b; try reflexivity; simpl; symmetry; apply subb_top; reflexivity.
Qed.

Lemma subb_src_var_constr : forall n c cs b, subb (TVar n None (c :: cs)) b = forallb (fun x => subb x b) (c :: cs).
Proof.
  intros n c cs b. rewrite subb_unfold.
  destruct b; try reflexivity; cbn [sstep]; symmetry;
    rewrite (forallb_ext_in _ (fun _ => true)) by (intros; apply subb_top; reflexivity); apply forallb_true.
Qed.

Lemma subb_atomic : forall a b, atomic a = true -> is_top b = false -> subb a b = target_sub subb a b.
Proof.
  intros a b Ha Hb. rewrite subb_unfold. unfold sstep.
  destruct b; try discriminate; destruct a as [c0| | |l0|o0 args0|o0|t0 m0|e0|n0 bd cs|x0]; try discriminate; try reflexivity;
    destruct bd; try discriminate; destruct cs; try discriminate; reflexivity.
Qed.

(* introduction on the target side: whatever accepts through `t` for atomic sources accepts for all sources *)
Lemma subb_target_intro : forall t b',
  is_top b' = false ->
  (forall a, atomic a = true -> subb a t = true -> target_sub subb a b' = true) ->
  forall x, subb x t = true -> subb x b' = true.
Proof.
  intros t b' Hb' Hat. induction x as [x IH] using ty_size_ind. intros Hx.
  destruct x as [c| | |l|o args|o|p m|e|n bd cs|u].
  all: try (rewrite subb_atomic by (reflexivity || exact Hb'); apply Hat; [reflexivity|exact Hx]).
  - apply subb_noann_l.
  - rewrite subb_src_union in *. apply forallb_forall. intros y Hy.
    apply IH; [sz|]. rewrite forallb_forall in Hx. apply Hx; exact Hy.
  - rewrite subb_src_annot in *. apply IH; [sz|exact Hx].
  - destruct bd as [bd|].
    + rewrite subb_src_var_bound in *. apply IH; [sz|exact Hx].
    + destruct cs as [|c0 cs].
      * rewrite subb_atomic by (reflexivity || exact Hb'). apply Hat; [reflexivity|exact Hx].
      * rewrite subb_src_var_constr in *. apply forallb_forall. intros y Hy.
        apply IH; [sz|]. rewrite forallb_forall in Hx. apply Hx; exact Hy.
  - apply subb_unres_l.
Qed.

Lemma subb_union_r : forall x t l, In t l -> subb x t = true -> subb x (TUnion l) = true.
Proof.
  intros x t l Hin. apply subb_target_intro; [reflexivity|].
  intros a _ Ha. simpl. apply existsb_exists. exists t. auto.
Qed.

Lemma subb_annot_r : forall x t m, subb x t = true -> subb x (TAnnot t m) = true.
Proof. intros x t m. apply subb_target_intro; [reflexivity|]. intros a _ Ha. exact Ha. Qed.

Lemma subb_var_r_bound : forall x n bd cs, subb x bd = true -> subb x (TVar n (Some bd) cs) = true.
Proof.
  intros x n bd cs. apply subb_target_intro; [reflexivity|]. intros a _ Ha. simpl. rewrite Ha. reflexivity.
Qed.

Lemma subb_var_r_constr : forall x n bd cs c, In c cs -> subb x c = true -> subb x (TVar n bd cs) = true.
Proof.
  intros x n bd cs c Hin. apply subb_target_intro; [reflexivity|]. intros a _ Ha.
  assert (E : existsb (fun y => subb a y) cs = true) by (apply existsb_exists; exists c; auto).
  simpl. destruct bd; destruct cs; simpl in *; try contradiction; rewrite ?E, ?orb_true_r; reflexivity.
Qed.

Lemma subb_var_r_free : forall x n, subb x (TVar n None []) = true.
Proof.
  intros x n. apply (subb_target_intro TAny); [reflexivity| |apply subb_top; reflexivity].
  intros a _ _. reflexivity.
Qed.

Lemma forallb2_refl (f : ty -> ty -> bool) l : (forall x, In x l -> f x x = true) -> forallb2 f l l = true.
Proof. induction l as [|x l IH]; simpl; intros H; [reflexivity|]. rewrite H by auto. apply IH. auto. Qed.

Lemma subb_refl : forall a, subb a a = true.
Proof.
  induction a as [a IH] using ty_size_ind.
  destruct a as [c| | |l|o args|o|p m|e|n bd cs|u].
  - rewrite subb_atomic by reflexivity. simpl. apply cls_le_refl.
  - apply subb_top; reflexivity.
  - apply subb_top; reflexivity.
  - rewrite subb_src_union. apply forallb_forall. intros x Hx. apply (subb_union_r x x l Hx). apply IH. sz.
  - rewrite subb_atomic by reflexivity. simpl. rewrite origin_le_refl, Nat.eqb_refl. simpl.
    apply forallb2_refl. intros x Hx. apply IH. sz.
  - rewrite subb_atomic by reflexivity. simpl. apply origin_le_refl.
  - rewrite subb_src_annot. apply subb_annot_r. apply IH. sz.
  - rewrite subb_atomic by reflexivity. simpl. apply IH. sz.
  - destruct bd as [bd|].
    + rewrite subb_src_var_bound. apply subb_var_r_bound. apply IH. sz.
    + destruct cs as [|c0 cs]; [apply subb_var_r_free|].
      rewrite subb_src_var_constr. apply forallb_forall. intros x Hx.
      apply (subb_var_r_constr x n None (c0 :: cs) x Hx). apply IH. sz.
  - apply subb_top; reflexivity.
Qed.

(* ---------- subb decides the declarative relation sub ---------- *)
Lemma forallb2_Forall2 {A B} (f : A -> B -> bool) (R : A -> B -> Prop) l1 l2 :
  length l1 = length l2 -> forallb2 f l1 l2 = true ->
  (forall x y, In x l1 -> In y l2 -> f x y = true -> R x y) -> Forall2 R l1 l2.
Proof.
  revert l2; induction l1 as [|x l1 IH]; intros [|y l2] HL HF HR; simpl in *; try discriminate; constructor.
  - apply andb_prop in HF. apply HR; auto. tauto.
  - apply andb_prop in HF. apply IH; [lia|tauto|]. intros; apply HR; auto.
Qed.

Lemma Forall2_forallb2 {A B} (f : A -> B -> bool) (R : A -> B -> Prop) l1 l2 :
  Forall2 R l1 l2 -> (forall x y, In x l1 -> In y l2 -> R x y -> f x y = true) ->
  forallb2 f l1 l2 = true /\ length l1 = length l2.
Proof.
  induction 1 as [|x y l1 l2 Hxy HF IH]; intros HR; simpl; [auto|].
  rewrite (HR x y) by (simpl; auto). destruct IH as [-> ->]; [|auto]. intros; apply HR; simpl; auto.
Qed.

Lemma target_var_inv r a n bd cs :
  target_sub r a (TVar n bd cs) = true ->
  (bd = None /\ cs = []) \/ (exists x, bd = Some x /\ r a x = true) \/ (exists c, In c cs /\ r a c = true).
Proof.
  unfold target_sub. intros H.
  destruct bd as [x|].
  - apply orb_prop in H. destruct H as [H|H]; [right; left; eauto|].
    apply existsb_exists in H. destruct H as [c [Hc Hr]]. right; right; eauto.
  - destruct cs as [|c0 cs]; [left; auto|].
    rewrite orb_false_l in H. apply existsb_exists in H. destruct H as [c [Hc Hr]]. right; right; eauto.
Qed.

Lemma sub_of_target_var a n bd cs :
  target_sub subb a (TVar n bd cs) = true ->
  (forall y, subb a y = true -> size y < size (TVar n bd cs) -> sub a y) -> sub a (TVar n bd cs).
Proof.
  intros H IH. apply target_var_inv in H. destruct H as [[-> ->]|[[x [-> Hx]]|[c [Hc Hx]]]].
  - apply S_var_r_free.
  - apply S_var_r_bound. apply IH; [auto|sz].
  - apply (S_var_r_constr _ _ _ _ c Hc). apply IH; [auto|sz].
Qed.

Lemma subb_sound : forall a b, subb a b = true -> sub a b.
Proof.
  intros a b; pattern a, b; apply pair_size_ind; clear a b; intros a b IH H.
  destruct (is_top b) eqn:Hb.
  { destruct b; try discriminate; constructor. }
  destruct a as [c| | |l|o args|o|p m|e|n bd cs|u].
  3: constructor.
  9: constructor.
  3: { rewrite subb_src_union in H. rewrite forallb_forall in H. apply S_union_l. intros x Hx. apply IH; [sz|auto]. }
  5: { rewrite subb_src_annot in H. apply S_annot_l. apply IH; [sz|auto]. }
  6: { destruct bd as [bd|].
       - rewrite subb_src_var_bound in H. apply S_var_l_bound. apply IH; [sz|auto].
       - destruct cs as [|c0 cs].
         + rewrite subb_atomic in H by (reflexivity || exact Hb).
           destruct b as [c'| | |l'|o' args'|o'|t' m'|e'|n' bd' cs'|x']; try discriminate; cbn [target_sub head_sub] in H; try discriminate.
           * apply existsb_exists in H. destruct H as [t [Ht Hs]]. apply (S_union_r _ _ t Ht). apply IH; [sz|auto].
           * apply S_annot_r. apply IH; [sz|auto].
           * apply sub_of_target_var; [exact H|]. intros y Hy Hsz. apply IH; [simpl in *; lia|auto].
         + rewrite subb_src_var_constr in H. rewrite forallb_forall in H.
           apply S_var_l_constr. intros x Hx. apply IH; [sz|auto]. }
  all: rewrite subb_atomic in H by (reflexivity || exact Hb).
  all: destruct b as [c'| | |l'|o' args'|o'|t' m'|e'|n' bd' cs'|x']; try discriminate; cbn [target_sub head_sub] in H; try discriminate.
  all: try (apply existsb_exists in H; destruct H as [t [Ht Hs]]; apply (S_union_r _ _ t Ht); apply IH; [sz|auto]).
  all: try (apply S_annot_r; apply IH; [sz|auto]).
  all: try (apply sub_of_target_var; [exact H|]; intros y Hy Hsz; apply IH; [simpl in *; lia|auto]).
  - apply S_cls; auto.
  - apply andb_prop in H. destruct H as [H H3]. apply andb_prop in H. destruct H as [H1 H2].
    apply Nat.eqb_eq in H2. apply S_gen; [auto|].
    apply (forallb2_Forall2 subb); auto. intros x y Hx Hy Hxy. apply IH; [sz|auto].
  - apply S_gen_bare; auto.
  - apply S_gen_array. apply IH; [sz|auto].
  - apply S_bare_gen; auto.
  - apply S_bare_bare; auto.
  - apply S_bare_array; auto.
  - apply S_array_gen. apply IH; [sz|auto].
  - apply S_array_bare; auto.
  - apply S_array. apply IH; [sz|auto].
Qed.

Lemma subb_complete : forall a b, sub a b -> subb a b = true.
Proof.
  intros a b; pattern a, b; apply pair_size_ind; clear a b; intros a b IH H.
  inversion H; subst.
  - apply subb_refl.
  - apply subb_top; reflexivity.
  - apply subb_noann_l.
  - apply subb_top; reflexivity.
  - apply subb_unres_l.
  - apply subb_top; reflexivity.
  - rewrite subb_src_union. apply forallb_forall. intros x Hx. apply IH; [sz|auto].
  - apply (subb_union_r a t l); [auto|]. apply IH; [sz|auto].
  - rewrite subb_atomic by reflexivity. simpl. auto.
  - rewrite subb_atomic by reflexivity. cbn [target_sub head_sub].
    match goal with HF : Forall2 sub _ _ |- _ =>
      destruct (Forall2_forallb2 subb sub _ _ HF) as [E1 E2]; [intros x y Hx Hy Hxy; apply IH; [sz|auto]|] end.
    rewrite E1, E2, Nat.eqb_refl.
    match goal with HO : origin_le _ _ = true |- _ => rewrite HO end. reflexivity.
  - rewrite subb_atomic by reflexivity. simpl. auto.
  - rewrite subb_atomic by reflexivity. simpl. auto.
  - rewrite subb_atomic by reflexivity. simpl. auto.
  - rewrite subb_src_annot. apply IH; [sz|auto].
  - apply subb_annot_r. apply IH; [sz|auto].
  - rewrite subb_atomic by reflexivity. cbn [target_sub head_sub]. apply IH; [sz|auto].
  - rewrite subb_atomic by reflexivity. cbn [target_sub head_sub]. apply IH; [sz|auto].
  - rewrite subb_atomic by reflexivity. simpl. auto.
  - rewrite subb_atomic by reflexivity. cbn [target_sub head_sub]. apply IH; [sz|auto].
  - rewrite subb_atomic by reflexivity. simpl. auto.
  - apply subb_var_r_free.
  - apply subb_var_r_bound. apply IH; [sz|auto].
  - match goal with HI : In ?c ?cs |- _ => apply (subb_var_r_constr a n bd cs c HI) end. apply IH; [sz|auto].
  - rewrite subb_src_var_bound. apply IH; [sz|auto].
  - rewrite subb_src_var_constr. apply forallb_forall. intros x Hx. apply IH; [sz|auto].
Qed.

Theorem subb_iff_sub : forall a b, subb a b = true <-> sub a b.
Proof. intros; split; [apply subb_sound|apply subb_complete]. Qed.
