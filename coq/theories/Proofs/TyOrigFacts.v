(* C16 - the defects of the unrepaired code as witnesses on Model/TyOrig.v: for each one a pair of annotations
   (in normal form, no TypeVar in the source) on which the original dispatch disagrees with the reference.
   All six were replayed on the real code before the repair and are fixed by the "fix:" commits. *)
From Verif Require Import Base.Prelude Model.Ty Model.TyOrig Model.TySpec.

Definition tint := TCls CInt.   Definition tstr := TCls CStr.  Definition tbool := TCls CBool.
Definition disagrees (a b : ty) : bool :=
  wf a && wf b && notv a
  && match compat_orig a b with Ok r => negb (Bool.eqb r (subb a b)) | Err _ => true end.

(* R1  tuple[int, str] accepted where tuple[int] is required (arguments zipped) *)
Lemma orig_arity_refuted :
  compat_orig (TGen OTuple [tint; tstr]) (TGen OTuple [tint]) = Ok true
  /\ subb (TGen OTuple [tint; tstr]) (TGen OTuple [tint]) = false
  /\ compat_orig (TGen OTuple [tint]) (TGen OTuple [tint; tstr]) = Ok true.
Proof. vm_compute. repeat split. Qed.

(* R2  bool rejected where Annotated[int, 5] is required, int accepted for Annotated[bool, 5] *)
Lemma orig_annotated_direction_refuted :
  compat_orig tbool (TAnnot tint [MInt 5]) = Ok false /\ subb tbool (TAnnot tint [MInt 5]) = true
  /\ compat_orig tint (TAnnot tbool [MInt 5]) = Ok true /\ subb tint (TAnnot tbool [MInt 5]) = false.
Proof. vm_compute. repeat split. Qed.

(* R3  Annotated[int, "m"] raises *)
Lemma orig_string_metadata_refuted :
  compat_orig (TAnnot tint [MStr (s "m")]) tint = Err OtherError /\ subb (TAnnot tint [MStr (s "m")]) tint = true.
Proof. vm_compute. repeat split. Qed.

(* R4  Annotated[int | str, 5] rejected where int | str is required *)
Lemma orig_annotated_union_refuted :
  compat_orig (TAnnot (TUnion [tint; tstr]) [MInt 5]) (TUnion [tint; tstr]) = Ok false
  /\ subb (TAnnot (TUnion [tint; tstr]) [MInt 5]) (TUnion [tint; tstr]) = true.
Proof. vm_compute. repeat split. Qed.

(* R5  Array[int] accepted for Annotated[Array[str] | None, 5] *)
Lemma orig_array_element_dropped_refuted :
  compat_orig (TArray tint) (TAnnot (TUnion [TArray tstr; TCls CNone]) [MInt 5]) = Ok true
  /\ subb (TArray tint) (TAnnot (TUnion [TArray tstr; TCls CNone]) [MInt 5]) = false.
Proof. vm_compute. repeat split. Qed.

(* R6  Array[int] accepted by TypeVar("T", Array[str], str) *)
Lemma orig_constrained_typevar_refuted :
  compat_orig (TArray tint) (TVar (s "T") None [TArray tstr; tstr]) = Ok true
  /\ subb (TArray tint) (TVar (s "T") None [TArray tstr; tstr]) = false.
Proof. vm_compute. repeat split. Qed.

Theorem compat_orig_refuted :
  exists l : list (ty * ty), length l = 6 /\ forallb (fun p => disagrees (fst p) (snd p)) l = true.
Proof.
  exists [ (TGen OTuple [tint; tstr], TGen OTuple [tint]);
           (tbool, TAnnot tint [MInt 5]);
           (TAnnot tint [MStr (s "m")], tint);
           (TAnnot (TUnion [tint; tstr]) [MInt 5], TUnion [tint; tstr]);
           (TArray tint, TAnnot (TUnion [TArray tstr; TCls CNone]) [MInt 5]);
           (TArray tint, TVar (s "T") None [TArray tstr; tstr]) ].
  vm_compute. split; reflexivity.
Qed.
