(* C16 - proofs about the pipeline-level model (Model/TyPipe.v) against the pipeline statement (Model/TySpec.v). *)
From Verif Require Import Base.Prelude Model.Ty Model.TyPipe Model.TySpec Proofs.TyFacts Corr.Run_C16.

Lemma ascii_eqb_sym a b : Ascii.eqb a b = Ascii.eqb b a.
Proof. destruct (Ascii.eqb_spec a b) as [->|N]; [symmetry; apply Ascii.eqb_refl|]. destruct (Ascii.eqb_spec b a); congruence. Qed.

Lemma str_eqb_sym : forall a b, str_eqb a b = str_eqb b a.
Proof. induction a as [|x a IH]; intros [|y b]; simpl; try reflexivity. rewrite ascii_eqb_sym, IH. reflexivity. Qed.

Lemma find_spec_mem p l : mem_str p (names l) = match find_spec p l with Some _ => true | None => false end.
Proof.
  induction l as [|[n ax] l IH]; simpl; [reflexivity|].
  rewrite (str_eqb_sym p n). destruct (str_eqb n p); [reflexivity|exact IH].
Qed.

Lemma mem_str_flat_map {A} (f : A -> list str) i l :
  mem_str i (flat_map f l) = existsb (fun a => mem_str i (f a)) l.
Proof.
  induction l as [|a l IH]; simpl; [reflexivity|]. rewrite <- IH. clear IH.
  induction (f a) as [|y t IHt]; simpl; [reflexivity|]. rewrite IHt. rewrite orb_assoc. reflexivity.
Qed.

Lemma negb_forallb {A} (f : A -> bool) l : negb (forallb f l) = existsb (fun x => negb (f x)) l.
Proof. induction l as [|x l IH]; simpl; [reflexivity|]. rewrite negb_andb, IH. reflexivity. Qed.

Lemma forallb_flat_map {A B} (P : B -> bool) (F : A -> list B) l :
  forallb P (flat_map F l) = forallb (fun x => forallb P (F x)) l.
Proof. induction l as [|x l IH]; simpl; [reflexivity|]. rewrite forallb_app, IH. reflexivity. Qed.

(* the model's MapSpec predicates are the statement's *)
Lemma internal_shape_spec f p : mapspec_with_internal_shape f p = has_internal_axis f p.
Proof.
  unfold mapspec_with_internal_shape, has_internal_axis, declares.
  destruct (f_ms f) as [m|]; [|reflexivity]. destruct (find_spec p (ms_out m)) as [ax|]; [|reflexivity].
  rewrite negb_forallb. apply existsb_ext_in. intros i Hi. rewrite mem_str_flat_map. reflexivity.
Qed.

Lemma reduced_spec f g p : axis_is_reduced f g p = mapped_output f p && takes_whole g p.
Proof.
  unfold axis_is_reduced, mapped_output, takes_whole, declares.
  destruct (f_ms f) as [m|]; [|reflexivity]. rewrite find_spec_mem.
  destruct (find_spec p (ms_out m)); [|reflexivity]. simpl.
  destruct (f_ms g) as [m'|]; [|reflexivity]. rewrite find_spec_mem.
  destruct (find_spec p (ms_in m')); reflexivity.
Qed.

Definition edge_sub (e : ty * ty) : bool := subb (fst e) (snd e).

Definition spec_edges_of (f g : pfunc) (pa : str * option ty) : list (ty * ty) :=
  match snd pa with
  | Some t =>
      if str_eqb (fst pa) (f_out f) && negb (has_internal_axis f (fst pa)) then
        [(if mapped_output f (fst pa) && takes_whole g (fst pa) && negb (is_noann (f_ret f) || is_unres (f_ret f))
          then TArray (f_ret f) else f_ret f, t)]
      else []
  | None => []
  end.

Lemma spec_edges_eq fs :
  spec_edges fs = flat_map (fun f => flat_map (fun g => flat_map (spec_edges_of f g) (f_params g)) fs) fs.
Proof. reflexivity. Qed.

Lemma edge_param_ok f g pa :
  wf (f_ret f) = true -> notv (f_ret f) = true ->
  match f_ms f with Some _ => negb (is_object_array_type (f_ret f)) | None => true end = true ->
  match snd pa with Some t => wf t | None => true end = true ->
  match snd pa with
  | None => true
  | Some t => if str_eqb (fst pa) (f_out f) then edge_ok f g (fst pa) t else true
  end = forallb edge_sub (spec_edges_of f g pa).
Proof.
  intros Wr Vr Ho Wt. unfold spec_edges_of. destruct pa as [p [t|]]; simpl in *; [|reflexivity].
  destruct (str_eqb p (f_out f)); [|reflexivity]. simpl.
  unfold edge_ok, edge_types. rewrite internal_shape_spec.
  destruct (has_internal_axis f p); [reflexivity|]. simpl. rewrite andb_true_r.
  rewrite reduced_spec. unfold edge_sub. simpl.
  assert (Hobj : mapped_output f p = true -> is_object_array_type (f_ret f) = false).
  { unfold mapped_output. destruct (f_ms f); [|discriminate]. intros _. destruct (is_object_array_type (f_ret f)); [discriminate|reflexivity]. }
  destruct (mapped_output f p) eqn:Hm.
  - rewrite (Hobj eq_refl). simpl.
    destruct (takes_whole g p), (is_unres (f_ret f)), (is_noann (f_ret f)); simpl; apply compat_eq_subb; auto.
  - simpl. apply compat_eq_subb; auto.
Qed.

Lemma guard_inv fs : pipe_guard fs = true ->
  forall f, In f fs ->
    wf (f_ret f) = true /\ notv (f_ret f) = true
    /\ match f_ms f with Some _ => negb (is_object_array_type (f_ret f)) | None => true end = true
    /\ forall pa, In pa (f_params f) -> match snd pa with Some t => wf t | None => true end = true.
Proof.
  unfold pipe_guard. intros H f Hf.
  apply andb_prop in H. destruct H as [H H3]. apply andb_prop in H. destruct H as [H1 H2].
  rewrite forallb_forall in H1, H2, H3. specialize (H1 f Hf). specialize (H2 f Hf). specialize (H3 f Hf).
  unfold fn_wf in H1. apply andb_prop in H1. destruct H1 as [H1 H1'].
  rewrite forallb_forall in H1'. auto.
Qed.

Lemma validate_types_spec fs : pipe_guard fs = true ->
  is_ok (validate_types fs) = forallb edge_sub (spec_edges fs).
Proof.
  intros G. rewrite spec_edges_eq. unfold validate_types.
  rewrite forallb_flat_map.
  rewrite (forallb_ext_in _ (fun f => forallb edge_sub (flat_map (fun g => flat_map (spec_edges_of f g) (f_params g)) fs)) fs).
  { destruct (forallb _ fs); reflexivity. }
  intros f Hf. destruct (guard_inv fs G f Hf) as (Wr & Vr & Ho & _).
  rewrite forallb_flat_map. apply forallb_ext_in. intros g Hg.
  destruct (guard_inv fs G g Hg) as (_ & _ & _ & Wp).
  rewrite forallb_flat_map. apply forallb_ext_in. intros pa Hpa.
  apply edge_param_ok; auto.
Qed.

(* nothing is rejected when validate_type_annotations=False (no hypothesis at all) *)
Theorem validation_off_accepts_all : forall fs, construct fs false = Ok tt.
Proof. reflexivity. Qed.

Lemma edge_param_accepts f g pa :
  wf (f_ret f) = true ->
  match f_ms f with Some _ => negb (is_object_array_type (f_ret f)) | None => true end = true ->
  match snd pa with Some t => wf t | None => true end = true ->
  forallb edge_sub (spec_edges_of f g pa) = true ->
  match snd pa with
  | None => true
  | Some t => if str_eqb (fst pa) (f_out f) then edge_ok f g (fst pa) t else true
  end = true.
Proof.
  intros Wr Ho Wt. unfold spec_edges_of. destruct pa as [p [t|]]; simpl in *; [|reflexivity].
  destruct (str_eqb p (f_out f)); [|reflexivity]. simpl.
  unfold edge_ok, edge_types. rewrite internal_shape_spec.
  destruct (has_internal_axis f p); [reflexivity|]. simpl. rewrite andb_true_r.
  rewrite reduced_spec. unfold edge_sub. simpl.
  assert (Hobj : mapped_output f p = true -> is_object_array_type (f_ret f) = false).
  { unfold mapped_output. destruct (f_ms f); [|discriminate]. intros _. destruct (is_object_array_type (f_ret f)); [discriminate|reflexivity]. }
  destruct (mapped_output f p) eqn:Hm.
  - rewrite (Hobj eq_refl). simpl.
    destruct (takes_whole g p), (is_unres (f_ret f)), (is_noann (f_ret f)); simpl; intros E;
      apply compat_complete; auto; apply subb_iff_sub; exact E.
  - simpl. intros E. apply compat_complete; auto. apply subb_iff_sub. exact E.
Qed.

Lemma guard_accept_inv fs : pipe_guard_accept fs = true ->
  forall f, In f fs ->
    wf (f_ret f) = true
    /\ match f_ms f with Some _ => negb (is_object_array_type (f_ret f)) | None => true end = true
    /\ forall pa, In pa (f_params f) -> match snd pa with Some t => wf t | None => true end = true.
Proof.
  unfold pipe_guard_accept. intros H f Hf. apply andb_prop in H. destruct H as [H1 H3].
  rewrite forallb_forall in H1, H3. specialize (H1 f Hf). specialize (H3 f Hf).
  unfold fn_wf in H1. apply andb_prop in H1. destruct H1 as [H1 H1']. rewrite forallb_forall in H1'. auto.
Qed.

Lemma pipe_guard_accept_of fs : pipe_guard fs = true -> pipe_guard_accept fs = true.
Proof.
  unfold pipe_guard, pipe_guard_accept. intros H. apply andb_prop in H. destruct H as [H H3].
  apply andb_prop in H. destruct H as [H1 _]. rewrite H1, H3. reflexivity.
Qed.

(* every edge compatible (a reduced output counting as Array of its element type): never rejected;
   TypeVars are allowed here (the code is complete for them) *)
Theorem edges_ok_accepts : forall fs,
  pipe_guard_accept fs = true ->
  (forall e, In e (spec_edges fs) -> sub (fst e) (snd e)) ->
  construct fs true = Ok tt.
Proof.
  intros fs G H. simpl.
  assert (F : forallb edge_sub (spec_edges fs) = true).
  { apply forallb_forall. intros e He. apply subb_iff_sub. auto. }
  rewrite spec_edges_eq, forallb_flat_map in F. rewrite forallb_forall in F.
  unfold validate_types.
  replace (forallb _ fs) with true; [reflexivity|]. symmetry.
  apply forallb_forall. intros f Hf. specialize (F f Hf). rewrite forallb_flat_map in F. rewrite forallb_forall in F.
  destruct (guard_accept_inv fs G f Hf) as (Wr & Ho & _).
  apply forallb_forall. intros g Hg. specialize (F g Hg). rewrite forallb_flat_map in F. rewrite forallb_forall in F.
  destruct (guard_accept_inv fs G g Hg) as (_ & _ & Wp).
  apply forallb_forall. intros pa Hpa. apply edge_param_accepts; auto.
Qed.

(* an incompatible edge: rejected with TypeError at construction *)
Theorem bad_edge_rejects : forall fs e,
  pipe_guard fs = true -> In e (spec_edges fs) -> ~ sub (fst e) (snd e) ->
  construct fs true = Err TypeError.
Proof.
  intros fs e G He Hn. simpl. pose proof (validate_types_spec fs G) as E.
  assert (F : forallb edge_sub (spec_edges fs) = false).
  { destruct (forallb edge_sub (spec_edges fs)) eqn:F; [|reflexivity].
    rewrite forallb_forall in F. exfalso. apply Hn. apply subb_iff_sub. apply (F e He). }
  rewrite F in E. unfold validate_types in *.
  destruct (forallb _ fs); [discriminate|reflexivity].
Qed.

(* the executable statement holds of the model's own answer *)
Theorem pipe_spec_ok : forall fs v, pipe_guard fs = true -> pipe_ok fs v (is_ok (construct fs v)) = true.
Proof.
  intros fs v G. unfold pipe_ok. destruct v; simpl; [|reflexivity].
  rewrite (validate_types_spec fs G). fold edge_sub.
  replace (forallb (fun e => subb (fst e) (snd e)) (spec_edges fs)) with (forallb edge_sub (spec_edges fs)) by reflexivity.
  destruct (forallb edge_sub (spec_edges fs)); reflexivity.
Qed.

(* the executable statement of the correspondence check holds of the model on every valid case *)
Theorem spec_ok_on_model : forall c, valid c = true -> spec_ok c (run c) = true.
Proof.
  intros [a b|fs v] H; simpl in H.
  - apply andb_prop in H. destruct H as [H Va]. apply andb_prop in H. destruct H as [Wa Wb].
    simpl. rewrite (compat_eq_subb a b Wa Wb Va). destruct (subb a b); reflexivity.
  - apply andb_prop in H. destruct H as [Hn G]. simpl. rewrite Hn.
    pose proof (pipe_spec_ok fs v G) as P.
    unfold obs_unit. destruct (construct fs v) as [[]|e] eqn:E.
    + exact P.
    + assert (e = TypeError) as ->.
      { destruct v; simpl in E; [|discriminate]. unfold validate_types in E. destruct (forallb _ fs); congruence. }
      exact P.
Qed.
