From Verif Require Import Base.Prelude Model.Ty Model.TySets Proofs.TyFacts.


Lemma den_union_iff l v : den (TUnion l) v <-> exists x, In x l /\ den x v.
Proof.
  simpl. induction l as [|y l IH]; simpl.
  - split; [contradiction|intros [x [[] _]]].
  - rewrite IH. split.
    + intros [H|[x [Hx Hd]]]; eauto.
    + intros [x [[->|Hx] Hd]]; eauto.
Qed.

Definition den_row (ts : list ty) (r : list value) : Prop :=
  (fix go (ts : list ty) (r : list value) : Prop :=
     match ts, r with
     | [], [] => True
     | a :: ts', x :: r' => den a x /\ go ts' r'
     | _, _ => False
     end) ts r.

Lemma den_gen_unfold o args v :
  den (TGen o args) v = match v with
                        | VCont o' rows => origin_le o' o = true /\ forall row, In row rows -> den_row args row
                        | _ => False
                        end.
Proof. reflexivity. Qed.

Lemma den_row_mono a1 a2 :
  Forall2 (fun x y => forall v, den x v -> den y v) a1 a2 -> forall r, den_row a1 r -> den_row a2 r.
Proof.
  induction 1 as [|x y l1 l2 Hxy HF IH]; intros [|v r]; simpl; auto.
  - intros [H1 H2]. split; [auto|]. apply IH. exact H2.
Qed.

Lemma origin_le_trans a b c : origin_le a b = true -> origin_le b c = true -> origin_le a c = true.
Proof. destruct a, b, c; simpl; auto. Qed.

Lemma den_cls_mono c d v : cls_le c d = true -> den_cls c v -> den_cls d v.
Proof. destruct c, d; simpl; try discriminate; destruct v; simpl; auto. Qed.

Lemma Forall2_impl_in {A B} (R S : A -> B -> Prop) l1 l2 :
  Forall2 R l1 l2 -> (forall x y, In x l1 -> In y l2 -> R x y -> S x y) -> Forall2 S l1 l2.
Proof.
  induction 1 as [|x y l1 l2 Hxy HF IH]; intros H; constructor.
  - apply H; simpl; auto.
  - apply IH. intros; apply H; simpl; auto.
Qed.

Lemma static_in_union l x : static (TUnion l) = true -> In x l -> static x = true.
Proof. simpl. intros H. apply forallb_forall. exact H. Qed.
Lemma static_gen_inv o l : static (TGen o l) = true ->
  o <> ONdarray /\ o <> ODtype /\ forall x, In x l -> static x = true.
Proof.
  simpl. intros H. apply andb_prop in H. destruct H as [H H3]. apply andb_prop in H. destruct H as [H1 H2].
  repeat split.
  - intros ->. discriminate.
  - intros ->. discriminate.
  - apply forallb_forall. exact H3.
Qed.

Theorem sub_sound_sets : forall a b, static a = true -> static b = true -> sub a b -> forall v, den a v -> den b v.
Proof.
  intros a b; pattern a, b; apply pair_size_ind; clear a b; intros a b IH Sa Sb H v Hv.
  inversion H; subst; try discriminate.
  - exact Hv.
  - exact I.
  - apply den_union_iff in Hv. destruct Hv as [x [Hx Hd]].
    apply (IH x b); [sz|eapply static_in_union; eauto|auto|auto|auto].
  - apply den_union_iff. exists t. split; [assumption|].
    apply (IH a t); [sz|auto|eapply static_in_union; eauto|auto|auto].
  - simpl in *. eapply den_cls_mono; eauto.
  - destruct (static_gen_inv _ _ Sa) as (_ & _ & Sa1). destruct (static_gen_inv _ _ Sb) as (_ & _ & Sa2).
    rewrite den_gen_unfold in *. destruct v; try contradiction. destruct Hv as [Ho Hr]. split.
    + eapply origin_le_trans; eauto.
    + intros row Hrow. apply (den_row_mono a1 a2); [|auto].
      match goal with HF : Forall2 sub a1 a2 |- _ => apply (Forall2_impl_in _ _ _ _ HF) end.
      intros x y Hx Hy Hxy w Hw. apply (IH x y); [sz|auto|auto|auto|auto].
  - simpl in Hv. apply (IH t b); [sz|auto|auto|auto|auto].
  - simpl. apply (IH a t); [sz|auto|auto|auto|auto].
  - simpl in *. destruct v; try contradiction. intros x Hx. apply (IH e1 e2); [sz|auto|auto|auto|auto].
  - (* Array[e] <= p[args] needs ndarray <= p: p is not in the static fragment *)
    destruct (static_gen_inv _ _ Sb) as (N1 & _ & _).
    match goal with HS : sub nd_obj (TGen p a2) |- _ => inversion HS; subst end; try congruence.
    match goal with HO : origin_le ONdarray p = true |- _ => destruct p; simpl in HO; try discriminate; congruence end.
  - destruct (static_gen_inv _ _ Sa) as (N1 & _ & _).
    match goal with HS : sub (TGen o a1) nd_obj |- _ => inversion HS; subst end; try congruence.
    match goal with HO : origin_le o ONdarray = true |- _ => destruct o; simpl in HO; try discriminate; congruence end.
Qed.
