(* The bridge between C12 and C02/C09/C10/C11/C13/C18: what the constructor's own validation accepts satisfies the
   well-formedness precondition `Pipe.wf_pipelineb` of the theorems about Pipeline.run. *)
From Verif Require Import Base.Prelude Base.StrOrd Base.StrUtil Base.Graph Model.MapSpec Model.MapSpecSpec
  Model.PrepareSteps Model.Validate Model.ValidateSpec.
From Verif Require Model.Pipe.
From Verif Require Import Proofs.GraphFacts Proofs.PrepareFacts Proofs.ValidateFacts.

(* a description as a Pipe.pfunc (original parameter names = current names: raw_func carries the names after
   renames; MapSpec and internal_shape are dropped; cache=False) *)
Definition lift_func (f : raw_func) : Pipe.pfunc :=
  Pipe.mkf (rname f) (routs f) (map (fun p => (p, p)) (rparams f)) (fdefaults f) (rbound f) false.
Definition lift (fs : list raw_func) : Pipe.pipeline := map lift_func fs.

(* what Python itself guarantees of a PipeFunc (not validated by pipefunc): at least one output name, distinct
   parameter names in the signature, dict keys are distinct; and the convention of the harnesses that __name__
   identifies the function *)
Definition pythonic (fs : list raw_func) : Prop :=
  (forall f, In f fs -> routs f <> [] /\ NoDup (rparams f) /\ NoDup (akeys (rbound f)))
  /\ NoDup (map rname fs).

Lemma aget_dict_get (l : alist) k : Pipe.aget l k = dict_get l k.
Proof. induction l as [|[k' v] l IH]; cbn; [reflexivity|]. now rewrite IH. Qed.
Lemma pahas_ahas (l : alist) k : Pipe.ahas l k = ahas l k.
Proof. unfold Pipe.ahas, ahas. now rewrite aget_dict_get. Qed.
Lemma pnames_lift f : Pipe.pnames (lift_func f) = rparams f.
Proof. unfold Pipe.pnames, lift_func. cbn. rewrite map_map. cbn. apply map_id. Qed.
Lemma origs_lift f : map snd (Pipe.params (lift_func f)) = rparams f.
Proof. unfold lift_func. cbn. rewrite map_map. cbn. apply map_id. Qed.
Lemma all_outputs_lift fs : Pipe.all_outputs (lift fs) = all_outs fs.
Proof. unfold Pipe.all_outputs, lift, all_outs. induction fs as [|f fs IH]; cbn; [reflexivity|]. now rewrite IH. Qed.
Lemma producer_lift fs o : Pipe.producer (lift fs) o = option_map lift_func (producer fs o).
Proof.
  unfold Pipe.producer, producer, lift. induction fs as [|f fs IH]; cbn; [reflexivity|].
  destruct (mem_str o (routs f)); [reflexivity|exact IH].
Qed.
Lemma is_output_lift fs o : Pipe.is_output (lift fs) o = mem_str o (all_outs fs).
Proof.
  unfold Pipe.is_output. rewrite producer_lift. unfold producer.
  destruct (find (fun g => mem_str o (routs g)) fs) as [g|] eqn:E; cbn.
  - apply find_some in E as [Hg Ho]. symmetry. apply mem_str_In. apply all_outs_In. exists g. split; [assumption|].
    now apply mem_str_In.
  - symmetry. apply mem_str_not_In. intros H. apply all_outs_In in H as [g [Hg Ho]].
    pose proof (find_none _ _ E g Hg) as Hn. cbn in Hn. apply mem_str_In in Ho. congruence.
Qed.

Lemma fdefaults_NoDup f : NoDup (rparams f) -> NoDup (akeys (fdefaults f)).
Proof.
  unfold fdefaults, akeys. induction (rparams f) as [|p l IH]; intros H; [constructor|]. inversion H; subst.
  cbn [flat_map]. rewrite map_app.
  assert (Hsub : forall k, In k (map fst (flat_map (fun p0 => match dict_get (rdefs f) p0 with
                     | Some v => [(p0, v)]
                     | None => match dict_get (rsigd f) p0 with
                               | Some v => if ahas (rbound f) p0 then [] else [(p0, v)]
                               | None => [] end end) l)) -> In k l).
  { intros k Hk. apply in_map_iff in Hk as [[k' v] [<- Hk]]. apply in_flat_map in Hk as [p0 [Hp0 Hk]]. cbn.
    destruct (dict_get (rdefs f) p0); [destruct Hk as [Hk|[]]; now injection Hk as <- _|].
    destruct (dict_get (rsigd f) p0); [|destruct Hk]. destruct (ahas (rbound f) p0); [destruct Hk|].
    destruct Hk as [Hk|[]]. now injection Hk as <- _. }
  apply NoDup_app_intro; [|now apply IH|].
  - destruct (dict_get (rdefs f) p); [repeat constructor; intros []|].
    destruct (dict_get (rsigd f) p); [|constructor]. destruct (ahas (rbound f) p); [constructor|repeat constructor; intros []].
  - intros k Hk Hk'. apply Hsub in Hk'.
    assert (k = p) as ->; [|contradiction].
    destruct (dict_get (rdefs f) p); [destruct Hk as [<-|[]]; reflexivity|].
    destruct (dict_get (rsigd f) p); [|destruct Hk]. destruct (ahas (rbound f) p); [destruct Hk|].
    destruct Hk as [<-|[]]. reflexivity.
Qed.

Lemma fdefaults_key_param f k v : In (k, v) (fdefaults f) -> In k (rparams f).
Proof. intros H. apply fdefaults_In in H. unfold default_of in H. destruct (mem_str k (rparams f)) eqn:E; [now apply mem_str_In|discriminate]. Qed.

Lemma wf_func_lift f :
  routs f <> [] -> NoDup (rparams f) -> NoDup (akeys (rbound f)) -> validate_func f = Ok tt ->
  Pipe.wf_func (lift_func f) = true.
Proof.
  intros Hne Hnp Hnb Hv. pose proof (validate_func_names f Hv) as Hn.
  destruct (validate_names_facts f Hn) as [Hno Hop].
  unfold validate_names in Hn.
  destruct (intersects (akeys (rdefs f)) (akeys (rbound f))) eqn:E1; [discriminate|].
  destruct (nodup_strb (routs f)) eqn:E2; cbn [negb] in Hn; [|discriminate].
  destruct (intersects (rparams f) (routs f)) eqn:E3; [discriminate|].
  destruct (subset_str (akeys (rdefs f)) (rparams f)) eqn:E4; cbn [negb] in Hn; [|discriminate].
  destruct (subset_str (akeys (rbound f)) (rparams f)) eqn:E5; cbn [negb] in Hn; [|discriminate].
  unfold Pipe.wf_func. pose proof (pnames_lift f) as Hp. pose proof (origs_lift f) as Hq. rewrite Hp, Hq.
  change (Pipe.outs (lift_func f)) with (routs f). change (Pipe.dflt (lift_func f)) with (fdefaults f).
  change (Pipe.bound (lift_func f)) with (rbound f).
  repeat (apply andb_true_iff; split).
  - destruct (routs f); [contradiction|reflexivity].
  - exact E2.
  - now apply nodup_strb_NoDup.
  - now apply nodup_strb_NoDup.
  - apply forallb_forall. intros o Ho. apply negb_true_iff, mem_str_not_In. now apply Hop.
  - apply nodup_strb_NoDup. now apply fdefaults_NoDup.
  - now apply nodup_strb_NoDup.
  - apply subset_str_incl. intros k Hk. apply in_map_iff in Hk as [[k' v] [<- Hk]]. cbn. now apply (fdefaults_key_param f k' v).
  - exact E5.
  - apply forallb_forall. intros k Hk. apply negb_true_iff. rewrite pahas_ahas.
    apply in_map_iff in Hk as [[k' v] [<- Hk]]. cbn. apply fdefaults_In in Hk. unfold default_of in Hk.
    destruct (mem_str k' (rparams f)); [|discriminate].
    destruct (dict_get (rdefs f) k') as [w|] eqn:Ed.
    + destruct (ahas (rbound f) k') eqn:Eb; [|reflexivity]. exfalso.
      apply (proj1 (intersects_false _ _) E1 k').
      * apply akeys_In. eauto.
      * apply akeys_In. now apply ahas_true.
    + destruct (ahas (rbound f) k'); [discriminate|reflexivity].
Qed.

(* Pipeline.defaults *)
Lemma pdefaults_lift fs : Pipe.pdefaults (lift fs) = default_entries fs.
Proof.
  unfold Pipe.pdefaults, default_entries, lift. rewrite flat_map_concat_map, map_map, <- flat_map_concat_map.
  apply flat_map_ext. intros f. cbn [Pipe.dflt Pipe.bound lift_func Pipe.mkf].
  apply filter_ext. intros [k v]. cbn [fst]. rewrite pahas_ahas. fold (lift fs). now rewrite is_output_lift.
Qed.

Lemma consistent_lift fs : consistent_defaults fs = Ok tt -> Pipe.consistent_defaults (lift fs) = true.
Proof.
  unfold consistent_defaults. intros H. unfold Pipe.consistent_defaults. rewrite pdefaults_lift.
  destruct (check_defaults_ok _ _ H) as [final [_ Hfin]].
  apply forallb_forall. intros [k v] Hin. cbn [fst snd]. rewrite aget_dict_get.
  destruct (dict_get (default_entries fs) k) as [w|] eqn:E.
  - apply dict_get_In in E. pose proof (Hfin k w E) as E1. pose proof (Hfin k v Hin) as E2.
    assert (w = v) by congruence. subst. apply str_eqb_refl.
  - exfalso. assert (In k (akeys (default_entries fs))) as Hk by (apply in_map_iff; exists (k, v); auto).
    apply akeys_In in Hk as [w Hw]. congruence.
Qed.

(* the function-to-function dependency graph *)
Lemma fid_lift f : Pipe.fid (lift_func f) = fid f.
Proof. reflexivity. Qed.

Lemma fdeps_lift fs f :
  (forall g, In g fs -> routs g <> []) ->
  filter (fun n => Pipe.is_output (lift fs) n) (Pipe.fpreds (lift fs) (lift_func f)) = fdeps fs f.
Proof.
  intros Hne. unfold Pipe.fpreds, fdeps. rewrite pnames_lift.
  induction (rparams f) as [|p l IH]; [reflexivity|]. cbn [flat_map]. rewrite filter_app, IH. f_equal.
  unfold Pipe.dep_node. cbn [Pipe.bound lift_func Pipe.mkf]. rewrite pahas_ahas.
  destruct (ahas (rbound f) p); [reflexivity|]. rewrite producer_lift.
  destruct (producer fs p) as [g|] eqn:E; cbn [option_map filter].
  - rewrite fid_lift, is_output_lift.
    unfold producer in E. apply find_some in E as [Hg _].
    assert (mem_str (fid g) (all_outs fs) = true) as ->; [|reflexivity].
    apply mem_str_In, all_outs_In. exists g. split; [assumption|]. unfold fid. specialize (Hne g Hg).
    destruct (routs g); [contradiction|now left].
  - rewrite is_output_lift.
    assert (mem_str p (all_outs fs) = false) as ->; [|reflexivity].
    apply mem_str_not_In. intros H. apply all_outs_In in H as [g [Hg Ho]].
    unfold producer in E. pose proof (find_none _ _ E g Hg) as Hn. cbn in Hn. apply mem_str_In in Ho. congruence.
Qed.

Lemma fgraph_lift fs : (forall g, In g fs -> routs g <> []) -> Pipe.fgraph (lift fs) = fgraph fs.
Proof.
  intros Hne. unfold Pipe.fgraph, fgraph. f_equal.
  - unfold lift. rewrite map_map. apply map_ext. intros f. apply fid_lift.
  - unfold lift at 3. rewrite flat_map_concat_map, map_map, <- flat_map_concat_map.
    apply flat_map_ext. intros f. rewrite fid_lift. now rewrite (fdeps_lift fs f Hne).
Qed.

(* THE BRIDGE *)
Theorem construct_ok_wf_pipeline fs :
  pythonic fs -> validate_construct fs = Ok tt -> Pipe.wf_pipelineb (lift fs) = true.
Proof.
  intros [Hpy Hnames] Hok. destruct (construct_ok_parts fs Hok) as [Hv [Hnd Hlast]].
  assert (Hne : forall g, In g fs -> routs g <> []) by (intros g Hg; exact (proj1 (Hpy g Hg))).
  unfold Pipe.wf_pipelineb. repeat (apply andb_true_iff; split).
  - apply forallb_forall. intros pf Hpf. unfold lift in Hpf. apply in_map_iff in Hpf as [f [<- Hf]].
    destruct (Hpy f Hf) as [H1 [H2 H3]]. now apply wf_func_lift; [| | |apply Hv].
  - rewrite all_outputs_lift. now apply nodup_strb_NoDup.
  - apply nodup_strb_NoDup. unfold lift. rewrite map_map. cbn. exact Hnames.
  - destruct Hlast as [->|[init [f [-> Ha]]]]; [reflexivity|].
    unfold add_checks in Ha. apply bind_ok_unit in Ha as [_ Ha]. apply bind_ok_unit in Ha as [Hd _].
    now apply consistent_lift.
  - rewrite (fgraph_lift fs Hne). destruct Hlast as [->|[init [f [-> Ha]]]]; [reflexivity|].
    unfold add_checks in Ha. apply bind_ok_unit in Ha as [_ Ha]. apply bind_ok_unit in Ha as [_ Ha].
    apply bind_ok_unit in Ha as [_ Ha]. apply bind_ok_unit in Ha as [_ Ha].
    destruct (acyclicb (fgraph (init ++ [f]))); [reflexivity|discriminate].
Qed.
