(* Exception classes: the validators return exactly the class the code raises (C12). *)
From Verif Require Import Base.Prelude Base.StrOrd Base.StrUtil Base.Graph Model.MapSpec Model.MapSpecSpec
  Model.PrepareSteps Model.Validate Model.ValidateSpec.
From Verif Require Proofs.ListFacts.
From Verif Require Import Proofs.GraphFacts Proofs.MapSpecFacts Proofs.PrepareFacts Proofs.ValidateFacts.

Ltac ifs H :=
  repeat match type of H with
         | (if ?c then _ else _) = _ => destruct c
         end.

Lemma validate_names_class f e : validate_names f = Err e -> e = ValueError.
Proof. unfold validate_names. intros H. ifs H; try discriminate; now injection H as <-. Qed.

Lemma validate_func_mapspec_class f m e : validate_func_mapspec f m = Err e -> e = ValueError.
Proof. unfold validate_func_mapspec. intros H. ifs H; try discriminate; now injection H as <-. Qed.

Lemma mapM_mk_aspec_class l : forall e, mapM (fun na => mk_aspec (fst na) (snd na)) l = Err e -> e = ValueError.
Proof.
  induction l as [|x l IH]; intros e H; [discriminate|]. cbn [mapM] in H.
  destruct (mk_aspec (fst x) (snd x)) as [y|e0] eqn:E; cbn [bind] in H.
  - destruct (mapM _ l) as [ys|e1] eqn:M; cbn [bind] in H; [discriminate|]. injection H as <-. now apply IH.
  - injection H as <-. unfold mk_aspec in E. destruct (_ && _); [discriminate|]. now injection E as <-.
Qed.

(* MapSpec.__post_init__: ValueError, except `self.outputs[0]` on an empty output tuple (IndexError) *)
Lemma build_class i o e : build i o = Err e -> e = ValueError \/ (e = IndexError /\ o = []).
Proof.
  unfold build. intros H.
  destruct (mapM _ i) as [i'|e1] eqn:Mi; cbn [bind] in H; [|injection H as <-; left; now apply (mapM_mk_aspec_class i)].
  destruct (mapM _ o) as [o'|e1] eqn:Mo; cbn [bind] in H; [|injection H as <-; left; now apply (mapM_mk_aspec_class o)].
  unfold mk_mapspec in H. destruct o' as [|o0 rest].
  - injection H as <-. right. split; [reflexivity|]. destruct o; [reflexivity|]. cbn [mapM] in Mo.
    destruct (mk_aspec _ _); cbn [bind] in Mo; [|discriminate]. destruct (mapM _ o); discriminate.
  - ifs H; try discriminate; injection H as <-; now left.
Qed.

Theorem validate_func_class f e :
  validate_func f = Err e ->
  e = ValueError \/ (e = IndexError /\ exists m, rspec f = Some m /\ outs m = []).
Proof.
  unfold validate_func. destruct (rspec f) as [m|] eqn:Es.
  - destruct (build _ _) as [m'|e1] eqn:B; cbn [bind].
    + destruct (validate_names f) as [[]|e2] eqn:N; cbn [bind].
      * intros H. left. now apply (validate_func_mapspec_class f m').
      * intros H. injection H as <-. left. now apply (validate_names_class f).
    + intros H. injection H as <-. destruct (build_class _ _ _ B) as [->|[-> Ho]]; [now left|right].
      split; [reflexivity|]. exists m. split; [reflexivity|]. unfold raw_pairs in Ho. now destruct (outs m).
  - intros H. left. now apply (validate_names_class f).
Qed.

Lemma check_defaults_class l : forall seen e, check_defaults seen l = Err e -> e = ValueError.
Proof.
  induction l as [|[k v] l IH]; intros seen e H; [discriminate|]. cbn [check_defaults] in H.
  destruct (dict_get seen k); [|now apply (IH _ _ H)].
  destruct (str_eqb v s); [now apply (IH _ _ H)|now injection H as <-].
Qed.

Lemma merge_pos_class cur : forall ax e, merge_pos cur ax = Err e -> e = ValueError.
Proof.
  induction cur as [|c cs IH]; intros ax e H; [discriminate|]. destruct ax as [|a as_]; [discriminate|].
  cbn [merge_pos] in H.
  assert (G : forall k : list (option str) -> list (option str), (do r <- merge_pos cs as_; Ok (k r)) = Err e -> e = ValueError).
  { intros k Hk. destruct (merge_pos cs as_) as [r|e1] eqn:M; cbn [bind] in Hk; [discriminate|].
    injection Hk as <-. now apply (IH as_). }
  destruct c as [x|], a as [y|].
  - destruct (str_eqb x y); [exact (G (cons (Some x)) H)|now injection H as <-].
  - exact (G (cons (Some x)) H).
  - exact (G (cons (Some y)) H).
  - exact (G (cons None) H).
Qed.

Lemma consistent_axes_class specs e : validate_consistent_axes specs = Err e -> e = ValueError.
Proof.
  unfold validate_consistent_axes. set (all := all_aspecs specs).
  destruct (mapM _ (StrOrd.dedup (map aname all))) as [r|e1] eqn:M; cbn [bind]; [discriminate|].
  intros H. injection H as <-.
  assert (G : forall l e0, mapM (fun n => check_name_axes (specs_named n all)) l = Err e0 -> e0 = ValueError).
  { induction l as [|n l IH]; intros e0 H; [discriminate|]. cbn [mapM] in H.
    destruct (check_name_axes (specs_named n all)) as [[]|e2] eqn:C; cbn [bind] in H.
    - destruct (mapM _ l) as [ys|e3] eqn:M2; cbn [bind] in H; [discriminate|]. injection H as <-. now apply IH.
    - injection H as <-. unfold check_name_axes in C. destruct (specs_named n all) as [|a t]; [discriminate|].
      destruct (negb _); [now injection C as <-|].
      destruct (fold_left _ (a :: t) _) as [fin|e4] eqn:F; cbn [bind] in C; [discriminate|]. injection C as <-.
      assert (Hacc : forall e', (Ok (repeat (@None str) (rank a)) : result (list (option str))) = Err e' -> e' = ValueError)
        by (intros e' He'; discriminate).
      revert F Hacc. generalize (Ok (repeat (@None str) (rank a)) : result (list (option str))).
      clear. induction (a :: t) as [|b l IHl]; intros acc F Hacc; cbn [fold_left] in F.
      + now apply Hacc.
      + apply (IHl _ F). intros e' He'. destruct acc as [cur|e5]; cbn [bind] in He'.
        * now apply (merge_pos_class cur (axes b)).
        * injection He' as <-. now apply Hacc. }
  now apply (G _ _ M).
Qed.

(* Pipeline.add: ValueError, except the cycle (networkx.NetworkXUnfeasible = OtherError), which is the LAST check *)
Theorem add_checks_class fs f e :
  add_checks fs f = Err e ->
  e = ValueError
  \/ (e = OtherError /\ unique_new fs f = Ok tt /\ consistent_defaults (fs ++ [f]) = Ok tt
      /\ mapspec_outputs_match (fs ++ [f]) = Ok tt /\ validate_consistent_axes (specs_of (fs ++ [f])) = Ok tt
      /\ acyclicb (fgraph (fs ++ [f])) = false).
Proof.
  unfold add_checks. intros H.
  destruct (unique_new fs f) as [[]|e1] eqn:U; cbn [bind] in H.
  2:{ injection H as <-. left. unfold unique_new in U. destruct (intersects _ _); [now injection U as <-|discriminate]. }
  destruct (consistent_defaults (fs ++ [f])) as [[]|e1] eqn:D; cbn [bind] in H.
  2:{ injection H as <-. left. now apply (check_defaults_class _ _ _ D). }
  destruct (mapspec_outputs_match (fs ++ [f])) as [[]|e1] eqn:M; cbn [bind] in H.
  2:{ injection H as <-. left. unfold mapspec_outputs_match in M. destruct (forallb _ _); [discriminate|now injection M as <-]. }
  destruct (validate_consistent_axes (specs_of (fs ++ [f]))) as [[]|e1] eqn:X; cbn [bind] in H.
  2:{ injection H as <-. left. now apply (consistent_axes_class _ _ X). }
  destruct (acyclicb (fgraph (fs ++ [f]))) eqn:A; [discriminate|]. injection H as <-. right. auto 10.
Qed.

Lemma first_err_class {A} (chk0 : A -> result unit) (P : err -> Prop) l :
  (forall x e, In x l -> chk0 x = Err e -> P e) -> forall i j e, first_err chk0 l i = Some (j, e) -> P e.
Proof.
  induction l as [|x l IH]; intros Hc i j e H; [discriminate|]. cbn in H.
  destruct (chk0 x) as [[]|e0] eqn:E.
  - apply (IH (fun y e' Hy => Hc y e' (or_intror Hy)) (S i) j e H).
  - injection H as _ <-. apply (Hc x e0); [now left|assumption].
Qed.

Lemma adds_class todo : forall done i j e,
  adds done todo i = Some (j, e) ->
  e = ValueError \/ (e = OtherError /\ exists fs f, acyclicb (fgraph (fs ++ [f])) = false).
Proof.
  induction todo as [|f todo IH]; intros done i j e H; [discriminate|]. cbn [adds] in H.
  destruct (add_checks done f) as [[]|e0] eqn:E; [now apply (IH _ _ _ _ H)|]. injection H as _ <-.
  destruct (add_checks_class _ _ _ E) as [->|[-> [_ [_ [_ [_ Hc]]]]]]; [now left|right]. split; [reflexivity|eauto].
Qed.

(* construction raises ValueError for every fault class except a cycle (OtherError = NetworkXUnfeasible); the only
   other class is IndexError for a MapSpec without outputs (MapSpec.__post_init__ indexes outputs[0]) *)
Theorem validate_construct_class fs e :
  validate_construct fs = Err e ->
  e = ValueError \/ e = OtherError \/ (e = IndexError /\ exists f m, In f fs /\ rspec f = Some m /\ outs m = []).
Proof.
  unfold validate_construct, construct_outcome.
  destruct (first_err validate_func fs 0) as [[i e1]|] eqn:E1.
  - intros H. injection H as <-.
    apply (first_err_class validate_func
             (fun e => e = ValueError \/ e = OtherError \/ (e = IndexError /\ exists f m, In f fs /\ rspec f = Some m /\ outs m = []))
             fs) with (i := 0) (j := i); [|exact E1].
    intros f e Hf He. destruct (validate_func_class f e He) as [->|[-> [m [Hs Ho]]]]; [now left|].
    right. right. split; [reflexivity|]. eauto.
  - destruct (adds [] fs 0) as [[i e2]|] eqn:E2; [|discriminate]. intros H. injection H as <-.
    destruct (adds_class _ _ _ _ _ E2) as [->|[-> _]]; auto.
Qed.

(* a cycle as the only fault is reported as OtherError: when every PipeFunc is valid and every earlier check of
   every add passes, the first failing add fails in its last check *)
Theorem cycle_is_other_error fs f :
  unique_new fs f = Ok tt -> consistent_defaults (fs ++ [f]) = Ok tt -> mapspec_outputs_match (fs ++ [f]) = Ok tt ->
  validate_consistent_axes (specs_of (fs ++ [f])) = Ok tt -> acyclicb (fgraph (fs ++ [f])) = false ->
  add_checks fs f = Err OtherError.
Proof. unfold add_checks. intros -> -> -> -> ->. reflexivity. Qed.

(* ---------- map ---------- *)
Lemma all_ok_class {A} (k : A -> result unit) l e :
  (forall x e0, k x = Err e0 -> e0 = ValueError) -> all_ok k l = Err e -> e = ValueError.
Proof.
  intros Hk. unfold all_ok. destruct (mapM k l) as [r|e1] eqn:M; cbn [bind]; [discriminate|]. intros H. injection H as <-.
  revert e1 M. induction l as [|x l IH]; intros e1 M; [discriminate|]. cbn [mapM] in M.
  destruct (k x) as [[]|e2] eqn:E; cbn [bind] in M; [|injection M as <-; now apply (Hk x)].
  destruct (mapM k l) as [ys|e3]; cbn [bind] in M; [discriminate|]. injection M as <-. now apply IH.
Qed.

Lemma graph_checks_class fs e :
  graph_checks fs = Err e -> e = ValueError \/ (e = OtherError /\ acyclicb (fgraph fs) = false).
Proof.
  unfold graph_checks. intros H.
  destruct (unique_outputs fs) as [[]|e1] eqn:U; cbn [bind] in H.
  2:{ injection H as <-. left. unfold unique_outputs in U. destruct (nodup_strb _); [discriminate|now injection U as <-]. }
  destruct (consistent_defaults fs) as [[]|e1] eqn:D; cbn [bind] in H.
  2:{ injection H as <-. left. now apply (check_defaults_class _ _ _ D). }
  destruct (acyclicb (fgraph fs)) eqn:A; [discriminate|]. injection H as <-. now right.
Qed.

(* the checks of prepare_run that precede RunInfo.create, in the code's order, each with its class:
   executor with parallel=False, missing / surplus inputs, inconsistent axes, unknown storage: ValueError *)
Theorem validate_map_head_classes q :
  (F_executor q -> validate_map q = Err ValueError)
  /\ (c_exec q = Ok tt -> graph_checks (q_funcs q) = Ok tt -> (F_missing_input q \/ F_surplus_input q) ->
      validate_map q = Err ValueError)
  /\ (c_exec q = Ok tt -> c_inputs q = Ok tt -> F_axes (q_funcs q) -> validate_map q = Err ValueError)
  /\ (c_exec q = Ok tt -> c_inputs q = Ok tt -> c_axes q = Ok tt -> F_storage q -> validate_map q = Err ValueError).
Proof.
  assert (Hsub : chk L_subpipeline q = Ok tt) by reflexivity.
  assert (Hsl : chk L_slurm q = Ok tt) by reflexivity.
  assert (Hfx : chk L_fixed q = Ok tt) by reflexivity.
  assert (Unf : forall cleanup, exists rest, map_steps cleanup =
            Check L_exec :: Check L_subpipeline :: Check L_slurm :: Check L_inputs :: Check L_axes :: Check L_fixed
            :: Check L_st_names :: rest).
  { intros cleanup. unfold map_steps, steps_head. cbn [app]. eexists. reflexivity. }
  destruct (Unf (q_cleanup q)) as [rest Hm].
  assert (Hv : validate_map q = first_failure chk (Check L_exec :: Check L_subpipeline :: Check L_slurm :: Check L_inputs
                 :: Check L_axes :: Check L_fixed :: Check L_st_names :: rest) q) by (unfold validate_map; now rewrite Hm).
  cbn [first_failure] in Hv. rewrite Hsub, Hsl, Hfx, chk_exec, chk_inputs, chk_axes, chk_st_names in Hv.
  repeat split.
  - intros [E1 E2]. rewrite Hv. unfold c_exec. now rewrite E1, E2.
  - intros He Hg HF. rewrite Hv, He. unfold c_inputs. rewrite Hg. cbn [bind].
    destruct (validate_complete_inputs q) as [[]|e] eqn:E.
    + exfalso. destruct (complete_inputs_sound q E). tauto.
    + unfold validate_complete_inputs in E. f_equal. ifs E; try discriminate; now injection E as <-.
  - intros He Hi HF. rewrite Hv, He, Hi. destruct (c_axes q) as [[]|e] eqn:E.
    + exfalso. exact (consistent_axes_sound _ E HF).
    + f_equal. now apply (consistent_axes_class _ _ E).
  - intros He Hi Ha HF. rewrite Hv, He, Hi, Ha. destruct (c_st_names q) as [[]|e] eqn:E.
    + exfalso. exact (storage_names_sound q E HF).
    + f_equal. unfold c_st_names in E. eapply all_ok_class; [|exact E].
      intros n e0 H0. unfold get_storage_class in H0.
      destruct (mem_str n (q_registry q)); [discriminate|now injection H0 as <-].
Qed.
