(* The boolean deciders used by spec_ok (Model/ValidateSpec.v: wfc_b, wfm_b) accept whatever is free of the
   declarative fault classes; hence (with the soundness theorems of ValidateFacts.v) the model satisfies the
   executable statement: a request the deciders call faulty is rejected by the model, with an empty call log and,
   for cleanup=False, an empty effect trace. *)
From Verif Require Import Base.Prelude Base.StrOrd Base.StrUtil Base.Graph Model.MapSpec Model.MapSpecSpec
  Model.PrepareSteps Model.Validate Model.ValidateSpec Corr.Run_C12.
From Verif Require Proofs.StrFacts Proofs.ListFacts.
From Verif Require Import Proofs.GraphFacts Proofs.MapSpecFacts Proofs.MapSpecShape Proofs.PrepareFacts Proofs.ValidateFacts.

Lemma forallb_false_ex {A} (p : A -> bool) l : forallb p l = false -> exists x, In x l /\ p x = false.
Proof.
  induction l as [|y l IH]; cbn; [discriminate|]. destruct (p y) eqn:E; cbn.
  - intros H. destruct (IH H) as [x [Hx Hp]]. eauto.
  - intros _. eauto.
Qed.

(* ---------- reachability in Base/Graph.v is sound: everything it returns is reached by >= 1 edge ---------- *)
Inductive gpath (g : graph) : str -> str -> Prop :=
| gp_one u v : In (u, v) (edges g) -> gpath g u v
| gp_step u v w : gpath g u v -> In (v, w) (edges g) -> gpath g u w.

Lemma succs_edge g u v : In v (succs g u) <-> In (u, v) (edges g).
Proof.
  unfold succs. rewrite in_map_iff. split.
  - intros [[a b] [<- H]]. apply filter_In in H as [H E]. cbn in *. apply str_eqb_eq in E as ->. exact H.
  - intros H. exists (u, v). split; [reflexivity|]. apply filter_In. split; [exact H|]. cbn. apply str_eqb_refl.
Qed.

Lemma expand_sound g (P : str -> Prop) :
  (forall v w, P v -> In (v, w) (edges g) -> P w) ->
  forall seen, (forall v, In v seen -> P v) -> forall v, In v (expand g seen) -> P v.
Proof.
  intros Hstep seen Hseen. unfold expand.
  assert (G : forall l acc, (forall v, In v acc -> P v) -> (forall v, In v l -> P v) ->
              forall v, In v (fold_left (fun acc n => union_str acc (succs g n)) l acc) -> P v).
  { induction l as [|n l IH]; intros acc Hacc Hl v Hv; cbn [fold_left] in Hv; [now apply Hacc|].
    apply (IH (union_str acc (succs g n))); [|intros; apply Hl; now right|exact Hv].
    intros w Hw. apply union_str_In in Hw as [Hw|Hw]; [now apply Hacc|].
    apply succs_edge in Hw. apply (Hstep n w); [apply Hl; now left|exact Hw]. }
  intros v Hv. apply (G seen seen); assumption.
Qed.

Lemma close_sound g (P : str -> Prop) :
  (forall v w, P v -> In (v, w) (edges g) -> P w) ->
  forall fuel seen, (forall v, In v seen -> P v) -> forall v, In v (close fuel g seen) -> P v.
Proof.
  intros Hstep. induction fuel as [|fuel IH]; intros seen Hseen v Hv; cbn [close] in Hv; [now apply Hseen|].
  apply (IH (expand g seen)); [|exact Hv]. now apply expand_sound.
Qed.

Lemma reach_sound g u v : In v (reach g [u]) -> gpath g u v.
Proof.
  unfold reach. apply (close_sound g (fun w => gpath g u w)).
  - intros a b Ha Hab. cbn beta in *. eapply gp_step; eassumption.
  - intros a Ha. cbn beta. apply (proj1 (dedup_In _ _)) in Ha. cbn [flat_map] in Ha. rewrite app_nil_r in Ha.
    apply gp_one. now apply succs_edge.
Qed.

(* ---------- paths of the dependency graph are dependency paths between functions ---------- *)
Lemma dep_edge fs u v :
  In (u, v) (edges (dep_graph fs)) <-> exists f g, In f fs /\ In g fs /\ reads f g = true /\ u = fid f /\ v = fid g.
Proof.
  unfold dep_graph. cbn [edges]. rewrite in_flat_map. split.
  - intros [f [Hf H]]. apply in_flat_map in H as [g [Hg H]]. destruct (reads f g) eqn:E; [|destruct H].
    destruct H as [H|[]]. injection H as <- <-. exists f, g. auto.
  - intros [f [g [Hf [Hg [Hr [-> ->]]]]]]. exists f. split; [assumption|]. apply in_flat_map. exists g.
    split; [assumption|]. rewrite Hr. now left.
Qed.

Lemma fid_inj fs f g :
  NoDup (all_outs fs) -> (forall h, In h fs -> routs h <> []) -> In f fs -> In g fs -> fid f = fid g -> f = g.
Proof.
  intros Hnd Hne Hf Hg E. unfold fid in E.
  destruct (routs f) as [|o os] eqn:Ef; [exfalso; now apply (Hne f Hf)|].
  destruct (routs g) as [|o' os'] eqn:Eg; [exfalso; now apply (Hne g Hg)|]. cbn in E. subst o'.
  apply (flat_map_NoDup_inj routs fs Hnd f g o Hf Hg); [rewrite Ef|rewrite Eg]; now left.
Qed.

Lemma gpath_dep_path fs :
  NoDup (all_outs fs) -> (forall h, In h fs -> routs h <> []) ->
  forall u v, gpath (dep_graph fs) u v ->
  forall f, In f fs -> u = fid f -> exists g, In g fs /\ v = fid g /\ dep_path fs f g.
Proof.
  intros Hnd Hne u v P. induction P as [u v He|u v w P IH He]; intros f Hf Hu.
  - apply dep_edge in He as [f' [g [Hf' [Hg [Hr [E1 E2]]]]]]. subst.
    assert (f' = f) as -> by (apply (fid_inj fs); auto).
    exists g. split; [assumption|]. split; [reflexivity|]. now constructor.
  - destruct (IH f Hf Hu) as [g [Hg [-> Pg]]].
    apply dep_edge in He as [g' [h [Hg' [Hh [Hr [E1 E2]]]]]]. subst.
    assert (g' = g) as -> by (apply (fid_inj fs); auto).
    exists h. split; [assumption|]. split; [reflexivity|].
    clear -Pg Hg Hh Hr. induction Pg as [a b Ha Hb Hab|a b c Ha Hb Hab Pbc IHp].
    + apply dp_step with b; try assumption. now constructor.
    + apply dp_step with b; try assumption. now apply IHp.
Qed.

Lemma acyclic_b_complete fs :
  NoDup (all_outs fs) -> (forall h, In h fs -> routs h <> []) -> ~ F_cycle fs -> acyclic_b fs = true.
Proof.
  intros Hnd Hne Hc. unfold acyclic_b. apply forallb_forall. intros f Hf. apply negb_true_iff.
  apply mem_str_not_In. intros Hin. apply reach_sound in Hin.
  destruct (gpath_dep_path fs Hnd Hne _ _ Hin f Hf eq_refl) as [g [Hg [E P]]].
  assert (g = f) as -> by (apply (fid_inj fs); auto). apply Hc. now exists f.
Qed.

(* ---------- the other components ---------- *)
Lemma defaults_b_complete fs : ~ F_defaults fs -> defaults_b fs = true.
Proof.
  intros Hn. unfold defaults_b. apply forallb_forall. intros k _.
  destruct (mem_str k (all_outs fs)) eqn:Eo; [reflexivity|]. cbn [orb]. apply mem_str_not_In in Eo.
  apply forallb_forall. intros f Hf. apply forallb_forall. intros g Hg.
  destruct (is_bound f k) eqn:Bf; [reflexivity|]. destruct (is_bound g k) eqn:Bg; [reflexivity|]. cbn [orb].
  destruct (default_of f k) as [v|] eqn:Df; [|reflexivity]. destruct (default_of g k) as [w|] eqn:Dg; [|reflexivity].
  destruct (str_eqb v w) eqn:E; [reflexivity|]. apply str_eqb_neq in E. exfalso. apply Hn.
  exists f, g, k, v, w. auto 10.
Qed.

Lemma spec_signature_b_complete fs : ~ F_spec_signature fs -> spec_signature_b fs = true.
Proof.
  intros Hn. unfold spec_signature_b. apply forallb_forall. intros f Hf. destruct (rspec f) as [m|] eqn:Es; [|reflexivity].
  apply andb_true_iff. split.
  - apply subset_str_incl. intros x Hx. destruct (in_dec str_eq_dec x (rparams f)) as [H|H]; [exact H|].
    exfalso. apply Hn. exists f, m. split; [assumption|]. split; [assumption|]. left. intros Hi. apply H. now apply Hi.
  - apply str_list_eqb_eq. destruct (list_eq_dec str_eq_dec (output_names m) (routs f)) as [H|H]; [exact H|].
    exfalso. apply Hn. exists f, m. auto.
Qed.

Lemma forallb2_axis_agree l1 : forall l2,
  length l1 = length l2 ->
  (forall k x y, nth_error l1 k = Some (Some x) -> nth_error l2 k = Some (Some y) -> x = y) ->
  forallb2 axis_agree_b l1 l2 = true.
Proof.
  induction l1 as [|a l1 IH]; intros [|b l2] L H; cbn in *; try discriminate; [reflexivity|].
  apply andb_true_iff. split.
  - destruct a as [x|], b as [y|]; cbn; try reflexivity. apply str_eqb_eq. exact (H 0 x y eq_refl eq_refl).
  - apply IH; [lia|]. intros k x y Hx Hy. exact (H (S k) x y Hx Hy).
Qed.

Lemma axes_b_complete fs : ~ F_axes fs -> axes_b fs = true.
Proof.
  intros Hn. unfold axes_b. apply forallb_forall. intros a Ha. apply forallb_forall. intros b Hb.
  destruct (str_eqb (aname a) (aname b)) eqn:E; [|reflexivity]. cbn [negb orb]. apply str_eqb_eq in E.
  destruct (axes_agree_b a b) eqn:Eb; [reflexivity|]. exfalso. apply Hn. exists a, b.
  split; [assumption|]. split; [assumption|]. split; [assumption|]. intros [Hr Hk].
  unfold axes_agree_b in Eb. rewrite Hr, Nat.eqb_refl in Eb. cbn [andb] in Eb.
  rewrite forallb2_axis_agree in Eb; [discriminate|exact Hr|exact Hk].
Qed.

Lemma wfc_b_complete fs :
  (forall h, In h fs -> routs h <> []) -> WellFormedC fs -> wfc_b fs = true.
Proof.
  intros Hne [N1 [N2 [N3 [N4 [N5 N6]]]]]. unfold wfc_b.
  assert (Hnd : NoDup (all_outs fs)).
  { destruct (nodup_strb (all_outs fs)) eqn:E; [now apply nodup_strb_NoDup|].
    exfalso. apply N1. intros H. apply nodup_strb_NoDup in H. congruence. }
  repeat (apply andb_true_iff; split).
  - now apply nodup_strb_NoDup.
  - apply forallb_forall. intros f Hf. apply negb_true_iff. apply intersects_false. intros o Ho Hp.
    apply N2. exists f, o. auto.
  - now apply acyclic_b_complete.
  - now apply defaults_b_complete.
  - now apply spec_signature_b_complete.
  - now apply axes_b_complete.
Qed.

(* ---------- the model satisfies the executable statement: construction ---------- *)
Theorem model_meets_spec_construct fs :
  (forall h, In h fs -> routs h <> []) -> spec_ok (CConstruct fs false) (run (CConstruct fs false)) = true.
Proof.
  intros Hne. cbn [spec_ok run]. destruct (wfc_b fs) eqn:W; cbn [negb].
  - destruct (construct_outcome fs) as [[[st i] e]|]; reflexivity.
  - destruct (construct_outcome fs) as [[[st i] e]|] eqn:C; [reflexivity|].
    exfalso. assert (validate_construct fs = Ok tt) as Hok by (unfold validate_construct; now rewrite C).
    rewrite (wfc_b_complete fs Hne (validate_construct_sound fs Hok)) in W. discriminate.
Qed.

(* ---------- map ---------- *)
Lemma rank_b_complete q : ~ F_rank q -> rank_b q = true.
Proof.
  intros Hn. unfold rank_b. apply forallb_forall. intros f Hf. destruct (rspec f) as [m|] eqn:Es; [|reflexivity].
  apply forallb_forall. intros a Ha. destruct (is_root (q_funcs q) (aname a)) eqn:Er; [|reflexivity]. cbn [negb orb].
  destruct (value_of q (aname a)) as [v|] eqn:Ev; [|reflexivity].
  destruct (match shape_of v with Some sh => length sh =? rank a | None => false end) eqn:E; [reflexivity|].
  exfalso. apply Hn. exists f, m, a, v. repeat (split; [assumption|]).
  intros sh Hsh. rewrite Hsh in E. now apply Nat.eqb_neq.
Qed.

Lemma zip_b_complete q : ~ F_zip q -> zip_b q = true.
Proof.
  intros Hn. unfold zip_b. apply forallb_forall. intros f Hf. destruct (rspec f) as [m|] eqn:Es; [|reflexivity].
  apply forallb_forall. intros x Hx.
  set (dims := flat_map _ (ins m)).
  destruct dims as [|d rest] eqn:Ed; [reflexivity|]. apply forallb_forall. intros d' Hd'. apply Nat.eqb_eq.
  assert (G : forall z, In z dims -> exists a p, In a (ins m) /\ index_of x (axes a) = Some p
                                             /\ is_root (q_funcs q) (aname a) = true /\ dim_of q a p = Some z).
  { intros z Hz. unfold dims in Hz. apply in_flat_map in Hz as [a [Ha Hz]].
    destruct (is_root (q_funcs q) (aname a)) eqn:Er; [|destruct Hz].
    destruct (index_of x (axes a)) as [p|] eqn:Ep; [|destruct Hz].
    destruct (dim_of q a p) as [z'|] eqn:Edim; [|destruct Hz]. destruct Hz as [<-|[]]. eauto 10. }
  destruct (G d) as [a [pa [Ha [Hpa [Hra Hda]]]]]; [rewrite Ed; now left|].
  destruct (G d') as [b [pb [Hb [Hpb [Hrb Hdb]]]]]; [rewrite Ed; now right|].
  destruct (Nat.eq_dec d d') as [E|E]; [exact E|]. exfalso. apply Hn.
  exists f, m, x, a, pa, b, pb, d, d'. auto 15.
Qed.

Lemma wfm_b_complete q : WellFormedM q -> wfm_b q = true.
Proof.
  intros [N1 [N2 [N3 [N4 [N5 [N6 N7]]]]]]. unfold wfm_b.
  repeat (apply andb_true_iff; split).
  - apply negb_true_iff. destruct (q_executor q) eqn:E1; [|reflexivity]. destruct (q_parallel q) eqn:E2; [reflexivity|].
    exfalso. apply N1. now split.
  - apply forallb_forall. intros f Hf. apply forallb_forall. intros x Hx.
    destruct (is_root (q_funcs q) x) eqn:Er; [|reflexivity]. cbn [negb orb].
    destruct (value_of q x) eqn:Ev; [reflexivity|]. exfalso. apply N2. now exists x.
  - apply forallb_forall. intros x Hx. destruct (is_root (q_funcs q) x) eqn:Er; [reflexivity|].
    exfalso. apply N3. now exists x.
  - now apply axes_b_complete.
  - now apply rank_b_complete.
  - now apply zip_b_complete.
  - apply forallb_forall. intros n Hn. apply mem_str_In.
    destruct (in_dec str_eq_dec n (q_registry q)) as [H|H]; [exact H|]. exfalso. apply N7. now exists n.
Qed.

Theorem model_meets_spec_map q :
  spec_ok (CMap q false) (run (CMap q false)) = true.
Proof.
  cbn [spec_ok run].
  destruct (map_model (fun _ => []) q) as [[r tr] calls] eqn:M.
  destruct (wfm_b q) eqn:W; cbn [negb].
  - destruct r as [[]|e]; reflexivity.
  - destruct r as [[]|e].
    + exfalso. destruct (accepted_after_all_checks _ q tr calls M) as [Hok _].
      rewrite (wfm_b_complete q (validate_map_wellformed q Hok)) in W. discriminate.
    + destruct (rejected_runs_nothing _ q e tr calls M) as [-> [Hcf _]].
      cbn [length]. rewrite str_eqb_refl. cbn [andb]. change (Z.of_nat 0 =? 0)%Z with true. cbn [andb].
      destruct (q_cleanup q) eqn:Ec; [reflexivity|]. rewrite (Hcf eq_refl). reflexivity.
Qed.

(* ---------- the ordering case and the table case ---------- *)
Theorem model_meets_spec_order cleanup : spec_ok (CPrepOrder cleanup) (run (CPrepOrder cleanup)) = true.
Proof. destruct cleanup; vm_compute; reflexivity. Qed.

(* ---------- pipeline(output, **kwargs): missing / surplus keywords are rejected before anything runs ---------- *)
From Verif Require Model.Pipe Proofs.PipeFacts.

Lemma missingb_false_sufficient p kw o : Pipe.missingb p kw o = false -> Pipe.sufficient p kw o.
Proof.
  unfold Pipe.missingb, Pipe.sufficient. intros H f cur Hf Hc Hs.
  assert (existsb (fun f0 => existsb (fun c => match Pipe.source_of p kw f0 c with Pipe.SMissing => true | _ => false end)
                                    (Pipe.pnames f0)) (Pipe.needed_top p kw o) = true); [|congruence].
  apply existsb_exists. exists f. split; [assumption|]. apply existsb_exists. exists cur. split; [assumption|].
  now rewrite Hs.
Qed.

Theorem model_meets_spec_call p o kw :
  spec_ok (CCall p o kw false) (run (CCall p o kw false)) = true.
Proof.
  cbn [spec_ok run]. unfold call_in_scope.
  destruct (Pipe.wf_pipelineb p) eqn:Hwf; cbn [andb negb]; [|reflexivity].
  destruct (Pipe.is_output p o) eqn:Ho; cbn [andb negb]; [|reflexivity].
  destruct (Pipe.ahas kw o) eqn:Hk; cbn [andb negb]; [reflexivity|].
  unfold Pipe.run_checked, Pipe.run_precheck.
  assert (Hn : Pipe.is_node p o = true) by (unfold Pipe.is_node; now rewrite Ho).
  rewrite Hn, Hk, Ho. cbn [negb orb].
  unfold call_surplus. fold (Pipe.surplusb p kw o).
  destruct (Pipe.missingb p kw o) eqn:Hm.
  - destruct (call_missing p o kw || Pipe.surplusb p kw o); reflexivity.
  - destruct (Pipe.surplusb p kw o) eqn:Hs.
    + rewrite orb_true_r. reflexivity.
    + rewrite orb_false_r.
      assert (Hc : call_missing p o kw = false).
      { unfold call_missing.
        destruct (PipeFacts.eval_ok_of_sufficient Pipe.Sym.body Pipe.Sym.pick p kw o Hwf) as [v Hv];
          [intros f a; eexists; reflexivity|exact Ho|now apply missingb_false_sufficient|].
        now rewrite Hv. }
      rewrite Hc.
      destruct (Pipe.run Pipe.Sym.body Pipe.Sym.pick p o kw false) as [[x|e] lg]; reflexivity.
Qed.

Theorem model_meets_spec_run_order : spec_ok CRunOrder (run CRunOrder) = true.
Proof. vm_compute. reflexivity. Qed.
