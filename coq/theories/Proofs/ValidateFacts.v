(* Proofs about Model/Validate.v against the declarative fault classes of Model/ValidateSpec.v (C12). *)
From Coq Require Import Permutation.
From Verif Require Import Base.Prelude Base.StrOrd Base.StrUtil Base.Graph Model.MapSpec Model.MapSpecSpec
  Model.PrepareSteps Model.Validate Model.ValidateSpec.
From Verif Require Proofs.StrFacts Proofs.ListFacts.
From Verif Require Import Proofs.GraphFacts Proofs.MapSpecFacts Proofs.MapSpecShape Proofs.PrepareFacts.

(* ================================================================== small facts *)
Lemma result_unit_cases (r : result unit) : r = Ok tt \/ exists e, r = Err e.
Proof. destruct r as [[]|e]; eauto. Qed.

Lemma bind_ok_unit (r : result unit) (k : unit -> result unit) :
  bind r k = Ok tt -> r = Ok tt /\ k tt = Ok tt.
Proof. destruct r as [[]|e]; cbn; [auto|discriminate]. Qed.

Lemma intersects_false a b : intersects a b = false <-> forall x, In x a -> ~ In x b.
Proof.
  unfold intersects. split.
  - intros H x Ha Hb. assert (existsb (fun x => mem_str x b) a = true); [|congruence].
    apply existsb_exists. exists x. split; [assumption|]. now apply mem_str_In.
  - intros H. destruct (existsb (fun x => mem_str x b) a) eqn:E; [|reflexivity].
    apply existsb_exists in E as [x [Ha Hb]]. apply mem_str_In in Hb. exfalso. exact (H x Ha Hb).
Qed.

Lemma dict_get_In {V} (d : list (str * V)) k v : dict_get d k = Some v -> In (k, v) d.
Proof.
  induction d as [|[k' v'] d IH]; cbn; [discriminate|].
  destruct (str_eqb k k') eqn:E.
  - intros H. injection H as ->. apply str_eqb_eq in E as ->. now left.
  - intros H. right. now apply IH.
Qed.

Lemma dict_get_app_l {V} (d e : list (str * V)) k v : dict_get d k = Some v -> dict_get (d ++ e) k = Some v.
Proof.
  induction d as [|[k' v'] d IH]; cbn; [discriminate|]. destruct (str_eqb k k'); [auto|exact IH].
Qed.

Lemma dict_get_app_r {V} (d : list (str * V)) k v : dict_get d k = None -> dict_get (d ++ [(k, v)]) k = Some v.
Proof.
  induction d as [|[k' v'] d IH]; cbn.
  - now rewrite str_eqb_refl.
  - destruct (str_eqb k k'); [discriminate|exact IH].
Qed.

Lemma ahas_true {V} (d : list (str * V)) k : ahas d k = true <-> exists v, dict_get d k = Some v.
Proof. unfold ahas. destruct (dict_get d k); split; intros H; eauto; try discriminate. now destruct H. Qed.

Lemma NoDup_app_intro {A} (l l' : list A) :
  NoDup l -> NoDup l' -> (forall a, In a l -> ~ In a l') -> NoDup (l ++ l').
Proof.
  induction l as [|x l IH]; intros H1 H2 H3; [assumption|]. cbn. inversion H1; subst. constructor.
  - rewrite in_app_iff. intros [H|H]; [contradiction|]. exact (H3 x (or_introl eq_refl) H).
  - apply IH; [assumption|assumption|]. intros a Ha. apply H3. now right.
Qed.

Lemma all_outs_app a b : all_outs (a ++ b) = all_outs a ++ all_outs b.
Proof. unfold all_outs. apply flat_map_app. Qed.

Lemma all_outs_In fs o : In o (all_outs fs) <-> exists f, In f fs /\ In o (routs f).
Proof. unfold all_outs. apply in_flat_map. Qed.

(* ================================================================== the default of a parameter *)
Lemma fdefaults_In f k v : In (k, v) (fdefaults f) <-> default_of f k = Some v.
Proof.
  unfold fdefaults, default_of. rewrite in_flat_map. split.
  - intros [p [Hp Hin]].
    assert (p = k) as ->.
    { destruct (dict_get (rdefs f) p); [destruct Hin as [H|[]]; now injection H|].
      destruct (dict_get (rsigd f) p); [|destruct Hin].
      destruct (ahas (rbound f) p); [destruct Hin|]. destruct Hin as [H|[]]. now injection H. }
    apply mem_str_In in Hp. rewrite Hp.
    destruct (dict_get (rdefs f) k); [destruct Hin as [H|[]]; now injection H as ->|].
    destruct (dict_get (rsigd f) k) as [w|]; [|destruct Hin].
    destruct (ahas (rbound f) k); [destruct Hin|]. destruct Hin as [H|[]]. now injection H as ->.
  - destruct (mem_str k (rparams f)) eqn:Hp; [|discriminate]. apply mem_str_In in Hp.
    intros H. exists k. split; [assumption|].
    destruct (dict_get (rdefs f) k); [injection H as ->; now left|].
    destruct (ahas (rbound f) k); [discriminate|]. rewrite H. now left.
Qed.

(* ================================================================== validate_consistent_defaults *)
Lemma check_defaults_ok l : forall seen,
  check_defaults seen l = Ok tt ->
  exists final, (forall k v, dict_get seen k = Some v -> dict_get final k = Some v)
                /\ (forall k v, In (k, v) l -> dict_get final k = Some v).
Proof.
  induction l as [|[k v] t IH]; intros seen H.
  - exists seen. split; [auto|intros ? ? []].
  - cbn [check_defaults] in H. destruct (dict_get seen k) as [v'|] eqn:E.
    + destruct (str_eqb v v') eqn:Ev; [|discriminate]. apply str_eqb_eq in Ev as ->.
      destruct (IH seen H) as [final [H1 H2]]. exists final. split; [assumption|].
      intros k0 v0 [Heq|Hin]; [injection Heq as <- <-; now apply H1|now apply H2].
    + destruct (IH _ H) as [final [H1 H2]]. exists final. split.
      * intros k0 v0 Hk0. apply H1. now apply dict_get_app_l.
      * intros k0 v0 [Heq|Hin]; [injection Heq as <- <-; apply H1; now apply dict_get_app_r|now apply H2].
Qed.

Lemma consistent_defaults_sound fs : consistent_defaults fs = Ok tt -> ~ F_defaults fs.
Proof.
  unfold consistent_defaults. intros H [f [g [k [v [w [Hf [Hg [Hno [Hbf [Hbg [Hdf [Hdg Hne]]]]]]]]]]]].
  destruct (check_defaults_ok _ _ H) as [final [_ Hfin]].
  assert (He : forall h u, In h fs -> is_bound h k = false -> default_of h k = Some u -> In (k, u) (default_entries fs)).
  { intros h u Hh Hb Hd. unfold default_entries. apply in_flat_map. exists h. split; [assumption|].
    apply filter_In. split; [now apply fdefaults_In|]. cbn [fst]. unfold is_bound in Hb. rewrite Hb. cbn.
    apply negb_true_iff. now apply mem_str_not_In. }
  pose proof (Hfin _ _ (He f v Hf Hbf Hdf)) as E1. pose proof (Hfin _ _ (He g w Hg Hbg Hdg)) as E2.
  rewrite E1 in E2. injection E2 as ->. now apply Hne.
Qed.

(* ================================================================== PipeFunc-level validation *)
Lemma raw_of_raw_pairs l : raw_of (raw_pairs l) = l.
Proof. unfold raw_of, raw_pairs. induction l as [|[n ax] l IH]; cbn; [reflexivity|]. now rewrite IH. Qed.

Lemma validate_func_names f : validate_func f = Ok tt -> validate_names f = Ok tt.
Proof.
  unfold validate_func. destruct (rspec f) as [m|]; [|auto].
  destruct (build _ _) as [m'|e]; cbn [bind]; [|discriminate]. intros H. now apply bind_ok_unit in H as [H _].
Qed.

Lemma validate_names_facts f :
  validate_names f = Ok tt -> NoDup (routs f) /\ (forall o, In o (routs f) -> ~ In o (rparams f)).
Proof.
  unfold validate_names. intros H.
  destruct (intersects (akeys (rdefs f)) (akeys (rbound f))); [discriminate|].
  destruct (nodup_strb (routs f)) eqn:E1; cbn [negb] in H; [|discriminate].
  destruct (intersects (rparams f) (routs f)) eqn:E2; [discriminate|].
  split; [now apply nodup_strb_NoDup|]. intros o Ho Hp.
  exact (proj1 (intersects_false _ _) E2 o Hp Ho).
Qed.

Lemma validate_func_spec f m :
  validate_func f = Ok tt -> rspec f = Some m ->
  wf_decl m = true /\ incl (input_names m) (rparams f) /\ seteq_str (output_names m) (routs f) = true
  /\ intersects (akeys (rbound f)) (input_names m) = false.
Proof.
  unfold validate_func. intros H E. rewrite E in H.
  destruct (build (raw_pairs (ins m)) (raw_pairs (outs m))) as [m'|e] eqn:B; cbn [bind] in H; [|discriminate].
  apply build_accepts_iff_wf in B as [Hwf ->]. rewrite !raw_of_raw_pairs in *.
  assert (Hm : {| ins := ins m; outs := outs m |} = m) by (now destruct m). rewrite Hm in *.
  apply bind_ok_unit in H as [_ H]. unfold validate_func_mapspec in H.
  destruct (subset_str (input_names m) (rparams f)) eqn:E1; cbn [negb] in H; [|discriminate].
  destruct (intersects (akeys (rbound f)) (input_names m)) eqn:E2; [discriminate|].
  destruct (seteq_str (output_names m) (routs f)) eqn:E3; cbn [negb] in H; [|discriminate].
  repeat split; try assumption. now apply subset_str_incl.
Qed.

(* ================================================================== Pipeline.add, folded *)
Lemma first_err_none {A} (chk : A -> result unit) l : forall i,
  first_err chk l i = None -> forall x, In x l -> chk x = Ok tt.
Proof.
  induction l as [|y l IH]; intros i H x Hx; [destruct Hx|]. cbn in H.
  destruct (chk y) as [[]|e] eqn:E; [|discriminate]. destruct Hx as [<-|Hx]; [assumption|eauto].
Qed.

Lemma adds_last todo : forall done f i,
  adds done (todo ++ [f]) i = None -> add_checks (done ++ todo) f = Ok tt.
Proof.
  induction todo as [|g todo IH]; intros done f i H; cbn [app adds] in H.
  - rewrite app_nil_r. destruct (add_checks done f) as [[]|e]; [reflexivity|discriminate].
  - destruct (add_checks done g) as [[]|e]; [|discriminate].
    apply IH in H. now rewrite <- app_assoc in H.
Qed.

Lemma adds_nodup todo : forall done i,
  adds done todo i = None -> NoDup (all_outs done) -> (forall f, In f todo -> NoDup (routs f)) ->
  NoDup (all_outs (done ++ todo)).
Proof.
  induction todo as [|g todo IH]; intros done i H Hd Hf; cbn [adds] in H.
  - now rewrite app_nil_r.
  - destruct (add_checks done g) as [[]|e] eqn:E; [|discriminate].
    replace (done ++ g :: todo) with ((done ++ [g]) ++ todo) by (now rewrite <- app_assoc).
    apply (IH _ _ H); [|intros f Hin; apply Hf; now right].
    unfold add_checks in E. apply bind_ok_unit in E as [E _]. unfold unique_new in E.
    destruct (intersects (routs g) (all_outs done)) eqn:Ei; [discriminate|].
    rewrite all_outs_app. unfold all_outs at 2. cbn [flat_map]. rewrite app_nil_r.
    apply NoDup_app_intro; [assumption|apply Hf; now left|].
    intros x Hx Hg. exact (proj1 (intersects_false _ _) Ei x Hg Hx).
Qed.

(* ================================================================== cycles *)
Lemma flat_map_NoDup_inj {A} (h : A -> list str) l : NoDup (flat_map h l) ->
  forall a b x, In a l -> In b l -> In x (h a) -> In x (h b) -> a = b.
Proof.
  induction l as [|y l IH]; intros H a b x Ha Hb Hxa Hxb; [destruct Ha|].
  cbn [flat_map] in H.
  assert (Hl : NoDup (flat_map h l)).
  { clear -H. induction (h y) as [|z t IHt]; [exact H|]. cbn in H. inversion H; subst. now apply IHt. }
  assert (Hdisj : forall z c, In c l -> In z (h y) -> In z (h c) -> False).
  { clear -H. intros z c Hc Hz Hzc. induction (h y) as [|w t IHt]; [destruct Hz|]. cbn in H. inversion H; subst.
    destruct Hz as [->|Hz]; [|now apply IHt].
    apply H2. apply in_app_iff. right. apply in_flat_map. eauto. }
  destruct Ha as [<-|Ha], Hb as [<-|Hb]; [reflexivity| | |now apply (IH Hl a b x)].
  - exfalso. exact (Hdisj x b Hb Hxa Hxb).
  - exfalso. exact (Hdisj x a Ha Hxb Hxa).
Qed.

Lemma producer_unique fs f p :
  NoDup (all_outs fs) -> In f fs -> In p (routs f) -> producer fs p = Some f.
Proof.
  intros Hnd Hf Hp. unfold producer.
  destruct (find (fun g => mem_str p (routs g)) fs) as [g|] eqn:E.
  - apply find_some in E as [Hg Hpg]. apply mem_str_In in Hpg.
    f_equal. exact (flat_map_NoDup_inj routs fs Hnd g f p Hg Hf Hpg Hp).
  - exfalso. pose proof (find_none _ _ E f Hf) as Hn. cbn in Hn. apply mem_str_not_In in Hn. contradiction.
Qed.

Lemma reads_edge fs f g :
  NoDup (all_outs fs) -> In f fs -> In g fs -> reads f g = true -> In (fid f, fid g) (edges (fgraph fs)).
Proof.
  intros Hnd Hf Hg Hr. unfold reads in Hr. apply existsb_exists in Hr as [p [Hp Hr]].
  apply andb_true_iff in Hr as [Hb Ho]. apply negb_true_iff in Hb. apply mem_str_In in Ho.
  unfold fgraph. cbn [edges]. apply in_flat_map. exists g. split; [assumption|].
  apply in_map_iff. exists (fid f). split; [reflexivity|]. apply dedup_In.
  unfold fdeps. apply in_flat_map. exists p. split; [assumption|].
  unfold is_bound in Hb. rewrite Hb. rewrite (producer_unique fs f p Hnd Hf Ho). now left.
Qed.

Lemma acyclic_sound fs : acyclicb (fgraph fs) = true -> NoDup (all_outs fs) -> ~ F_cycle fs.
Proof.
  unfold acyclicb. destruct (topo_generations (fgraph fs)) as [ls|] eqn:E; [|discriminate]. intros _ Hnd.
  destruct (topo_rank _ _ E) as [_ Hord].
  assert (Hnode : forall f, In f fs -> In (fid f) (nodes (fgraph fs))).
  { intros f Hf. cbn. now apply in_map. }
  assert (Hpath : forall f g, dep_path fs f g -> rank_of ls (fid f) < rank_of ls (fid g)).
  { intros f g P. induction P as [f g Hf Hg Hr|f g h Hf Hg Hr P IH].
    - apply Hord; [now apply Hnode|now apply Hnode|now apply reads_edge].
    - assert (rank_of ls (fid f) < rank_of ls (fid g)); [|lia].
      apply Hord; [now apply Hnode|now apply Hnode|now apply reads_edge]. }
  intros [f P]. specialize (Hpath f f P). lia.
Qed.

(* ================================================================== MapSpec vs signature *)
Lemma str_list_eqb_eq (a b : list str) : list_eqb str_eqb a b = true <-> a = b.
Proof. apply StrFacts.list_eqb_eq. intros x y. apply str_eqb_eq. Qed.

Lemma spec_signature_sound fs :
  (forall f, In f fs -> validate_func f = Ok tt) -> mapspec_outputs_match fs = Ok tt -> ~ F_spec_signature fs.
Proof.
  intros Hv Hm [f [m [Hf [Hs [Hbad|Hbad]]]]].
  - destruct (validate_func_spec f m (Hv f Hf) Hs) as [_ [Hincl _]]. contradiction.
  - unfold mapspec_outputs_match in Hm.
    destruct (forallb _ fs) eqn:E; [|discriminate]. rewrite forallb_forall in E. specialize (E f Hf).
    rewrite Hs in E. apply str_list_eqb_eq in E. congruence.
Qed.

(* ================================================================== validate_consistent_axes *)
Lemma merge_pos_spec cur : forall ax r,
  merge_pos cur ax = Ok r ->
  length r = length cur
  /\ (forall k x, nth_error cur k = Some (Some x) -> nth_error r k = Some (Some x))
  /\ (forall k x, k < length cur -> nth_error ax k = Some (Some x) -> nth_error r k = Some (Some x)).
Proof.
  induction cur as [|c cs IH]; intros ax r H.
  - cbn in H. injection H as <-. repeat split; try reflexivity; intros k x; [auto|cbn; lia].
  - destruct ax as [|a as_]; cbn [merge_pos] in H.
    + injection H as <-. repeat split; try reflexivity; [auto|]. intros k x _ Hk. destruct k; discriminate.
    + assert (G : forall r0 h, merge_pos cs as_ = Ok r0 ->
                (match c with Some x => Some x | None => a end) = h ->
                (forall x y, c = Some x -> a = Some y -> x = y) ->
                length (h :: r0) = length (c :: cs)
                /\ (forall k x, nth_error (c :: cs) k = Some (Some x) -> nth_error (h :: r0) k = Some (Some x))
                /\ (forall k x, k < length (c :: cs) -> nth_error (a :: as_) k = Some (Some x) ->
                               nth_error (h :: r0) k = Some (Some x))).
      { intros r0 h Hr0 Hh Hc. destruct (IH _ _ Hr0) as [L [P1 P2]]. repeat split.
        - cbn. now rewrite L.
        - intros [|k] x Hk; cbn in *; [|now apply P1]. injection Hk as ->. now subst h.
        - intros [|k] x Hlt Hk; cbn in *; [|apply P2; [lia|assumption]].
          injection Hk as ->. subst h. destruct c as [x'|]; [|reflexivity]. now rewrite (Hc x' x eq_refl eq_refl). }
      destruct c as [x|], a as [y|].
      * destruct (str_eqb x y) eqn:E; [|discriminate]. apply str_eqb_eq in E as <-.
        destruct (merge_pos cs as_) as [r0|e] eqn:M; cbn [bind] in H; [|discriminate]. injection H as <-.
        apply (G r0 (Some x) eq_refl eq_refl). intros ? ? [= <-] [= <-]. reflexivity.
      * destruct (merge_pos cs as_) as [r0|e] eqn:M; cbn [bind] in H; [|discriminate]. injection H as <-.
        apply (G r0 (Some x) eq_refl eq_refl). intros ? ? _ [=].
      * destruct (merge_pos cs as_) as [r0|e] eqn:M; cbn [bind] in H; [|discriminate]. injection H as <-.
        apply (G r0 (Some y) eq_refl eq_refl). intros ? ? [=].
      * destruct (merge_pos cs as_) as [r0|e] eqn:M; cbn [bind] in H; [|discriminate]. injection H as <-.
        apply (G r0 None eq_refl eq_refl). intros ? ? [=].
Qed.

Lemma merge_fold_spec l : forall cur final,
  fold_left (fun acc b => do c <- acc; merge_pos c (axes b)) l (Ok cur) = Ok final ->
  length final = length cur
  /\ (forall k x, nth_error cur k = Some (Some x) -> nth_error final k = Some (Some x))
  /\ (forall b k x, In b l -> k < length cur -> nth_error (axes b) k = Some (Some x) ->
                    nth_error final k = Some (Some x)).
Proof.
  induction l as [|b l IH]; intros cur final H; cbn [fold_left bind] in H.
  - injection H as <-. repeat split; [auto|intros ? ? ? []].
  - destruct (merge_pos cur (axes b)) as [r|e] eqn:M.
    + destruct (merge_pos_spec _ _ _ M) as [L [P1 P2]]. destruct (IH _ _ H) as [L' [Q1 Q2]]. repeat split.
      * congruence.
      * intros k x Hk. apply Q1. now apply P1.
      * intros b0 k x [<-|Hin] Hlt Hk; [apply Q1; now apply P2|]. apply (Q2 b0); [assumption|lia|assumption].
    + rewrite ListFacts.fold_left_bind_err in H. discriminate.
Qed.

Lemma check_name_axes_sound l a b :
  check_name_axes l = Ok tt -> In a l -> In b l -> axes_agree a b.
Proof.
  destruct l as [|a0 t]; [intros _ []|]. unfold check_name_axes.
  destruct (forallb (fun b0 => rank b0 =? rank a0) t) eqn:R; cbn [negb]; [|discriminate].
  destruct (fold_left _ (a0 :: t) (Ok (repeat None (rank a0)))) as [final|e] eqn:F; cbn [bind]; [|discriminate].
  intros _ Ha Hb.
  assert (Hr : forall c, In c (a0 :: t) -> rank c = rank a0).
  { intros c [<-|Hc]; [reflexivity|]. rewrite forallb_forall in R. now apply Nat.eqb_eq, R. }
  destruct (merge_fold_spec _ _ _ F) as [_ [_ Q]]. rewrite repeat_length in Q.
  split; [now rewrite (Hr a Ha), (Hr b Hb)|].
  intros k x y Hx Hy.
  assert (Hk : forall c z, In c (a0 :: t) -> nth_error (axes c) k = Some (Some z) -> k < rank a0).
  { intros c z Hc Hz. rewrite <- (Hr c Hc). unfold rank. apply nth_error_Some. congruence. }
  pose proof (Q a k x Ha (Hk a x Ha Hx) Hx) as E1. pose proof (Q b k y Hb (Hk b y Hb Hy) Hy) as E2.
  congruence.
Qed.

Lemma consistent_axes_sound fs : validate_consistent_axes (specs_of fs) = Ok tt -> ~ F_axes fs.
Proof.
  unfold validate_consistent_axes. set (all := all_aspecs (specs_of fs)).
  destruct (mapM _ (StrOrd.dedup (map aname all))) as [r|e] eqn:M; cbn [bind]; [|discriminate].
  intros _ [a [b [Ha [Hb [Hn Hbad]]]]]. apply Hbad.
  assert (Hin : In (aname a) (StrOrd.dedup (map aname all))) by (apply dedup_In; now apply in_map).
  destruct (ListFacts.mapM_ok_in _ _ _ _ M Hin) as [[] [Hc _]].
  apply (check_name_axes_sound _ a b Hc); unfold specs_named; apply filter_In; split; try assumption.
  - apply str_eqb_refl.
  - rewrite <- Hn. apply str_eqb_refl.
Qed.

(* ================================================================== construction: soundness and completeness *)
Lemma construct_ok_parts fs :
  validate_construct fs = Ok tt ->
  (forall f, In f fs -> validate_func f = Ok tt)
  /\ NoDup (all_outs fs)
  /\ (fs = [] \/ exists init f, fs = init ++ [f] /\ add_checks init f = Ok tt).
Proof.
  unfold validate_construct, construct_outcome.
  destruct (first_err validate_func fs 0) as [[i e]|] eqn:E1; [discriminate|].
  destruct (adds [] fs 0) as [[i e]|] eqn:E2; [discriminate|]. intros _.
  pose proof (first_err_none _ _ _ E1) as Hv. split; [exact Hv|]. split.
  - apply (adds_nodup fs [] 0 E2); [constructor|].
    intros f Hf. exact (proj1 (validate_names_facts f (validate_func_names f (Hv f Hf)))).
  - destruct fs as [|f0 t]; [now left|right].
    destruct (@exists_last _ (f0 :: t)) as [init [f Heq]]; [discriminate|].
    exists init, f. split; [exact Heq|]. rewrite Heq in E2. exact (adds_last init [] f 0 E2).
Qed.

Theorem validate_construct_sound fs : validate_construct fs = Ok tt -> WellFormedC fs.
Proof.
  intros H. destruct (construct_ok_parts fs H) as [Hv [Hnd Hlast]].
  assert (H2 : ~ F_out_is_param fs).
  { intros [f [o [Hf [Ho Hp]]]].
    exact (proj2 (validate_names_facts f (validate_func_names f (Hv f Hf))) o Ho Hp). }
  destruct Hlast as [->|[init [f [-> Ha]]]].
  - repeat split; try assumption.
    + intros Hd. apply Hd. constructor.
    + intros [f P]. inversion P; contradiction.
    + intros [f [g [k [v [w [[] _]]]]]].
    + intros [f [m [[] _]]].
    + intros [a [b [[] _]]].
  - unfold add_checks in Ha.
    apply bind_ok_unit in Ha as [_ Ha]. apply bind_ok_unit in Ha as [Hd Ha].
    apply bind_ok_unit in Ha as [Hm Ha]. apply bind_ok_unit in Ha as [Hx Ha].
    destruct (acyclicb (fgraph (init ++ [f]))) eqn:Hc; [|discriminate].
    repeat split.
    + intros Hdup. now apply Hdup.
    + assumption.
    + now apply acyclic_sound.
    + now apply consistent_defaults_sound.
    + now apply spec_signature_sound.
    + now apply consistent_axes_sound.
Qed.

(* each fault class of the property is rejected (contrapositive of soundness; the result type is decidable) *)
Theorem validate_construct_complete_per_fault fs :
  (F_dup_output fs \/ F_out_is_param fs \/ F_cycle fs \/ F_defaults fs \/ F_spec_signature fs \/ F_axes fs) ->
  exists e, validate_construct fs = Err e.
Proof.
  intros HF. destruct (result_unit_cases (validate_construct fs)) as [Hok|Herr]; [|exact Herr].
  destruct (validate_construct_sound fs Hok) as [N1 [N2 [N3 [N4 [N5 N6]]]]]. tauto.
Qed.

(* ================================================================== map: the individual checks *)
Lemma first_failure_ok {ctx} (chk0 : str -> ctx -> result unit) steps c :
  first_failure chk0 steps c = Ok tt -> forall l, In (Check l) steps -> chk0 l c = Ok tt.
Proof.
  induction steps as [|st t IH]; intros H l Hin; [destruct Hin|].
  destruct st as [l0| | | |]; cbn [first_failure] in H;
    try (destruct Hin as [Heq|Hin]; [discriminate|now apply IH]).
  destruct (chk0 l0 c) as [[]|e] eqn:E; [|discriminate].
  destruct Hin as [Heq|Hin]; [injection Heq as <-; exact E|now apply IH].
Qed.

Lemma chk_exec q : chk L_exec q = c_exec q. Proof. reflexivity. Qed.
Lemma chk_inputs q : chk L_inputs q = c_inputs q. Proof. reflexivity. Qed.
Lemma chk_axes q : chk L_axes q = c_axes q. Proof. reflexivity. Qed.
Lemma chk_st_names q : chk L_st_names q = c_st_names q. Proof. reflexivity. Qed.
Lemma chk_check_inputs q : chk L_check_inputs q = check_inputs q. Proof. reflexivity. Qed.
Lemma chk_map_shapes q : chk L_map_shapes q = c_map_shapes q. Proof. reflexivity. Qed.

Lemma in_steps_head l cleanup : In (Check l) steps_head -> In (Check l) (map_steps cleanup).
Proof. intros H. unfold map_steps. apply in_app_iff. now left. Qed.
Lemma in_steps_tail l cleanup : In (Check l) steps_tail -> In (Check l) (map_steps cleanup).
Proof. intros H. unfold map_steps. apply in_app_iff. right. apply in_app_iff. now right. Qed.

Lemma validate_map_checks_raw q :
  validate_map q = Ok tt ->
  c_exec q = Ok tt /\ c_inputs q = Ok tt /\ c_axes q = Ok tt /\ c_st_names q = Ok tt
  /\ check_inputs q = Ok tt /\ c_map_shapes q = Ok tt.
Proof.
  unfold validate_map. intros H. pose proof (first_failure_ok chk _ q H) as G.
  rewrite <- chk_exec, <- chk_inputs, <- chk_axes, <- chk_st_names, <- chk_check_inputs, <- chk_map_shapes.
  repeat split; apply G.
  1-4: apply in_steps_head; cbn; tauto.
  all: apply in_steps_tail; cbn; tauto.
Qed.

Lemma validate_map_checks q :
  validate_map q = Ok tt ->
  c_exec q = Ok tt /\ validate_complete_inputs q = Ok tt /\ c_axes q = Ok tt /\ c_st_names q = Ok tt
  /\ check_inputs q = Ok tt /\ c_map_shapes q = Ok tt.
Proof.
  intros H. destruct (validate_map_checks_raw q H) as [H1 [H2 H3]]. split; [exact H1|]. split; [|exact H3].
  unfold c_inputs in H2. now apply bind_ok_unit in H2 as [_ H2].
Qed.

(* the graph (re)built at the start of run / map: duplicate outputs, inconsistent defaults, cycles *)
Lemma graph_checks_sound fs :
  graph_checks fs = Ok tt -> ~ F_dup_output fs /\ ~ F_defaults fs /\ ~ F_cycle fs.
Proof.
  unfold graph_checks. intros H. apply bind_ok_unit in H as [Hu H]. apply bind_ok_unit in H as [Hd H].
  destruct (acyclicb (fgraph fs)) eqn:Hc; [|discriminate].
  unfold unique_outputs in Hu. destruct (nodup_strb (all_outs fs)) eqn:En; [|discriminate].
  apply nodup_strb_NoDup in En. repeat split.
  - intros Hdup. now apply Hdup.
  - now apply consistent_defaults_sound.
  - now apply acyclic_sound.
Qed.

Lemma validate_map_graph q :
  validate_map q = Ok tt -> graph_checks (q_funcs q) = Ok tt.
Proof.
  intros H. destruct (validate_map_checks_raw q H) as [_ [H2 _]]. unfold c_inputs in H2.
  now apply bind_ok_unit in H2 as [H2 _].
Qed.

(* ---------- roots, defaults, supplied values ---------- *)
Lemma is_root_In fs x : is_root fs x = true <-> In x (root_args fs).
Proof.
  unfold is_root, root_args. rewrite dedup_In, in_flat_map. split.
  - intros H. apply andb_true_iff in H as [Ho He]. apply existsb_exists in He as [f [Hf Hp]].
    apply andb_true_iff in Hp as [Hp Hb]. exists f. split; [assumption|]. apply filter_In.
    split; [now apply mem_str_In|]. unfold is_bound in Hb. now rewrite Hb, Ho.
  - intros [f [Hf Hx]]. apply filter_In in Hx as [Hp Hc]. apply andb_true_iff in Hc as [Hb Ho].
    rewrite Ho. cbn. apply existsb_exists. exists f. split; [assumption|].
    unfold is_bound. rewrite Hb. apply mem_str_In in Hp. now rewrite Hp.
Qed.

Lemma akeys_In {V} (d : list (str * V)) k : In k (akeys d) <-> exists v, dict_get d k = Some v.
Proof.
  unfold akeys. induction d as [|[k' v'] d IH]; cbn.
  - split; [intros []|intros [v H]; discriminate].
  - destruct (str_eqb k k') eqn:E.
    + apply str_eqb_eq in E as ->. split; [eauto|auto].
    + apply str_eqb_neq in E. rewrite IH. split; [intros [H|H]; [congruence|exact H]|auto].
Qed.

Lemma pipeline_defaults_key fs x :
  In x (akeys (pipeline_defaults fs)) -> has_default fs x = true.
Proof.
  unfold akeys, pipeline_defaults. rewrite in_map_iff. intros [[k v] [<- Hin]]. cbn [fst].
  apply in_flat_map in Hin as [f [Hf Hin]]. apply filter_In in Hin as [Hd Hc]. cbn [fst] in Hc.
  apply andb_true_iff in Hc as [Hb _]. apply fdefaults_In in Hd.
  unfold has_default. apply existsb_exists. exists f. split; [assumption|]. unfold is_bound. now rewrite Hb, Hd.
Qed.

Lemma complete_inputs_sound q :
  validate_complete_inputs q = Ok tt -> ~ F_missing_input q /\ ~ F_surplus_input q.
Proof.
  unfold validate_complete_inputs.
  set (roots := root_args (q_funcs q)). set (given := akeys (q_inputs q) ++ akeys (pipeline_defaults (q_funcs q))).
  destruct (subset_str roots given) eqn:E1; cbn [negb]; [|discriminate].
  destruct (subset_str given roots) eqn:E2; cbn [negb]; [|discriminate]. intros _.
  apply subset_str_incl in E1, E2. split.
  - intros [x [Hr Hv]]. apply is_root_In in Hr. specialize (E1 x Hr). unfold given in E1.
    apply in_app_iff in E1 as [Hi|Hd]; unfold value_of in Hv.
    + apply akeys_In in Hi as [v Hi]. now rewrite Hi in Hv.
    + apply pipeline_defaults_key in Hd. rewrite Hd in Hv. destruct (dict_get (q_inputs q) x); discriminate.
  - intros [x [Hk Hr]]. assert (In x roots) as Hx by (apply E2; unfold given; apply in_app_iff; now left).
    apply is_root_In in Hx. congruence.
Qed.

Lemma storage_names_sound q : c_st_names q = Ok tt -> ~ F_storage q.
Proof.
  unfold c_st_names, all_ok. destruct (mapM _ (storage_names q)) as [r|e] eqn:M; cbn [bind]; [|discriminate].
  intros _ [n [Hn Hbad]]. destruct (ListFacts.mapM_ok_in _ _ _ _ M Hn) as [[] [Hc _]].
  unfold get_storage_class in Hc. destruct (mem_str n (q_registry q)) eqn:E; [|discriminate].
  apply mem_str_In in E. contradiction.
Qed.

(* ---------- map_shapes: the rank of every mapped root input is validated ---------- *)
Lemma dict_set_get_other {V} (d : list (str * V)) k v x : x <> k -> dict_get (dict_set d k v) x = dict_get d x.
Proof.
  intros Hne. induction d as [|[k' v'] d IH]; cbn.
  - destruct (str_eqb x k) eqn:E; [apply str_eqb_eq in E; contradiction|reflexivity].
  - destruct (str_eqb k k') eqn:Ek; cbn.
    + apply str_eqb_eq in Ek as <-. destruct (str_eqb x k) eqn:E; [apply str_eqb_eq in E; contradiction|reflexivity].
    + destruct (str_eqb x k'); [reflexivity|exact IH].
Qed.

Lemma fold_dict_set_other {V} (v : V) x os : forall d,
  ~ In x os -> dict_get (fold_left (fun acc o => dict_set acc o v) os d) x = dict_get d x.
Proof.
  induction os as [|o os IH]; intros d Hn; cbn [fold_left]; [reflexivity|].
  rewrite IH by (intros H; apply Hn; now right).
  apply dict_set_get_other. intros ->. apply Hn. now left.
Qed.

Lemma restrict_get {V} (d : list (str * V)) names x : In x names -> dict_get (restrict d names) x = dict_get d x.
Proof.
  unfold restrict. induction names as [|n names IH]; intros Hin; [destruct Hin|]. cbn [flat_map].
  destruct (str_eq_dec x n) as [->|Hne].
  - destruct (dict_get d n) as [v|] eqn:E; cbn.
    + now rewrite str_eqb_refl.
    + destruct Hin as [_|Hin]; [|now apply IH].
      (* n does not occur any more: every later entry has a key present in d *)
      clear IH. induction names as [|n' names IH']; [reflexivity|]. cbn [flat_map].
      destruct (dict_get d n') as [v'|] eqn:E'; cbn; [|exact IH'].
      destruct (str_eqb n n') eqn:En; [apply str_eqb_eq in En as <-; congruence|exact IH'].
  - destruct Hin as [Heq|Hin]; [congruence|].
    destruct (dict_get d n) as [v|]; cbn; [|now apply IH].
    destruct (str_eqb x n) eqn:E; [apply str_eqb_eq in E; contradiction|now apply IH].
Qed.

Lemma fold_bind_inv {S A} (F : S -> A -> result S) (Inv : S -> Prop) l :
  (forall s g s', In g l -> Inv s -> F s g = Ok s' -> Inv s') ->
  forall s0 final, Inv s0 -> fold_left (fun acc g => do s <- acc; F s g) l (Ok s0) = Ok final ->
  forall f, In f l -> exists s s', Inv s /\ F s f = Ok s'.
Proof.
  induction l as [|g l IH]; intros Hstep s0 final H0 H f Hf; [destruct Hf|]. cbn [fold_left bind] in H.
  destruct (F s0 g) as [s1|e] eqn:E; [|rewrite ListFacts.fold_left_bind_err in H; discriminate].
  destruct Hf as [<-|Hf]; [eauto|].
  apply (IH (fun s g0 s' Hg => Hstep s g0 s' (or_intror Hg)) s1 final); [|assumption|assumption].
  apply (Hstep s0 g s1); [now left|assumption|assumption].
Qed.

Lemma sorted_funcs_In fs f : In f fs -> In f (sorted_funcs fs).
Proof.
  intros Hf. unfold sorted_funcs. destruct (topo_generations (fgraph fs)) as [ls|] eqn:E; [|assumption].
  unfold topo_generations in E. destruct (kahn_sound _ _ _ _ E) as [_ [Hcov _]].
  destruct (Hcov (fid f)) as [l [Hl Hin]]; [cbn; now apply in_map|].
  apply in_flat_map. exists (fid f). split; [apply in_concat; eauto|].
  apply filter_In. split; [assumption|apply str_eqb_refl].
Qed.

Lemma sorted_funcs_sub fs f : In f (sorted_funcs fs) -> In f fs.
Proof.
  unfold sorted_funcs. destruct (topo_generations (fgraph fs)); [|auto].
  intros H. apply in_flat_map in H as [n [_ H]]. now apply filter_In in H as [H _].
Qed.

Lemma mapM_keys {A} (F : str -> result (str * A)) l r :
  (forall p y, F p = Ok y -> fst y = p) -> mapM F l = Ok r -> map fst r = l.
Proof.
  intros HF H. apply ListFacts.mapM_Forall2 in H. induction H as [|p y l r Hp _ IH]; [reflexivity|].
  cbn. now rewrite (HF p y Hp), IH.
Qed.

Lemma dict_get_of_In {V} (d : list (str * V)) k v : NoDup (map fst d) -> In (k, v) d -> dict_get d k = Some v.
Proof.
  induction d as [|[k' v'] d IH]; intros Hnd Hin; [destruct Hin|]. cbn in *. inversion Hnd; subst.
  destruct Hin as [Heq|Hin].
  - injection Heq as -> ->. now rewrite str_eqb_refl.
  - destruct (str_eqb k k') eqn:E; [|now apply IH].
    apply str_eqb_eq in E as ->. exfalso. apply H1. apply in_map_iff. exists (k', v). auto.
Qed.

Lemma array_shape_of v sh : array_shape v = Ok sh <-> shape_of v = Some sh.
Proof. destruct v; cbn; split; intros H; try discriminate; now injection H as <-. Qed.

(* the state in which map_shapes reaches a function: every mapped root input still has the shape of its value *)
Definition roots_recorded (q : mreq) (st : shapes_t) : Prop :=
  forall x v, is_root (q_funcs q) x = true -> In x (spec_names (q_funcs q)) -> value_of q x = Some v ->
              exists sh, shape_of v = Some sh /\ dict_get st x = Some sh.

Lemma map_shapes_state q internal final f :
  map_shapes q internal = Ok final -> In f (q_funcs q) ->
  exists st st', roots_recorded q st /\ func_shape internal st f = Ok st'.
Proof.
  unfold map_shapes. destruct (root_shapes q) as [roots|e] eqn:R; cbn [bind]; [|discriminate].
  intros Hfold Hf. set (fs := q_funcs q) in *.
  assert (Hkeys : map fst roots = filter (fun p => mem_str p (spec_names fs)) (root_args fs)).
  { eapply mapM_keys; [|exact R]. intros p y Hp. cbn beta in Hp.
    destruct (input_value q p) as [i|]; [|discriminate]. destruct (array_shape i); cbn in Hp; [|discriminate].
    now injection Hp as <-. }
  assert (H0 : roots_recorded q roots).
  { intros x v Hroot Hspec Hv. fold fs in Hroot, Hspec.
    assert (Hx : In x (filter (fun p => mem_str p (spec_names fs)) (root_args fs))).
    { apply filter_In. split; [now apply is_root_In|now apply mem_str_In]. }
    unfold root_shapes in R. fold fs in R.
    destruct (ListFacts.mapM_ok_in _ _ _ _ R Hx) as [y [Hy Hyin]].
    destruct (input_value q x) as [v'|] eqn:Ev; [|discriminate].
    destruct (array_shape v') as [sh|e] eqn:Esh; cbn [bind] in Hy; [|discriminate]. injection Hy as <-.
    assert (Hvv : v' = v).
    { unfold input_value in Ev. unfold value_of in Hv. destruct (dict_get (q_inputs q) x) as [w|]; [congruence|].
      destruct (dict_get (pipeline_defaults (q_funcs q)) x); cbn in Ev; [|discriminate].
      injection Ev as <-. discriminate. }
    subst v'. apply array_shape_of in Esh. exists sh. split; [assumption|].
    apply dict_get_of_In; [|assumption].
    rewrite Hkeys. apply MapSpecFacts.filter_NoDup. unfold root_args. apply dedup_NoDup. }
  destruct (fold_bind_inv (func_shape internal) (roots_recorded q) (sorted_funcs fs)) with
    (s0 := roots) (final := final) (f := f) as [s [s' [Hinv Hstep]]]; try assumption.
  - intros s g s' Hg Hinv Hstep. unfold func_shape in Hstep.
    destruct (rspec g) as [mg|]; [|injection Hstep as <-; exact Hinv].
    destruct (shape mg _ _) as [r|e]; cbn [bind] in Hstep; [|discriminate]. injection Hstep as <-.
    apply sorted_funcs_sub in Hg. intros x v Hroot Hspec Hv.
    destruct (Hinv x v Hroot Hspec Hv) as [sh [E1 E2]]. exists sh. split; [assumption|].
    rewrite fold_dict_set_other; [assumption|].
    intros Hxg. unfold is_root in Hroot. apply andb_true_iff in Hroot as [Ho _].
    apply negb_true_iff, mem_str_not_In in Ho. apply Ho. apply all_outs_In. eauto.
  - now apply sorted_funcs_In.
  - eauto.
Qed.

Lemma spec_input_named fs f m a : In f fs -> rspec f = Some m -> In a (ins m) -> In (aname a) (spec_names fs).
Proof.
  intros Hf Hs Ha. unfold spec_names. apply in_map. unfold all_aspecs, specs_of. apply in_flat_map. exists m. split.
  - apply in_flat_map. exists f. split; [assumption|]. rewrite Hs. now left.
  - apply in_app_iff. now left.
Qed.

Lemma map_shapes_rank q internal final :
  map_shapes q internal = Ok final -> ~ F_rank q.
Proof.
  intros Hm [f [m [a [v [Hf [Hs [Ha [Hroot [Hv Hbad]]]]]]]]].
  destruct (map_shapes_state q internal final f Hm Hf) as [st [st' [Hinv Hstep]]].
  destruct (Hinv (aname a) v Hroot (spec_input_named _ f m a Hf Hs Ha) Hv) as [sh [E1 E2]].
  unfold func_shape in Hstep. rewrite Hs in Hstep.
  destruct (shape m _ _) as [r|e] eqn:Eshape; cbn [bind] in Hstep; [|discriminate].
  rewrite shape_unfold, validate_shapes_spec in Eshape.
  destruct (req123 m _ _) eqn:Ereq; cbn [bind] in Eshape; [|discriminate].
  unfold req123 in Ereq. apply andb_true_iff in Ereq as [Ereq _]. apply andb_true_iff in Ereq as [_ Ereq].
  rewrite forallb_forall in Ereq. specialize (Ereq a Ha).
  rewrite restrict_get in Ereq by (unfold input_names; now apply in_map). rewrite E2 in Ereq.
  apply Nat.eqb_eq in Ereq. exact (Hbad sh E1 Ereq).
Qed.

(* ---------- zipped dimensions ---------- *)
(* what a successful run of the loop of MapSpec.shape implies: for every output index that some input carries, all
   inputs that carry it report the same dimension (_get_common_dim) *)
Lemma mapM_all_ok {A B} (k : A -> result B) l r : mapM k l = Ok r -> forall x, In x l -> exists y, k x = Ok y /\ In y r.
Proof. intros H x Hx. exact (ListFacts.mapM_ok_in k l r x H Hx). Qed.

Lemma common_dim_all ish x l d :
  common_dim ish x l = Ok d -> forall a, In a l -> get_dim ish x a = Ok d.
Proof.
  unfold common_dim. destruct (mapM (get_dim ish x) l) as [dims|e] eqn:M; cbn [bind]; [|discriminate].
  destruct dims as [|d0 rest]; [discriminate|]. destruct (forallb (Nat.eqb d0) rest) eqn:E; [|discriminate].
  intros H a Ha. injection H as <-. destruct (mapM_all_ok _ _ _ M a Ha) as [y [Hy Hin]]. rewrite Hy. f_equal.
  destruct Hin as [<-|Hin]; [reflexivity|]. rewrite forallb_forall in E. symmetry. now apply Nat.eqb_eq, E.
Qed.

Lemma go_shape_common m ish int o0 : forall axs k r,
  go_shape m ish int o0 axs k = Ok r ->
  forall x a b, In (Some x) axs -> In a (ins m) -> In b (ins m) ->
    mem_str x (indices a) = true -> mem_str x (indices b) = true ->
    exists d, get_dim ish x a = Ok d /\ get_dim ish x b = Ok d.
Proof.
  induction axs as [|ax t IH]; intros k r H x a b Hx Ha Hb Hxa Hxb; [destruct Hx|].
  destruct ax as [y|]; [|discriminate]. cbn [go_shape] in H.
  set (relevant := filter (fun c => mem_str y (indices c)) (ins m)) in *.
  destruct Hx as [Heq|Hx].
  - injection Heq as ->.
    assert (Ra : In a relevant) by (apply filter_In; auto). assert (Rb : In b relevant) by (apply filter_In; auto).
    destruct relevant as [|c rel] eqn:Er; [destruct Ra|]. rewrite <- Er in *.
    destruct (common_dim ish x relevant) as [d|e] eqn:C; cbn [bind] in H; [|discriminate].
    exists d. split; now apply (common_dim_all ish x relevant).
  - destruct relevant as [|c rel].
    + destruct (dict_get int (aname o0)) as [iv|]; [|discriminate]. destruct (nth_error iv k); [|discriminate].
      destruct (go_shape m ish int o0 t (S k)) as [r'|e] eqn:G; cbn [bind] in H; [|discriminate].
      exact (IH _ _ G x a b Hx Ha Hb Hxa Hxb).
    + destruct (common_dim ish y (c :: rel)); cbn [bind] in H; [|discriminate].
      destruct (go_shape m ish int o0 t k) as [r'|e] eqn:G; cbn [bind] in H; [|discriminate].
      exact (IH _ _ G x a b Hx Ha Hb Hxa Hxb).
Qed.

Lemma map_shapes_zip q internal final :
  map_shapes q internal = Ok final -> ~ F_zip q.
Proof.
  intros Hm [f [m [x [a [pa [b [pb [da [db [Hf [Hs [Hx [Ha [Hb [Hpa [Hpb [Hra [Hrb [Hda [Hdb Hne]]]]]]]]]]]]]]]]]]]].
  destruct (map_shapes_state q internal final f Hm Hf) as [st [st' [Hinv Hstep]]].
  unfold func_shape in Hstep. rewrite Hs in Hstep.
  set (ish := restrict st (input_names m)) in *. set (int := restrict internal (output_names m)) in *.
  destruct (shape m ish int) as [r|e] eqn:Eshape; cbn [bind] in Hstep; [|discriminate].
  rewrite shape_unfold in Eshape. destruct (validate_shapes m ish int); cbn [bind] in Eshape; [|discriminate].
  unfold output_indices in Hx. destruct (outs m) as [|o0 rest]; [destruct Hx|].
  assert (Hxa : mem_str x (indices a) = true) by (unfold indices; rewrite index_of_mem; now rewrite Hpa).
  assert (Hxb : mem_str x (indices b) = true) by (unfold indices; rewrite index_of_mem; now rewrite Hpb).
  destruct (go_shape_common m ish int o0 _ _ _ Eshape x a b) as [d [Ga Gb]]; try assumption.
  { unfold indices in Hx. now apply somes_In. }
  assert (G : forall c pc dc, In c (ins m) -> is_root (q_funcs q) (aname c) = true -> index_of x (axes c) = Some pc ->
              dim_of q c pc = Some dc -> get_dim ish x c = Ok dc).
  { intros c pc dc Hc Hroot Hp Hd. unfold dim_of in Hd. destruct (value_of q (aname c)) as [v|] eqn:Ev; [|discriminate].
    destruct (Hinv (aname c) v Hroot (spec_input_named _ f m c Hf Hs Hc) Ev) as [sh [E1 E2]].
    rewrite E1 in Hd. unfold get_dim. rewrite Hp. unfold ish.
    rewrite restrict_get by (unfold input_names; now apply in_map). rewrite E2, Hd. reflexivity. }
  rewrite (G a pa da Ha Hra Hpa Hda) in Ga. rewrite (G b pb db Hb Hrb Hpb Hdb) in Gb. congruence.
Qed.

(* ================================================================== map: soundness, completeness, no effect *)
Theorem validate_map_sound q :
  validate_map q = Ok tt ->
  ~ F_executor q /\ ~ F_missing_input q /\ ~ F_surplus_input q /\ ~ F_axes (q_funcs q) /\ ~ F_rank q
  /\ ~ F_zip q /\ ~ F_storage q.
Proof.
  intros H. destruct (validate_map_checks q H) as [He [Hi [Ha [Hs [_ Hm]]]]].
  destruct (complete_inputs_sound q Hi) as [N2 N3].
  unfold c_map_shapes in Hm.
  destruct (map_shapes q (construct_internal (q_internal q) (q_funcs q))) as [final|e] eqn:Em; [|discriminate].
  repeat split.
  - intros [E1 E2]. unfold c_exec in He. rewrite E1, E2 in He. discriminate.
  - exact N2.
  - exact N3.
  - now apply consistent_axes_sound.
  - exact (map_shapes_rank q _ final Em).
  - exact (map_shapes_zip q _ final Em).
  - now apply storage_names_sound.
Qed.

Corollary validate_map_wellformed q :
  validate_map q = Ok tt -> WellFormedM q.
Proof.
  intros H. destruct (validate_map_sound q H) as [N1 [N2 [N3 [N4 [N5 [N6 N7]]]]]].
  unfold WellFormedM. auto 10.
Qed.

Theorem validate_map_complete_per_fault q :
  (F_executor q \/ F_missing_input q \/ F_surplus_input q \/ F_axes (q_funcs q) \/ F_rank q \/ F_storage q
   \/ F_zip q) ->
  exists e, validate_map q = Err e.
Proof.
  intros HF. destruct (result_unit_cases (validate_map q)) as [Hok|Herr]; [|exact Herr].
  destruct (validate_map_sound q Hok) as [N1 [N2 [N3 [N4 [N5 [N6 N7]]]]]]. tauto.
Qed.

(* the verdict of the model of map is validate_map *)
Lemma map_model_verdict user_calls q :
  fst (fst (map_model user_calls q)) = validate_map q.
Proof.
  unfold map_model, validate_map. rewrite <- (exec_fst chk (map_steps (q_cleanup q)) q []).
  destruct (exec chk (map_steps (q_cleanup q)) q []) as [[[]|e] tr]; reflexivity.
Qed.

Lemma map_steps_ordered : no_effect_before_checks (map_steps false) = true.
Proof. vm_compute. reflexivity. Qed.

(* In the model of map (= prepare_run, then the run proper) a rejected request has an empty call log and, with
   cleanup=False, has performed no effect on the run folder; with cleanup=True the only thing that can have
   happened first is the requested removal of the old folder. *)
Theorem rejected_runs_nothing user_calls q e tr calls :
  map_model user_calls q = (Err e, tr, calls) ->
  calls = []
  /\ (q_cleanup q = false -> tr = [])
  /\ (q_cleanup q = true -> tr = [] \/ exists t, tr = E_cleanup :: t).
Proof.
  unfold map_model. destruct (exec chk (map_steps (q_cleanup q)) q []) as [[[]|e'] tr'] eqn:E; [discriminate|].
  intros H. injection H as -> -> <-. split; [reflexivity|]. split.
  - intros Hc. rewrite Hc in E. exact (rejected_no_effect chk _ q e tr map_steps_ordered E).
  - intros Hc. rewrite Hc in E.
    destruct (exec_trace_prefix chk (map_steps true) q []) as [k Hk]. rewrite E in Hk. cbn [snd app] in Hk.
    rewrite Hk. destruct k; [now left|right]. cbn. eauto.
Qed.

(* an accepted request: the run proper starts only after every check has passed *)
Theorem accepted_after_all_checks user_calls q tr calls :
  map_model user_calls q = (Ok tt, tr, calls) ->
  validate_map q = Ok tt /\ calls = user_calls q.
Proof.
  intros H. split; [now rewrite <- (map_model_verdict user_calls q), H|].
  unfold map_model in H. destruct (exec chk (map_steps (q_cleanup q)) q []) as [[[]|e'] tr']; [|discriminate].
  now injection H as _ <-.
Qed.
