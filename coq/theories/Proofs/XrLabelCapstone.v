(* C19 capstone: outside the regions of the known findings, the observation of the model satisfies the
   executable statement `spec_ok` that the harness applies to the implementation:
       forall c, valid c = true -> known_region c = false -> spec_ok c (run c) = true.
   This ties the Prop-level theorems of Proofs/XrLabelFacts.v / XrLabelTotal.v (and C01_map_run_denotes)
   to the executable statement. *)
From Verif Require Import Corr.Run_C19 Proofs.IndexFacts Proofs.StrFacts Proofs.MapSpecFacts
  Proofs.XrLabelFacts Proofs.XrLabelTotal Proofs.XrLabelCorr.
From Coq Require Import Permutation.

(* ================================================================ generic facts *)
Lemma dedup_In19 x l : In x (dedup l) <-> In x l.
Proof.
  induction l as [|y l IH]; cbn; [tauto|].
  destruct (mem_str y l) eqn:E.
  - rewrite IH. split; [auto|]. intros [<-|H]; [now apply mem_str_In|assumption].
  - cbn. rewrite IH. tauto.
Qed.

Lemma dedup_NoDup19 l : NoDup (dedup l).
Proof.
  induction l as [|y l IH]; cbn; [constructor|].
  destruct (mem_str y l) eqn:E; [assumption|]. constructor; [|assumption].
  rewrite dedup_In19. now apply mem_str_false.
Qed.

Lemma sort_by_name_In {A} (name : A -> str) (l : list A) x : In x (sort_by_name name l) <-> In x l.
Proof.
  unfold sort_by_name. rewrite in_flat_map. split.
  - intros [n [_ H]]. now apply filter_In in H.
  - intros H. exists (name x). split.
    + apply dedup_first_In, sort_str_In, in_map_iff. now exists x.
    + apply filter_In. split; [assumption|apply str_eqb_refl].
Qed.

Lemma dict_get_functional {V} (l : list (str * V)) n v :
  In (n, v) l -> (forall v', In (n, v') l -> v' = v) -> dict_get l n = Some v.
Proof.
  induction l as [|[k w] l IH]; intros Hin Hf; [destruct Hin|]. cbn.
  destruct (str_eqb n k) eqn:E.
  - apply str_eqb_eq in E. subst k. f_equal. apply Hf. now left.
  - apply str_eqb_neq in E. destruct Hin as [[= -> ->]|Hin]; [congruence|].
    apply IH; [assumption|]. intros v' H. apply Hf. now right.
Qed.

Lemma dict_get_absent {V} (l : list (str * V)) n : (forall v, ~ In (n, v) l) -> dict_get l n = None.
Proof.
  induction l as [|[k w] l IH]; intros H; [reflexivity|]. cbn.
  destruct (str_eqb n k) eqn:E.
  - apply str_eqb_eq in E. subst k. exfalso. apply (H w). now left.
  - apply IH. intros v Hv. apply (H v). now right.
Qed.

Lemma dict_get_In19 {V} (l : list (str * V)) n v : dict_get l n = Some v -> In (n, v) l.
Proof.
  induction l as [|[k w] l IH]; cbn; [discriminate|].
  destruct (str_eqb n k) eqn:E.
  - apply str_eqb_eq in E. subst k. intros [= ->]. now left.
  - intros H. right. now apply IH.
Qed.

Lemma dict_get_some_of_In {V} (l : list (str * V)) n : In n (map fst l) -> exists v, dict_get l n = Some v.
Proof.
  induction l as [|[k w] l IH]; cbn; [tauto|]. intros [<-|H].
  - rewrite str_eqb_refl. now eexists.
  - destruct (str_eqb n k); [now eexists|now apply IH].
Qed.

Lemma NoDup_map_inj19 {A B} (f : A -> B) l a b : NoDup (map f l) -> In a l -> In b l -> f a = f b -> a = b.
Proof.
  induction l as [|x l IH]; intros Hnd Ha Hb E; [destruct Ha|]. cbn in Hnd. inversion Hnd as [|? ? Hn Hd]; subst.
  destruct Ha as [->|Ha], Hb as [->|Hb]; auto.
  - exfalso. apply Hn. rewrite E. now apply in_map.
  - exfalso. apply Hn. rewrite <- E. now apply in_map.
Qed.

Lemma NoDup_concat_elem {A} (L : list (list A)) l : NoDup (concat L) -> In l L -> NoDup l.
Proof.
  induction L as [|l0 L IH]; intros Hnd Hin; [destruct Hin|]. cbn in Hnd.
  destruct (NoDup_app_inv _ _ Hnd) as [H1 [H2 _]]. destruct Hin as [->|Hin]; auto.
Qed.

(* ---------- sorted() keeps duplicates out ---------- *)
Lemma insert_str_NoDup x l : ~ In x l -> NoDup l -> NoDup (insert_str x l).
Proof.
  induction l as [|y l IH]; intros Hx Hnd; cbn; [constructor; [intros []|constructor]|].
  inversion Hnd as [|? ? Hy Hd]; subst. destruct (str_ltb y x).
  - constructor.
    + rewrite insert_str_In. intros [->|H]; [apply Hx; now left|contradiction].
    + apply IH; [intros H; apply Hx; now right|assumption].
  - constructor; assumption.
Qed.

Lemma sort_str_NoDup l : NoDup l -> NoDup (sort_str l).
Proof.
  unfold sort_str. induction 1 as [|x l Hx Hnd IH]; cbn; [constructor|].
  apply insert_str_NoDup; [|assumption]. fold (sort_str l). now rewrite sort_str_In.
Qed.

(* ---------- parse (render x) = x ---------- *)
Lemma sx_strs_render d : sx_strs (SL (map SS d)) = Some d.
Proof. cbn. induction d as [|x d IH]; cbn; [reflexivity|]. now rewrite IH. Qed.

Lemma parse_render_entries (l : list entry) : omapM parse_entry (map render_entry l) = Some l.
Proof.
  induction l as [|[n [d v]] l IH]; cbn [map omapM]; [reflexivity|].
  unfold render_entry at 1, parse_entry at 1. cbn [fst snd]. rewrite sx_strs_render. cbn [option_map].
  now rewrite IH.
Qed.

Lemma parse_render_sels (l : list selent) : omapM parse_sel (map render_sel l) = Some l.
Proof.
  induction l as [|[[v cn] o] l IH]; cbn [map omapM]; [reflexivity|].
  unfold render_sel at 1, parse_sel at 1. cbn [fst snd]. now rewrite IH.
Qed.

Lemma sx_eqb_SB b : sx_eqb (SB b) (SB true) = b.
Proof. destruct b; reflexivity. Qed.

(* ================================================================ what `valid_req` provides *)
Lemma NoDup_app_intro {A} (l1 l2 : list A) :
  NoDup l1 -> NoDup l2 -> (forall x, In x l1 -> ~ In x l2) -> NoDup (l1 ++ l2).
Proof.
  induction l1 as [|a l1 IH]; intros H1 H2 Hd; cbn; [assumption|].
  inversion H1 as [|? ? Ha Hl]; subst. constructor.
  - intros Hin. apply in_app_or in Hin as [Hin|Hin]; [contradiction|]. apply (Hd a); [now left|assumption].
  - apply IH; [assumption|assumption|]. intros x Hx. apply Hd. now right.
Qed.

Lemma NoDup_flat_map_sub {A B} (g h : A -> list B) l :
  NoDup (flat_map g l) -> (forall x, In x l -> h x = g x \/ h x = []) -> NoDup (flat_map h l).
Proof.
  induction l as [|x l IH]; intros Hnd Hsub; cbn; [constructor|]. cbn in Hnd.
  destruct (NoDup_app_inv _ _ Hnd) as [H1 [H2 H3]].
  assert (IHl : NoDup (flat_map h l)) by (apply IH; [assumption|intros y Hy; apply Hsub; now right]).
  assert (Hincl : forall y, In y (flat_map h l) -> In y (flat_map g l)).
  { intros y Hy. apply in_flat_map in Hy as [z [Hz Hy]]. apply in_flat_map. exists z. split; [assumption|].
    destruct (Hsub z (or_intror Hz)) as [E|E]; rewrite E in Hy; [assumption|destruct Hy]. }
  destruct (Hsub x (or_introl eq_refl)) as [E|E]; rewrite E; [|assumption].
  apply NoDup_app_intro; [assumption|assumption|]. intros y Hy Hy'. apply (H3 y Hy). now apply Hincl.
Qed.

Section Valid.
  Variable q : req.
  Variable den : den_state.
  Hypothesis Hv : valid_req q = true.
  Hypothesis Hden : denote_run sym_body (q_funcs q) (q_inputs q) (q_internal q) = Ok den.

  Let specs := specs_of q.

  Lemma v_split :
    request_ok (q_funcs q) (q_inputs q) = true
    /\ (list_eqb str_eqb (map fst (d_out den)) (all_outputs q) = true
        /\ forallb (fun kv => match snd kv with VA arr => nd_wf arr | VS _ => true end) (d_out den) = true)
    /\ forallb (fun a => match value_in q den (aname a) with
                         | Some (VA arr) => length (shp arr) =? rank a
                         | _ => false end) (all_aspecs specs) = true
    /\ forallb (fun kv => match snd kv with
                          | VA arr => negb (length (shp arr) =? 1)
                                      || match computed_by specs (fst kv) with Some _ => true | None => false end
                                      || nodup_str (dat arr)
                          | VS _ => true end) (d_out den) = true
    /\ consistent (all_aspecs specs) = true
    /\ topo_specs specs = true
    /\ forallb (fun f => match fspec f with
                         | None => forallb (fun o => negb (mem_str o (map aname (all_aspecs specs)))) (fouts f)
                         | Some _ => true end) (q_funcs q) = true
    /\ forallb (fun n => negb (mem_char ":"%char n)) (all_outputs q ++ input_names q) = true
    /\ forallb (fun kv => match snd kv with VA a => nodup_str (dat a) | VS _ => true end) (q_inputs q) = true
    /\ (q_kind q <? 2) = true.
  Proof.
    pose proof Hv as H. unfold valid_req in H. rewrite Hden in H.
    apply andb_true_iff in H as [H Hkind]. apply andb_true_iff in H as [H Hdist].
    apply andb_true_iff in H as [H Hcolon]. apply andb_true_iff in H as [H Hunm].
    apply andb_true_iff in H as [H Htopo]. apply andb_true_iff in H as [H Hcons].
    apply andb_true_iff in H as [Hreq H]. apply andb_true_iff in H as [H Hlab].
    apply andb_true_iff in H as [Hnames Hrank]. apply andb_true_iff in Hnames as [Hnames Hwf].
    repeat split; assumption.
  Qed.

  Lemma v_func_ok f : In f (q_funcs q) -> func_ok f = true.
  Proof.
    destruct v_split as [H _]. unfold request_ok in H. do 2 (apply andb_true_iff in H as [H ?]).
    rewrite forallb_forall in H. apply H.
  Qed.

  Lemma v_names_nodup : NoDup (all_outputs q ++ input_names q).
  Proof.
    destruct v_split as [H _]. unfold request_ok in H. do 2 (apply andb_true_iff in H as [H ?]).
    now apply nodup_str_NoDup.
  Qed.

  Lemma v_outputs_nodup : NoDup (all_outputs q).
  Proof. now destruct (NoDup_app_inv _ _ v_names_nodup). Qed.

  Lemma v_out_not_input o : In o (all_outputs q) -> ~ In o (input_names q).
  Proof. destruct (NoDup_app_inv _ _ v_names_nodup) as [_ [_ H]]. apply H. Qed.

  Lemma specs_In ms : In ms specs <-> exists f, In f (q_funcs q) /\ fspec f = Some ms.
  Proof.
    unfold specs, specs_of. rewrite in_flat_map. split.
    - intros [f [Hf H]]. exists f. split; [assumption|]. destruct (fspec f) as [m|]; [|destruct H].
      destruct H as [<-|[]]. reflexivity.
    - intros [f [Hf E]]. exists f. split; [assumption|]. rewrite E. now left.
  Qed.

  Lemma spec_facts f ms : In f (q_funcs q) -> fspec f = Some ms ->
    wf_decl ms = true /\ map aname (outs ms) = fouts f /\ NoDup (fouts f).
  Proof.
    intros Hf E. pose proof (v_func_ok f Hf) as H. unfold func_ok in H. rewrite E in H.
    apply andb_true_iff in H as [H HM]. apply andb_true_iff in H as [Ho _]. apply nodup_str_NoDup in Ho.
    do 4 (apply andb_true_iff in HM as [HM _]). apply andb_true_iff in HM as [Hwf Heq].
    repeat split; [assumption| |assumption]. now apply (list_eqb_eq str_eqb str_eqb_eq).
  Qed.

  Lemma out_names_eq :
    out_names specs = flat_map (fun f => match fspec f with Some _ => fouts f | None => [] end) (q_funcs q).
  Proof.
    unfold out_names, specs, specs_of.
    assert (G : forall fs, (forall f, In f fs -> In f (q_funcs q)) ->
      flat_map (fun m => map aname (outs m)) (flat_map (fun f => match fspec f with Some m => [m] | None => [] end) fs)
      = flat_map (fun f => match fspec f with Some _ => fouts f | None => [] end) fs).
    { induction fs as [|f fs IH]; intros Hin; cbn; [reflexivity|].
      rewrite flat_map_app, IH by (intros g Hg; apply Hin; now right). f_equal.
      destruct (fspec f) as [m|] eqn:E; [|reflexivity]. cbn. rewrite app_nil_r.
      now destruct (spec_facts f m (Hin f (or_introl eq_refl)) E) as [_ [-> _]]. }
    apply G. auto.
  Qed.

  Lemma v_out_names_nodup : NoDup (out_names specs).
  Proof.
    rewrite out_names_eq. apply (NoDup_flat_map_sub fouts); [exact v_outputs_nodup|].
    intros f _. destruct (fspec f); auto.
  Qed.

  Lemma out_names_outputs o : In o (out_names specs) -> In o (all_outputs q).
  Proof.
    rewrite out_names_eq. intros H. apply in_flat_map in H as [f [Hf H]]. apply in_flat_map. exists f.
    split; [assumption|]. destruct (fspec f); [assumption|destruct H].
  Qed.

  Lemma v_wf : forallb wf_aspec (all_aspecs specs) = true.
  Proof.
    apply forallb_forall. intros a Ha. unfold all_aspecs in Ha. apply in_flat_map in Ha as [ms [Hms Ha]].
    apply specs_In in Hms as [f [Hf E]]. destruct (spec_facts f ms Hf E) as [Hwf _].
    unfold wf_decl in Hwf. do 2 (apply andb_true_iff in Hwf as [Hwf ?]).
    rewrite forallb_forall in Hwf, H0. apply in_app_or in Ha as [Ha|Ha]; auto.
  Qed.

  Lemma v_no_colon ms a : In ms specs -> In a (outs ms) -> no_colon_axes a.
  Proof.
    intros Hms Ha. apply specs_In in Hms as [f [Hf E]]. destruct (spec_facts f ms Hf E) as [Hwf _].
    unfold wf_decl in Hwf. apply andb_true_iff in Hwf as [_ Hwf].
    destruct (outs ms) as [|o0 rest] eqn:Eo; [discriminate|]. do 2 (apply andb_true_iff in Hwf as [Hwf ?]).
    rewrite forallb_forall in Hwf. specialize (Hwf a Ha). unfold no_colon in Hwf.
    apply negb_true_iff in Hwf. intros i Hi. apply nth_error_In in Hi.
    assert (existsb is_none (axes a) = true) by (apply existsb_exists; now exists None). congruence.
  Qed.

  Lemma v_den_names : map fst (d_out den) = all_outputs q.
  Proof. destruct v_split as [_ [[H _] _]]. now apply (list_eqb_eq str_eqb str_eqb_eq). Qed.

  Lemma v_den_wf n arr : dict_get (d_out den) n = Some (VA arr) -> nd_wf arr = true.
  Proof.
    intros E. apply dict_get_In19 in E. destruct v_split as [_ [[_ H] _]]. rewrite forallb_forall in H.
    exact (H _ E).
  Qed.

  Lemma v_input_wf n arr : dict_get (q_inputs q) n = Some (VA arr) -> nd_wf arr = true.
  Proof.
    intros E. apply dict_get_In19 in E. destruct v_split as [H _]. unfold request_ok in H.
    apply andb_true_iff in H as [_ H]. rewrite forallb_forall in H. specialize (H _ E). cbn in H.
    now apply andb_true_iff in H as [H _].
  Qed.

  Lemma v_rank a : In a (all_aspecs specs) ->
    exists arr, value_in q den (aname a) = Some (VA arr) /\ length (shp arr) = rank a.
  Proof.
    intros Ha. destruct v_split as [_ [_ [H _]]]. rewrite forallb_forall in H. specialize (H a Ha).
    destruct (value_in q den (aname a)) as [[x|arr]|]; try discriminate. exists arr. split; [reflexivity|].
    now apply Nat.eqb_eq.
  Qed.

  Lemma value_in_known n v : value_in q den n = Some v -> In n (input_names q) \/ In n (all_outputs q).
  Proof.
    unfold value_in. destruct (dict_get (q_inputs q) n) as [w|] eqn:E.
    - intros _. left. apply dict_get_In19 in E. unfold input_names. apply in_map_iff. now exists (n, w).
    - intros H. right. rewrite <- v_den_names. apply dict_get_In19 in H. apply in_map_iff. now exists (n, v).
  Qed.

  Lemma v_known : arrays_known specs (input_names q) (output_names q).
  Proof.
    intros m a Hm Ha. destruct (v_rank a (ins_all_aspecs _ _ _ Hm Ha)) as [arr [Hval _]].
    destruct (value_in_known _ _ Hval) as [H|H]; [now left|right]. unfold output_names. now apply sort_str_In.
  Qed.

  Lemma v_cons : consistent (all_aspecs specs) = true.
  Proof. now destruct v_split as [_ [_ [_ [_ [H _]]]]]. Qed.
  Lemma v_topo : topo_specs specs = true.
  Proof. now destruct v_split as [_ [_ [_ [_ [_ [H _]]]]]]. Qed.

  Lemma v_unmapped f o : In f (q_funcs q) -> fspec f = None -> In o (fouts f) ->
    ~ In o (map aname (all_aspecs specs)).
  Proof.
    intros Hf E Ho. destruct v_split as [_ [_ [_ [_ [_ [_ [H _]]]]]]]. rewrite forallb_forall in H.
    specialize (H f Hf). rewrite E in H. rewrite forallb_forall in H. specialize (H o Ho).
    now apply negb_true_iff, mem_str_false in H.
  Qed.

  Lemma v_colon_free n : In n (all_outputs q) \/ In n (input_names q) -> mem_char ":"%char n = false.
  Proof.
    intros Hn. destruct v_split as [_ [_ [_ [_ [_ [_ [_ [H _]]]]]]]]. rewrite forallb_forall in H.
    apply negb_true_iff. apply H. apply in_or_app. tauto.
  Qed.

  Lemma v_input_distinct n arr : dict_get (q_inputs q) n = Some (VA arr) -> NoDup (dat arr).
  Proof.
    intros E. apply dict_get_In19 in E. destruct v_split as [_ [_ [_ [_ [_ [_ [_ [_ [H _]]]]]]]]].
    rewrite forallb_forall in H. specialize (H _ E). cbn in H. now apply nodup_str_NoDup.
  Qed.

  Lemma v_source_distinct n arr :
    dict_get (d_out den) n = Some (VA arr) -> length (shp arr) = 1 -> computed_by specs n = None ->
    NoDup (dat arr).
  Proof.
    intros E Hr Hc. apply dict_get_In19 in E. destruct v_split as [_ [_ [_ [H _]]]].
    rewrite forallb_forall in H. specialize (H _ E). cbn [fst snd] in H. rewrite Hr, Hc in H. cbn in H.
    now apply nodup_str_NoDup.
  Qed.

  Lemma outputs_In o : In o (output_names q) <-> In o (all_outputs q).
  Proof. unfold output_names. apply sort_str_In. Qed.

  Lemma den_get o : In o (all_outputs q) -> exists v, dict_get (d_out den) o = Some v.
  Proof. intros H. apply dict_get_some_of_In. now rewrite v_den_names. Qed.
End Valid.

(* ================================================================ more facts about the labelling model *)
Lemma dset_da_NoDup d a : NoDup (map da_name d) -> NoDup (map da_name (dset_da d a)).
Proof.
  induction d as [|a0 d IH]; intros H; cbn; [constructor; [intros []|constructor]|].
  inversion H as [|? ? Hn Hd]; subst. destruct (str_eqb (da_name a) (da_name a0)) eqn:E; cbn.
  - apply str_eqb_eq in E. constructor; [now rewrite E|assumption].
  - constructor; [|now apply IH]. intros Hin. apply dset_da_names in Hin as [Ea|Hin]; [|contradiction].
    apply str_eqb_neq in E. congruence.
Qed.

Lemma dset_fold_NoDup arrays : forall acc, NoDup (map da_name acc) -> NoDup (map da_name (fold_left dset_da arrays acc)).
Proof.
  induction arrays as [|a arrays IH]; intros acc H; cbn [fold_left]; [assumption|]. apply IH. now apply dset_da_NoDup.
Qed.

Lemma filter_map_NoDup {A B} (f : A -> B) (p : A -> bool) l : NoDup (map f l) -> NoDup (map f (filter p l)).
Proof.
  induction l as [|x l IH]; cbn; intros H; [constructor|]. inversion H as [|? ? Hn Hd]; subst.
  destruct (p x); cbn; [|now apply IH]. constructor; [|now apply IH].
  intros Hin. apply Hn. apply in_map_iff in Hin as [y [E Hy]]. apply filter_In in Hy as [Hy _].
  apply in_map_iff. now exists y.
Qed.

Lemma ds_arrays_NoDup specs inputs outputs li ds :
  dataset_vars specs inputs outputs li = Ok ds -> NoDup (map da_name (ds_arrays ds)).
Proof.
  unfold dataset_vars. destruct (mapM _ _) as [arrays|]; [|discriminate]. cbn [bind]. intros [= <-]. cbn [ds_arrays].
  apply filter_map_NoDup. apply dset_fold_NoDup. constructor.
Qed.

Lemma ds_arrays_dims specs inputs outputs li ds a :
  dataset_vars specs inputs outputs li = Ok ds -> In a (ds_arrays ds) ->
  dims_of specs (da_name a) = Ok (da_dims a).
Proof.
  unfold dataset_vars.
  destruct (mapM _ (filter (fun n => mem_str n outputs) (flat_map (fun m => map aname (outs m)) specs)))
    as [arrays|e] eqn:A; [|discriminate]. cbn [bind]. intros [= <-]. cbn [ds_arrays]. intros Ha.
  apply filter_In in Ha as [Ha _]. apply dset_fold_In in Ha as [[]|Ha].
  apply mapM_inv in A. destruct (Forall2_In_r _ _ _ _ A Ha) as [o [Ho Hf]].
  destruct (coords_of specs inputs outputs li o) as [cs|] eqn:C; [|discriminate]. cbn [bind] in Hf.
  destruct (dims_of specs o) as [dm|] eqn:D; [|discriminate]. cbn [bind] in Hf. injection Hf as <-. exact D.
Qed.

Lemma coords_union_NoDup l : forall seen, NoDup (map co_name (coords_union seen l)).
Proof.
  induction l as [|c l IH]; intros seen; cbn; [constructor|].
  destruct (mem_str (co_name c) seen) eqn:E; [apply IH|]. cbn. constructor; [|apply IH].
  intros Hin. apply in_map_iff in Hin as [c' [En Hc']]. apply coords_union_sound in Hc' as [_ Hc'].
  apply Hc'. rewrite En. now left.
Qed.

Lemma ds_coords_NoDup ds : NoDup (map co_name (ds_coords ds)).
Proof. apply coords_union_NoDup. Qed.

Lemma axes_of_length specs a :
  consistent (all_aspecs specs) = true -> In a (all_aspecs specs) ->
  length (axes_of specs (aname a)) = rank a.
Proof.
  intros Hc Ha. unfold axes_of. rewrite map_length, seq_length. unfold rank_of. apply rank_of_fold.
  - intros b Hb. apply occs_In in Hb as [Hb E]. unfold rank.
    pose proof (consistent_spec _ _ _ Hc Hb Ha) as P. apply consistent_pair_spec in P; [tauto|assumption].
  - lia.
  - intros E. assert (In a (occs specs (aname a))) as H by (apply occs_In; auto). rewrite E in H. destruct H.
Qed.

(* a coordinate whose name has no ':' has exactly that one source *)
Lemma coord_named_single specs inputs loadable li o cs c n :
  forallb wf_aspec (all_aspecs specs) = true ->
  coords_of specs inputs loadable li o = Ok cs -> In c cs -> co_name c = n -> mem_char ":"%char n = false ->
  co_srcs c = [n].
Proof.
  intros Hwf Hcs Hc Hn Hfree.
  destruct (coords_of_name _ _ _ _ _ _ _ Hcs Hc) as [Hj Hne].
  assert (Hs : forall z, In z (co_srcs c) -> mem_char ":"%char z = false).
  { intros z Hz. destruct (coords_of_axes _ _ _ _ _ _ _ _ Hcs Hc Hz) as [_ Hin].
    apply in_map_iff in Hin as [asp [<- Hasp]]. now apply (wf_names_nocolon specs Hwf). }
  rewrite <- (split_join ":"%char (co_srcs c) Hne Hs). change [":"%char] with (s ":").
  rewrite <- Hj, Hn. now apply split_char_free.
Qed.

Lemma coord_comps specs inputs loadable li o cs c :
  forallb wf_aspec (all_aspecs specs) = true ->
  coords_of specs inputs loadable li o = Ok cs -> In c cs ->
  split_char ":"%char (co_name c) = co_srcs c.
Proof.
  intros Hwf Hcs Hc. destruct (coords_of_name _ _ _ _ _ _ _ Hcs Hc) as [Hj Hne].
  rewrite Hj. change (s ":") with [":"%char]. apply split_join; [assumption|].
  intros z Hz. destruct (coords_of_axes _ _ _ _ _ _ _ _ Hcs Hc Hz) as [_ Hin].
  apply in_map_iff in Hin as [asp [<- Hasp]]. now apply (wf_names_nocolon specs Hwf).
Qed.

(* an array with coordinates is computed element-wise *)
Lemma coords_nonempty_computed specs inputs loadable li o cs c :
  coords_of specs inputs loadable li o = Ok cs -> In c cs -> exists m, mapping_get specs o = Some m.
Proof.
  intros Hcs Hc. unfold coords_of in Hcs.
  destruct (coords_raw_of specs inputs loadable li o) as [raw|] eqn:R; [|discriminate].
  cbn [bind] in Hcs. injection Hcs as <-. apply coords_dict_sub in Hc.
  destruct (coords_raw_of_inv _ _ _ _ _ _ R) as [tr [Htr ->]].
  unfold coords_raw in Hc. apply in_flat_map in Hc as [[ax names] [Hg _]].
  pose proof (group_nonempty _ _ Hg) as Hne. cbn [snd] in Hne.
  destruct names as [|n names]; [congruence|].
  apply (In_dget key_eqb key_eqb_eq) in Hg; [|apply group_NoDup].
  assert (Hk : In (n, ax) (kept_of specs inputs li (target_of tr o))) by (apply group_get; eexists; split; [eassumption|now left]).
  unfold kept_of in Hk. apply filter_In in Hk as [Hk _]. unfold target_of in Hk.
  destruct (dget str_eqb tr o) as [l|] eqn:G; cbn in Hk; [|destruct Hk].
  apply (dget_In str_eqb str_eqb_eq) in G. unfold trace in Htr.
  destruct (mapM _ (mapping_keys specs)) as [rows|] eqn:Rw; [|discriminate]. cbn [bind] in Htr.
  injection Htr as <-. apply filter_In in G as [G _].
  apply mapM_inv in Rw. destruct (Forall2_In_r _ _ _ _ Rw G) as [o' [Ho' Hf]].
  destruct (trace_one specs o') as [l'|]; [|discriminate]. cbn in Hf. injection Hf as -> _.
  now apply mapping_keys_get.
Qed.

(* what is known about a source n of a coordinate c of output o *)
Lemma coords_of_src_facts specs inputs loadable li o cs c n :
  NoDup (out_names specs) ->
  coords_of specs inputs loadable li o = Ok cs -> In c cs -> In n (co_srcs c) ->
  visible inputs li n = true
  /\ map Some (co_axes c) = axes_of specs n
  /\ exists k, In n (carried (trace_fuel specs) specs o k).
Proof.
  intros Hnd Hcs Hc Hn. unfold coords_of in Hcs.
  destruct (coords_raw_of specs inputs loadable li o) as [raw|] eqn:R; [|discriminate].
  cbn [bind] in Hcs. injection Hcs as <-. apply coords_dict_sub in Hc.
  destruct (coords_raw_of_inv _ _ _ _ _ _ R) as [tr [Htr ->]].
  unfold coords_raw in Hc. apply in_flat_map in Hc as [[ax names] [Hg Hcg]].
  apply group_coords_sub in Hcg as [Hax Hsub]. apply Hsub in Hn. cbn [fst snd] in Hn, Hax. rewrite Hax.
  apply (In_dget key_eqb key_eqb_eq) in Hg; [|apply group_NoDup].
  assert (Hk : In (n, ax) (kept_of specs inputs li (target_of tr o))) by (apply group_get; now exists names).
  unfold kept_of in Hk. apply filter_In in Hk as [Hk Hf]. apply andb_true_iff in Hf as [Hvis Hf].
  unfold full_axes in Hf. cbn [fst snd] in Hf, Hvis. repeat split; [assumption| |].
  - now apply (list_eqb_eq axis_eqb axis_eqb_eq) in Hf.
  - exact (target_names_carried _ _ _ _ _ Hnd Htr Hk).
Qed.

(* a coordinate with several sources lies on at most one axis *)
Lemma coords_of_multi specs inputs loadable li o cs c :
  coords_of specs inputs loadable li o = Ok cs -> In c cs -> 2 <= length (co_srcs c) -> length (co_axes c) <= 1.
Proof.
  intros Hcs Hc Hl. unfold coords_of in Hcs.
  destruct (coords_raw_of specs inputs loadable li o) as [raw|] eqn:R; [|discriminate].
  cbn [bind] in Hcs. injection Hcs as <-. apply coords_dict_sub in Hc.
  destruct (coords_raw_of_inv _ _ _ _ _ _ R) as [tr [Htr ->]].
  unfold coords_raw in Hc. apply in_flat_map in Hc as [[ax names] [Hg Hcg]].
  unfold group_coords in Hcg. cbn [fst snd] in Hcg.
  destruct names as [|n0 [|n1 rest]].
  - destruct (1 <? length ax); [destruct Hcg|]. destruct Hcg as [<-|[]]. cbn in Hl. lia.
  - destruct Hcg as [<-|[]]. cbn in Hl. lia.
  - destruct (1 <? length ax) eqn:E.
    + apply in_map_iff in Hcg as [n [<- _]]. cbn in Hl. lia.
    + destruct Hcg as [<-|[]]. cbn [co_axes]. apply Nat.ltb_ge in E. lia.
Qed.

(* ================================================================ the model's observation is defined *)
Lemma sizes_conflict_incl l l' :
  (forall p, In p l -> In p l') -> sizes_conflict l = true -> sizes_conflict l' = true.
Proof.
  intros Hi H. unfold sizes_conflict in *. apply existsb_exists in H as [p [Hp H]].
  apply existsb_exists in H as [r [Hr H]]. apply existsb_exists. exists p. split; [auto|].
  apply existsb_exists. exists r. split; [auto|assumption].
Qed.

Lemma named_sizes_combine (l : list str) (sh : list nat) :
  flat_map (fun xd : option str * nat => match fst xd with Some x => [(x, snd xd)] | None => [] end)
           (combine (map Some l) sh) = combine l sh.
Proof.
  revert sh. induction l as [|x l IH]; intros [|d sh]; cbn; try reflexivity. now rewrite IH.
Qed.

Lemma dict_get_notin {V} (l : list (str * V)) n : ~ In n (map fst l) -> dict_get l n = None.
Proof.
  intros H. apply dict_get_absent. intros v Hv. apply H. apply in_map_iff. now exists (n, v).
Qed.

Section Obs.
  Variable q : req.
  Variable den : den_state.
  Variable outv : str -> option val.
  Variable ds : dataset.
  Hypothesis Hv : valid_req q = true.
  Hypothesis Hden : denote_run sym_body (q_funcs q) (q_inputs q) (q_internal q) = Ok den.
  Hypothesis Houtv : forall n, outv n = dict_get (d_out den) n.
  Hypothesis Hds : dataset_vars (specs_of q) (input_names q) (output_names q) (q_li q) = Ok ds.
  Hypothesis Hconf : sizes_conflict (axis_sizes q den) = false.
  Hypothesis Hplain :
    existsb (fun f => match fspec f with
                      | None => existsb (fun o => match dict_get (d_out den) o with
                                                  | Some (VA a) => 1 <? length (shp a)
                                                  | _ => false end) (fouts f)
                      | Some _ => false end) (q_funcs q) = false.

  Local Notation specs := (specs_of q).
  Let Xnd := v_out_names_nodup q den Hv Hden.
  Let Xc := v_cons q den Hv Hden.
  Let Xwf := v_wf q den Hv Hden.
  Let Xnc := v_no_colon q den Hv Hden.
  Let Xt := v_topo q den Hv Hden.
  Let Xkn := v_known q den Hv Hden.

  Lemma value_in_output o : In o (all_outputs q) -> value_in q den o = dict_get (d_out den) o.
  Proof.
    intros Ho. unfold value_in. rewrite dict_get_notin; [reflexivity|].
    exact (v_out_not_input q den Hv Hden o Ho).
  Qed.

  Lemma source_value_eq n :
    source_value q outv n = match value_in q den n with Some v => Ok v | None => Err KeyError end.
  Proof. unfold source_value, value_in. rewrite Houtv. now destruct (dict_get (q_inputs q) n). Qed.

  Lemma labelled_facts a : In a (ds_arrays ds) ->
    In (da_name a) (all_outputs q)
    /\ exists ms asp, In ms specs /\ In asp (outs ms) /\ aname asp = da_name a /\ da_dims a = indices asp.
  Proof.
    intros Ha. destruct (proj1 (dataset_arrays_spec _ _ _ _ _ Xnd Xc Xwf Xnc Hds) a Ha) as [Ho H].
    split; [|exact H]. now apply (outputs_In q).
  Qed.

  Lemma plain_facts n : In n (ds_plain ds) ->
    In n (all_outputs q) /\ ~ In n (out_names specs)
    /\ exists f, In f (q_funcs q) /\ fspec f = None /\ In n (fouts f).
  Proof.
    intros Hn. destruct (proj2 (unmapped_outputs_plain _ _ _ _ _ Hds) n Hn) as [Ho Hno].
    apply (outputs_In q) in Ho. repeat split; [assumption|assumption|].
    pose proof Ho as Ho'. unfold all_outputs in Ho'. apply in_flat_map in Ho' as [f [Hf Hnf]].
    exists f. repeat split; [assumption| |assumption].
    destruct (fspec f) as [ms|] eqn:E; [|reflexivity]. exfalso. apply Hno.
    pose proof (out_names_eq q den Hv Hden) as Eo. cbv zeta in Eo. rewrite Eo. apply in_flat_map. exists f. split; [assumption|]. now rewrite E.
  Qed.

  Lemma plain_rank_le n : In n (ds_plain ds) -> (1 <? plain_rank outv n) = false.
  Proof.
    intros Hn. destruct (plain_facts n Hn) as [_ [_ [f [Hf [E Hnf]]]]].
    unfold plain_rank. rewrite Houtv.
    destruct (dict_get (d_out den) n) as [[x|arr]|] eqn:G; try reflexivity.
    destruct (1 <? length (shp arr)) eqn:L; [|reflexivity]. exfalso.
    assert (existsb (fun f => match fspec f with
                      | None => existsb (fun o => match dict_get (d_out den) o with
                                                  | Some (VA a) => 1 <? length (shp a)
                                                  | _ => false end) (fouts f)
                      | Some _ => false end) (q_funcs q) = true) as X.
    { apply existsb_exists. exists f. split; [assumption|]. rewrite E. apply existsb_exists. exists n.
      split; [assumption|]. now rewrite G. }
    congruence.
  Qed.

  Let labelled := map (fun a => (da_name a, da_dims a)) (ds_arrays ds).

  Lemma no_merged_conflict : sizes_conflict (merged_sizes outv labelled) = false.
  Proof.
    destruct (sizes_conflict (merged_sizes outv labelled)) eqn:E; [|reflexivity]. exfalso.
    assert (X : sizes_conflict (axis_sizes q den) = true); [|congruence].
    apply (sizes_conflict_incl _ _) with (2 := E). intros p Hp.
    unfold merged_sizes in Hp. apply in_flat_map in Hp as [[o dims] [Hod Hp]]. cbn [fst snd] in Hp.
    unfold labelled in Hod. apply in_map_iff in Hod as [a [Ea Ha]]. injection Ea as <- <-.
    destruct (labelled_facts a Ha) as [Ho [ms [asp [Hms [Hasp [En Ed]]]]]].
    rewrite Houtv in Hp. destruct (dict_get (d_out den) (da_name a)) as [[x|arr]|] eqn:G; try destruct Hp.
    unfold axis_sizes. apply in_flat_map. exists asp. split.
    - unfold all_aspecs. apply in_flat_map. exists ms. split; [assumption|]. apply in_or_app. now right.
    - rewrite En, (value_in_output _ Ho), G.
      rewrite <- (no_colon_indices asp (Xnc ms asp Hms Hasp)), named_sizes_combine. now rewrite <- Ed.
  Qed.

  Lemma no_plain_nd : existsb (fun n => 1 <? plain_rank outv n) (ds_plain ds) = false.
  Proof.
    destruct (existsb _ (ds_plain ds)) eqn:E; [|reflexivity]. apply existsb_exists in E as [n [Hn H]].
    rewrite (plain_rank_le n Hn) in H. discriminate.
  Qed.

  (* ---------- variables ---------- *)
  Let plain0 := filter (fun n => plain_rank outv n =? 0) (ds_plain ds).
  Let plain1 := filter (fun n => plain_rank outv n =? 1) (ds_plain ds).
  Let vars := labelled ++ map (fun n => (n, @nil str)) plain0.
  Let pcoord := fun n : str => {| co_name := n; co_axes := [n]; co_srcs := [n] |}.
  Let cs := ds_coords ds ++ map pcoord plain1.

  Lemma outv_some n : In n (all_outputs q) -> exists v, outv n = Some v.
  Proof. intros H. rewrite Houtv. now apply (den_get q den Hv Hden). Qed.

  Lemma vars_outputs n dims : In (n, dims) vars -> In n (all_outputs q).
  Proof.
    intros H. apply in_app_or in H as [H|H].
    - apply in_map_iff in H as [a [E Ha]]. injection E as <- _. now destruct (labelled_facts a Ha).
    - apply in_map_iff in H as [m [E Hm]]. injection E as <- _. apply filter_In in Hm as [Hm _].
      now destruct (plain_facts m Hm).
  Qed.

  Lemma vars_rendered : exists vs,
    mapM (fun v : str * list str => match outv (fst v) with
                    | Some x => Ok (fst v, (snd v, sx_val x))
                    | None => Err KeyError end) (sort_by_name fst vars) = Ok vs.
  Proof.
    apply mapM_total. intros [n dims] Hin. apply sort_by_name_In in Hin. cbn [fst snd].
    destruct (outv_some n (vars_outputs n dims Hin)) as [v ->]. now eexists.
  Qed.

  (* ---------- coordinates ---------- *)
  Lemma ds_coord_origin c : In c (ds_coords ds) ->
    exists a, In a (ds_arrays ds) /\ In c (da_coords a)
              /\ coords_of specs (input_names q) (output_names q) (q_li q) (da_name a) = Ok (da_coords a).
  Proof.
    intros Hc. destruct (proj2 (ds_coords_union ds) c Hc) as [a [Ha Hca]]. exists a. repeat split; try assumption.
    exact (ds_arrays_coords _ _ _ _ _ _ Hds Ha).
  Qed.

  Lemma no_conflict_fun k d d' :
    In (k, d) (axis_sizes q den) -> In (k, d') (axis_sizes q den) -> d = d'.
  Proof.
    intros H1 H2. destruct (Nat.eq_dec d d') as [E|E]; [assumption|]. exfalso.
    assert (sizes_conflict (axis_sizes q den) = true); [|congruence].
    unfold sizes_conflict. apply existsb_exists. exists (k, d). split; [assumption|].
    apply existsb_exists. exists (k, d'). split; [assumption|]. cbn. rewrite str_eqb_refl. cbn.
    apply negb_true_iff. now apply Nat.eqb_neq.
  Qed.

  Lemma value_in_wf n arr : value_in q den n = Some (VA arr) -> nd_wf arr = true.
  Proof.
    unfold value_in. destruct (dict_get (q_inputs q) n) as [w|] eqn:E.
    - intros [= ->]. exact (v_input_wf q den Hv Hden n arr E).
    - exact (v_den_wf q den Hv Hden n arr).
  Qed.

  (* a source of a dataset coordinate is an array of the declared rank = number of axes of the coordinate *)
  Lemma ds_src c n : In c (ds_coords ds) -> In n (co_srcs c) ->
    exists arr, value_in q den n = Some (VA arr) /\ length (shp arr) = length (co_axes c)
                /\ nd_wf arr = true /\ map Some (co_axes c) = axes_of specs n
                /\ visible (input_names q) (q_li q) n = true
                /\ computed_by specs n = None
                /\ In n (map aname (all_aspecs specs))
                /\ 1 <= length (co_axes c).
  Proof.
    intros Hc Hn. destruct (ds_coord_origin c Hc) as [a [Ha [Hca Hcs]]].
    destruct (coords_of_src_facts _ _ _ _ _ _ _ _ Xnd Hcs Hca Hn) as [Hvis [Hax [k Hcar]]].
    destruct (coords_of_axes _ _ _ _ _ _ _ _ Hcs Hca Hn) as [_ Hin].
    destruct (carried_occ _ _ _ _ _ Hcar) as [m [asp [Hm [Hasp [En Hk]]]]].
    pose proof (ins_all_aspecs _ _ _ Hm Hasp) as Hall.
    destruct (v_rank q den Hv Hden asp Hall) as [arr [Hval Hr]]. rewrite En in Hval.
    pose proof (axes_of_length specs asp Xc Hall) as Hlen. rewrite En in Hlen.
    assert (Hl : length (co_axes c) = rank asp).
    { rewrite <- Hlen, <- Hax. now rewrite map_length. }
    exists arr. repeat split; try assumption.
    - now rewrite Hl.
    - exact (value_in_wf n arr Hval).
    - exact (carried_source _ _ _ _ _ Hcar).
    - rewrite Hl. unfold rank. destruct (axes asp); [destruct Hk|cbn; lia].
  Qed.

  (* on a single axis k, the source is one-dimensional with the size of k *)
  Lemma ds_src_1d c n k : In c (ds_coords ds) -> In n (co_srcs c) -> co_axes c = [k] ->
    exists arr d, value_in q den n = Some (VA arr) /\ shp arr = [d] /\ length (dat arr) = d
                  /\ In (k, d) (axis_sizes q den).
  Proof.
    intros Hc Hn Hax. destruct (ds_src c n Hc Hn) as [arr [Hval [Hr [Hw [Hao _]]]]].
    rewrite Hax in Hr, Hao. cbn in Hr, Hao.
    destruct (shp arr) as [|d [|? ?]] eqn:Es; try discriminate. exists arr, d. repeat split; try assumption.
    - unfold nd_wf in Hw. apply Nat.eqb_eq in Hw. rewrite Es in Hw. cbn in Hw. lia.
    - destruct (ds_coord_origin c Hc) as [a [Ha [Hca Hcs]]].
      destruct (coords_of_src_facts _ _ _ _ _ _ _ _ Xnd Hcs Hca Hn) as [_ [_ [k' Hcar]]].
      destruct (carried_occ _ _ _ _ _ Hcar) as [m [asp [Hm [Hasp [En Hk]]]]].
      pose proof (ins_all_aspecs _ _ _ Hm Hasp) as Hall.
      pose proof (axes_of_length specs asp Xc Hall) as Hlen. rewrite En, <- Hao in Hlen. cbn in Hlen.
      assert (Haxes : axes asp = [Some k']).
      { unfold rank in Hlen. destruct (axes asp) as [|y [|? ?]]; try discriminate. destruct Hk as [->|[]]. reflexivity. }
      assert (Hk' : k' = k).
      { assert (no_colon_axes asp) as Hncol.
        { intros i. rewrite Haxes. destruct i as [|[|i]]; cbn; discriminate. }
        pose proof (axes_of_named specs asp Xc Hall Hncol) as E. rewrite En, <- Hao, Haxes in E. now injection E. }
      subst k'. unfold axis_sizes. apply in_flat_map. exists asp. split; [assumption|].
      rewrite En, Hval, Haxes, Es. cbn. now left.
  Qed.

  Definition col_ok (d0 : nat) (v : val) : Prop :=
    exists arr, v = VA arr /\ shp arr = [d0] /\ length (dat arr) = d0.

  Lemma coord_value_cols d0 arrs : Forall (col_ok d0) arrs -> exists x, coord_value arrs = Ok x.
  Proof.
    intros HF. unfold coord_value. destruct arrs as [|v [|v' t]]; [cbn; now eexists|now eexists|].
    assert (Hm : mapM (fun v => match v with
                                | VA a => match shp a with [_] => Ok (dat a) | _ => Err ValueError end
                                | VS _ => Err TypeError end) (v :: v' :: t)
                 = Ok (map (fun v => match v with VA a => dat a | VS _ => [] end) (v :: v' :: t))).
    { apply mapM_ok_map. intros w Hw. rewrite Forall_forall in HF. destruct (HF w Hw) as [arr [-> [Hs _]]].
      now rewrite Hs. }
    rewrite Hm. cbn [bind].
    set (cols := map (fun v => match v with VA a => dat a | VS _ => [] end) (v :: v' :: t)).
    assert (Hall : forall col, In col cols -> length col = d0).
    { intros col Hcol. apply in_map_iff in Hcol as [w [<- Hw]]. rewrite Forall_forall in HF.
      destruct (HF w Hw) as [arr [-> [_ Hl]]]. exact Hl. }
    assert (forallb (fun col => length col =? match cols with c0 :: _ => length c0 | [] => 0 end) cols = true) as ->.
    { apply forallb_forall. intros col Hcol. apply Nat.eqb_eq. rewrite (Hall col Hcol).
      unfold cols. cbn [map]. symmetry. apply Hall. now left. }
    cbn [negb]. now eexists.
  Qed.

  Lemma coord_rendered c : In c cs -> exists e, render_coord q outv c = Ok e.
  Proof.
    intros Hc. unfold render_coord. apply in_app_or in Hc as [Hc|Hc].
    - assert (Hs : forall n, In n (co_srcs c) -> exists arr, source_value q outv n = Ok (VA arr)).
      { intros n Hn. destruct (ds_src c n Hc Hn) as [arr [Hval _]]. exists arr. now rewrite source_value_eq, Hval. }
      destruct (mapM_total (source_value q outv) (co_srcs c)) as [arrs Harrs].
      { intros n Hn. destruct (Hs n Hn) as [arr ->]. now eexists. }
      rewrite Harrs. cbn [bind].
      assert (exists x, coord_value arrs = Ok x) as [x ->]; [|cbn [bind]; now eexists].
      destruct (le_lt_dec 2 (length (co_srcs c))) as [Hl|Hl].
      + (* several sources: one axis, equal sizes *)
        destruct (ds_coord_origin c Hc) as [a [Ha [Hca Hcs]]].
        pose proof (coords_of_multi _ _ _ _ _ _ _ Hcs Hca Hl) as Hle.
        destruct (co_srcs c) as [|n0 rest] eqn:Es; [cbn in Hl; lia|].
        destruct (ds_src c n0 Hc ltac:(rewrite Es; now left)) as [_ [_ [_ [_ [_ [_ [_ [_ Hge]]]]]]]].
        destruct (co_axes c) as [|k [|? ?]] eqn:Eax; cbn in Hle, Hge; try lia.
        destruct (ds_src_1d c n0 k Hc ltac:(rewrite Es; now left) Eax) as [arr0 [d0 [_ [_ [_ Hd0]]]]].
        apply (coord_value_cols d0). apply mapM_inv in Harrs.
        apply Forall_forall. intros v Hv'. destruct (Forall2_In_r _ _ _ _ Harrs Hv') as [n [Hn Hsv]].
        destruct (ds_src_1d c n k Hc ltac:(rewrite Es; exact Hn) Eax) as [arr [d [Hval [Hshp [Hlen Hd]]]]].
        rewrite source_value_eq, Hval in Hsv. injection Hsv as <-.
        rewrite (no_conflict_fun k d0 d Hd0 Hd). now exists arr.
      + destruct (co_srcs c) as [|n0 [|n1 rest]] eqn:Es; [| |cbn in Hl; lia].
        * cbn in Harrs. injection Harrs as <-. cbn. now eexists.
        * cbn in Harrs. destruct (source_value q outv n0); [|discriminate]. cbn in Harrs. injection Harrs as <-. now eexists.
    - apply in_map_iff in Hc as [n [<- Hn]]. cbn [co_srcs co_name co_axes pcoord mapM].
      apply filter_In in Hn as [Hn _]. destruct (plain_facts n Hn) as [Ho _].
      destruct (outv_some n Ho) as [v Hvv]. unfold source_value.
      rewrite (dict_get_notin (q_inputs q) n (v_out_not_input q den Hv Hden n Ho)), Hvv. cbn. now eexists.
  Qed.

  Lemma coords_rendered : exists cos, mapM (render_coord q outv) (sort_by_name co_name cs) = Ok cos.
  Proof. apply mapM_total. intros c Hc. apply sort_by_name_In in Hc. now apply coord_rendered. Qed.

  (* ---------- selections ---------- *)
  Hypothesis Hk0 : q_kind q = 0.

  Lemma wanted_shape co : sel_wanted (q_kind q) co = true ->
    exists k n, co_axes co = [k] /\ co_srcs co = [n].
  Proof.
    unfold sel_wanted. rewrite Hk0. cbn [Nat.eqb].
    destruct (co_axes co) as [|k [|? ?]]; try discriminate. intros H. apply Nat.eqb_eq in H.
    destruct (co_srcs co) as [|n [|? ?]]; try discriminate. now exists k, n.
  Qed.

  Lemma computed_in_out_names n m : computed_by specs n = Some m -> In n (out_names specs).
  Proof.
    unfold computed_by. intros H. apply find_some in H as [Hm H]. apply andb_true_iff in H as [_ H].
    apply mem_str_In in H. unfold out_names. apply in_flat_map. now exists m.
  Qed.

  Lemma labels_ok co k n : In co cs -> co_axes co = [k] -> co_srcs co = [n] ->
    exists lab, labels_of q outv co = Ok lab /\ NoDup lab.
  Proof.
    intros Hco Hax Hsrc. unfold labels_of. rewrite Hsrc. cbn [mapM].
    apply in_app_or in Hco as [Hco|Hco].
    - destruct (ds_src co n Hco ltac:(rewrite Hsrc; now left)) as [arr [Hval [Hr [_ [_ [_ [Hcomp _]]]]]]].
      rewrite source_value_eq, Hval. cbn. exists (dat arr). split; [reflexivity|].
      rewrite Hax in Hr. cbn in Hr. unfold value_in in Hval.
      destruct (dict_get (q_inputs q) n) as [w|] eqn:E.
      + injection Hval as ->. exact (v_input_distinct q den Hv Hden n arr E).
      + exact (v_source_distinct q den Hv Hden n arr Hval Hr Hcomp).
    - apply in_map_iff in Hco as [m [<- Hm]]. cbn [co_srcs pcoord] in Hsrc. injection Hsrc as ->.
      apply filter_In in Hm as [Hm Hr]. apply Nat.eqb_eq in Hr. destruct (plain_facts n Hm) as [Ho [Hno _]].
      unfold source_value. rewrite (dict_get_notin (q_inputs q) n (v_out_not_input q den Hv Hden n Ho)).
      unfold plain_rank in Hr. rewrite Houtv in Hr |- *.
      destruct (dict_get (d_out den) n) as [[x|arr]|] eqn:G; try discriminate. cbn.
      exists (dat arr). split; [reflexivity|].
      apply (v_source_distinct q den Hv Hden n arr G Hr).
      destruct (computed_by specs n) as [m|] eqn:Cm; [|reflexivity]. exfalso. apply Hno.
      exact (computed_in_out_names n m Cm).
  Qed.

  Lemma sels_rendered : exists sels, render_sels q outv vars cs = Ok sels.
  Proof.
    unfold render_sels.
    match goal with |- exists sels, (do l <- mapM ?F ?L; _) = _ => destruct (mapM_total F L) as [l Hl] end.
    - intros v _. apply mapM_total. intros co Hco. apply filter_In in Hco as [Hco Hw].
      apply sort_by_name_In in Hco. apply andb_true_iff in Hw as [Hw _].
      destruct (wanted_shape co Hw) as [k [n [Hax Hsrc]]].
      destruct (labels_ok co k n Hco Hax Hsrc) as [lab [-> _]]. cbn. now eexists.
    - rewrite Hl. cbn. now eexists.
  Qed.

  Lemma sels_char sels : render_sels q outv vars cs = Ok sels ->
    forall e, In e sels <->
      exists v co lab, In v vars /\ In co cs /\ sel_wanted (q_kind q) co = true
                       /\ subset_str (co_axes co) (snd v) = true /\ labels_of q outv co = Ok lab
                       /\ e = (fst v, co_name co, sel_outcomes co lab).
  Proof.
    unfold render_sels. intros H.
    match type of H with (do l <- ?E; _) = _ => destruct E as [l|] eqn:Hl end; [|discriminate].
    cbn [bind] in H. injection H as <-. apply mapM_inv in Hl. intros e. rewrite in_concat. split.
    - intros [row [Hrow He]]. destruct (Forall2_In_r _ _ _ _ Hl Hrow) as [v [Hv' Hf]].
      apply sort_by_name_In in Hv'. apply mapM_inv in Hf.
      destruct (Forall2_In_r _ _ _ _ Hf He) as [co [Hco Hg]]. apply filter_In in Hco as [Hco Hw].
      apply sort_by_name_In in Hco. apply andb_true_iff in Hw as [Hw Hsub].
      destruct (labels_of q outv co) as [lab|] eqn:L; [|discriminate]. cbn in Hg. injection Hg as <-.
      exists v, co, lab. repeat split; assumption.
    - intros [v [co [lab [Hv' [Hco [Hw [Hsub [L ->]]]]]]]].
      assert (Hv2 : In v (sort_by_name fst vars)) by now apply sort_by_name_In.
      destruct (Forall2_In_l _ _ _ _ Hl Hv2) as [row [Hrow Hf]]. exists row. split; [assumption|].
      apply mapM_inv in Hf.
      assert (Hco2 : In co (filter (fun co => sel_wanted (q_kind q) co && subset_str (co_axes co) (snd v))
                                   (sort_by_name co_name cs))).
      { apply filter_In. split; [now apply sort_by_name_In|]. now rewrite Hw, Hsub. }
      destruct (Forall2_In_l _ _ _ _ Hf Hco2) as [e' [He' Hg]]. rewrite L in Hg. cbn in Hg. now injection Hg as <-.
  Qed.

  (* ---------- the observation ---------- *)
  Lemma ds_obs_defined : exists vs cos sels,
    ds_obs q outv true ds = Ok {| o_same := true; o_vars := vs; o_coords := cos; o_sels := sels |}
    /\ mapM (fun v : str * list str => match outv (fst v) with
                    | Some x => Ok (fst v, (snd v, sx_val x))
                    | None => Err KeyError end) (sort_by_name fst vars) = Ok vs
    /\ mapM (render_coord q outv) (sort_by_name co_name cs) = Ok cos
    /\ render_sels q outv vars cs = Ok sels.
  Proof.
    destruct vars_rendered as [vs Hvs]. destruct coords_rendered as [cos Hcos]. destruct sels_rendered as [sels Hsels].
    exists vs, cos, sels. split; [|auto]. unfold ds_obs. fold labelled. rewrite no_merged_conflict, no_plain_nd.
    fold plain0 plain1. fold vars. fold pcoord. fold cs. rewrite Hvs, Hcos, Hsels. cbn [bind]. now rewrite Hk0.
  Qed.

  (* ================================================================ the statement holds of the observation *)
  Variables (vs cos : list entry) (sels : list selent).
  Hypothesis Hvs : mapM (fun v : str * list str => match outv (fst v) with
                    | Some x => Ok (fst v, (snd v, sx_val x))
                    | None => Err KeyError end) (sort_by_name fst vars) = Ok vs.
  Hypothesis Hcos : mapM (render_coord q outv) (sort_by_name co_name cs) = Ok cos.
  Hypothesis Hsels : render_sels q outv vars cs = Ok sels.

  Lemma vs_In n dims x : In (n, (dims, x)) vs <-> In (n, dims) vars /\ exists v, outv n = Some v /\ x = sx_val v.
  Proof.
    pose proof (mapM_inv _ _ _ Hvs) as F. split.
    - intros H. destruct (Forall2_In_r _ _ _ _ F H) as [[n' d'] [Hin Hf]]. cbn [fst snd] in Hf.
      apply sort_by_name_In in Hin. destruct (outv n') as [v|] eqn:E; [|discriminate].
      injection Hf as -> -> <-. split; [assumption|]. exists v. split; [assumption|reflexivity].
    - intros [Hin [v [E ->]]]. assert (Hs : In (n, dims) (sort_by_name fst vars)) by now apply sort_by_name_In.
      destruct (Forall2_In_l _ _ _ _ F Hs) as [e [He Hf]]. cbn [fst snd] in Hf. rewrite E in Hf. now injection Hf as <-.
  Qed.

  Lemma cos_In e : In e cos <-> exists c, In c cs /\ render_coord q outv c = Ok e.
  Proof.
    pose proof (mapM_inv _ _ _ Hcos) as F. split.
    - intros H. destruct (Forall2_In_r _ _ _ _ F H) as [c [Hin Hf]]. apply sort_by_name_In in Hin. now exists c.
    - intros [c [Hin Hf]]. assert (Hs : In c (sort_by_name co_name cs)) by now apply sort_by_name_In.
      destruct (Forall2_In_l _ _ _ _ F Hs) as [e' [He Hf']]. rewrite Hf in Hf'. now injection Hf' as <-.
  Qed.

  Lemma render_coord_name c e : render_coord q outv c = Ok e -> fst e = co_name c /\ fst (snd e) = co_axes c.
  Proof.
    unfold render_coord. destruct (mapM (source_value q outv) (co_srcs c)) as [arrs|]; [|discriminate]. cbn [bind].
    destruct (coord_value arrs); [|discriminate]. cbn [bind]. intros [= <-]. auto.
  Qed.

  (* (a) every selection outcome is "returned the element at that position" *)
  Lemma sel_outcomes_true co n lab : co_srcs co = [n] -> NoDup lab -> all_true (sel_outcomes co lab) = true.
  Proof.
    intros Hs Hnd'. unfold sel_outcomes, all_true. rewrite Hs. apply forallb_forall. intros x Hx.
    apply in_map_iff in Hx as [m [<- Hm]]. apply in_seq in Hm.
    assert (Hnth : nth_error lab m = Some (nth m lab [])) by (apply nth_error_nth'; lia).
    rewrite (pos_of_nth lab m _ Hnd' Hnth), Nat.eqb_refl. reflexivity.
  Qed.

  Lemma sels_all_true : forallb (fun e : selent => all_true (snd e)) sels = true.
  Proof.
    apply forallb_forall. intros e He. apply (sels_char sels Hsels) in He as [v [co [lab [_ [Hco [Hw [_ [L ->]]]]]]]].
    cbn [snd]. destruct (wanted_shape co Hw) as [k [n [Hax Hsrc]]].
    destruct (labels_ok co k n Hco Hax Hsrc) as [lab' [L' Hnd']]. rewrite L in L'. injection L' as <-.
    exact (sel_outcomes_true co n lab Hsrc Hnd').
  Qed.

  (* ---------- (b) every output is a variable with its declared axes and its value ---------- *)
  Lemma find_exists {A} (p : A -> bool) l : (exists x, In x l /\ p x = true) -> exists y, find p l = Some y.
  Proof.
    induction l as [|a l IH]; intros [x [Hx Hp]]; [destruct Hx|]. cbn. destruct (p a) eqn:E; [now eexists|].
    destruct Hx as [->|Hx]; [congruence|]. apply IH. now exists x.
  Qed.

  Lemma map_Some_inj (l l' : list str) : map Some l = map Some l' -> l = l'.
  Proof.
    revert l'. induction l as [|x l IH]; intros [|y l'] H; cbn in H; try discriminate; [reflexivity|].
    injection H as -> H. f_equal. now apply IH.
  Qed.

  Lemma out_aspec_axes ms asp : In ms specs -> In asp (outs ms) -> axes_of specs (aname asp) = map Some (indices asp).
  Proof.
    intros Hms Hasp. rewrite (no_colon_indices asp (Xnc ms asp Hms Hasp)).
    apply axes_of_named; [exact Xc| |exact (Xnc ms asp Hms Hasp)].
    unfold all_aspecs. apply in_flat_map. exists ms. split; [assumption|]. apply in_or_app. now right.
  Qed.

  Lemma declared_axes_eq o ms asp : In ms specs -> In asp (outs ms) -> aname asp = o ->
    declared_axes specs o = Some (indices asp).
  Proof.
    intros Hms Hasp En. unfold declared_axes, declared_by.
    destruct (find_exists (fun m => mem_str o (map aname (outs m))) specs) as [ms' Hf].
    { exists ms. split; [assumption|]. apply mem_str_In, in_map_iff. now exists asp. }
    rewrite Hf. apply find_some in Hf as [Hms' Ho]. apply mem_str_In, in_map_iff in Ho as [asp0 [E0 Hasp0]].
    destruct (find_exists (fun a => str_eqb (aname a) o) (outs ms')) as [asp' Hf'].
    { exists asp0. split; [assumption|]. now apply str_eqb_eq. }
    rewrite Hf'. cbn [option_map]. apply find_some in Hf' as [Hasp' E']. apply str_eqb_eq in E'.
    f_equal. apply map_Some_inj. rewrite <- (out_aspec_axes ms' asp' Hms' Hasp'), <- (out_aspec_axes ms asp Hms Hasp).
    now rewrite E', En.
  Qed.

  Lemma ds_plain_NoDup : NoDup (ds_plain ds).
  Proof.
    pose proof Hds as H. unfold dataset_vars in H.
    match type of H with (do arrays <- ?E; _) = _ => destruct E as [arrays|] end; [|discriminate].
    cbn [bind] in H. injection H as <-. cbn [ds_plain]. apply filter_NoDup. unfold output_names.
    apply sort_str_NoDup. exact (v_outputs_nodup q den Hv Hden).
  Qed.

  Lemma labelled_names : map fst labelled = map da_name (ds_arrays ds).
  Proof. unfold labelled. rewrite map_map. reflexivity. Qed.

  Lemma labelled_in_out_names n : In n (map da_name (ds_arrays ds)) -> In n (out_names specs).
  Proof.
    intros H. apply in_map_iff in H as [a [<- Ha]].
    destruct (labelled_facts a Ha) as [_ [ms [asp [Hms [Hasp [En _]]]]]].
    unfold out_names. apply in_flat_map. exists ms. split; [assumption|]. apply in_map_iff. now exists asp.
  Qed.

  Lemma vars_NoDup : NoDup (map fst vars).
  Proof.
    unfold vars. rewrite map_app, map_map. cbn [fst]. rewrite map_id. apply NoDup_app_intro.
    - rewrite labelled_names. exact (ds_arrays_NoDup _ _ _ _ _ Hds).
    - apply filter_NoDup. exact ds_plain_NoDup.
    - intros n Hn Hp. rewrite labelled_names in Hn. apply labelled_in_out_names in Hn.
      apply filter_In in Hp as [Hp _]. now destruct (plain_facts n Hp) as [_ [Hno _]].
  Qed.

  Lemma vs_get o dims v : In (o, dims) vars -> outv o = Some v -> dict_get vs o = Some (dims, sx_val v).
  Proof.
    intros Hin Ho. apply dict_get_functional.
    - apply vs_In. split; [assumption|]. now exists v.
    - intros [d' x'] H. apply vs_In in H as [Hin' [v' [Ho' ->]]]. rewrite Ho in Ho'. injection Ho' as <-.
      now rewrite (NoDup_fst_fun _ _ _ _ vars_NoDup Hin' Hin).
  Qed.

  Lemma vs_none o : ~ In o (map fst vars) -> dict_get vs o = None.
  Proof.
    intros H. apply dict_get_absent. intros [d x] Hin. apply vs_In in Hin as [Hin _]. apply H.
    apply in_map_iff. now exists (o, d).
  Qed.

  (* an entry of the rendered coordinates that is alone under its name *)
  Lemma cos_get c e : In c cs -> render_coord q outv c = Ok e ->
    (forall c2, In c2 cs -> co_name c2 = co_name c -> c2 = c) -> dict_get cos (co_name c) = Some (snd e).
  Proof.
    intros Hc Hr Huniq. destruct (render_coord_name c e Hr) as [Hn _]. destruct e as [n de]. cbn in Hn. subst n.
    cbn [snd]. apply dict_get_functional.
    - apply cos_In. now exists c.
    - intros de' H. apply cos_In in H as [c2 [Hc2 Hr2]]. destruct (render_coord_name c2 _ Hr2) as [Hn2 _].
      cbn in Hn2. rewrite (Huniq c2 Hc2 (eq_sym Hn2)) in Hr2. rewrite Hr in Hr2. now injection Hr2.
  Qed.

  Lemma ds_coord_name_in_specs c : In c (ds_coords ds) -> mem_char ":"%char (co_name c) = false ->
    co_srcs c = [co_name c] /\ In (co_name c) (map aname (all_aspecs specs)).
  Proof.
    intros Hc Hfree. destruct (ds_coord_origin c Hc) as [a [Ha [Hca Hcs]]].
    pose proof (coord_named_single _ _ _ _ _ _ c (co_name c) Xwf Hcs Hca eq_refl Hfree) as Hs.
    split; [assumption|]. destruct (coords_of_axes _ _ _ _ _ _ c (co_name c) Hcs Hca) as [_ H]; [|assumption].
    rewrite Hs. now left.
  Qed.

  (* a declared output that is not one of the labelled arrays is a coordinate of the dataset *)
  Lemma dropped_is_coord o : In o (out_names specs) -> In o (all_outputs q) ->
    ~ In o (map da_name (ds_arrays ds)) -> exists c, In c (ds_coords ds) /\ co_name c = o.
  Proof.
    intros Hon Ho Hnot.
    pose proof (dataset_arrays_spec _ _ _ _ _ Xnd Xc Xwf Xnc Hds) as [_ Hcomp].
    pose proof Hds as H. unfold dataset_vars in H. fold (out_names specs) in H.
    set (mon := filter (fun n => mem_str n (output_names q)) (out_names specs)) in H.
    destruct (mapM _ mon) as [arrays|] eqn:A; [|discriminate]. cbn [bind] in H. injection H as Eds.
    set (data_arrays := fold_left dset_da arrays []) in Eds.
    assert (Hmon : In o mon).
    { unfold mon. apply filter_In. split; [assumption|]. apply mem_str_In. now apply (outputs_In q). }
    apply mapM_inv in A.
    assert (Harr : forall a, In a arrays -> In (da_name a) mon
              /\ coords_of specs (input_names q) (output_names q) (q_li q) (da_name a) = Ok (da_coords a)).
    { intros a Ha. destruct (Forall2_In_r _ _ _ _ A Ha) as [o' [Ho' Hf]].
      destruct (coords_of specs (input_names q) (output_names q) (q_li q) o') as [cs'|] eqn:C; [|discriminate].
      cbn [bind] in Hf. destruct (dims_of specs o'); [|discriminate]. cbn [bind] in Hf. injection Hf as <-. cbn. auto. }
    destruct (Forall2_In_l _ _ _ _ A Hmon) as [a0 [Ha0 Hf0]].
    assert (Hn0 : da_name a0 = o).
    { destruct (coords_of specs (input_names q) (output_names q) (q_li q) o); [|discriminate]. cbn [bind] in Hf0.
      destruct (dims_of specs o); [|discriminate]. cbn [bind] in Hf0. now injection Hf0 as <-. }
    assert (Hhas : In o (map da_name data_arrays)).
    { apply dset_fold_has. right. apply in_map_iff. now exists a0. }
    apply in_map_iff in Hhas as [a [Hna Ha]].
    assert (Hdnd : NoDup (map da_name data_arrays)) by (apply dset_fold_NoDup; constructor).
    assert (Harrs_ds : forall b, In b (ds_arrays ds) <->
              In b data_arrays /\ ~ In (da_name b) (flat_map (fun a => map co_name (da_coords a)) data_arrays)).
    { intros b. rewrite <- Eds. cbn [ds_arrays]. rewrite filter_In, negb_true_iff, mem_str_false. tauto. }
    assert (Hcoord : In o (flat_map (fun a => map co_name (da_coords a)) data_arrays)).
    { destruct (in_dec (list_eq_dec ascii_dec) o (flat_map (fun a => map co_name (da_coords a)) data_arrays)) as [H|H];
        [assumption|]. exfalso. apply Hnot. apply in_map_iff. exists a. split; [assumption|]. apply Harrs_ds.
      split; [assumption|now rewrite Hna]. }
    apply in_flat_map in Hcoord as [a' [Ha' Hc']]. apply in_map_iff in Hc' as [c [Hcn Hc]].
    assert (Ha'arr : In a' arrays) by (apply dset_fold_In in Ha' as [[]|H]; exact H).
    destruct (Harr a' Ha'arr) as [Hmon' Hcs'].
    destruct (coords_nonempty_computed _ _ _ _ _ _ c Hcs' Hc) as [m Hm].
    rewrite (mapping_get_computed_by _ _ Xnd) in Hm.
    assert (Ho' : In (da_name a') (output_names q)).
    { unfold mon in Hmon'. apply filter_In in Hmon' as [_ H]. now apply mem_str_In. }
    destruct (Hcomp (da_name a') m Hm Ho') as [a'' [Ha'' Hn'']].
    assert (a'' = a').
    { apply (NoDup_map_inj19 da_name data_arrays); [assumption| |assumption|assumption]. now apply Harrs_ds. }
    subst a''. destruct (proj1 (ds_coords_union ds) a' c Ha'' Hc) as [c' [Hc'' Hname]].
    exists c'. split; [assumption|]. now rewrite Hname.
  Qed.

  Lemma sx_eqb_refl' x : sx_eqb x x = true.
  Proof. apply sx_eqb_refl19. Qed.

  Lemma strs_eqb_refl l : strs_eqb l l = true.
  Proof. apply (list_eqb_eq str_eqb str_eqb_eq). reflexivity. Qed.

  Lemma ds_coords_uniq c c2 : In c (ds_coords ds) -> In c2 (ds_coords ds) -> co_name c2 = co_name c -> c2 = c.
  Proof. intros H1 H2 E. exact (NoDup_map_inj19 co_name _ c2 c (ds_coords_NoDup ds) H2 H1 E). Qed.

  Lemma plain_not_in_specs n : In n (ds_plain ds) -> ~ In n (map aname (all_aspecs specs)).
  Proof.
    intros Hn. destruct (plain_facts n Hn) as [_ [_ [f [Hf [E Hnf]]]]]. exact (v_unmapped q den Hv Hden f n Hf E Hnf).
  Qed.

  Lemma output_ok_all f o : In f (q_funcs q) -> In o (fouts f) -> output_ok q den vs cos f o = true.
  Proof.
    intros Hf Ho. unfold output_ok.
    assert (Hout : In o (all_outputs q)) by (unfold all_outputs; apply in_flat_map; now exists f).
    destruct (den_get q den Hv Hden o Hout) as [v Hval]. rewrite Hval.
    assert (Hov : outv o = Some v) by now rewrite Houtv.
    assert (Hofree : mem_char ":"%char o = false) by (apply (v_colon_free q den Hv Hden); now left).
    assert (Hnoin : dict_get (q_inputs q) o = None) by (apply dict_get_notin; exact (v_out_not_input q den Hv Hden o Hout)).
    destruct (fspec f) as [ms|] eqn:Ef.
    - (* declared output *)
      destruct (spec_facts q den Hv Hden f ms Hf Ef) as [_ [Hnames _]].
      assert (Hms : In ms specs) by (apply (specs_In q); now exists f).
      rewrite <- Hnames in Ho. apply in_map_iff in Ho as [asp [En Hasp]].
      rewrite (declared_axes_eq o ms asp Hms Hasp En).
      assert (Hon : In o (out_names specs)).
      { unfold out_names. apply in_flat_map. exists ms. split; [assumption|]. apply in_map_iff. now exists asp. }
      destruct (in_dec (list_eq_dec ascii_dec) o (map da_name (ds_arrays ds))) as [Hlab|Hlab].
      + apply in_map_iff in Hlab as [a [Hna Ha]].
        pose proof (ds_arrays_dims _ _ _ _ _ a Hds Ha) as Hd. rewrite Hna, <- En in Hd.
        rewrite (dims_are_axes specs ms asp Xc Hms Hasp (Xnc ms asp Hms Hasp)) in Hd. injection Hd as Hd.
        assert (Hin : In (o, indices asp) vars).
        { unfold vars. apply in_or_app. left. unfold labelled. apply in_map_iff. exists a. split; [|assumption].
          now rewrite Hna, Hd. }
        rewrite (vs_get o (indices asp) v Hin Hov). now rewrite strs_eqb_refl, sx_eqb_refl'.
      + assert (Hnv : ~ In o (map fst vars)).
        { unfold vars. rewrite map_app, labelled_names, map_map. cbn [fst]. rewrite map_id. intros H.
          apply in_app_or in H as [H|H]; [contradiction|]. apply filter_In in H as [H _].
          now destruct (plain_facts o H) as [_ [Hno _]]. }
        rewrite (vs_none o Hnv).
        destruct (dropped_is_coord o Hon Hout Hlab) as [c [Hc Hcn]].
        destruct (ds_coord_name_in_specs c Hc ltac:(now rewrite Hcn)) as [Hsrc _]. rewrite Hcn in Hsrc.
        destruct (ds_src c o Hc ltac:(rewrite Hsrc; now left)) as [_ [_ [_ [_ [Hax _]]]]].
        rewrite <- En, (out_aspec_axes ms asp Hms Hasp) in Hax. apply map_Some_inj in Hax.
        assert (Hr : render_coord q outv c = Ok (o, (indices asp, sx_val v))).
        { unfold render_coord. rewrite Hsrc. cbn [mapM]. unfold source_value. rewrite Hnoin, Hov. cbn.
          now rewrite Hcn, Hax. }
        assert (Hcs : In c cs) by (unfold cs; apply in_or_app; now left).
        pose proof (cos_get c _ Hcs Hr) as G. rewrite Hcn in G. rewrite G.
        * cbn [snd]. now rewrite strs_eqb_refl, sx_eqb_refl'.
        * intros c2 Hc2 E2. unfold cs in Hc2. apply in_app_or in Hc2 as [Hc2|Hc2].
          -- apply (ds_coords_uniq c c2 Hc Hc2). now rewrite Hcn.
          -- exfalso. apply in_map_iff in Hc2 as [m [<- Hm]]. cbn in E2. subst m.
             apply filter_In in Hm as [Hm _]. now destruct (plain_facts o Hm) as [_ [Hno _]].
    - (* output without MapSpec *)
      assert (Hnspec : ~ In o (map aname (all_aspecs specs))) by exact (v_unmapped q den Hv Hden f o Hf Ef Ho).
      assert (Hno : ~ In o (out_names specs)).
      { intros H. apply Hnspec. unfold out_names in H. apply in_flat_map in H as [ms [Hms H]].
        apply in_map_iff in H as [asp [<- Hasp]]. apply in_map_iff. exists asp. split; [reflexivity|].
        unfold all_aspecs. apply in_flat_map. exists ms. split; [assumption|]. apply in_or_app. now right. }
      destruct (proj1 (unmapped_outputs_plain _ _ _ _ _ Hds) o ltac:(now apply (outputs_In q)) Hno) as [Hpl [Hnl _]].
      pose proof (plain_rank_le o Hpl) as Hle. apply Nat.ltb_ge in Hle.
      destruct (Nat.eq_dec (plain_rank outv o) 0) as [H0|H0].
      + assert (Hin : In (o, @nil str) vars).
        { unfold vars. apply in_or_app. right. apply in_map_iff. exists o. split; [reflexivity|].
          apply filter_In. split; [assumption|]. now apply Nat.eqb_eq. }
        rewrite (vs_get o [] v Hin Hov). rewrite sx_eqb_refl'. cbn [andb]. now destruct v.
      + assert (H1 : plain_rank outv o = 1) by lia.
        assert (Hva : exists arr, v = VA arr).
        { unfold plain_rank in H1. rewrite Hov in H1. destruct v as [x|arr]; [discriminate|now exists arr]. }
        destruct Hva as [arr ->].
        assert (Hnv : ~ In o (map fst vars)).
        { unfold vars. rewrite map_app, labelled_names, map_map. cbn [fst]. rewrite map_id. intros H.
          apply in_app_or in H as [H|H]; [contradiction|]. apply filter_In in H as [_ H].
          apply Nat.eqb_eq in H. lia. }
        rewrite (vs_none o Hnv).
        assert (Hp1 : In o plain1) by (apply filter_In; split; [assumption|now apply Nat.eqb_eq]).
        assert (Hcs : In (pcoord o) cs) by (unfold cs; apply in_or_app; right; now apply in_map).
        assert (Hr : render_coord q outv (pcoord o) = Ok (o, ([o], sx_val (VA arr)))).
        { unfold render_coord. cbn [pcoord co_srcs co_name co_axes mapM]. unfold source_value.
          rewrite Hnoin, Hov. reflexivity. }
        pose proof (cos_get (pcoord o) _ Hcs Hr) as G. cbn [co_name pcoord] in G. rewrite G.
        * cbn [snd]. now rewrite sx_eqb_refl'.
        * intros c2 Hc2 E2. unfold cs in Hc2. apply in_app_or in Hc2 as [Hc2|Hc2].
          -- exfalso. destruct (ds_coord_name_in_specs c2 Hc2 ltac:(now rewrite E2)) as [_ H]. rewrite E2 in H.
             contradiction.
          -- apply in_map_iff in Hc2 as [m [<- Hm]]. cbn in E2. now subst m.
  Qed.

  (* ---------- (c) coordinates of a computed output ---------- *)
  Lemma mapM_ext19 {A B} (f g : A -> result B) l : (forall x, In x l -> f x = g x) -> mapM f l = mapM g l.
  Proof.
    induction l as [|x l IH]; intros H; cbn; [reflexivity|]. rewrite (H x (or_introl eq_refl)).
    rewrite IH; [reflexivity|]. intros y Hy. apply H. now right.
  Qed.

  Lemma value_of_source n : value_of q den n = source_value q outv n.
  Proof. unfold value_of, source_value. now rewrite Houtv. Qed.

  Lemma root_one_dimensional r : In r (input_names q) -> one_dim q r = true -> one_dimensional specs r.
  Proof.
    intros Hin H1 asp Hasp En. unfold one_dim in H1.
    destruct (dict_get (q_inputs q) r) as [[x|a]|] eqn:E; try discriminate.
    - destruct (v_rank q den Hv Hden asp Hasp) as [arr [Hval Hr]]. rewrite En in Hval. unfold value_in in Hval.
      rewrite E in Hval. injection Hval as <-. apply Nat.eqb_eq in H1. rewrite <- Hr. exact H1.
    - exfalso. unfold input_names in Hin. apply in_map_iff in Hin as [[k w] [Ek Hkw]]. cbn in Ek. subst k.
      assert (In r (map fst (q_inputs q))) as Hm by (apply in_map_iff; now exists (r, w)).
      destruct (dict_get_some_of_In _ _ Hm) as [w' Hw']. rewrite E in Hw'. discriminate Hw'.
  Qed.

  Lemma declared_one_dim z k : In z (map aname (all_aspecs specs)) -> axes_of specs z = [Some k] -> one_dim q z = true.
  Proof.
    intros Hz Hax. apply in_map_iff in Hz as [asp [En Hasp]].
    assert (Hr : forall asp', In asp' (all_aspecs specs) -> aname asp' = z -> rank asp' = 1).
    { intros asp' H' E'. rewrite <- (axes_of_length specs asp' Xc H'), E', Hax. reflexivity. }
    unfold one_dim. destruct (dict_get (q_inputs q) z) as [w|] eqn:E.
    - destruct (v_rank q den Hv Hden asp Hasp) as [arr [Hval Hrk]]. rewrite En in Hval. unfold value_in in Hval.
      rewrite E in Hval. injection Hval as ->. apply Nat.eqb_eq. rewrite Hrk. now apply Hr.
    - destruct (find_exists (fun a => str_eqb (aname a) z) (all_aspecs specs)) as [asp' Hf].
      { exists asp. split; [assumption|]. now apply str_eqb_eq. }
      rewrite Hf. apply find_some in Hf as [H' E']. apply str_eqb_eq in E'. apply Nat.eqb_eq. now apply Hr.
  Qed.

  (* the coordinate of the dataset that labels axis k of the computed output o *)
  Lemma group_coord o ms k x :
    computed_by specs o = Some ms -> In o (all_outputs q) ->
    one_dimensional specs x -> visible (input_names q) (q_li q) x = true ->
    In x (carried (trace_fuel specs) specs o k) ->
    exists c, In c (ds_coords ds) /\ co_axes c = [k] /\ NoDup (co_srcs c) /\ In x (co_srcs c)
      /\ (forall z, one_dimensional specs z -> visible (input_names q) (q_li q) z = true ->
                    In z (carried (trace_fuel specs) specs o k) -> In z (co_srcs c))
      /\ (forall z, In z (co_srcs c) ->
                    In z (carried (trace_fuel specs) specs o k) /\ visible (input_names q) (q_li q) z = true
                    /\ axes_of specs z = [Some k] /\ In z (map aname (all_aspecs specs))).
  Proof.
    intros Hcomp Ho H1 Hvis Hx.
    destruct (proj2 (dataset_arrays_spec _ _ _ _ _ Xnd Xc Xwf Xnc Hds) o ms Hcomp ltac:(now apply (outputs_In q)))
      as [a [Ha Hna]].
    pose proof (ds_arrays_coords _ _ _ _ _ _ Hds Ha) as Hcs. rewrite Hna in Hcs.
    pose proof Hcs as Hcs0. unfold coords_of in Hcs0.
    destruct (coords_raw_of specs (input_names q) (output_names q) (q_li q) o) as [raw|] eqn:R; [|discriminate].
    cbn [bind] in Hcs0. injection Hcs0 as Hcs0.
    pose proof (coord_names_distinct _ _ _ _ _ _ (wf_names_nocolon specs Xwf) R) as Hdist.
    rewrite (coords_dict_distinct _ Hdist) in Hcs0.
    destruct (carried_group specs (input_names q) (output_names q) (q_li q) o k Xnd Xc raw x H1 Hvis Hx R)
      as [tr [names [Htr [Eraw [Hg [Hall Hin]]]]]].
    destruct (carried_kept _ _ _ _ _ _ _ Xnd Xc H1 Hvis Hx Htr) as [_ Hndt].
    destruct (group_coords_1d k names) as [c0 [Hgc [Hax0 [Hsrc0 _]]]]; [intros ->; destruct Hin|].
    assert (Hc0 : In c0 (da_coords a)).
    { rewrite <- Hcs0, Eraw. unfold coords_raw. apply in_flat_map. exists ([k], names). split; [assumption|].
      rewrite Hgc. now left. }
    destruct (proj1 (ds_coords_union ds) a c0 Ha Hc0) as [c [Hc Hname]].
    destruct (ds_coord_origin c Hc) as [a2 [Ha2 [Hc2 Hcs2]]].
    assert (Hs : co_srcs c = names).
    { rewrite <- Hsrc0. rewrite <- (coord_comps _ _ _ _ _ _ c Xwf Hcs2 Hc2).
      rewrite <- (coord_comps _ _ _ _ _ _ c0 Xwf Hcs Hc0). now rewrite Hname. }
    assert (Hnames_nd : NoDup names).
    { apply (NoDup_concat_elem (map snd (group (kept_of specs (input_names q) (q_li q) (target_of tr o))))).
      - apply (Permutation_NoDup (Permutation_sym (group_concat_perm _))). unfold kept_of. now apply filter_fst_NoDup.
      - apply in_map_iff. now exists ([k], names). }
    assert (Hz3 : forall z, In z names ->
              In z (carried (trace_fuel specs) specs o k) /\ visible (input_names q) (q_li q) z = true
              /\ axes_of specs z = [Some k] /\ In z (map aname (all_aspecs specs))).
    { intros z Hz. apply Hall in Hz. unfold kept_of in Hz. apply filter_In in Hz as [Hz Hf].
      apply andb_true_iff in Hf as [Hvz Hfz]. unfold full_axes in Hfz. cbn [fst snd] in Hvz, Hfz.
      apply (list_eqb_eq axis_eqb axis_eqb_eq) in Hfz. cbn in Hfz.
      destruct (target_names_carried _ _ _ _ _ Xnd Htr Hz) as [k' Hcar].
      destruct (carried_occ _ _ _ _ _ Hcar) as [m [asp [Hm [Hasp [En Hk]]]]].
      pose proof (ins_all_aspecs _ _ _ Hm Hasp) as Hall'.
      pose proof (axes_of_length specs asp Xc Hall') as Hlen. rewrite En, <- Hfz in Hlen. cbn in Hlen.
      assert (Haxes : axes asp = [Some k']).
      { unfold rank in Hlen. destruct (axes asp) as [|y [|? ?]]; try discriminate. destruct Hk as [->|[]]. reflexivity. }
      assert (Hncol : no_colon_axes asp).
      { intros i. rewrite Haxes. destruct i as [|[|i]]; cbn; discriminate. }
      pose proof (axes_of_named specs asp Xc Hall' Hncol) as E. rewrite En, <- Hfz, Haxes in E. injection E as <-.
      repeat split; try assumption; [now symmetry|]. apply in_map_iff. now exists asp. }
    exists c. rewrite Hs. repeat split; try assumption.
    - destruct (ds_src c x Hc ltac:(rewrite Hs; exact Hin)) as [arr' [_ [_ [_ [Hao _]]]]].
      destruct (Hz3 x Hin) as [_ [_ [Hax _]]]. rewrite Hax in Hao.
      destruct (co_axes c) as [|k0 [|? ?]]; try discriminate. cbn in Hao. congruence.
    - intros z Hz1 Hzv Hzc. apply Hall. now destruct (carried_kept _ _ _ _ _ _ _ Xnd Xc Hz1 Hzv Hzc Htr).
    - now apply Hz3.
    - now apply Hz3.
    - now apply Hz3.
    - now apply Hz3.
  Qed.

  Lemma roots_facts o k r : In r (roots_of q o k) ->
    In r (carried (trace_fuel specs) specs o k) /\ one_dim q r = true /\ In r (input_names q).
  Proof.
    unfold roots_of. rewrite dedup_In19, filter_In, andb_true_iff, mem_str_In. unfold trace_fuel. tauto.
  Qed.

  Lemma allowed_In o k z : In z (allowed_of q o k) <->
    In z (carried (trace_fuel specs) specs o k) /\ one_dim q z = true
    /\ (mem_str z (input_names q) || q_li q) = true.
  Proof. unfold allowed_of. rewrite dedup_In19, filter_In, andb_true_iff. unfold trace_fuel. tauto. Qed.

  Lemma subset_str_spec a b : subset_str a b = true <-> forall x, In x a -> In x b.
  Proof. unfold subset_str. rewrite forallb_forall. split; intros H x Hx; [apply mem_str_In|apply mem_str_In]; auto. Qed.

  Lemma mapped_output_facts o ks : In (o, ks) (mapped_outputs q) ->
    In o (all_outputs q) /\ (exists ms, computed_by specs o = Some ms)
    /\ exists ms asp, In ms specs /\ In asp (outs ms) /\ aname asp = o /\ ks = indices asp.
  Proof.
    unfold mapped_outputs. intros H. apply in_flat_map in H as [f [Hf H]].
    destruct (fspec f) as [ms|] eqn:Ef; [|destruct H]. destruct (is_nil (ins ms)) eqn:Ei; [destruct H|].
    apply in_map_iff in H as [asp [E Hasp]]. injection E as <- <-.
    assert (Hms : In ms specs) by (apply (specs_In q); now exists f).
    destruct (spec_facts q den Hv Hden f ms Hf Ef) as [_ [Hn _]]. repeat split.
    - unfold all_outputs. apply in_flat_map. exists f. split; [assumption|]. rewrite <- Hn. now apply in_map.
    - apply find_exists. exists ms. split; [assumption|]. rewrite Ei. cbn. apply mem_str_In. now apply in_map.
    - now exists ms, asp.
  Qed.

  Lemma axis_sel_ok o ks k : In (o, ks) (mapped_outputs q) -> In k ks ->
    axis_ok q den cos o k = true /\ sel_ok q vs sels o k = true.
  Proof.
    intros Hmo Hk. destruct (mapped_output_facts o ks Hmo) as [Ho [[ms Hcomp] [ms' [asp [Hms' [Hasp [En ->]]]]]]].
    unfold axis_ok, sel_ok.
    destruct (roots_of q o k) as [|x roots'] eqn:Er.
    { cbn [is_nil]. split; [reflexivity|]. now destruct (dict_get vs o). }
    cbn [is_nil]. rewrite <- Er.
    assert (Hroot : forall r, In r (roots_of q o k) ->
              one_dimensional specs r /\ visible (input_names q) (q_li q) r = true
              /\ In r (carried (trace_fuel specs) specs o k) /\ In r (input_names q)).
    { intros r Hr. destruct (roots_facts o k r Hr) as [Hc [H1 Hi]]. repeat split; try assumption.
      - now apply root_one_dimensional.
      - unfold visible. apply orb_true_iff. left. now apply mem_str_In. }
    assert (Hxr : In x (roots_of q o k)) by (rewrite Er; now left).
    destruct (Hroot x Hxr) as [Hx1 [Hxv [Hxc Hxi]]].
    destruct (group_coord o ms k x Hcomp Ho Hx1 Hxv Hxc) as [c [Hc [Hax [Hnd' [Hxin [Hall Hsrcs]]]]]].
    destruct (ds_coord_origin c Hc) as [a2 [Ha2 [Hc2 Hcs2]]].
    pose proof (coord_comps _ _ _ _ _ _ c Xwf Hcs2 Hc2) as Hcomps.
    assert (Hccs : In c cs) by (unfold cs; apply in_or_app; now left).
    destruct (coord_rendered c Hccs) as [e He].
    destruct (render_coord_name c e He) as [Hen Hed].
    split.
    - (* axis_ok *)
      apply andb_true_iff. split.
      + apply existsb_exists. exists e. split; [apply cos_In; now exists c|].
        unfold comps. rewrite Hen, Hcomps, Hed, Hax, strs_eqb_refl. cbn [andb].
        assert (subset_str (roots_of q o k) (co_srcs c) = true) as ->.
        { apply subset_str_spec. intros r Hr. destruct (Hroot r Hr) as [H1 [H2 [H3 _]]]. now apply Hall. }
        assert (subset_str (co_srcs c) (allowed_of q o k) = true) as ->.
        { apply subset_str_spec. intros z Hz. destruct (Hsrcs z Hz) as [Hzc [Hzv [Hza Hzn]]]. apply allowed_In.
          repeat split; [assumption|exact (declared_one_dim z k Hzn Hza)|exact Hzv]. }
        assert (nodup_str (co_srcs c) = true) as -> by now apply nodup_str_NoDup.
        cbn [andb]. unfold render_coord in He.
        rewrite (mapM_ext19 (value_of q den) (source_value q outv) (co_srcs c) (fun n _ => value_of_source n)).
        destruct (mapM (source_value q outv) (co_srcs c)) as [arrs|]; [|discriminate]. cbn [bind] in He.
        destruct (coord_value arrs) as [xv|]; [|discriminate]. cbn [bind] in He. injection He as <-. cbn [snd].
        apply sx_eqb_refl'.
      + apply forallb_forall. intros e2 He2. apply cos_In in He2 as [c2 [Hc2in Hr2]].
        destruct (render_coord_name c2 e2 Hr2) as [Hn2 Hd2].
        destruct (existsb (fun r => mem_str r (comps (fst e2))) (roots_of q o k)) eqn:Eex; [|reflexivity].
        cbn [negb orb]. apply existsb_exists in Eex as [r [Hr Hmem]]. apply mem_str_In in Hmem.
        destruct (Hroot r Hr) as [Hr1 [_ [Hrc Hri]]]. unfold comps in Hmem. rewrite Hn2 in Hmem.
        unfold cs in Hc2in. apply in_app_or in Hc2in as [Hc2in|Hc2in].
        * destruct (ds_coord_origin c2 Hc2in) as [a3 [Ha3 [Hc3 Hcs3]]].
          rewrite (coord_comps _ _ _ _ _ _ c2 Xwf Hcs3 Hc3) in Hmem.
          destruct (ds_src c2 r Hc2in Hmem) as [arr' [_ [_ [_ [Hao _]]]]].
          destruct (carried_axes _ _ _ _ _ Xc Hr1 Hrc) as [Hraxes _]. rewrite Hraxes in Hao.
          rewrite Hd2. destruct (co_axes c2) as [|k0 [|? ?]]; try discriminate. cbn in Hao.
          injection Hao as ->. apply strs_eqb_refl.
        * exfalso. apply in_map_iff in Hc2in as [m [<- Hm]]. cbn [co_name pcoord] in Hmem.
          apply filter_In in Hm as [Hm _]. destruct (plain_facts m Hm) as [Hmo' _].
          rewrite (split_char_free ":"%char m) in Hmem by (apply (v_colon_free q den Hv Hden); now left).
          destruct Hmem as [<-|[]]. exact (v_out_not_input q den Hv Hden m Hmo' Hri).
    - (* sel_ok *)
      destruct (dict_get vs o) as [ev|] eqn:Evs; [|reflexivity].
      rewrite Hk0. cbn [Nat.eqb].
      destruct (allowed_of q o k) as [|y [|y' rest]] eqn:Eal; try reflexivity.
      assert (Hsub : forall z, In z (co_srcs c) -> z = y).
      { intros z Hz. destruct (Hsrcs z Hz) as [Hzc [Hzv [Hza Hzn]]].
        assert (In z (allowed_of q o k)) as H.
        { apply allowed_In. repeat split; [assumption|exact (declared_one_dim z k Hzn Hza)|exact Hzv]. }
        rewrite Eal in H. destruct H as [<-|[]]. reflexivity. }
      assert (Hsrc : co_srcs c = [y]).
      { destruct (co_srcs c) as [|z0 [|z1 rest]] eqn:Es; [destruct Hxin| |].
        - now rewrite (Hsub z0 (or_introl eq_refl)).
        - exfalso. inversion Hnd' as [|? ? Hn0 _]; subst. apply Hn0. left.
          rewrite (Hsub z0 (or_introl eq_refl)), (Hsub z1 (or_intror (or_introl eq_refl))). reflexivity. }
      assert (Hname : co_name c = y).
      { destruct (coords_of_name _ _ _ _ _ _ _ Hcs2 Hc2) as [Hj _]. rewrite Hj, Hsrc. reflexivity. }
      destruct (labels_ok c k y Hccs Hax Hsrc) as [lab [Hlab _]].
      apply existsb_exists. exists (o, y, sel_outcomes c lab). split.
      + apply (sels_char sels Hsels). 
        apply dict_get_In19 in Evs. destruct ev as [dims xv]. apply vs_In in Evs as [Hvin _].
        exists (o, dims), c, lab. repeat split; try assumption.
        * unfold sel_wanted. rewrite Hk0, Hax, Hsrc. reflexivity.
        * cbn [snd]. rewrite Hax. apply subset_str_spec. intros k' [<-|[]].
          (* dims of o are its declared axes *)
          unfold vars in Hvin. apply in_app_or in Hvin as [Hvin|Hvin].
          -- unfold labelled in Hvin. apply in_map_iff in Hvin as [a [Ea Ha]]. injection Ea as Hna <-.
             pose proof (ds_arrays_dims _ _ _ _ _ a Hds Ha) as Hd. rewrite Hna, <- En in Hd.
             rewrite (dims_are_axes specs ms' asp Xc Hms' Hasp (Xnc ms' asp Hms' Hasp)) in Hd. injection Hd as <-.
             exact Hk.
          -- exfalso. apply in_map_iff in Hvin as [m [Em Hm]]. injection Em as -> _.
             apply filter_In in Hm as [Hm _]. destruct (plain_facts o Hm) as [_ [Hno _]]. apply Hno.
             unfold out_names. apply in_flat_map. exists ms'. split; [assumption|]. rewrite <- En. now apply in_map.
        * now rewrite Hname.
      + cbn [fst snd]. now rewrite !str_eqb_refl.
  Qed.

  Lemma spec_body_true : spec_body q den vs cos sels = true.
  Proof.
    unfold spec_body. apply andb_true_iff. split; [exact sels_all_true|]. rewrite Hk0. cbn [Nat.eqb].
    apply andb_true_iff. split.
    - apply forallb_forall. intros f Hf. apply forallb_forall. intros o Ho. now apply output_ok_all.
    - apply forallb_forall. intros [o ks] Hmo. cbn [fst snd]. apply forallb_forall. intros k Hk.
      destruct (axis_sel_ok o ks k Hmo Hk) as [-> ->]. reflexivity.
  Qed.

End Obs.

(* ================================================================ kind 1 without zipped coordinates *)
Section ObsZ.
  Variable q : req.
  Variable den : den_state.
  Variable outv : str -> option val.
  Variable ds : dataset.
  Hypothesis Hv : valid_req q = true.
  Hypothesis Hden : denote_run sym_body (q_funcs q) (q_inputs q) (q_internal q) = Ok den.
  Hypothesis Houtv : forall n, outv n = dict_get (d_out den) n.
  Hypothesis Hds : dataset_vars (specs_of q) (input_names q) (output_names q) (q_li q) = Ok ds.
  Hypothesis Hconf : sizes_conflict (axis_sizes q den) = false.
  Hypothesis Hplain :
    existsb (fun f => match fspec f with
                      | None => existsb (fun o => match dict_get (d_out den) o with
                                                  | Some (VA a) => 1 <? length (shp a)
                                                  | _ => false end) (fouts f)
                      | Some _ => false end) (q_funcs q) = false.
  Hypothesis Hk1 : q_kind q = 1.

  Local Notation specs := (specs_of q).
  Local Notation vars := (map (fun a : darray => (da_name a, da_dims a)) (ds_arrays ds)
                          ++ map (fun n : str => (n, @nil str))
                                 (filter (fun n : str => plain_rank outv n =? 0) (ds_plain ds))).
  Local Notation cs := (ds_coords ds
                        ++ map (fun n : str => {| co_name := n; co_axes := [n]; co_srcs := [n] |})
                               (filter (fun n : str => plain_rank outv n =? 1) (ds_plain ds))).

  Lemma wanted1_shape co : In co cs -> sel_wanted (q_kind q) co = true ->
    In co (ds_coords ds) /\ (exists k, co_axes co = [k]) /\ 2 <= length (co_srcs co).
  Proof.
    unfold sel_wanted. rewrite Hk1. cbn [Nat.eqb]. intros Hco Hw.
    destruct (co_axes co) as [|k [|? ?]] eqn:Eax; try discriminate. apply Nat.ltb_lt in Hw.
    apply in_app_or in Hco as [Hco|Hco].
    - repeat split; [assumption|now exists k|lia].
    - apply in_map_iff in Hco as [n [<- _]]. cbn in Hw. lia.
  Qed.

  Lemma labels_multi_ok co : In co (ds_coords ds) -> 1 <= length (co_srcs co) ->
    exists lab, labels_of q outv co = Ok lab.
  Proof.
    intros Hco Hl. unfold labels_of.
    destruct (mapM_total (source_value q outv) (co_srcs co)) as [arrs Harrs].
    { intros n Hn. destruct (ds_src q den ds Hv Hden Hds co n Hco Hn) as [arr [Hval _]].
      rewrite (source_value_eq q den outv Houtv), Hval. now eexists. }
    rewrite Harrs. cbn [bind]. destruct (co_srcs co) as [|n0 rest] eqn:Es; [cbn in Hl; lia|].
    cbn [mapM] in Harrs.
    destruct (ds_src q den ds Hv Hden Hds co n0 Hco ltac:(rewrite Es; now left)) as [arr [Hval _]].
    rewrite (source_value_eq q den outv Houtv), Hval in Harrs. cbn [bind] in Harrs.
    destruct (mapM (source_value q outv) rest); [|discriminate]. cbn in Harrs. injection Harrs as <-. now eexists.
  Qed.

  Lemma sels_rendered1 : exists sels, render_sels q outv vars cs = Ok sels.
  Proof.
    unfold render_sels.
    match goal with |- exists sels, (do l <- mapM ?F ?L; _) = _ => destruct (mapM_total F L) as [l Hl] end.
    - intros v _. apply mapM_total. intros co Hco. apply filter_In in Hco as [Hco Hw].
      apply sort_by_name_In in Hco. apply andb_true_iff in Hw as [Hw _].
      destruct (wanted1_shape co Hco Hw) as [Hcd [_ Hl]].
      destruct (labels_multi_ok co Hcd ltac:(lia)) as [lab ->]. cbn. now eexists.
    - rewrite Hl. cbn. now eexists.
  Qed.

  Lemma ds_obs_defined1 sels : render_sels q outv vars cs = Ok sels ->
    ds_obs q outv true ds = Ok {| o_same := true; o_vars := []; o_coords := []; o_sels := sels |}.
  Proof.
    intros Hsels. destruct (vars_rendered q den outv ds Hv Hden Houtv Hds) as [vs Hvs].
    destruct (coords_rendered q den outv ds Hv Hden Houtv Hds Hconf Hplain) as [cos Hcos].
    unfold ds_obs. rewrite (no_merged_conflict q den outv ds Hv Hden Houtv Hds Hconf Hplain).
    rewrite (no_plain_nd q den outv ds Hv Hden Houtv Hds Hplain).
    rewrite Hvs, Hcos, Hsels. cbn [bind]. now rewrite Hk1.
  Qed.

  (* without any selection entry, no output has two zipped root inputs on an axis *)
  Lemma zsel_ok_all sels o ks k : render_sels q outv vars cs = Ok sels -> sels = [] ->
    In (o, ks) (mapped_outputs q) -> In k ks -> zsel_ok q sels o k = true.
  Proof.
    intros Hsels Hnil Hmo Hk. unfold zsel_ok.
    destruct (length (roots_of q o k) <? 2) eqn:El; [reflexivity|]. exfalso. apply Nat.ltb_ge in El.
    destruct (mapped_output_facts q den Hv Hden o ks Hmo) as [Ho [[ms Hcomp] [ms' [asp [Hms' [Hasp [En ->]]]]]]].
    assert (Hrn : NoDup (roots_of q o k)) by (unfold roots_of; apply dedup_NoDup19).
    destruct (roots_of q o k) as [|x [|z rest]] eqn:Er; cbn in El; try lia.
    assert (Hne : x <> z) by (inversion Hrn as [|? ? Hn _]; subst; intros ->; apply Hn; now left).
    assert (Hroot : forall r, In r (roots_of q o k) ->
              XrLabelFacts.one_dimensional specs r /\ visible (input_names q) (q_li q) r = true
              /\ In r (carried (trace_fuel specs) specs o k)).
    { intros r Hr. destruct (roots_facts q o k r Hr) as [Hc [H1 Hi]]. repeat split; try assumption.
      - exact (root_one_dimensional q den Hv Hden r Hi H1).
      - unfold visible. apply orb_true_iff. left. now apply mem_str_In. }
    rewrite Er in Hroot.
    destruct (Hroot x (or_introl eq_refl)) as [Hx1 [Hxv Hxc]].
    destruct (Hroot z (or_intror (or_introl eq_refl))) as [Hz1 [Hzv Hzc]].
    destruct (group_coord q den ds Hv Hden Hds o ms k x Hcomp Ho Hx1 Hxv Hxc) as [c [Hc [Hax [Hnd' [Hxin [Hall _]]]]]].
    pose proof (Hall z Hz1 Hzv Hzc) as Hzin.
    assert (Hlen : 2 <= length (co_srcs c)).
    { destruct (co_srcs c) as [|a [|b t]]; cbn; try lia; [destruct Hxin|].
      destruct Hxin as [<-|[]], Hzin as [<-|[]]. congruence. }
    destruct (labels_multi_ok c Hc ltac:(lia)) as [lab Hlab].
    (* o is one of the labelled arrays, with its declared axes as dims *)
    destruct (proj2 (dataset_arrays_spec _ _ _ _ _ (v_out_names_nodup q den Hv Hden) (v_cons q den Hv Hden)
                       (v_wf q den Hv Hden) (v_no_colon q den Hv Hden) Hds) o ms Hcomp
                    ltac:(now apply (outputs_In q))) as [a [Ha Hna]].
    pose proof (ds_arrays_dims _ _ _ _ _ a Hds Ha) as Hd. rewrite Hna, <- En in Hd.
    rewrite (dims_are_axes specs ms' asp (v_cons q den Hv Hden) Hms' Hasp (v_no_colon q den Hv Hden ms' asp Hms' Hasp)) in Hd.
    injection Hd as Hd.
    assert (Hent : In (o, co_name c, sel_outcomes c lab) sels).
    { apply (sels_char q outv ds sels Hsels). exists (o, indices asp), c, lab. repeat split.
      - apply in_or_app. left. apply in_map_iff. exists a. split; [|assumption]. now rewrite Hna, Hd.
      - apply in_or_app. now left.
      - unfold sel_wanted. rewrite Hk1, Hax. cbn [Nat.eqb]. apply Nat.ltb_lt. lia.
      - cbn [snd]. rewrite Hax. apply subset_str_spec. intros k' [<-|[]]. exact Hk.
      - assumption. }
    rewrite Hnil in Hent. destruct Hent.
  Qed.
End ObsZ.

(* ================================================================ the capstone *)
Theorem capstone_req q :
  valid_req q = true -> region_conflict q = false -> region_plain q = false -> q_kind q = 0 ->
  spec_req q (run_req q) = true.
Proof.
  intros Hv Hconf Hplain Hk0.
  destruct (valid_req_denote q Hv) as [Hreq [den Hden]].
  unfold region_conflict in Hconf. unfold region_plain in Hplain. rewrite Hden in Hconf, Hplain.
  destruct (model_values_denote q den Hreq Hden) as [st [Hrun [Houtv Hsame]]].
  destruct (dataset_vars_total (specs_of q) (input_names q) (output_names q) (q_li q)
              (v_out_names_nodup q den Hv Hden) (v_topo q den Hv Hden) (v_cons q den Hv Hden)
              (v_no_colon q den Hv Hden) (v_known q den Hv Hden)) as [ds Hds].
  destruct (ds_obs_defined q den (outv_of (r_out st)) ds Hv Hden Houtv Hds Hconf Hplain Hk0)
    as [vs [cos [sels [Hobs [Hvs [Hcos Hsels]]]]]].
  cbv zeta in Hobs, Hvs, Hcos, Hsels.
  pose proof (spec_body_true q den (outv_of (r_out st)) ds Hv Hden Houtv Hds Hconf Hplain Hk0 vs cos sels) as Hbody.
  cbv zeta in Hbody. specialize (Hbody Hvs Hcos Hsels).
  unfold run_req, model_obs. rewrite Hrun. cbn [bind]. rewrite Hds. cbn [bind]. rewrite Hsame, Hobs.
  unfold spec_req. rewrite Hv. cbn [negb]. rewrite Hden. unfold render. cbn [o_same o_vars o_coords o_sels].
  rewrite str_eqb_refl, !sx_eqb_SB. cbn [andb].
  now rewrite parse_render_entries, parse_render_entries, parse_render_sels.
Qed.


Theorem capstone_req1 q :
  valid_req q = true -> region_conflict q = false -> region_plain q = false -> q_kind q = 1 ->
  region_zsel q = false -> spec_req q (run_req q) = true.
Proof.
  intros Hv Hconf Hplain Hk1 Hz.
  destruct (valid_req_denote q Hv) as [Hreq [den Hden]].
  unfold region_conflict in Hconf. unfold region_plain in Hplain. rewrite Hden in Hconf, Hplain.
  destruct (model_values_denote q den Hreq Hden) as [st [Hrun [Houtv Hsame]]].
  destruct (dataset_vars_total (specs_of q) (input_names q) (output_names q) (q_li q)
              (v_out_names_nodup q den Hv Hden) (v_topo q den Hv Hden) (v_cons q den Hv Hden)
              (v_no_colon q den Hv Hden) (v_known q den Hv Hden)) as [ds Hds].
  destruct (sels_rendered1 q den (outv_of (r_out st)) ds Hv Hden Houtv Hds Hk1) as [sels Hsels].
  pose proof (ds_obs_defined1 q den (outv_of (r_out st)) ds Hv Hden Houtv Hds Hconf Hplain Hk1 sels Hsels) as Hobs.
  assert (Hmodel : model_obs q = Ok {| o_same := true; o_vars := []; o_coords := []; o_sels := sels |}).
  { unfold model_obs. rewrite Hrun. cbn [bind]. rewrite Hds. cbn [bind]. now rewrite Hsame. }
  unfold region_zsel in Hz. rewrite Hk1, Hmodel in Hz. cbn in Hz. apply negb_false_iff in Hz.
  assert (Hnil : sels = []) by (destruct sels; [reflexivity|discriminate]).
  unfold run_req. rewrite Hmodel. unfold spec_req. rewrite Hv. cbn [negb]. rewrite Hden. unfold render.
  cbn [o_same o_vars o_coords o_sels map]. rewrite str_eqb_refl, !sx_eqb_SB. cbn [andb omapM].
  rewrite parse_render_sels. unfold spec_body. rewrite Hk1. cbn [Nat.eqb]. subst sels. cbn [forallb andb].
  apply forallb_forall. intros [o ks] Hmo. cbn [fst snd]. apply forallb_forall. intros k Hk.
  exact (zsel_ok_all q den (outv_of (r_out st)) ds Hv Hden Houtv Hds Hk1 [] o ks k Hsels eq_refl Hmo Hk).
Qed.

(* Outside the regions of the three known findings, the observation of the model satisfies the executable
   statement that the harness applies to the implementation. *)
Theorem capstone c : valid c = true -> known_region c = false -> spec_ok c (run c) = true.
Proof.
  unfold valid, known_region, spec_ok, run. destruct (resolve c) as [q|e]; [|discriminate].
  intros Hv Hr. unfold region_req in Hr. apply orb_false_iff in Hr as [Hr Hz]. apply orb_false_iff in Hr as [Hc Hp].
  destruct (q_kind q) as [|[|n]] eqn:Ek.
  - now apply capstone_req.
  - now apply capstone_req1.
  - exfalso. unfold valid_req in Hv. apply andb_true_iff in Hv as [_ Hv]. rewrite Ek in Hv. discriminate.
Qed.
