(* C19, link to C01: the values that the model of the datasets shows (Corr/Run_C19.run reads them from the
   model of Pipeline.map) are the denotation of the request, and returned and stored values agree, so the
   "identical" flags of the model are true.  Kept in a file of its own: it is the only C19 file that depends
   on C01's proof files. *)
From Verif Require Import Corr.Run_C19 Proofs.StrFacts Proofs.MapRunFacts.

Lemma sx_eqb_refl19 : forall x, sx_eqb x x = true.
Proof.
  fix IH 1. intros [z|t|l]; cbn [sx_eqb].
  - apply Z.eqb_refl.
  - apply str_eqb_refl.
  - induction l as [|a l IHl]; [reflexivity|]. rewrite (IH a). cbn [andb]. exact IHl.
Qed.

Lemma find_out_dict_get (ro : list (str * val * val)) n :
  option_map (fun x => snd (fst x)) (find (fun x => str_eqb (fst (fst x)) n) ro)
  = dict_get (map (fun x => (fst (fst x), snd (fst x))) ro) n.
Proof.
  induction ro as [|[[k a] b] ro IH]; cbn; [reflexivity|].
  rewrite (str_eqb_sym k n). destruct (str_eqb n k); [reflexivity|exact IH].
Qed.

Theorem model_values_denote q den :
  request_ok (q_funcs q) (q_inputs q) = true ->
  denote_run sym_body (q_funcs q) (q_inputs q) (q_internal q) = Ok den ->
  exists st, map_run sym_body (q_funcs q) (q_inputs q) (q_internal q) = Ok st
    /\ (forall n, outv_of (r_out st) n = dict_get (d_out den) n)
    /\ forallb (fun x => val_eqb (snd (fst x)) (snd x)) (r_out st) = true.
Proof.
  intros Hreq Hd.
  destruct (map_run_denotes sym_body sym_body_arity (q_internal q) _ _ _ Hreq Hd) as [st [Hr [H1 H2]]].
  exists st. split; [assumption|]. split.
  - intros n. unfold outv_of. rewrite find_out_dict_get. now rewrite H1.
  - apply forallb_forall. intros [[k a] b] Hin. cbn [fst snd]. unfold val_eqb.
    rewrite <- H1 in H2. pose proof (proj1 map_ext_in_iff H2 _ Hin) as E. cbn [fst snd] in E.
    injection E as ->. apply sx_eqb_refl19.
Qed.

Lemma valid_req_denote q : valid_req q = true ->
  request_ok (q_funcs q) (q_inputs q) = true
  /\ exists den, denote_run sym_body (q_funcs q) (q_inputs q) (q_internal q) = Ok den.
Proof.
  unfold valid_req. intros H. do 7 (apply andb_true_iff in H as [H ?]).
  split; [assumption|].
  destruct (denote_run sym_body (q_funcs q) (q_inputs q) (q_internal q)) as [den|e]; [now exists den|discriminate].
Qed.

(* the executable statement demands a dataset for every valid request: an exception observed from either
   constructor (or from Pipeline.map) is always judged a violation *)
Theorem spec_rejects_errors c e : valid c = true -> spec_ok c (SErr e) = false.
Proof.
  unfold valid, spec_ok. destruct (resolve c) as [q|e']; [|discriminate]. intros Hv.
  unfold spec_req. rewrite Hv. cbn [negb].
  destruct (valid_req_denote q Hv) as [_ [den ->]]. reflexivity.
Qed.
