(* Proofs about Model/XrLabel.v (labelling logic of pipefunc/map/xarray.py) against Model/XrLabelSpec.v. *)
From Verif Require Import Base.Prelude Base.StrUtil Base.Index Base.NdArr Model.MapSpec Model.MapSpecSpec
  Model.XrLabel Model.XrLabelSpec Proofs.IndexFacts Proofs.StrFacts Proofs.MapSpecFacts.

(* ================================================================ generic facts *)
Lemma mapM_inv {A B} (f : A -> result B) l : forall r,
  mapM f l = Ok r -> Forall2 (fun a b => f a = Ok b) l r.
Proof.
  induction l as [|x l IH]; intros r H; cbn in H.
  - injection H as <-. constructor.
  - destruct (f x) as [y|e] eqn:Fx; cbn in H; [|discriminate].
    destruct (mapM f l) as [ys|e] eqn:Fl; cbn in H; [|discriminate].
    injection H as <-. constructor; auto.
Qed.

Lemma Forall2_In_l {A B} (R : A -> B -> Prop) l r a :
  Forall2 R l r -> In a l -> exists b, In b r /\ R a b.
Proof.
  induction 1 as [|x y l r Hxy H IH]; intros Hin; [destruct Hin|].
  destruct Hin as [->|Hin]; [exists y; split; [now left|assumption]|].
  destruct (IH Hin) as [b [Hb Rb]]. exists b; split; [now right|assumption].
Qed.

Lemma Forall2_In_r {A B} (R : A -> B -> Prop) l r b :
  Forall2 R l r -> In b r -> exists a, In a l /\ R a b.
Proof.
  induction 1 as [|x y l r Hxy H IH]; intros Hin; [destruct Hin|].
  destruct Hin as [->|Hin]; [exists x; split; [now left|assumption]|].
  destruct (IH Hin) as [a [Ha Ra]]. exists a; split; [now right|assumption].
Qed.

Lemma nth_error_ext' {A} (l1 : list A) : forall l2,
  (forall i, nth_error l1 i = nth_error l2 i) -> l1 = l2.
Proof.
  induction l1 as [|x l1 IH]; intros [|y l2] H.
  - reflexivity.
  - specialize (H 0). discriminate.
  - specialize (H 0). discriminate.
  - pose proof (H 0) as H0. cbn in H0. injection H0 as ->. f_equal. apply IH. intros i. exact (H (S i)).
Qed.

Lemma NoDup_app_inv {A} (l1 l2 : list A) :
  NoDup (l1 ++ l2) -> NoDup l1 /\ NoDup l2 /\ (forall x, In x l1 -> ~ In x l2).
Proof.
  induction l1 as [|a l1 IH]; cbn; intros H.
  - repeat split; [constructor|assumption|intros x []].
  - inversion H as [|? ? Hn Hd]; subst. destruct (IH Hd) as [H1 [H2 H3]]. repeat split.
    + constructor; [|assumption]. intros Hin. apply Hn. apply in_or_app. now left.
    + assumption.
    + intros x [<-|Hx] Hx2; [apply Hn; apply in_or_app; now right|now apply (H3 x)].
Qed.

Lemma key_eqb_eq a b : key_eqb a b = true <-> a = b.
Proof. apply list_eqb_eq. intros x y. apply str_eqb_eq. Qed.

Lemma axis_eqb_eq a b : axis_eqb a b = true <-> a = b.
Proof.
  destruct a as [x|], b as [y|]; cbn; try (split; [discriminate|intros H; discriminate]); try tauto.
  rewrite str_eqb_eq. split; [now intros ->|now intros [= ->]].
Qed.

(* ---------- sets as duplicate-free lists ---------- *)
Lemma set_add_In x y l : In y (set_add x l) <-> y = x \/ In y l.
Proof.
  unfold set_add. destruct (mem_str x l) eqn:E.
  - apply mem_str_In in E. split; [auto|]. intros [->|H]; assumption.
  - rewrite in_app_iff. cbn. split; [intros [H|[H|[]]]; auto | intros [H|H]; auto].
Qed.

Lemma set_union_In y m : forall l, In y (set_union l m) <-> In y l \/ In y m.
Proof.
  unfold set_union. induction m as [|x m IH]; intros l; cbn.
  - tauto.
  - rewrite IH, set_add_In. split; intros H; intuition auto.
Qed.

(* ---------- sorted ---------- *)
Lemma insert_str_In y x l : In y (insert_str x l) <-> y = x \/ In y l.
Proof.
  induction l as [|z l IH]; cbn.
  - intuition auto.
  - destruct (str_ltb z x); cbn; rewrite ?IH; intuition auto.
Qed.

Lemma sort_str_In y l : In y (sort_str l) <-> In y l.
Proof.
  unfold sort_str. induction l as [|x l IH]; cbn; [tauto|].
  rewrite insert_str_In, IH. split; intros [H|H]; auto.
Qed.

(* ---------- dedup_first ---------- *)
Lemma dedup_first_In y l : In y (dedup_first l) <-> In y l.
Proof.
  induction l as [|x l IH]; cbn; [tauto|].
  rewrite filter_In, IH, negb_true_iff, str_eqb_neq.
  split.
  - intros [H|[H _]]; auto.
  - intros [H|H]; auto. destruct (list_eq_dec ascii_dec x y) as [E|E]; auto.
Qed.

Lemma dedup_first_NoDup l : NoDup (dedup_first l).
Proof.
  induction l as [|x l IH]; cbn; constructor.
  - rewrite filter_In, negb_true_iff, str_eqb_neq. intros [_ H]. now apply H.
  - now apply filter_NoDup.
Qed.

(* ================================================================ insertion-ordered dicts *)
Section DictFacts.
  Context {K V : Type}.
  Variable keqb : K -> K -> bool.
  Hypothesis keqb_eq : forall a b, keqb a b = true <-> a = b.

  Lemma keqb_refl a : keqb a a = true.
  Proof. now apply keqb_eq. Qed.

  Lemma keqb_false a b : keqb a b = false <-> a <> b.
  Proof.
    destruct (keqb a b) eqn:E; split; intros H; try discriminate; try reflexivity.
    - apply keqb_eq in E. contradiction.
    - intros E'. apply keqb_eq in E'. congruence.
  Qed.

  Lemma dget_dupd_same (d : list (K * V)) k f :
    dget keqb (dupd keqb d k f) k = Some (f (dget keqb d k)).
  Proof.
    induction d as [|[k' v] d IH]; cbn.
    - now rewrite keqb_refl.
    - destruct (keqb k k') eqn:E; cbn; rewrite E; [reflexivity|exact IH].
  Qed.

  Lemma dget_dupd_other (d : list (K * V)) k k' f :
    k <> k' -> dget keqb (dupd keqb d k f) k' = dget keqb d k'.
  Proof.
    intros Hne. induction d as [|[k0 v] d IH]; cbn.
    - assert (keqb k' k = false) as -> by (apply keqb_false; congruence). reflexivity.
    - destruct (keqb k k0) eqn:E; cbn.
      + apply keqb_eq in E. subst k0.
        assert (keqb k' k = false) as -> by (apply keqb_false; congruence). reflexivity.
      + destruct (keqb k' k0); [reflexivity|exact IH].
  Qed.

  Lemma dupd_keys (d : list (K * V)) k f :
    forall k', In k' (map fst (dupd keqb d k f)) <-> k' = k \/ In k' (map fst d).
  Proof.
    induction d as [|[k0 v] d IH]; intros k'; cbn.
    - intuition auto.
    - destruct (keqb k k0) eqn:E; cbn.
      + apply keqb_eq in E. subst k0. intuition auto.
      + rewrite IH. intuition auto.
  Qed.

  Lemma dupd_NoDup (d : list (K * V)) k f : NoDup (map fst d) -> NoDup (map fst (dupd keqb d k f)).
  Proof.
    induction d as [|[k0 v] d IH]; intros H; cbn.
    - constructor; [intros []|constructor].
    - inversion H as [|? ? Hn Hd]; subst. destruct (keqb k k0) eqn:E; cbn.
      + constructor; assumption.
      + constructor; [|now apply IH]. rewrite dupd_keys. intros [->|H']; [|contradiction].
        rewrite keqb_refl in E. discriminate.
  Qed.

  Lemma dget_In (d : list (K * V)) k v : dget keqb d k = Some v -> In (k, v) d.
  Proof.
    induction d as [|[k0 v0] d IH]; cbn; [discriminate|].
    destruct (keqb k k0) eqn:E.
    - apply keqb_eq in E. subst. intros [= ->]. now left.
    - intros H. right. now apply IH.
  Qed.

  Lemma In_dget (d : list (K * V)) k v : NoDup (map fst d) -> In (k, v) d -> dget keqb d k = Some v.
  Proof.
    induction d as [|[k0 v0] d IH]; cbn; [tauto|]. intros Hnd [H|H].
    - injection H as -> ->. now rewrite keqb_refl.
    - inversion Hnd as [|? ? Hn Hd]; subst. destruct (keqb k k0) eqn:E.
      + apply keqb_eq in E. subst. exfalso. apply Hn. apply in_map_iff. now exists (k0, v).
      + now apply IH.
  Qed.

  Lemma dget_None (d : list (K * V)) k : dget keqb d k = None <-> ~ In k (map fst d).
  Proof.
    induction d as [|[k0 v0] d IH]; cbn; [tauto|].
    destruct (keqb k k0) eqn:E.
    - apply keqb_eq in E. subst. split; [discriminate|]. intros H. exfalso. apply H. now left.
    - rewrite IH. apply keqb_false in E. split; intros H; [intros [H'|H']; [congruence|contradiction]|tauto].
  Qed.
End DictFacts.

(* ================================================================ mapspec_axes *)
Lemma nth_error_seq a n : forall i, nth_error (seq a n) i = if i <? n then Some (a + i) else None.
Proof.
  revert a. induction n as [|n IH]; intros a i.
  - destruct i; reflexivity.
  - destruct i as [|i].
    + cbn. apply f_equal. lia.
    + change (nth_error (seq (S a) n) i = if S i <? S n then Some (a + S i) else None).
      rewrite IH. change (S i <? S n) with (i <? n).
      destruct (i <? n); [apply f_equal; lia|reflexivity].
Qed.

Lemma nth_error_combine {A B} (l1 : list A) : forall (l2 : list B) i,
  nth_error (combine l1 l2) i =
  match nth_error l1 i, nth_error l2 i with Some a, Some b => Some (a, b) | _, _ => None end.
Proof.
  induction l1 as [|x l1 IH]; intros [|y l2] [|i]; cbn; try reflexivity.
  - now destruct (nth_error l1 i).
  - apply IH.
Qed.

Lemma occs_In specs n a : In a (occs specs n) <-> In a (all_aspecs specs) /\ aname a = n.
Proof. unfold occs. now rewrite filter_In, str_eqb_eq. Qed.

Lemma consistent_pair_spec a b :
  consistent_pair a b = true -> aname a = aname b ->
  length (axes a) = length (axes b)
  /\ forall i x y, nth_error (axes a) i = Some (Some x) -> nth_error (axes b) i = Some (Some y) -> x = y.
Proof.
  unfold consistent_pair. intros H E. apply orb_true_iff in H as [H|H].
  - apply negb_true_iff, str_eqb_neq in H. contradiction.
  - apply andb_true_iff in H as [Hl Hf]. apply Nat.eqb_eq in Hl. split; [assumption|].
    intros i x y Hx Hy. rewrite forallb_forall in Hf.
    assert (Hin : In (Some x, Some y) (combine (axes a) (axes b))).
    { apply nth_error_In with i. now rewrite nth_error_combine, Hx, Hy. }
    apply Hf in Hin. cbn in Hin. now apply str_eqb_eq.
Qed.

Lemma consistent_spec l a b :
  consistent l = true -> In a l -> In b l -> consistent_pair a b = true.
Proof.
  unfold consistent. rewrite forallb_forall. intros H Ha Hb.
  specialize (H a Ha). rewrite forallb_forall in H. now apply H.
Qed.

Lemma axis_at_fold occ i k : forall acc,
  (acc = None \/ acc = Some k) ->
  (forall b y, In b occ -> nth_error (axes b) i = Some (Some y) -> y = k) ->
  (acc = Some k \/ exists a, In a occ /\ nth_error (axes a) i = Some (Some k)) ->
  fold_left (fun acc a => match nth_error (axes a) i with Some (Some x) => Some x | _ => acc end) occ acc = Some k.
Proof.
  induction occ as [|b occ IH]; intros acc Hacc Hall Hex; cbn.
  - destruct Hex as [H|[a [[] _]]]. assumption.
  - apply IH.
    + destruct (nth_error (axes b) i) as [[y|]|] eqn:E; auto.
      right. f_equal. apply (Hall b y); [now left|assumption].
    + intros b' y Hb'. apply Hall. now right.
    + destruct (nth_error (axes b) i) as [[y|]|] eqn:E.
      * left. f_equal. apply (Hall b y); [now left|assumption].
      * destruct Hex as [H|[a [[<-|Ha] Hk]]]; [now left|congruence|right; now exists a].
      * destruct Hex as [H|[a [[<-|Ha] Hk]]]; [now left|congruence|right; now exists a].
Qed.

Lemma rank_of_fold occ r : forall acc,
  (forall a, In a occ -> rank a = r) -> acc <= r -> occ <> [] ->
  fold_left (fun r a => Nat.max r (rank a)) occ acc = r.
Proof.
  induction occ as [|a occ IH]; intros acc Hall Hacc Hne; [congruence|]. cbn.
  rewrite (Hall a) by now left.
  destruct occ as [|a' occ'].
  - cbn. lia.
  - apply IH; [intros b Hb; apply Hall; now right|lia|discriminate].
Qed.

Definition no_colon_axes (a : aspec) : Prop := forall i, nth_error (axes a) i <> Some None.

(* an array that is fully named somewhere gets exactly these axes *)
Lemma axes_of_named specs a :
  consistent (all_aspecs specs) = true -> In a (all_aspecs specs) -> no_colon_axes a ->
  axes_of specs (aname a) = axes a.
Proof.
  intros Hc Ha Hnc. unfold axes_of.
  assert (Hocc : In a (occs specs (aname a))) by (apply occs_In; auto).
  assert (Hrank : rank_of (occs specs (aname a)) = length (axes a)).
  { unfold rank_of. apply rank_of_fold.
    - intros b Hb. apply occs_In in Hb as [Hb E]. unfold rank.
      pose proof (consistent_spec _ _ _ Hc Hb Ha) as P. apply consistent_pair_spec in P; [tauto|assumption].
    - lia.
    - intros E. rewrite E in Hocc. destruct Hocc. }
  rewrite Hrank. apply nth_error_ext'. intros i.
  rewrite nth_error_map, nth_error_seq. cbn [Nat.add].
  destruct (i <? length (axes a)) eqn:Hi.
  - apply Nat.ltb_lt in Hi. cbn [option_map].
    destruct (nth_error (axes a) i) as [[x|]|] eqn:E.
    + f_equal. unfold axis_at. apply axis_at_fold.
      * now left.
      * intros b y Hb Hy. apply occs_In in Hb as [Hb Eb].
        pose proof (consistent_spec _ _ _ Hc Hb Ha) as P. apply consistent_pair_spec in P; [|assumption].
        destruct P as [_ P]. now apply (P i y x).
      * right. exists a. auto.
    + exfalso. now apply (Hnc i).
    + apply nth_error_None in E. lia.
  - apply Nat.ltb_ge in Hi. cbn [option_map]. symmetry. now apply nth_error_None.
Qed.

Lemma axes_get_named specs a :
  consistent (all_aspecs specs) = true -> In a (all_aspecs specs) -> no_colon_axes a ->
  axes_get specs (aname a) = Ok (axes a).
Proof.
  intros Hc Ha Hnc. unfold axes_get.
  assert (mem_str (aname a) (map aname (all_aspecs specs)) = true) as ->.
  { apply mem_str_In. apply in_map_iff. now exists a. }
  now rewrite axes_of_named.
Qed.

Lemma no_colon_indices a : no_colon_axes a -> map Some (indices a) = axes a.
Proof.
  unfold no_colon_axes, indices. induction (axes a) as [|[x|] l IH]; intros H; cbn.
  - reflexivity.
  - f_equal. apply IH. intros i. exact (H (S i)).
  - exfalso. now apply (H 0).
Qed.

(* dims_are_axes: the dims of the DataArray of output o are its declared MapSpec axes in order *)
Theorem dims_are_axes specs ms a :
  consistent (all_aspecs specs) = true -> In ms specs -> In a (outs ms) -> no_colon_axes a ->
  dims_of specs (aname a) = Ok (indices a).
Proof.
  intros Hc Hms Ha Hnc. unfold dims_of.
  assert (Hin : In a (all_aspecs specs)).
  { unfold all_aspecs. apply in_flat_map. exists ms. split; [assumption|]. apply in_or_app. now right. }
  rewrite (axes_get_named _ _ Hc Hin Hnc). cbn [bind].
  rewrite <- (no_colon_indices _ Hnc).
  induction (indices a) as [|x l IH]; cbn; [reflexivity|]. now rewrite IH.
Qed.

(* ================================================================ _trace_dependencies vs. `carried` *)
Lemma apply_ev_get d ev k x :
  (exists l, dget str_eqb (apply_ev d ev) k = Some l /\ In x l)
  <-> (exists l, dget str_eqb d k = Some l /\ In x l) \/ (exists l, ev = (k, Some l) /\ In x l).
Proof.
  destruct ev as [k' [l'|]]; unfold apply_ev; cbn [fst snd].
  - destruct (list_eq_dec ascii_dec k' k) as [->|Hne].
    + rewrite (dget_dupd_same str_eqb str_eqb_eq). split.
      * intros [l [[= <-] Hx]]. apply set_union_In in Hx as [Hx|Hx].
        -- left. destruct (dget str_eqb d k) as [l0|]; [now exists l0|destruct Hx].
        -- right. now exists l'.
      * intros [[l [Hl Hx]]|[l [[= <-] Hx]]]; eexists; (split; [reflexivity|]); apply set_union_In.
        -- left. now rewrite Hl.
        -- now right.
    + rewrite (dget_dupd_other str_eqb str_eqb_eq) by assumption. split; [now left|].
      intros [H|[l [[= E _] _]]]; [assumption|contradiction].
  - split; [now left|]. intros [H|[l [[=] _]]]. assumption.
Qed.

Lemma apply_evs_get evs : forall d k x,
  (exists l, dget str_eqb (fold_left apply_ev evs d) k = Some l /\ In x l)
  <-> (exists l, dget str_eqb d k = Some l /\ In x l) \/ (exists l, In (k, Some l) evs /\ In x l).
Proof.
  induction evs as [|ev evs IH]; intros d k x; cbn [fold_left].
  - split; [now left|]. intros [H|[l [[] _]]]. assumption.
  - rewrite IH, apply_ev_get. split.
    + intros [[H|[l [-> Hx]]]|[l [Hin Hx]]]; auto.
      * right. exists l. split; [now left|assumption].
      * right. exists l. split; [now right|assumption].
    + intros [H|[l [[E|Hin] Hx]]]; auto.
      * left. right. now exists l.
      * right. now exists l.
Qed.

Lemma apply_ev_NoDup d ev : NoDup (map fst d) -> NoDup (map fst (apply_ev d ev)).
Proof.
  destruct ev as [k [l|]]; unfold apply_ev; cbn [fst snd]; [|auto].
  apply (dupd_NoDup str_eqb str_eqb_eq).
Qed.

Lemma apply_evs_NoDup evs : forall d, NoDup (map fst d) -> NoDup (map fst (fold_left apply_ev evs d)).
Proof.
  induction evs as [|ev evs IH]; intros d H; cbn; [assumption|]. apply IH. now apply apply_ev_NoDup.
Qed.

Lemma dget_map_sort (d : list (str * list str)) k :
  dget str_eqb (map (fun kv => (fst kv, sort_str (snd kv))) d) k = option_map sort_str (dget str_eqb d k).
Proof.
  induction d as [|[k' v] d IH]; cbn; [reflexivity|]. destruct (str_eqb k k'); [reflexivity|exact IH].
Qed.

(* producers are unique: both ways of looking one up agree *)
Definition out_names (specs : list mapspec) : list str := flat_map (fun m => map aname (outs m)) specs.

Lemma mapping_get_fold specs o : forall acc,
  fold_left (fun acc m => if has_inputs m && mem_str o (map aname (outs m)) then Some m else acc) specs acc
  = match mapping_get specs o with Some m => Some m | None => acc end.
Proof.
  unfold mapping_get. induction specs as [|m specs IH]; intros acc; cbn [fold_left]; [reflexivity|].
  rewrite IH. rewrite (IH (if has_inputs m && mem_str o (map aname (outs m)) then Some m else None)).
  destruct (fold_left _ specs None); [reflexivity|].
  destruct (has_inputs m && mem_str o (map aname (outs m))); reflexivity.
Qed.

Lemma has_inputs_nil m : has_inputs m = negb (is_nil (ins m)).
Proof. unfold has_inputs, is_nil. now destruct (ins m). Qed.

Lemma mapping_get_computed_by specs o :
  NoDup (out_names specs) -> mapping_get specs o = computed_by specs o.
Proof.
  induction specs as [|m specs IH]; intros Hnd; [reflexivity|].
  unfold out_names in Hnd. cbn [flat_map] in Hnd. destruct (NoDup_app_inv _ _ Hnd) as [_ [Hnd' Hdisj]].
  unfold mapping_get. cbn [fold_left]. rewrite mapping_get_fold. fold (mapping_get specs o).
  rewrite (IH Hnd'). unfold computed_by at 2. cbn [find]. rewrite <- has_inputs_nil.
  fold (computed_by specs o).
  destruct (has_inputs m && mem_str o (map aname (outs m))) eqn:E; [|now destruct (computed_by specs o)].
  destruct (computed_by specs o) as [m'|] eqn:C; [|reflexivity]. exfalso.
  apply andb_true_iff in E as [_ E]. apply mem_str_In in E.
  unfold computed_by in C. apply find_some in C as [Hm' C]. apply andb_true_iff in C as [_ C].
  apply mem_str_In in C.
  apply (Hdisj o E). apply in_flat_map. now exists m'.
Qed.

Lemma has_axis_In k a : has_axis k a = true <-> In k (somes (axes a)).
Proof.
  unfold has_axis. rewrite existsb_exists, somes_In. split.
  - intros [x [Hx E]]. apply axis_eqb_eq in E. now subst.
  - intros H. exists (Some k). split; [assumption|]. now apply axis_eqb_eq.
Qed.

Lemma named_axes_In l n k :
  In (n, k) (named_axes l) <-> exists a, In a l /\ aname a = n /\ In k (somes (axes a)).
Proof.
  unfold named_axes. rewrite in_flat_map. split.
  - intros [a [Ha H]]. apply in_map_iff in H as [x [[= <- <-] Hx]]. now exists a.
  - intros [a [Ha [<- Hk]]]. exists a. split; [assumption|]. apply in_map_iff. now exists k.
Qed.

(* membership in the traced dependencies of o along k = being carried to o along k *)
Theorem trace_dep_carried specs : NoDup (out_names specs) ->
  forall fuel o d, trace_dep fuel specs o = Ok d ->
  forall k x, (exists l, dget str_eqb d k = Some l /\ In x l) <-> In x (carried fuel specs o k).
Proof.
  intros Hnd. induction fuel as [|f IH]; intros o d H k x; [discriminate|].
  cbn [trace_dep] in H. cbn [carried]. rewrite <- (mapping_get_computed_by _ _ Hnd).
  destruct (mapping_get specs o) as [ms|] eqn:M; [|discriminate].
  match type of H with (do evs <- ?E; _) = _ => destruct E as [evs|e] eqn:Ev end; [|discriminate].
  cbn [bind] in H. injection H as <-.
  apply mapM_inv in Ev.
  rewrite dget_map_sort.
  assert (S1 : (exists l, option_map sort_str (dget str_eqb (fold_left apply_ev evs []) k) = Some l /\ In x l)
               <-> (exists l, dget str_eqb (fold_left apply_ev evs []) k = Some l /\ In x l)).
  { destruct (dget str_eqb (fold_left apply_ev evs []) k) as [l0|]; cbn.
    - split; intros [l [E Hx]]; injection E as <-.
      + exists l0. split; [reflexivity|]. exact (proj1 (sort_str_In x l0) Hx).
      + exists (sort_str l0). split; [reflexivity|]. exact (proj2 (sort_str_In x l0) Hx).
    - split; intros [l [E _]]; discriminate. }
  rewrite S1, apply_evs_get. clear S1. cbn [dget].
  rewrite in_flat_map. split.
  - intros [[l [[=] _]]|[l [Hin Hx]]].
    destruct (Forall2_In_r _ _ _ _ Ev Hin) as [[n k'] [Hna Hev]]. cbn [fst snd] in Hev.
    apply named_axes_In in Hna as [a [Ha [<- Hk]]].
    exists a. split; [assumption|].
    rewrite <- (mapping_get_computed_by _ _ Hnd).
    destruct (mapping_get specs (aname a)) as [m'|] eqn:M'.
    + destruct (trace_dep f specs (aname a)) as [nested|e] eqn:T; [|discriminate].
      cbn [bind] in Hev. injection Hev as -> Hl.
      assert (has_axis k a = true) as -> by now apply has_axis_In.
      apply (IH _ _ T). now exists l.
    + injection Hev as -> <-. assert (has_axis k a = true) as -> by now apply has_axis_In. exact Hx.
  - intros [a [Ha Hx]]. right.
    destruct (has_axis k a) eqn:Hk; [|destruct Hx]. apply has_axis_In in Hk.
    assert (Hna : In (aname a, k) (named_axes (ins ms))) by (apply named_axes_In; now exists a).
    destruct (Forall2_In_l _ _ _ _ Ev Hna) as [ev [Hev Hf]]. cbn [fst snd] in Hf.
    rewrite <- (mapping_get_computed_by _ _ Hnd) in Hx.
    destruct (mapping_get specs (aname a)) as [m'|] eqn:M'.
    + destruct (trace_dep f specs (aname a)) as [nested|e] eqn:T; [|discriminate].
      cbn [bind] in Hf. injection Hf as <-.
      apply (IH _ _ T) in Hx as [l [Hl Hx]]. exists l. rewrite <- Hl. auto.
    + injection Hf as <-. exists [aname a]. auto.
Qed.

Lemma trace_dep_NoDup specs fuel o d : trace_dep fuel specs o = Ok d -> NoDup (map fst d).
Proof.
  destruct fuel as [|f]; [discriminate|]. cbn [trace_dep].
  destruct (mapping_get specs o) as [ms|]; [|discriminate].
  match goal with |- (do evs <- ?E; _) = _ -> _ => destruct E as [evs|e] end; [|discriminate].
  cbn [bind]. intros [= <-]. rewrite map_map. cbn [fst].
  apply apply_evs_NoDup. constructor.
Qed.

(* every carried name occurs, indexed by k, as an input of some MapSpec *)
Lemma carried_occ specs k x : forall fuel o,
  In x (carried fuel specs o k) ->
  exists m a, In m specs /\ In a (ins m) /\ aname a = x /\ In (Some k) (axes a).
Proof.
  induction fuel as [|f IH]; intros o H; [destruct H|]. cbn [carried] in H.
  destruct (computed_by specs o) as [ms|] eqn:C; [|destruct H].
  apply in_flat_map in H as [a [Ha H]].
  destruct (has_axis k a) eqn:Hk; [|destruct H].
  destruct (computed_by specs (aname a)) as [m'|] eqn:C'.
  - now apply (IH (aname a)).
  - destruct H as [<-|[]]. exists ms, a. apply find_some in C as [Hms _].
    apply has_axis_In, somes_In in Hk. auto.
Qed.

(* a carried name is never itself computed element-wise *)
Lemma carried_source specs k x : forall fuel o,
  In x (carried fuel specs o k) -> computed_by specs x = None.
Proof.
  induction fuel as [|f IH]; intros o H; [destruct H|]. cbn [carried] in H.
  destruct (computed_by specs o) as [ms|] eqn:C; [|destruct H].
  apply in_flat_map in H as [a [Ha H]].
  destruct (has_axis k a); [|destruct H].
  destruct (computed_by specs (aname a)) as [m'|] eqn:C'.
  - now apply (IH (aname a)).
  - destruct H as [<-|[]]. assumption.
Qed.

(* ================================================================ trace_dependencies: reordering *)
Lemma reorder_inner (names : list str) k : forall (acc : list (str * list str)) n k',
  (exists s, dget str_eqb
      (fold_left (fun acc2 n0 => dupd str_eqb acc2 n0 (fun old => set_add k (odefault [] old))) names acc) n
      = Some s /\ In k' s)
  <-> (exists s, dget str_eqb acc n = Some s /\ In k' s) \/ (In n names /\ k' = k).
Proof.
  induction names as [|n0 names IH]; intros acc n k'; cbn [fold_left].
  - split; [now left|]. intros [H|[[] _]]. assumption.
  - rewrite IH. destruct (list_eq_dec ascii_dec n0 n) as [->|Hne].
    + rewrite (dget_dupd_same str_eqb str_eqb_eq). split.
      * intros [[s0 [[= <-] Hk]]|[Hin ->]].
        -- apply set_add_In in Hk as [->|Hk]; [right; split; [now left|reflexivity]|].
           left. destruct (dget str_eqb acc n) as [s0|]; [now exists s0|destruct Hk].
        -- right. split; [now right|reflexivity].
      * intros [[s0 [Hs Hk]]|[[_|Hin] ->]].
        -- left. eexists. split; [reflexivity|]. apply set_add_In. right. now rewrite Hs.
        -- left. eexists. split; [reflexivity|]. apply set_add_In. now left.
        -- right. auto.
    + rewrite (dget_dupd_other str_eqb str_eqb_eq) by assumption. split.
      * intros [H|[Hin ->]]; [now left|]. right. split; [now right|reflexivity].
      * intros [H|[[E|Hin] ->]]; [now left|contradiction|]. right. auto.
Qed.

Lemma reorder_fold (d : list (str * list str)) : forall (acc : list (str * list str)) n k,
  (exists s, dget str_eqb
      (fold_left (fun acc kv =>
                    fold_left (fun acc2 n0 => dupd str_eqb acc2 n0 (fun old => set_add (fst kv) (odefault [] old)))
                              (snd kv) acc) d acc) n = Some s /\ In k s)
  <-> (exists s, dget str_eqb acc n = Some s /\ In k s) \/ (exists l, In (k, l) d /\ In n l).
Proof.
  induction d as [|[k0 l0] d IH]; intros acc n k; cbn [fold_left fst snd].
  - split; [now left|]. intros [H|[l [[] _]]]. assumption.
  - rewrite IH, reorder_inner. split.
    + intros [[H|[Hin ->]]|[l [Hl Hn]]]; auto.
      * right. exists l0. split; [now left|assumption].
      * right. exists l. split; [now right|assumption].
    + intros [H|[l [[[= -> ->]|Hl] Hn]]]; auto.
      right. now exists l.
Qed.

Lemma reorder_get d n k :
  (exists s, dget str_eqb (reorder d) n = Some s /\ In k s) <-> (exists l, In (k, l) d /\ In n l).
Proof.
  unfold reorder. rewrite reorder_fold. cbn [dget]. split; [|now right].
  intros [[s [[=] _]]|H]. assumption.
Qed.

Lemma reorder_inner_NoDup (names : list str) k : forall (acc : list (str * list str)),
  NoDup (map fst acc) ->
  NoDup (map fst (fold_left (fun acc2 n0 => dupd str_eqb acc2 n0 (fun old => set_add k (odefault [] old))) names acc)).
Proof.
  induction names as [|n0 names IH]; intros acc H; cbn [fold_left]; [assumption|].
  apply IH. now apply (dupd_NoDup str_eqb str_eqb_eq).
Qed.

Lemma reorder_fold_NoDup (d : list (str * list str)) : forall (acc : list (str * list str)),
  NoDup (map fst acc) ->
  NoDup (map fst (fold_left (fun acc kv =>
                    fold_left (fun acc2 n0 => dupd str_eqb acc2 n0 (fun old => set_add (fst kv) (odefault [] old)))
                              (snd kv) acc) d acc)).
Proof.
  induction d as [|[k0 l0] d IH]; intros acc H; cbn [fold_left fst snd]; [assumption|].
  apply IH. now apply reorder_inner_NoDup.
Qed.

Lemma reorder_NoDup d : NoDup (map fst (reorder d)).
Proof. unfold reorder. apply reorder_fold_NoDup. constructor. Qed.

(* ================================================================ trace / target_of *)
Lemma mapM_fst {A B} (f : str * A -> result B) (l : list (str * A)) r :
  mapM (fun nv => do t <- f nv; Ok (fst nv, t)) l = Ok r -> map fst r = map fst l.
Proof.
  revert r. induction l as [|x l IH]; intros r H; cbn in H.
  - now injection H as <-.
  - destruct (f x) as [t|e]; cbn in H; [|discriminate].
    destruct (mapM (fun nv => do t <- f nv; Ok (fst nv, t)) l) as [ys|e] eqn:E; cbn in H; [|discriminate].
    injection H as <-. cbn. f_equal. now apply IH.
Qed.

Lemma trace_one_NoDup specs o l : trace_one specs o = Ok l -> NoDup (map fst l).
Proof.
  unfold trace_one. destruct (trace_dep (trace_fuel specs) specs o) as [d|e]; [|discriminate]. cbn [bind].
  intros H. apply mapM_fst in H. rewrite H. apply reorder_NoDup.
Qed.

Lemma mapping_get_cons m specs o :
  mapping_get (m :: specs) o =
  match mapping_get specs o with
  | Some m' => Some m'
  | None => if has_inputs m && mem_str o (map aname (outs m)) then Some m else None
  end.
Proof. unfold mapping_get at 1. cbn [fold_left]. now rewrite mapping_get_fold. Qed.

Lemma mapping_get_Some specs o m :
  mapping_get specs o = Some m -> In m specs /\ has_inputs m = true /\ In o (map aname (outs m)).
Proof.
  induction specs as [|m0 specs IH]; [discriminate|]. rewrite mapping_get_cons.
  destruct (mapping_get specs o) as [m'|].
  - intros [= ->]. destruct (IH eq_refl) as [H1 H2]. split; [now right|assumption].
  - destruct (has_inputs m0 && mem_str o (map aname (outs m0))) eqn:E; [|discriminate].
    intros [= ->]. apply andb_true_iff in E as [E1 E2]. apply mem_str_In in E2. split; [now left|auto].
Qed.

Lemma mapping_keys_In specs o m : mapping_get specs o = Some m -> In o (mapping_keys specs).
Proof.
  intros H. apply mapping_get_Some in H as [Hm [Hi Ho]].
  unfold mapping_keys. apply dedup_first_In, in_flat_map. exists m. split; [assumption|]. now rewrite Hi.
Qed.

Lemma mapM_rows {A} (g : str -> result A) keys rows :
  mapM (fun o => do l <- g o; Ok (o, l)) keys = Ok rows ->
  map fst rows = keys /\ forall o, In o keys -> exists l, g o = Ok l /\ In (o, l) rows.
Proof.
  revert rows. induction keys as [|k keys IH]; intros rows H; cbn in H.
  - injection H as <-. split; [reflexivity|intros o []].
  - destruct (g k) as [l|e] eqn:G; cbn in H; [|discriminate].
    destruct (mapM (fun o => do l <- g o; Ok (o, l)) keys) as [ys|e] eqn:E; cbn in H; [|discriminate].
    injection H as <-. destruct (IH _ eq_refl) as [H1 H2]. split; [cbn; now f_equal|].
    intros o [<-|Ho].
    + exists l. split; [assumption|now left].
    + destruct (H2 o Ho) as [l' [G' Hin]]. exists l'. split; [assumption|now right].
Qed.

Lemma dget_filter {V} (p : str * V -> bool) (rows : list (str * V)) o v :
  NoDup (map fst rows) -> In (o, v) rows ->
  dget str_eqb (filter p rows) o = if p (o, v) then Some v else None.
Proof.
  induction rows as [|[k w] rows IH]; intros Hnd Hin; [destruct Hin|].
  cbn [map fst] in Hnd. inversion Hnd as [|? ? Hn Hd]; subst. destruct Hin as [[= -> ->]|Hin].
  - cbn [filter]. destruct (p (o, v)).
    + cbn [dget]. now rewrite str_eqb_refl.
    + apply (dget_None str_eqb str_eqb_eq). intros H. apply Hn.
      apply in_map_iff in H as [[k' w'] [E H]]. apply filter_In in H as [H _]. cbn in E. subst k'.
      apply in_map_iff. now exists (o, w').
  - assert (Hne : o <> k).
    { intros ->. apply Hn. apply in_map_iff. now exists (k, v). }
    cbn [filter]. destruct (p (k, w)).
    + cbn [dget]. assert (str_eqb o k = false) as -> by now apply str_eqb_neq. now apply IH.
    + now apply IH.
Qed.

Lemma trace_target specs tr o m :
  trace specs = Ok tr -> mapping_get specs o = Some m ->
  exists l, trace_one specs o = Ok l /\ target_of tr o = l.
Proof.
  unfold trace. intros H M.
  destruct (mapM (fun o0 => do l <- trace_one specs o0; Ok (o0, l)) (mapping_keys specs)) as [rows|e] eqn:R;
    [|discriminate]. cbn [bind] in H. injection H as <-.
  apply mapM_rows in R as [Hk Hall].
  destruct (Hall o (mapping_keys_In _ _ _ M)) as [l [Hl Hin]]. exists l. split; [assumption|].
  unfold target_of. rewrite (dget_filter _ rows o l).
  - cbn [snd]. now destruct l.
  - rewrite Hk. apply dedup_first_NoDup.
  - assumption.
Qed.

(* ================================================================ _xarray: grouping and coordinate entries *)
Lemma group_fold (kept : list (str * list str)) : forall (acc : list (list str * list str)) ax n,
  (exists names, dget key_eqb
      (fold_left (fun cm na => dupd key_eqb cm (snd na) (fun old => odefault [] old ++ [fst na])) kept acc) ax
      = Some names /\ In n names)
  <-> (exists names, dget key_eqb acc ax = Some names /\ In n names) \/ In (n, ax) kept.
Proof.
  induction kept as [|[n0 ax0] kept IH]; intros acc ax n; cbn [fold_left fst snd].
  - split; [now left|]. intros [H|[]]. assumption.
  - rewrite IH. destruct (list_eq_dec (list_eq_dec ascii_dec) ax0 ax) as [->|Hne].
    + rewrite (dget_dupd_same key_eqb key_eqb_eq). split.
      * intros [[names [[= <-] Hn]]|Hin]; [|right; now right].
        apply in_app_iff in Hn as [Hn|[<-|[]]]; [|right; now left].
        left. destruct (dget key_eqb acc ax) as [l0|]; [now exists l0|destruct Hn].
      * intros [[names [Hs Hn]]|[[= <-]|Hin]].
        -- left. eexists. split; [reflexivity|]. apply in_app_iff. left. now rewrite Hs.
        -- left. eexists. split; [reflexivity|]. apply in_app_iff. right. now left.
        -- now right.
    + rewrite (dget_dupd_other key_eqb key_eqb_eq) by assumption. split.
      * intros [H|Hin]; [now left|right; now right].
      * intros [H|[[= _ E]|Hin]]; [now left|contradiction|now right].
Qed.

Lemma group_get kept ax n :
  (exists names, dget key_eqb (group kept) ax = Some names /\ In n names) <-> In (n, ax) kept.
Proof.
  unfold group. rewrite group_fold. cbn [dget]. split; [|now right]. intros [[names [[=] _]]|H]. assumption.
Qed.

Lemma group_NoDup kept : NoDup (map fst (group kept)).
Proof.
  unfold group. assert (G : forall acc : list (list str * list str), NoDup (map fst acc) ->
    NoDup (map fst (fold_left (fun cm na => dupd key_eqb cm (snd na) (fun old => odefault [] old ++ [fst na])) kept acc))).
  { induction kept as [|na kept IH]; intros acc H; cbn [fold_left]; [assumption|].
    apply IH. now apply (dupd_NoDup key_eqb key_eqb_eq). }
  apply G. constructor.
Qed.

Lemma group_coords_sub g c :
  In c (group_coords g) -> co_axes c = fst g /\ forall n, In n (co_srcs c) -> In n (snd g).
Proof.
  unfold group_coords. destruct (snd g) as [|n0 [|n1 rest]] eqn:E.
  - destruct (1 <? length (fst g)); cbn; [intros []|]. intros [<-|[]]. cbn. auto.
  - intros [<-|[]]. cbn. auto.
  - destruct (1 <? length (fst g)).
    + intros H. apply in_map_iff in H as [n [<- Hn]]. cbn. split; [reflexivity|]. intros n' [<-|[]]. assumption.
    + intros [<-|[]]. cbn. auto.
Qed.

(* a group on a single axis yields exactly one coordinate carrying all its names *)
Lemma group_coords_1d k names :
  names <> [] ->
  exists c, group_coords ([k], names) = [c] /\ co_axes c = [k] /\ co_srcs c = names
            /\ co_name c = match names with [n] => n | _ => join (s ":") names end.
Proof.
  intros Hne. unfold group_coords. cbn [fst snd length Nat.ltb Nat.leb].
  destruct names as [|n0 [|n1 rest]]; [congruence| |]; eexists; repeat split; reflexivity.
Qed.

Lemma cset_sub d c c' : In c' (cset d c) -> c' = c \/ In c' d.
Proof.
  induction d as [|c0 d IH]; cbn.
  - intros [<-|[]]. now left.
  - destruct (str_eqb (co_name c) (co_name c0)).
    + intros [<-|H]; [now left|right; now right].
    + intros [<-|H]; [right; now left|]. destruct (IH H); auto.
Qed.

Lemma coords_dict_sub raw c : In c (coords_dict raw) -> In c raw.
Proof.
  unfold coords_dict.
  assert (G : forall acc, In c (fold_left cset raw acc) -> In c acc \/ In c raw).
  { induction raw as [|c0 raw IH]; intros acc H; cbn [fold_left] in H; [now left|].
    destruct (IH _ H) as [H'|H']; [|right; now right].
    apply cset_sub in H' as [->|H']; [right; now left|now left]. }
  intros H. destruct (G [] H) as [[]|H']. assumption.
Qed.

Lemma cset_fresh d c : ~ In (co_name c) (map co_name d) -> cset d c = d ++ [c].
Proof.
  induction d as [|c0 d IH]; cbn; intros H; [reflexivity|].
  destruct (str_eqb (co_name c) (co_name c0)) eqn:E.
  - apply str_eqb_eq in E. exfalso. apply H. now left.
  - f_equal. apply IH. intros H'. apply H. now right.
Qed.

Lemma coords_dict_distinct raw : NoDup (map co_name raw) -> coords_dict raw = raw.
Proof.
  unfold coords_dict.
  assert (G : forall acc, NoDup (map co_name (acc ++ raw)) -> fold_left cset raw acc = acc ++ raw).
  { induction raw as [|c0 raw IH]; intros acc H; cbn [fold_left]; [now rewrite app_nil_r|].
    rewrite cset_fresh.
    - rewrite IH; rewrite <- app_assoc; [reflexivity|exact H].
    - rewrite map_app in H. cbn [map] in H. apply NoDup_remove_2 in H.
      intros H'. apply H. apply in_or_app. now left. }
  intros H. now apply (G []).
Qed.

(* ================================================================ the coordinate theorems *)
Lemma NoDup_fst_fun {A B} (l : list (A * B)) a b b' :
  NoDup (map fst l) -> In (a, b) l -> In (a, b') l -> b = b'.
Proof.
  induction l as [|[a0 b0] l IH]; intros Hnd H1 H2; [destruct H1|].
  cbn [map fst] in Hnd. inversion Hnd as [|? ? Hn Hd]; subst.
  destruct H1 as [E1|H1], H2 as [E2|H2].
  - congruence.
  - injection E1 as -> ->. exfalso. apply Hn. apply in_map_iff. now exists (a, b').
  - injection E2 as -> ->. exfalso. apply Hn. apply in_map_iff. now exists (a, b).
  - now apply IH.
Qed.

Definition one_dimensional (specs : list mapspec) (x : str) : Prop :=
  forall a, In a (all_aspecs specs) -> aname a = x -> rank a = 1.

Lemma ins_all_aspecs specs m a : In m specs -> In a (ins m) -> In a (all_aspecs specs).
Proof. intros Hm Ha. unfold all_aspecs. apply in_flat_map. exists m. split; [assumption|]. apply in_or_app. now left. Qed.

(* the axes of a one-dimensional array that is carried along k are (k,) *)
Lemma carried_axes specs fuel o k x :
  consistent (all_aspecs specs) = true -> one_dimensional specs x ->
  In x (carried fuel specs o k) ->
  axes_of specs x = [Some k] /\ In x (map aname (all_aspecs specs)).
Proof.
  intros Hc H1 Hx. destruct (carried_occ _ _ _ _ _ Hx) as [m [a [Hm [Ha [E Hk]]]]].
  pose proof (ins_all_aspecs _ _ _ Hm Ha) as Hall.
  assert (Hax : axes a = [Some k]).
  { pose proof (H1 a Hall E) as R. unfold rank in R.
    destruct (axes a) as [|y [|? ?]]; try discriminate. destruct Hk as [->|[]]. reflexivity. }
  split.
  - rewrite <- E. rewrite axes_of_named; [assumption|assumption|assumption|].
    intros i. rewrite Hax. destruct i as [|[|i]]; cbn; discriminate.
  - apply in_map_iff. now exists a.
Qed.

Lemma carried_kept specs inputs li o k x tr :
  NoDup (out_names specs) -> consistent (all_aspecs specs) = true ->
  one_dimensional specs x -> visible inputs li x = true ->
  In x (carried (trace_fuel specs) specs o k) ->
  trace specs = Ok tr ->
  In (x, [k]) (kept_of specs inputs li (target_of tr o)) /\ NoDup (map fst (target_of tr o)).
Proof.
  intros Hnd Hc H1 Hv Hx Htr.
  destruct (carried_axes _ _ _ _ _ Hc H1 Hx) as [Hax Hname].
  assert (exists ms, mapping_get specs o = Some ms) as [ms M].
  { rewrite (mapping_get_computed_by _ _ Hnd). unfold trace_fuel in Hx. cbn [carried] in Hx.
    destruct (computed_by specs o) as [ms|]; [now exists ms|destruct Hx]. }
  destruct (trace_target _ _ _ _ Htr M) as [l [Hl Ht]]. rewrite Ht.
  split; [|now apply (trace_one_NoDup specs o)].
  unfold trace_one in Hl.
  destruct (trace_dep (trace_fuel specs) specs o) as [d|e] eqn:D; [|discriminate]. cbn [bind] in Hl.
  pose proof (proj2 (trace_dep_carried specs Hnd _ _ _ D k x) Hx) as [l0 [Hl0 Hx0]].
  apply (dget_In str_eqb str_eqb_eq) in Hl0.
  pose proof (proj2 (reorder_get d x k) (ex_intro _ l0 (conj Hl0 Hx0))) as [sx [Hs Hk]].
  apply (dget_In str_eqb str_eqb_eq) in Hs.
  apply mapM_inv in Hl. destruct (Forall2_In_l _ _ _ _ Hl Hs) as [b [Hb Hf]]. cbn [fst snd] in Hf.
  unfold order_like, axes_get in Hf.
  assert (mem_str x (map aname (all_aspecs specs)) = true) as E by now apply mem_str_In.
  rewrite E, Hax in Hf. cbn [bind somes filter] in Hf.
  assert (mem_str k sx = true) as E2 by now apply mem_str_In. rewrite E2 in Hf. injection Hf as <-.
  unfold kept_of. apply filter_In. split; [assumption|]. cbn [fst snd]. rewrite Hv. cbn [andb].
  unfold full_axes. cbn [fst snd map]. rewrite Hax. cbn. now rewrite str_eqb_refl.
Qed.

Lemma coords_raw_of_inv specs inputs loadable li o raw :
  coords_raw_of specs inputs loadable li o = Ok raw ->
  exists tr, trace specs = Ok tr /\ raw = coords_raw (group (kept_of specs inputs li (target_of tr o))).
Proof.
  unfold coords_raw_of. destruct (trace specs) as [tr|e]; [|discriminate]. cbn [bind].
  destruct (existsb _ (target_of tr o)); [discriminate|].
  destruct (existsb _ (target_of tr o)); [discriminate|].
  intros [= <-]. now exists tr.
Qed.

Section Coords.
  Variables (specs : list mapspec) (inputs loadable : list str) (li : bool) (o k : str).
  Hypothesis Hnd : NoDup (out_names specs).                      (* every array has one producer *)
  Hypothesis Hc : consistent (all_aspecs specs) = true.           (* validate_consistent_axes *)

  (* the group of axis (k,) contains every visible one-dimensional array carried along k *)
  Lemma carried_group raw x :
    one_dimensional specs x -> visible inputs li x = true ->
    In x (carried (trace_fuel specs) specs o k) ->
    coords_raw_of specs inputs loadable li o = Ok raw ->
    exists tr names,
      trace specs = Ok tr
      /\ raw = coords_raw (group (kept_of specs inputs li (target_of tr o)))
      /\ In ([k], names) (group (kept_of specs inputs li (target_of tr o)))
      /\ (forall z, In z names <-> In (z, [k]) (kept_of specs inputs li (target_of tr o)))
      /\ In x names.
  Proof.
    intros H1 Hv Hx Hraw. destruct (coords_raw_of_inv _ _ _ _ _ _ Hraw) as [tr [Htr ->]].
    destruct (carried_kept _ _ _ _ _ _ _ Hnd Hc H1 Hv Hx Htr) as [Hk _].
    pose proof (proj2 (group_get _ [k] x) Hk) as [names [Hg Hin]].
    exists tr, names. repeat split; auto.
    - now apply (dget_In key_eqb key_eqb_eq).
    - intros Hz. apply group_get. now exists names.
    - intros Hz. apply group_get in Hz as [names' [Hg' Hz]]. rewrite Hg in Hg'. now injection Hg' as <-.
  Qed.

  (* coord_on_exact_axis, "on no other axis": whatever coordinate mentions x lies on exactly (k,) *)
  Theorem coord_only_on_axis cs x :
    one_dimensional specs x -> visible inputs li x = true ->
    In x (carried (trace_fuel specs) specs o k) ->
    coords_of specs inputs loadable li o = Ok cs ->
    forall c, In c cs -> In x (co_srcs c) -> co_axes c = [k].
  Proof.
    intros H1 Hv Hx Hcs c Hin Hsrc. unfold coords_of in Hcs.
    destruct (coords_raw_of specs inputs loadable li o) as [raw|e] eqn:R; [|discriminate].
    cbn [bind] in Hcs. injection Hcs as <-. apply coords_dict_sub in Hin.
    destruct (coords_raw_of_inv _ _ _ _ _ _ R) as [tr [Htr ->]].
    destruct (carried_kept _ _ _ _ _ _ _ Hnd Hc H1 Hv Hx Htr) as [Hk Hnd'].
    unfold coords_raw in Hin. apply in_flat_map in Hin as [[ax names] [Hg Hc']].
    apply group_coords_sub in Hc' as [Hax Hsub]. cbn [fst snd] in Hax, Hsub. rewrite Hax.
    apply (In_dget key_eqb key_eqb_eq) in Hg; [|apply group_NoDup].
    assert (Hkept : In (x, ax) (kept_of specs inputs li (target_of tr o))).
    { apply group_get. exists names. auto. }
    unfold kept_of in Hk, Hkept. apply filter_In in Hk as [Hk _]. apply filter_In in Hkept as [Hkept _].
    exact (NoDup_fst_fun _ _ _ _ Hnd' Hkept Hk).
  Qed.

  (* coord_on_exact_axis, existence (needs: the coordinate names written for o do not collide) *)
  Theorem coord_on_axis cs x :
    one_dimensional specs x -> visible inputs li x = true ->
    In x (carried (trace_fuel specs) specs o k) ->
    (forall raw, coords_raw_of specs inputs loadable li o = Ok raw -> NoDup (map co_name raw)) ->
    coords_of specs inputs loadable li o = Ok cs ->
    exists c, In c cs /\ co_axes c = [k] /\ In x (co_srcs c).
  Proof.
    intros H1 Hv Hx Hdist Hcs. unfold coords_of in Hcs.
    destruct (coords_raw_of specs inputs loadable li o) as [raw|e] eqn:R; [|discriminate].
    cbn [bind] in Hcs. injection Hcs as <-. rewrite (coords_dict_distinct _ (Hdist _ eq_refl)).
    destruct (carried_group _ _ H1 Hv Hx R) as [tr [names [Htr [-> [Hg [_ Hin]]]]]].
    destruct (group_coords_1d k names) as [c [Hgc [Hax [Hsrc _]]]].
    { intros ->. destruct Hin. }
    exists c. repeat split; [|assumption|now rewrite Hsrc].
    unfold coords_raw. apply in_flat_map. exists ([k], names). split; [assumption|]. rewrite Hgc. now left.
  Qed.

  (* zipped_multiindex: two different visible one-dimensional arrays carried along the same axis are
     levels of ONE coordinate, named by the ":"-joined names of all its levels *)
  Theorem zipped_multiindex cs x z :
    one_dimensional specs x -> visible inputs li x = true ->
    one_dimensional specs z -> visible inputs li z = true ->
    In x (carried (trace_fuel specs) specs o k) -> In z (carried (trace_fuel specs) specs o k) ->
    x <> z ->
    (forall raw, coords_raw_of specs inputs loadable li o = Ok raw -> NoDup (map co_name raw)) ->
    coords_of specs inputs loadable li o = Ok cs ->
    exists c, In c cs /\ co_axes c = [k] /\ In x (co_srcs c) /\ In z (co_srcs c)
              /\ co_name c = join (s ":") (co_srcs c).
  Proof.
    intros H1 Hv H1z Hvz Hx Hz Hne Hdist Hcs. unfold coords_of in Hcs.
    destruct (coords_raw_of specs inputs loadable li o) as [raw|e] eqn:R; [|discriminate].
    cbn [bind] in Hcs. injection Hcs as <-. rewrite (coords_dict_distinct _ (Hdist _ eq_refl)).
    destruct (carried_group _ _ H1 Hv Hx R) as [tr [names [Htr [-> [Hg [Hall Hin]]]]]].
    destruct (coords_raw_of_inv _ _ _ _ _ _ R) as [tr' [Htr' _]]. rewrite Htr in Htr'. injection Htr' as <-.
    destruct (carried_kept _ _ _ _ _ _ _ Hnd Hc H1z Hvz Hz Htr) as [Hkz _].
    apply Hall in Hkz.
    destruct (group_coords_1d k names) as [c [Hgc [Hax [Hsrc Hname]]]].
    { intros ->. destruct Hin. }
    exists c. repeat split; [|assumption|now rewrite Hsrc|now rewrite Hsrc|].
    - unfold coords_raw. apply in_flat_map. exists ([k], names). split; [assumption|]. rewrite Hgc. now left.
    - rewrite Hname, Hsrc. destruct names as [|n0 [|n1 rest]]; [destruct Hin| |reflexivity].
      destruct Hin as [<-|[]], Hkz as [<-|[]]. contradiction.
  Qed.
End Coords.

(* ================================================================ _xarray_dataset: outputs without MapSpec *)
Lemma dset_da_names d a n : In n (map da_name (dset_da d a)) -> n = da_name a \/ In n (map da_name d).
Proof.
  induction d as [|a0 d IH]; cbn.
  - intros [<-|[]]. now left.
  - destruct (str_eqb (da_name a) (da_name a0)) eqn:E; cbn.
    + intros [<-|H]; [now left|right; now right].
    + intros [<-|H]; [right; now left|]. destruct (IH H); auto.
Qed.

Lemma dset_fold_names arrays : forall acc n,
  In n (map da_name (fold_left dset_da arrays acc)) -> In n (map da_name acc) \/ In n (map da_name arrays).
Proof.
  induction arrays as [|a arrays IH]; intros acc n H; cbn [fold_left] in H; [now left|].
  destruct (IH _ _ H) as [H'|H']; [|right; now right].
  apply dset_da_names in H' as [->|H']; [right; now left|now left].
Qed.

(* unmapped_outputs_plain: an output that no MapSpec declares is assigned as a plain variable
   (`ds[name] = array if isinstance(array, np.ndarray) else ((), array)`), never as a labelled DataArray,
   and conversely every plain variable is an output without MapSpec *)
Theorem unmapped_outputs_plain specs inputs outputs li ds :
  dataset_vars specs inputs outputs li = Ok ds ->
  (forall o, In o outputs -> ~ In o (out_names specs) ->
     In o (ds_plain ds) /\ ~ In o (map da_name (ds_arrays ds)) /\ ~ In o (ds_dropped ds))
  /\ (forall o, In o (ds_plain ds) -> In o outputs /\ ~ In o (out_names specs)).
Proof.
  unfold dataset_vars. fold (out_names specs).
  set (mon := filter (fun n => mem_str n outputs) (out_names specs)).
  destruct (mapM _ mon) as [arrays|e] eqn:A; [|discriminate]. cbn [bind]. intros [= <-]. cbn.
  assert (Hmon : forall n, In n mon <-> In n (out_names specs) /\ In n outputs).
  { intros n. unfold mon. now rewrite filter_In, mem_str_In. }
  assert (Hnames : map da_name arrays = mon).
  { clear Hmon. revert arrays A. generalize mon. induction mon0 as [|o mon0 IH]; intros arrays A; cbn in A.
    - now injection A as <-.
    - destruct (coords_of specs inputs outputs li o); cbn in A; [|discriminate].
      destruct (dims_of specs o); cbn in A; [|discriminate].
      destruct (mapM _ mon0) as [ys|] eqn:E; cbn in A; [|discriminate].
      injection A as <-. cbn. f_equal. now apply IH. }
  assert (Hda : forall n, In n (map da_name (fold_left dset_da arrays [])) -> In n (out_names specs)).
  { intros n H. apply dset_fold_names in H as [[]|H]. rewrite Hnames in H. now apply Hmon in H. }
  split.
  - intros o Ho Hno. repeat split.
    + apply filter_In. split; [assumption|]. apply negb_true_iff, mem_str_false. intros H. apply Hmon in H. tauto.
    + intros H. apply in_map_iff in H as [a [<- H]]. apply filter_In in H as [H _].
      apply Hno, Hda. apply in_map_iff. now exists a.
    + intros H. apply filter_In in H as [H _]. now apply Hno, Hda.
  - intros o H. apply filter_In in H as [Ho H]. split; [assumption|].
    apply negb_true_iff, mem_str_false in H. intros Hin. apply H, Hmon. auto.
Qed.

(* ================================================================ selecting by coordinate value *)
Lemma pos_of_nth l : forall n v, NoDup l -> nth_error l n = Some v -> pos_of v l = Some n.
Proof.
  induction l as [|y l IH]; intros n v Hnd Hn; [now destruct n|].
  inversion Hnd as [|? ? Hy Hd]; subst. destruct n as [|n]; cbn in Hn |- *.
  - injection Hn as ->. now rewrite str_eqb_refl.
  - assert (str_eqb v y = false) as ->.
    { apply str_eqb_neq. intros ->. apply Hy. now apply nth_error_In with n. }
    now rewrite (IH n v Hd Hn).
Qed.

(* with distinct coordinate values, selecting by the n-th value is positional selection of index n *)
Theorem sel_label_nth {A} (a : nd A) q labels n v :
  NoDup labels -> nth_error labels n = Some v ->
  sel_label a q labels v = nd_index a (slice_key (length (shp a)) q n).
Proof. intros Hnd Hn. unfold sel_label. now rewrite (pos_of_nth _ _ _ Hnd Hn). Qed.

(* ================================================================ coordinate names do not collide *)
From Coq Require Import Permutation.

Lemma split_char_nonnil c x : split_char c x <> [].
Proof.
  induction x as [|d t IH]; cbn; [discriminate|].
  destruct (Ascii.eqb c d); [discriminate|]. destruct (split_char c t); discriminate.
Qed.

Lemma split_char_free c x : mem_char c x = false -> split_char c x = [x].
Proof.
  induction x as [|d t IH]; cbn; [reflexivity|]. intros H. apply orb_false_iff in H as [H1 H2].
  rewrite H1. now rewrite (IH H2).
Qed.

Lemma split_char_app c x rest :
  mem_char c x = false -> split_char c (x ++ c :: rest) = x :: split_char c rest.
Proof.
  induction x as [|d t IH]; cbn; intros H.
  - now rewrite Ascii.eqb_refl.
  - apply orb_false_iff in H as [H1 H2]. rewrite H1. now rewrite (IH H2).
Qed.

Lemma split_join c l :
  l <> [] -> (forall x, In x l -> mem_char c x = false) -> split_char c (join [c] l) = l.
Proof.
  induction l as [|x l IH]; intros Hne Hfree; [congruence|].
  destruct l as [|y l'].
  - cbn. apply split_char_free. apply Hfree. now left.
  - change (join [c] (x :: y :: l')) with (x ++ [c] ++ join [c] (y :: l')).
    cbn [app]. rewrite split_char_app by (apply Hfree; now left). f_equal.
    apply IH; [discriminate|]. intros z Hz. apply Hfree. now right.
Qed.

Lemma join_inj c l l' :
  l <> [] -> l' <> [] ->
  (forall x, In x l -> mem_char c x = false) -> (forall x, In x l' -> mem_char c x = false) ->
  join [c] l = join [c] l' -> l = l'.
Proof.
  intros H1 H2 F1 F2 E. rewrite <- (split_join c l H1 F1), <- (split_join c l' H2 F2). now rewrite E.
Qed.

Lemma NoDup_concat_nonempty {A} (L : list (list A)) :
  NoDup (concat L) -> (forall l, In l L -> l <> []) -> NoDup L.
Proof.
  induction L as [|l L IH]; intros Hnd Hne; [constructor|]. cbn in Hnd.
  destruct (NoDup_app_inv _ _ Hnd) as [_ [H2 H3]]. constructor.
  - intros Hin. destruct l as [|h t]; [now apply (Hne [] (or_introl eq_refl))|].
    apply (H3 h); [now left|]. apply in_concat. exists (h :: t). split; [assumption|now left].
  - apply IH; [assumption|]. intros l' Hl'. apply Hne. now right.
Qed.

Lemma dupd_concat_perm (cm : list (list str * list str)) ax n :
  Permutation (concat (map snd (dupd key_eqb cm ax (fun old => odefault [] old ++ [n]))))
              (n :: concat (map snd cm)).
Proof.
  induction cm as [|[k' v] cm IH]; cbn.
  - apply Permutation_refl.
  - destruct (key_eqb ax k'); cbn.
    + rewrite <- app_assoc. cbn. apply Permutation_sym, Permutation_middle.
    + eapply Permutation_trans; [apply Permutation_app_head, IH|]. apply Permutation_sym, Permutation_middle.
Qed.

Lemma group_concat_perm kept : Permutation (concat (map snd (group kept))) (map fst kept).
Proof.
  unfold group.
  assert (G : forall acc : list (list str * list str),
    Permutation (concat (map snd (fold_left (fun cm na => dupd key_eqb cm (snd na) (fun old => odefault [] old ++ [fst na])) kept acc)))
                (concat (map snd acc) ++ map fst kept)).
  { induction kept as [|[n ax] kept IH]; intros acc; cbn [fold_left map fst snd].
    - rewrite app_nil_r. apply Permutation_refl.
    - eapply Permutation_trans; [apply IH|].
      eapply Permutation_trans; [apply Permutation_app_tail, dupd_concat_perm|].
      cbn. apply Permutation_middle. }
  apply (G []).
Qed.

Lemma dupd_nonempty (cm : list (list str * list str)) ax n :
  (forall g, In g cm -> snd g <> []) ->
  forall g, In g (dupd key_eqb cm ax (fun old => odefault [] old ++ [n])) -> snd g <> [].
Proof.
  induction cm as [|[k' v] cm IH]; cbn; intros H g Hg.
  - destruct Hg as [<-|[]]. cbn. discriminate.
  - destruct (key_eqb ax k').
    + destruct Hg as [<-|Hg]; [cbn; now destruct v|]. apply H. now right.
    + destruct Hg as [<-|Hg]; [apply (H (k', v)); now left|]. apply IH; [|assumption].
      intros g' Hg'. apply H. now right.
Qed.

Lemma group_nonempty kept : forall g, In g (group kept) -> snd g <> [].
Proof.
  unfold group.
  assert (G : forall acc : list (list str * list str), (forall g, In g acc -> snd g <> []) ->
    forall g, In g (fold_left (fun cm na => dupd key_eqb cm (snd na) (fun old => odefault [] old ++ [fst na])) kept acc) ->
    snd g <> []).
  { induction kept as [|na kept IH]; intros acc H g Hg; cbn [fold_left] in Hg; [now apply H|].
    apply (IH _ (dupd_nonempty acc (snd na) (fst na) H) g Hg). }
  apply G. intros g [].
Qed.

Lemma group_coords_srcs g : concat (map co_srcs (group_coords g)) = snd g.
Proof.
  unfold group_coords. destruct (snd g) as [|n0 [|n1 rest]] eqn:E.
  - destruct (1 <? length (fst g)); reflexivity.
  - reflexivity.
  - destruct (1 <? length (fst g)); [|cbn; now rewrite app_nil_r].
    rewrite map_map. cbn [co_srcs]. generalize (n0 :: n1 :: rest). intros l.
    induction l as [|x l IH]; cbn; [reflexivity|]. now rewrite IH.
Qed.

Lemma coords_raw_srcs cm : concat (map co_srcs (coords_raw cm)) = concat (map snd cm).
Proof.
  unfold coords_raw. induction cm as [|g cm IH]; cbn; [reflexivity|].
  now rewrite map_app, concat_app, group_coords_srcs, IH.
Qed.

Lemma group_coords_name g c :
  In c (group_coords g) -> snd g <> [] ->
  co_name c = join (s ":") (co_srcs c) /\ co_srcs c <> [] /\ forall n, In n (co_srcs c) -> In n (snd g).
Proof.
  unfold group_coords. destruct (snd g) as [|n0 [|n1 rest]] eqn:E; intros H Hne; [congruence| |].
  - destruct H as [<-|[]]. cbn. repeat split; [discriminate|auto].
  - destruct (1 <? length (fst g)).
    + apply in_map_iff in H as [n [<- Hn]]. cbn. repeat split; [discriminate|]. intros n' [<-|[]]. assumption.
    + destruct H as [<-|[]]. cbn [co_name co_srcs]. repeat split; [discriminate|auto].
Qed.

Lemma filter_fst_NoDup {A B} (p : A * B -> bool) l : NoDup (map fst l) -> NoDup (map fst (filter p l)).
Proof.
  induction l as [|x l IH]; cbn; intros H; [constructor|]. inversion H as [|? ? Hn Hd]; subst.
  destruct (p x); cbn; [|now apply IH]. constructor; [|now apply IH].
  intros Hin. apply Hn. apply in_map_iff in Hin as [y [E Hy]]. apply filter_In in Hy as [Hy _].
  apply in_map_iff. now exists y.
Qed.

(* coord_names_distinct: when no array name contains ':' (names are identifiers), the coordinate names
   written by `_xarray` for one output never collide, so no `coords[name] = ...` overwrites another *)
Theorem coord_names_distinct specs inputs loadable li o raw :
  (forall a, In a (all_aspecs specs) -> mem_char ":"%char (aname a) = false) ->
  coords_raw_of specs inputs loadable li o = Ok raw -> NoDup (map co_name raw).
Proof.
  intros Hfree Hraw. unfold coords_raw_of in Hraw.
  destruct (trace specs) as [tr|e] eqn:Htr; [|discriminate]. cbn [bind] in Hraw.
  destruct (existsb _ (target_of tr o)); [discriminate|].
  destruct (existsb (fun na => negb (mem_str (fst na) (map aname (all_aspecs specs)))) (target_of tr o)) eqn:Ex;
    [discriminate|]. injection Hraw as <-.
  set (kept := kept_of specs inputs li (target_of tr o)).
  (* names of the target occur in the specs, hence are ':'-free *)
  assert (Hkfree : forall n, In n (map fst kept) -> mem_char ":"%char n = false).
  { intros n Hn. apply in_map_iff in Hn as [[n' ax] [E Hn]]. cbn in E. subst n'.
    unfold kept, kept_of in Hn. apply filter_In in Hn as [Hn _].
    assert (In n (map aname (all_aspecs specs))) as Hin.
    { destruct (mem_str n (map aname (all_aspecs specs))) eqn:M; [now apply mem_str_In|].
      exfalso. assert (existsb (fun na => negb (mem_str (fst na) (map aname (all_aspecs specs)))) (target_of tr o) = true).
      { apply existsb_exists. exists (n, ax). split; [assumption|]. cbn. now rewrite M. }
      congruence. }
    apply in_map_iff in Hin as [a [<- Ha]]. now apply Hfree. }
  (* the target has unique names *)
  assert (Hnd : NoDup (map fst kept)).
  { unfold kept, kept_of. apply filter_fst_NoDup. unfold target_of.
    destruct (dget str_eqb tr o) as [l|] eqn:G; cbn; [|constructor].
    apply (dget_In str_eqb str_eqb_eq) in G. unfold trace in Htr.
    destruct (mapM _ (mapping_keys specs)) as [rows|] eqn:R; [|discriminate]. cbn [bind] in Htr.
    injection Htr as <-. apply filter_In in G as [G _].
    apply mapM_inv in R. destruct (Forall2_In_r _ _ _ _ R G) as [o' [_ Ho']].
    destruct (trace_one specs o') as [l'|] eqn:T; [|discriminate]. cbn in Ho'. injection Ho' as _ <-.
    now apply (trace_one_NoDup specs o'). }
  assert (Hsrcs : NoDup (map co_srcs (coords_raw (group kept)))).
  { apply NoDup_concat_nonempty.
    - rewrite coords_raw_srcs. apply (Permutation_NoDup (Permutation_sym (group_concat_perm kept)) Hnd).
    - intros l Hl. apply in_map_iff in Hl as [c [<- Hc]]. unfold coords_raw in Hc.
      apply in_flat_map in Hc as [g [Hg Hc]].
      now destruct (group_coords_name g c Hc (group_nonempty kept g Hg)) as [_ [H _]]. }
  assert (Hc : forall c, In c (coords_raw (group kept)) ->
                co_name c = join (s ":") (co_srcs c) /\ co_srcs c <> []
                /\ forall n, In n (co_srcs c) -> mem_char ":"%char n = false).
  { intros c Hc. unfold coords_raw in Hc. apply in_flat_map in Hc as [g [Hg Hc]].
    destruct (group_coords_name g c Hc (group_nonempty kept g Hg)) as [H1 [H2 H3]]. repeat split; [assumption..|].
    intros n Hn. apply Hkfree. apply H3 in Hn.
    apply (Permutation_in _ (group_concat_perm kept)). apply in_concat. exists (snd g). split; [|assumption].
    apply in_map_iff. now exists g. }
  assert (E : map co_name (coords_raw (group kept)) = map (fun l => join (s ":") l) (map co_srcs (coords_raw (group kept)))).
  { rewrite map_map. apply map_ext_in. intros c Hin. now destruct (Hc c Hin) as [H _]. }
  rewrite E. apply NoDup_map_inj_in; [|assumption].
  intros l l' Hl Hl' Ej. apply in_map_iff in Hl as [c [<- Hcin]]. apply in_map_iff in Hl' as [c' [<- Hcin']].
  destruct (Hc c Hcin) as [_ [N1 F1]]. destruct (Hc c' Hcin') as [_ [N2 F2]].
  exact (join_inj ":"%char _ _ N1 N2 F1 F2 Ej).
Qed.

(* well-formed array names (ArraySpec.__post_init__: identifiers, optionally `scope.name`) contain no ':' *)
Lemma word_not_colon c : is_word c = true -> Ascii.eqb ":"%char c = false.
Proof.
  intros H. destruct (Ascii.eqb ":"%char c) eqn:E; [|reflexivity].
  apply Ascii.eqb_eq in E. subst c. discriminate H.
Qed.

Lemma words_nocolon x : forallb is_word x = true -> mem_char ":"%char x = false.
Proof.
  induction x as [|c t IH]; cbn [mem_char forallb]; [reflexivity|]. intros H. apply andb_true_iff in H as [H1 H2].
  now rewrite (word_not_colon c H1), (IH H2).
Qed.

Lemma is_ident_nocolon x : is_ident x = true -> mem_char ":"%char x = false.
Proof.
  destruct x as [|c t]; cbn [is_ident mem_char]; [discriminate|]. intros H. apply andb_true_iff in H as [H1 H2].
  assert (is_word c = true) as Hw by (unfold is_word; now rewrite H1).
  now rewrite (word_not_colon c Hw), (words_nocolon t H2).
Qed.

Lemma split_first_spec c x a b : split_first c x = Some (a, b) -> x = a ++ c :: b.
Proof.
  revert a b. induction x as [|d t IH]; intros a b; cbn; [discriminate|].
  destruct (Ascii.eqb c d) eqn:E.
  - apply Ascii.eqb_eq in E. subst d. now intros [= <- <-].
  - destruct (split_first c t) as [[a' b']|]; [|discriminate]. intros [= <- <-]. cbn. f_equal. now apply IH.
Qed.

Lemma mem_char_app c x y : mem_char c (x ++ y) = mem_char c x || mem_char c y.
Proof. induction x as [|d t IH]; cbn [app mem_char]; [reflexivity|]. now rewrite IH, orb_assoc. Qed.

Lemma valid_name_nocolon n : valid_name n = true -> mem_char ":"%char n = false.
Proof.
  unfold valid_name. destruct (mem_char "."%char n).
  - destruct (split_first "."%char n) as [[scope nm]|] eqn:E; [|discriminate].
    intros H. apply andb_true_iff in H as [H1 H2]. apply split_first_spec in E. subst n.
    rewrite mem_char_app. cbn [mem_char]. rewrite (is_ident_nocolon _ H1), (is_ident_nocolon _ H2). reflexivity.
  - apply is_ident_nocolon.
Qed.

Lemma wf_names_nocolon specs :
  forallb wf_aspec (all_aspecs specs) = true ->
  forall a, In a (all_aspecs specs) -> mem_char ":"%char (aname a) = false.
Proof.
  intros H a Ha. rewrite forallb_forall in H. specialize (H a Ha). unfold wf_aspec in H.
  apply andb_true_iff in H as [H _]. now apply valid_name_nocolon.
Qed.

(* the full statements: for well-formed array names nothing else is assumed *)
Theorem coord_on_axis_full specs inputs loadable li o k cs x :
  NoDup (out_names specs) -> consistent (all_aspecs specs) = true ->
  forallb wf_aspec (all_aspecs specs) = true ->
  one_dimensional specs x -> visible inputs li x = true ->
  In x (carried (trace_fuel specs) specs o k) ->
  coords_of specs inputs loadable li o = Ok cs ->
  (exists c, In c cs /\ co_axes c = [k] /\ In x (co_srcs c))
  /\ (forall c, In c cs -> In x (co_srcs c) -> co_axes c = [k]).
Proof.
  intros Hnd Hc Hwf H1 Hv Hx Hcs. split.
  - apply (coord_on_axis specs inputs loadable li o k Hnd Hc cs x H1 Hv Hx); [|assumption].
    intros raw Hraw. apply (coord_names_distinct specs inputs loadable li o raw); [|assumption].
    now apply wf_names_nocolon.
  - now apply (coord_only_on_axis specs inputs loadable li o k Hnd Hc cs x).
Qed.

Theorem zipped_multiindex_full specs inputs loadable li o k cs x z :
  NoDup (out_names specs) -> consistent (all_aspecs specs) = true ->
  forallb wf_aspec (all_aspecs specs) = true ->
  one_dimensional specs x -> visible inputs li x = true ->
  one_dimensional specs z -> visible inputs li z = true ->
  In x (carried (trace_fuel specs) specs o k) -> In z (carried (trace_fuel specs) specs o k) ->
  x <> z ->
  coords_of specs inputs loadable li o = Ok cs ->
  exists c, In c cs /\ co_axes c = [k] /\ In x (co_srcs c) /\ In z (co_srcs c)
            /\ co_name c = join (s ":") (co_srcs c).
Proof.
  intros Hnd Hc Hwf H1 Hv H1z Hvz Hx Hz Hne Hcs.
  apply (zipped_multiindex specs inputs loadable li o k Hnd Hc cs x z); auto.
  intros raw Hraw. apply (coord_names_distinct specs inputs loadable li o raw); [|assumption].
  now apply wf_names_nocolon.
Qed.

(* ================================================================ slicing: what `nd_index a (slice_key ..)` returns *)
Lemma mapM_total {A B} (f : A -> result B) l :
  (forall x, In x l -> exists y, f x = Ok y) -> exists r, mapM f l = Ok r.
Proof.
  induction l as [|x l IH]; intros H; cbn; [now exists []|].
  destruct (H x (or_introl eq_refl)) as [y ->]. cbn.
  destruct IH as [r ->]; [intros z Hz; apply H; now right|]. cbn. now eexists.
Qed.

Lemma Forall2_nth {A B} (R : A -> B -> Prop) l r : Forall2 R l r ->
  forall i a, nth_error l i = Some a -> exists b, nth_error r i = Some b /\ R a b.
Proof.
  induction 1 as [|x y l r Hxy H IH]; intros i a Hi; [now destruct i|].
  destruct i as [|i]; cbn in *.
  - injection Hi as <-. now exists y.
  - now apply IH.
Qed.

Lemma all_indices_nth sh j : in_bounds sh j = true -> nth_error (all_indices sh) (ravel sh j) = Some j.
Proof.
  intros Hb. rewrite <- unravel_enumerates, nth_error_map, nth_error_seq.
  pose proof (ravel_lt sh j Hb) as Hlt. apply Nat.ltb_lt in Hlt. rewrite Hlt. cbn.
  now rewrite unravel_ravel.
Qed.

Lemma all_indices_in_bounds sh j : In j (all_indices sh) -> in_bounds sh j = true.
Proof.
  rewrite <- unravel_enumerates. intros H. apply in_map_iff in H as [m [<- Hm]].
  apply in_seq in Hm. apply unravel_in_bounds. lia.
Qed.

Lemma in_bounds_length sh : forall j, in_bounds sh j = true -> length j = length sh.
Proof.
  induction sh as [|d sh IH]; intros [|k j] H; cbn in H; try discriminate; [reflexivity|].
  apply andb_true_iff in H as [_ H]. cbn. f_equal. now apply IH.
Qed.

Lemma ext_of_repeat_false {A} (l : list A) : ext_of (repeat false (length l)) l = [].
Proof. induction l as [|x l IH]; cbn; [reflexivity|exact IH]. Qed.
Lemma int_of_repeat_false {A} (l : list A) : int_of (repeat false (length l)) l = l.
Proof. induction l as [|x l IH]; cbn; [reflexivity|now rewrite IH]. Qed.
Lemma merge_repeat_false {A} (e j : list A) : merge (repeat false (length j)) e j = j.
Proof. revert e. induction j as [|x j IH]; intros e; cbn; [reflexivity|now rewrite IH]. Qed.
Lemma map_repeat {A B} (f : A -> B) x n : map f (repeat x n) = repeat (f x) n.
Proof. induction n as [|n IH]; cbn; [reflexivity|now rewrite IH]. Qed.
Lemma key_ints_repeat n : key_ints (repeat KAll n) = [].
Proof. induction n as [|n IH]; cbn; [reflexivity|exact IH]. Qed.

(* the mask / fixed part / kept shape of a slice key *)
Lemma slice_key_facts (sh : list nat) : forall q n, q < length sh ->
  let key := slice_key (length sh) q n in
  length key = length sh
  /\ key_ints key = [n]
  /\ ext_of (map key_is_int key) sh = [nth q sh 0]
  /\ int_of (map key_is_int key) sh = remove_at q sh
  /\ forall j, in_bounds (remove_at q sh) j = true -> n < nth q sh 0 ->
       merge (map key_is_int key) [n] j = insert_at q n j /\ in_bounds sh (insert_at q n j) = true.
Proof.
  induction sh as [|d sh IH]; intros q n Hq; cbn in Hq; [lia|].
  destruct q as [|q].
  - cbn [length slice_key]. repeat split.
    + cbn. now rewrite repeat_length.
    + cbn. now rewrite key_ints_repeat.
    + cbn. rewrite map_repeat. cbn. now rewrite ext_of_repeat_false.
    + cbn. rewrite map_repeat. cbn. now rewrite int_of_repeat_false.
    + cbn in H |- *. rewrite map_repeat. cbn [key_is_int].
      rewrite <- (in_bounds_length _ _ H). now rewrite merge_repeat_false.
    + cbn in H, H0 |- *. apply andb_true_iff. split; [now apply Nat.ltb_lt|assumption].
  - assert (Hq' : q < length sh) by lia. destruct (IH q n Hq') as [H1 [H2 [H3 [H4 H5]]]].
    cbn [length slice_key]. repeat split.
    + cbn. now rewrite H1.
    + cbn. exact H2.
    + cbn. exact H3.
    + cbn. now rewrite H4.
    + cbn [remove_at firstn skipn app] in H. destruct j as [|k j]; [discriminate|].
      cbn in H. apply andb_true_iff in H as [Hk Hj]. cbn in H0.
      destruct (H5 j Hj H0) as [M _]. cbn. now rewrite M.
    + cbn [remove_at firstn skipn app] in H. destruct j as [|k j]; [discriminate|].
      cbn [in_bounds] in H. apply andb_true_iff in H as [Hk Hj]. cbn in H0.
      destruct (H5 j Hj H0) as [_ B]. unfold insert_at in B |- *. cbn [firstn skipn app in_bounds].
      now rewrite Hk, B.
Qed.

Lemma nd_get_in_bounds {A} (a : nd A) idx :
  nd_wf a = true -> in_bounds (shp a) idx = true -> exists x, nd_get a idx = Some x.
Proof.
  intros Hwf Hb. unfold nd_get. rewrite Hb. unfold nd_wf in Hwf. apply Nat.eqb_eq in Hwf.
  pose proof (ravel_lt _ _ Hb) as Hlt. rewrite <- Hwf in Hlt.
  destruct (nth_error (dat a) (ravel (shp a) idx)) eqn:E; [now eexists|]. apply nth_error_None in E. lia.
Qed.

(* slicing dimension q at position n: the result has the shape without dimension q and its element at j
   is the element of a at j completed by n at dimension q *)
Theorem nd_index_slice {A} (a : nd A) q n :
  nd_wf a = true -> q < length (shp a) -> n < nth q (shp a) 0 ->
  exists b, nd_index a (slice_key (length (shp a)) q n) = Ok b
            /\ shp b = remove_at q (shp a)
            /\ forall j, in_bounds (shp b) j = true -> nd_get b j = nd_get a (insert_at q n j).
Proof.
  intros Hwf Hq Hn. destruct (slice_key_facts (shp a) q n Hq) as [H1 [H2 [H3 [H4 H5]]]].
  unfold nd_index. rewrite H1, Nat.eqb_refl. cbn [negb]. rewrite H2, H3, H4.
  assert (in_bounds [nth q (shp a) 0] [n] = true) as ->.
  { cbn. apply andb_true_iff. split; [now apply Nat.ltb_lt|reflexivity]. }
  cbn [negb].
  set (f := fun j => match nd_get a (merge (map key_is_int (slice_key (length (shp a)) q n)) [n] j) with
                     | Some x => Ok x | None => Err IndexError end).
  destruct (mapM_total f (all_indices (remove_at q (shp a)))) as [d Hd].
  { intros j Hj. apply all_indices_in_bounds in Hj. destruct (H5 j Hj Hn) as [M B].
    destruct (nd_get_in_bounds a _ Hwf B) as [x Hx]. exists x. unfold f. now rewrite M, Hx. }
  fold f. rewrite Hd. eexists. split; [reflexivity|]. cbn [shp]. split; [reflexivity|].
  intros j Hj. unfold nd_get at 1. cbn [shp dat]. rewrite Hj.
  apply mapM_inv in Hd. pose proof (all_indices_nth _ _ Hj) as Hnth.
  destruct (Forall2_nth _ _ _ Hd _ _ Hnth) as [x [Hx Hf]]. rewrite Hx.
  unfold f in Hf. destruct (H5 j Hj Hn) as [M _]. rewrite M in Hf.
  destruct (nd_get a (insert_at q n j)); [now injection Hf as ->|discriminate].
Qed.

(* sel_returns_element, element level: with distinct coordinate values on dimension q, selecting by the
   n-th value yields the array whose element at j is the element of a at (j completed by n at q) *)
Theorem sel_returns_element {A} (a : nd A) q labels n v :
  nd_wf a = true -> q < length (shp a) -> length labels = nth q (shp a) 0 ->
  NoDup labels -> nth_error labels n = Some v ->
  exists b, sel_label a q labels v = Ok b
            /\ shp b = remove_at q (shp a)
            /\ forall j, in_bounds (shp b) j = true -> nd_get b j = nd_get a (insert_at q n j).
Proof.
  intros Hwf Hq Hlen Hnd Hn. rewrite (sel_label_nth a q labels n v Hnd Hn).
  apply nd_index_slice; [assumption..|]. rewrite <- Hlen. apply nth_error_Some. congruence.
Qed.

(* ================================================================ link to the denotation (Model/MapDenote.v) *)
From Verif Require Import Model.MapRun Model.MapDenote.

Lemma Forall2_nth_r {A B} (R : A -> B -> Prop) l r : Forall2 R l r ->
  forall i b, nth_error r i = Some b -> exists a, nth_error l i = Some a /\ R a b.
Proof.
  induction 1 as [|x y l r Hxy H IH]; intros i b Hi; [now destruct i|].
  destruct i as [|i]; cbn in *.
  - injection Hi as <-. now exists x.
  - now apply IH.
Qed.

Lemma Forall2_len {A B} (R : A -> B -> Prop) l r : Forall2 R l r -> length l = length r.
Proof. induction 1; cbn; [reflexivity|now f_equal]. Qed.

(* an array of the denotation of a mapped function holds, at every full index, the denoted element *)
Lemma denote_mapped_get body f ms kw sh mask arrs jo a :
  denote_mapped body f ms kw sh mask = Ok arrs -> nth_error arrs jo = Some a ->
  shp a = sh /\ nd_wf a = true
  /\ forall idx, in_bounds sh idx = true ->
       exists x, nd_get a idx = Some x /\ denote_elem body f ms kw mask jo idx = Ok x.
Proof.
  unfold denote_mapped. destruct (ret_shape_ok body f ms kw sh mask); [|discriminate]. cbn [bind].
  intros H Hn. apply mapM_inv in H.
  destruct (Forall2_nth_r _ _ _ H _ _ Hn) as [jo' [Hjo Ha]].
  rewrite nth_error_seq in Hjo. destruct (jo <? length (fouts f)); [|discriminate]. injection Hjo as <-.
  cbn [Nat.add] in Ha.
  destruct (mapM (denote_elem body f ms kw mask jo) (all_indices sh)) as [d|e] eqn:D; [|discriminate].
  cbn [bind] in Ha. injection Ha as <-. cbn [shp dat].
  pose proof (mapM_inv _ _ _ D) as F. split; [reflexivity|]. split.
  - unfold nd_wf. cbn [shp dat]. apply Nat.eqb_eq.
    rewrite <- (Forall2_len _ _ _ F). apply all_indices_length.
  - intros idx Hb. unfold nd_get. cbn [shp dat]. rewrite Hb.
    destruct (Forall2_nth _ _ _ F _ _ (all_indices_nth _ _ Hb)) as [x [Hx Hd]]. now exists x.
Qed.

(* sel_returns_element against the denotation: for a variable that is the jo-th output of a mapped
   function, with distinct coordinate values on dimension q, the array selected by the n-th coordinate
   value holds at every remaining index j exactly the denoted element at (j completed by n at q) *)
Theorem sel_returns_denotation body f ms kw sh mask arrs jo a q labels n v :
  denote_mapped body f ms kw sh mask = Ok arrs -> nth_error arrs jo = Some a ->
  q < length sh -> length labels = nth q sh 0 -> NoDup labels -> nth_error labels n = Some v ->
  exists b, sel_label a q labels v = Ok b
            /\ shp b = remove_at q sh
            /\ forall j, in_bounds (shp b) j = true ->
                 exists x, nd_get b j = Some x
                           /\ denote_elem body f ms kw mask jo (insert_at q n j) = Ok x.
Proof.
  intros Hden Hjo Hq Hlen Hnd Hn.
  destruct (denote_mapped_get _ _ _ _ _ _ _ _ _ Hden Hjo) as [Hsh [Hwf Hget]].
  assert (Hn' : n < nth q sh 0) by (rewrite <- Hlen; apply nth_error_Some; congruence).
  destruct (sel_returns_element a q labels n v Hwf) as [b [Hb [Hs Hj]]]; try (rewrite Hsh; assumption); try assumption.
  exists b. split; [assumption|]. rewrite Hsh in Hs. split; [assumption|].
  intros j Hjb. rewrite (Hj j Hjb). apply Hget.
  rewrite Hs in Hjb. destruct (slice_key_facts sh q n Hq) as [_ [_ [_ [_ H5]]]].
  now destruct (H5 j Hjb Hn').
Qed.

(* ================================================================ the merged dataset *)
Lemma coords_union_sound l : forall seen c, In c (coords_union seen l) -> In c l /\ ~ In (co_name c) seen.
Proof.
  induction l as [|c0 l IH]; intros seen c H; cbn in H; [destruct H|].
  destruct (mem_str (co_name c0) seen) eqn:E.
  - destruct (IH _ _ H) as [H1 H2]. split; [now right|assumption].
  - destruct H as [<-|H].
    + split; [now left|now apply mem_str_false].
    + destruct (IH _ _ H) as [H1 H2]. split; [now right|]. intros Hin. apply H2. now right.
Qed.

Lemma coords_union_complete l : forall seen c, In c l -> ~ In (co_name c) seen ->
  exists c', In c' (coords_union seen l) /\ co_name c' = co_name c.
Proof.
  induction l as [|c0 l IH]; intros seen c Hin Hs; [destruct Hin|]. cbn.
  destruct (mem_str (co_name c0) seen) eqn:E.
  - destruct Hin as [->|Hin]; [apply mem_str_In in E; contradiction|]. now apply IH.
  - destruct Hin as [->|Hin]; [exists c; split; [now left|reflexivity]|].
    destruct (list_eq_dec ascii_dec (co_name c) (co_name c0)) as [En|Hne].
    + exists c0. split; [now left|now symmetry].
    + destruct (IH (co_name c0 :: seen) c Hin) as [c' [H1 H2]].
      * intros [H|H]; [now apply Hne|contradiction].
      * exists c'. split; [now right|assumption].
Qed.

(* every coordinate of a merged DataArray is (by name) a coordinate of the Dataset, and the Dataset has
   no other coordinates (xr.merge(compat="override"): the first array that brings a name wins) *)
Theorem ds_coords_union ds :
  (forall a c, In a (ds_arrays ds) -> In c (da_coords a) ->
     exists c', In c' (ds_coords ds) /\ co_name c' = co_name c)
  /\ (forall c', In c' (ds_coords ds) -> exists a, In a (ds_arrays ds) /\ In c' (da_coords a)).
Proof.
  unfold ds_coords. split.
  - intros a c Ha Hc. apply coords_union_complete; [|intros []]. apply in_flat_map. now exists a.
  - intros c' H. apply coords_union_sound in H as [H _]. now apply in_flat_map in H.
Qed.

(* ================================================================ every computed MapSpec output is a variable *)
Lemma reorder_inner_keys (names : list str) k : forall (acc : list (str * list str)) n,
  In n (map fst (fold_left (fun acc2 n0 => dupd str_eqb acc2 n0 (fun old => set_add k (odefault [] old))) names acc))
  <-> In n (map fst acc) \/ In n names.
Proof.
  induction names as [|n0 names IH]; intros acc n; cbn [fold_left]; [cbn; tauto|].
  rewrite IH, (dupd_keys str_eqb str_eqb_eq). cbn. intuition auto.
Qed.

Lemma reorder_keys d n : In n (map fst (reorder d)) <-> exists k l, In (k, l) d /\ In n l.
Proof.
  unfold reorder.
  assert (G : forall acc : list (str * list str),
    In n (map fst (fold_left (fun acc kv =>
                    fold_left (fun acc2 n0 => dupd str_eqb acc2 n0 (fun old => set_add (fst kv) (odefault [] old)))
                              (snd kv) acc) d acc))
    <-> In n (map fst acc) \/ exists k l, In (k, l) d /\ In n l).
  { induction d as [|[k0 l0] d IH]; intros acc; cbn [fold_left fst snd].
    - split; [now left|]. intros [H|[k [l [[] _]]]]. assumption.
    - rewrite IH, reorder_inner_keys. split.
      + intros [[H|H]|[k [l [Hl Hn]]]]; auto.
        * right. exists k0, l0. split; [now left|assumption].
        * right. exists k, l. split; [now right|assumption].
      + intros [H|[k [l [[E|Hl] Hn]]]]; auto.
        * injection E as -> ->. auto.
        * right. now exists k, l. }
  rewrite G. cbn. split; [intros [[]|H]; assumption|now right].
Qed.

(* the names that `_xarray` looks at for output o are sources: never themselves computed element-wise *)
Lemma target_names_sources specs tr o n ax :
  NoDup (out_names specs) -> trace specs = Ok tr -> In (n, ax) (target_of tr o) ->
  computed_by specs n = None.
Proof.
  intros Hnd Htr Hin. unfold target_of in Hin.
  destruct (dget str_eqb tr o) as [l|] eqn:G; cbn in Hin; [|destruct Hin].
  apply (dget_In str_eqb str_eqb_eq) in G. unfold trace in Htr.
  destruct (mapM _ (mapping_keys specs)) as [rows|] eqn:R; [|discriminate]. cbn [bind] in Htr.
  injection Htr as <-. apply filter_In in G as [G _].
  apply mapM_inv in R. destruct (Forall2_In_r _ _ _ _ R G) as [o' [_ Ho']].
  destruct (trace_one specs o') as [l'|] eqn:T; [|discriminate]. cbn in Ho'. injection Ho' as -> <-.
  unfold trace_one in T. destruct (trace_dep (trace_fuel specs) specs o) as [d|] eqn:D; [|discriminate].
  cbn [bind] in T. pose proof (mapM_fst _ _ _ T) as Hk.
  assert (Hn : In n (map fst (reorder d))).
  { rewrite <- Hk. apply in_map_iff. now exists (n, ax). }
  apply reorder_keys in Hn as [k [l0 [Hl0 Hn]]].
  apply (In_dget str_eqb str_eqb_eq) in Hl0; [|exact (trace_dep_NoDup specs (trace_fuel specs) o d D)].
  apply (carried_source specs k n (trace_fuel specs) o).
  apply (trace_dep_carried specs Hnd _ _ _ D). now exists l0.
Qed.

Lemma coords_of_srcs specs inputs loadable li o cs c n :
  NoDup (out_names specs) -> coords_of specs inputs loadable li o = Ok cs -> In c cs -> In n (co_srcs c) ->
  computed_by specs n = None.
Proof.
  intros Hnd Hcs Hc Hn. unfold coords_of in Hcs.
  destruct (coords_raw_of specs inputs loadable li o) as [raw|] eqn:R; [|discriminate].
  cbn [bind] in Hcs. injection Hcs as <-. apply coords_dict_sub in Hc.
  destruct (coords_raw_of_inv _ _ _ _ _ _ R) as [tr [Htr ->]].
  unfold coords_raw in Hc. apply in_flat_map in Hc as [[ax names] [Hg Hc]].
  apply group_coords_sub in Hc as [_ Hsub]. apply Hsub in Hn. cbn [snd] in Hn.
  apply (In_dget key_eqb key_eqb_eq) in Hg; [|apply group_NoDup].
  assert (Hk : In (n, ax) (kept_of specs inputs li (target_of tr o))) by (apply group_get; now exists names).
  unfold kept_of in Hk. apply filter_In in Hk as [Hk _].
  exact (target_names_sources _ _ _ _ _ Hnd Htr Hk).
Qed.

Lemma coords_of_name specs inputs loadable li o cs c :
  coords_of specs inputs loadable li o = Ok cs -> In c cs ->
  co_name c = join (s ":") (co_srcs c) /\ co_srcs c <> [].
Proof.
  intros Hcs Hc. unfold coords_of in Hcs.
  destruct (coords_raw_of specs inputs loadable li o) as [raw|] eqn:R; [|discriminate].
  cbn [bind] in Hcs. injection Hcs as <-. apply coords_dict_sub in Hc.
  destruct (coords_raw_of_inv _ _ _ _ _ _ R) as [tr [Htr ->]].
  unfold coords_raw in Hc. apply in_flat_map in Hc as [g [Hg Hc]].
  destruct (group_coords_name g c Hc (group_nonempty _ g Hg)) as [H1 [H2 _]]. auto.
Qed.

Lemma dset_da_In d a b : In b (dset_da d a) -> b = a \/ In b d.
Proof.
  induction d as [|a0 d IH]; cbn.
  - intros [<-|[]]. now left.
  - destruct (str_eqb (da_name a) (da_name a0)).
    + intros [<-|H]; [now left|right; now right].
    + intros [<-|H]; [right; now left|]. destruct (IH H); auto.
Qed.

Lemma dset_fold_In arrays : forall acc b, In b (fold_left dset_da arrays acc) -> In b acc \/ In b arrays.
Proof.
  induction arrays as [|a arrays IH]; intros acc b H; cbn [fold_left] in H; [now left|].
  destruct (IH _ _ H) as [H'|H']; [|right; now right].
  apply dset_da_In in H' as [->|H']; [right; now left|now left].
Qed.

Lemma dset_da_has d a : In (da_name a) (map da_name (dset_da d a)).
Proof.
  induction d as [|a0 d IH]; cbn; [now left|].
  destruct (str_eqb (da_name a) (da_name a0)); cbn; [now left|now right].
Qed.

Lemma dset_da_keeps d a n : In n (map da_name d) -> In n (map da_name (dset_da d a)).
Proof.
  induction d as [|a0 d IH]; cbn; [tauto|].
  destruct (str_eqb (da_name a) (da_name a0)) eqn:E; cbn.
  - apply str_eqb_eq in E. intros [<-|H]; [now left|now right].
  - intros [H|H]; [now left|right; now apply IH].
Qed.

Lemma dset_fold_has arrays : forall acc n,
  In n (map da_name acc) \/ In n (map da_name arrays) -> In n (map da_name (fold_left dset_da arrays acc)).
Proof.
  induction arrays as [|a arrays IH]; intros acc n H; cbn [fold_left].
  - destruct H as [H|[]]. assumption.
  - apply IH. destruct H as [H|[<-|H]]; [left; now apply dset_da_keeps|left; apply dset_da_has|now right].
Qed.

(* dataset level: every labelled array of the dataset is a declared MapSpec output with its declared axes
   as dims; and every output that is computed element-wise (a MapSpec with inputs) IS one of the labelled
   arrays - it is never dropped in favour of a coordinate *)
Theorem dataset_arrays_spec specs inputs outputs li ds :
  NoDup (out_names specs) -> consistent (all_aspecs specs) = true ->
  forallb wf_aspec (all_aspecs specs) = true ->
  (forall ms a, In ms specs -> In a (outs ms) -> no_colon_axes a) ->
  dataset_vars specs inputs outputs li = Ok ds ->
  (forall a, In a (ds_arrays ds) ->
     In (da_name a) outputs
     /\ exists ms asp, In ms specs /\ In asp (outs ms) /\ aname asp = da_name a /\ da_dims a = indices asp)
  /\ (forall o ms, computed_by specs o = Some ms -> In o outputs ->
        exists a, In a (ds_arrays ds) /\ da_name a = o).
Proof.
  intros Hnd Hc Hwf Hnc. unfold dataset_vars. fold (out_names specs).
  set (mon := filter (fun n => mem_str n outputs) (out_names specs)).
  destruct (mapM _ mon) as [arrays|e] eqn:A; [|discriminate]. cbn [bind]. intros [= <-]. cbn [ds_arrays].
  apply mapM_inv in A.
  assert (Harr : forall a, In a arrays ->
            In (da_name a) mon /\ dims_of specs (da_name a) = Ok (da_dims a)
            /\ coords_of specs inputs outputs li (da_name a) = Ok (da_coords a)).
  { intros a Ha. destruct (Forall2_In_r _ _ _ _ A Ha) as [o [Ho Hf]].
    destruct (coords_of specs inputs outputs li o) as [cs|] eqn:C; [|discriminate]. cbn [bind] in Hf.
    destruct (dims_of specs o) as [dm|] eqn:D; [|discriminate]. cbn [bind] in Hf. injection Hf as <-. cbn. auto. }
  split.
  - intros a Ha. apply filter_In in Ha as [Ha _]. apply dset_fold_In in Ha as [[]|Ha].
    destruct (Harr a Ha) as [Hm [Hd _]]. unfold mon in Hm. apply filter_In in Hm as [Hm Ho].
    apply mem_str_In in Ho. split; [assumption|].
    unfold out_names in Hm. apply in_flat_map in Hm as [ms [Hms Hm]]. apply in_map_iff in Hm as [asp [E Hasp]].
    exists ms, asp. repeat split; auto.
    rewrite <- E in Hd. rewrite (dims_are_axes specs ms asp Hc Hms Hasp (Hnc _ _ Hms Hasp)) in Hd. now injection Hd.
  - intros o ms Hcomp Ho.
    assert (Hmon : In o mon).
    { unfold mon. apply filter_In. split; [|now apply mem_str_In].
      unfold computed_by in Hcomp. apply find_some in Hcomp as [Hms Hcomp]. apply andb_true_iff in Hcomp as [_ Hcomp].
      apply mem_str_In in Hcomp. unfold out_names. apply in_flat_map. now exists ms. }
    destruct (Forall2_In_l _ _ _ _ A Hmon) as [a0 [Ha0 Hf]].
    assert (Hn0 : da_name a0 = o).
    { destruct (coords_of specs inputs outputs li o); [|discriminate]. cbn [bind] in Hf.
      destruct (dims_of specs o); [|discriminate]. cbn [bind] in Hf. now injection Hf as <-. }
    assert (Hhas : In o (map da_name (fold_left dset_da arrays []))).
    { apply dset_fold_has. right. apply in_map_iff. now exists a0. }
    apply in_map_iff in Hhas as [a [Hna Ha]]. exists a. split; [|assumption].
    apply filter_In. split; [assumption|]. apply negb_true_iff, mem_str_false. rewrite Hna.
    intros Hin. apply in_flat_map in Hin as [a' [Ha' Hin]]. apply in_map_iff in Hin as [c [Hcn Hcin]].
    apply dset_fold_In in Ha' as [[]|Ha']. destruct (Harr a' Ha') as [_ [_ Hcs]].
    destruct (coords_of_name _ _ _ _ _ _ _ Hcs Hcin) as [Hjoin Hne].
    (* o = join ":" srcs with ':'-free o forces srcs = [o], but sources are never computed *)
    assert (Hofree : mem_char ":"%char o = false).
    { unfold computed_by in Hcomp. apply find_some in Hcomp as [Hms Hcomp]. apply andb_true_iff in Hcomp as [_ Hcomp].
      apply mem_str_In in Hcomp. apply in_map_iff in Hcomp as [asp [<- Hasp]].
      apply (wf_names_nocolon specs Hwf). unfold all_aspecs. apply in_flat_map. exists ms. split; [assumption|].
      apply in_or_app. now right. }
    assert (Hsfree : forall n, In n (co_srcs c) -> mem_char ":"%char n = false).
    { intros n Hn. pose proof (coords_of_srcs _ _ _ _ _ _ _ _ Hnd Hcs Hcin Hn) as _.
      (* sources occur in the specs: they are names of the target *)
      unfold coords_of in Hcs. destruct (coords_raw_of specs inputs outputs li (da_name a')) as [raw|] eqn:R; [|discriminate].
      cbn [bind] in Hcs. injection Hcs as Hcs. rewrite <- Hcs in Hcin. apply coords_dict_sub in Hcin.
      unfold coords_raw_of in R. destruct (trace specs) as [tr|]; [|discriminate]. cbn [bind] in R.
      destruct (existsb _ (target_of tr (da_name a'))); [discriminate|].
      destruct (existsb (fun na => negb (mem_str (fst na) (map aname (all_aspecs specs)))) (target_of tr (da_name a'))) eqn:Ex;
        [discriminate|]. injection R as <-.
      unfold coords_raw in Hcin. apply in_flat_map in Hcin as [[ax names] [Hg Hcg]].
      apply group_coords_sub in Hcg as [_ Hsub]. apply Hsub in Hn. cbn [snd] in Hn.
      apply (In_dget key_eqb key_eqb_eq) in Hg; [|apply group_NoDup].
      assert (Hk : In (n, ax) (kept_of specs inputs li (target_of tr (da_name a')))) by (apply group_get; now exists names).
      unfold kept_of in Hk. apply filter_In in Hk as [Hk _].
      destruct (mem_str n (map aname (all_aspecs specs))) eqn:M.
      - apply mem_str_In, in_map_iff in M as [asp [<- Hasp]]. now apply (wf_names_nocolon specs Hwf).
      - exfalso. assert (existsb (fun na => negb (mem_str (fst na) (map aname (all_aspecs specs)))) (target_of tr (da_name a')) = true).
        { apply existsb_exists. exists (n, ax). split; [assumption|]. cbn. now rewrite M. }
        congruence. }
    assert (Hsplit : co_srcs c = [o]).
    { rewrite <- (split_join ":"%char (co_srcs c) Hne Hsfree).
      change [":"%char] with (s ":"). rewrite <- Hjoin, Hcn. now apply split_char_free. }
    assert (Hno : computed_by specs o = None).
    { apply (coords_of_srcs _ _ _ _ _ _ c o Hnd Hcs Hcin). rewrite Hsplit. now left. }
    congruence.
Qed.

(* ================================================================ dataset-level coordinate theorem *)
(* a coordinate lies on exactly the declared axes of each of its sources, which occur in the MapSpecs *)
Lemma coords_of_axes specs inputs loadable li o cs c n :
  coords_of specs inputs loadable li o = Ok cs -> In c cs -> In n (co_srcs c) ->
  map Some (co_axes c) = axes_of specs n /\ In n (map aname (all_aspecs specs)).
Proof.
  intros Hcs Hc Hn. unfold coords_of in Hcs.
  destruct (coords_raw_of specs inputs loadable li o) as [raw|] eqn:R; [|discriminate].
  cbn [bind] in Hcs. injection Hcs as <-. apply coords_dict_sub in Hc.
  unfold coords_raw_of in R. destruct (trace specs) as [tr|]; [|discriminate]. cbn [bind] in R.
  destruct (existsb _ (target_of tr o)); [discriminate|].
  destruct (existsb (fun na => negb (mem_str (fst na) (map aname (all_aspecs specs)))) (target_of tr o)) eqn:Ex;
    [discriminate|]. injection R as <-.
  unfold coords_raw in Hc. apply in_flat_map in Hc as [[ax names] [Hg Hcg]].
  apply group_coords_sub in Hcg as [Hax Hsub]. apply Hsub in Hn. cbn [fst snd] in Hn, Hax. rewrite Hax.
  apply (In_dget key_eqb key_eqb_eq) in Hg; [|apply group_NoDup].
  assert (Hk : In (n, ax) (kept_of specs inputs li (target_of tr o))) by (apply group_get; now exists names).
  unfold kept_of in Hk. apply filter_In in Hk as [Hk Hf]. apply andb_true_iff in Hf as [_ Hf].
  unfold full_axes in Hf. cbn [fst snd] in Hf. split.
  - apply (list_eqb_eq axis_eqb axis_eqb_eq) in Hf. exact Hf.
  - destruct (mem_str n (map aname (all_aspecs specs))) eqn:M; [now apply mem_str_In|].
    exfalso. assert (existsb (fun na => negb (mem_str (fst na) (map aname (all_aspecs specs)))) (target_of tr o) = true).
    { apply existsb_exists. exists (n, ax). split; [assumption|]. cbn. now rewrite M. }
    congruence.
Qed.

Lemma ds_arrays_coords specs inputs outputs li ds a :
  dataset_vars specs inputs outputs li = Ok ds -> In a (ds_arrays ds) ->
  coords_of specs inputs outputs li (da_name a) = Ok (da_coords a).
Proof.
  unfold dataset_vars.
  destruct (mapM _ (filter (fun n => mem_str n outputs) (flat_map (fun m => map aname (outs m)) specs)))
    as [arrays|e] eqn:A; [|discriminate]. cbn [bind]. intros [= <-]. cbn [ds_arrays]. intros Ha.
  apply filter_In in Ha as [Ha _]. apply dset_fold_In in Ha as [[]|Ha].
  apply mapM_inv in A. destruct (Forall2_In_r _ _ _ _ A Ha) as [o [Ho Hf]].
  destruct (coords_of specs inputs outputs li o) as [cs|] eqn:C; [|discriminate]. cbn [bind] in Hf.
  destruct (dims_of specs o) as [dm|]; [|discriminate]. cbn [bind] in Hf. now injection Hf as <-.
Qed.

(* the property's coordinate clause on the merged Dataset: a visible one-dimensional array x carried along
   axis k to a computed output o of the run appears in the Dataset as a source of a coordinate on exactly
   (k,), and of no Dataset coordinate on other axes *)
Theorem dataset_coord_on_exact_axis specs inputs outputs li ds o ms k x :
  NoDup (out_names specs) -> consistent (all_aspecs specs) = true ->
  forallb wf_aspec (all_aspecs specs) = true ->
  (forall m a, In m specs -> In a (outs m) -> no_colon_axes a) ->
  dataset_vars specs inputs outputs li = Ok ds ->
  computed_by specs o = Some ms -> In o outputs ->
  one_dimensional specs x -> visible inputs li x = true ->
  In x (carried (trace_fuel specs) specs o k) ->
  (exists c, In c (ds_coords ds) /\ co_axes c = [k] /\ In x (co_srcs c))
  /\ (forall c, In c (ds_coords ds) -> In x (co_srcs c) -> co_axes c = [k]).
Proof.
  intros Hnd Hc Hwf Hnc Hds Hcomp Ho H1 Hv Hx.
  destruct (carried_axes _ _ _ _ _ Hc H1 Hx) as [Hax _].
  assert (Hall : forall c, In c (ds_coords ds) -> In x (co_srcs c) -> co_axes c = [k]).
  { intros c Hcin Hsrc. destruct (proj2 (ds_coords_union ds) c Hcin) as [a [Ha Hca]].
    pose proof (ds_arrays_coords _ _ _ _ _ _ Hds Ha) as Hcs.
    destruct (coords_of_axes _ _ _ _ _ _ _ _ Hcs Hca Hsrc) as [E _]. rewrite Hax in E.
    destruct (co_axes c) as [|k0 [|k1 rest]]; try discriminate. now injection E as ->. }
  split; [|exact Hall].
  destruct (proj2 (dataset_arrays_spec _ _ _ _ _ Hnd Hc Hwf Hnc Hds) o ms Hcomp Ho) as [a [Ha Hna]].
  pose proof (ds_arrays_coords _ _ _ _ _ _ Hds Ha) as Hcs. rewrite Hna in Hcs.
  destruct (coord_on_axis_full _ _ _ _ _ _ _ _ Hnd Hc Hwf H1 Hv Hx Hcs) as [[c [Hcin [Hcax Hcx]]] _].
  destruct (proj1 (ds_coords_union ds) a c Ha Hcin) as [c' [Hc' Hname]].
  exists c'. split; [assumption|].
  (* same name => same sources *)
  destruct (proj2 (ds_coords_union ds) c' Hc') as [a2 [Ha2 Hc2]].
  pose proof (ds_arrays_coords _ _ _ _ _ _ Hds Ha2) as Hcs2.
  destruct (coords_of_name _ _ _ _ _ _ _ Hcs Hcin) as [Hj Hne].
  destruct (coords_of_name _ _ _ _ _ _ _ Hcs2 Hc2) as [Hj2 Hne2].
  assert (Hfree : forall (o' : str) cs' c0, coords_of specs inputs outputs li o' = Ok cs' -> In c0 cs' ->
            forall n, In n (co_srcs c0) -> mem_char ":"%char n = false).
  { intros o' cs' c0 Hcs' Hc0 n Hn. destruct (coords_of_axes _ _ _ _ _ _ _ _ Hcs' Hc0 Hn) as [_ Hin].
    apply in_map_iff in Hin as [asp [<- Hasp]]. now apply (wf_names_nocolon specs Hwf). }
  assert (Hs : co_srcs c' = co_srcs c).
  { apply (join_inj ":"%char); [assumption|assumption|exact (Hfree _ _ _ Hcs2 Hc2)|exact (Hfree _ _ _ Hcs Hcin)|].
    change [":"%char] with (s ":"). now rewrite <- Hj, <- Hj2. }
  assert (Hx' : In x (co_srcs c')) by now rewrite Hs.
  split; [now apply Hall|assumption].
Qed.

Theorem dataset_zipped_multiindex specs inputs outputs li ds o ms k x z :
  NoDup (out_names specs) -> consistent (all_aspecs specs) = true ->
  forallb wf_aspec (all_aspecs specs) = true ->
  (forall m a, In m specs -> In a (outs m) -> no_colon_axes a) ->
  dataset_vars specs inputs outputs li = Ok ds ->
  computed_by specs o = Some ms -> In o outputs ->
  one_dimensional specs x -> visible inputs li x = true ->
  one_dimensional specs z -> visible inputs li z = true ->
  In x (carried (trace_fuel specs) specs o k) -> In z (carried (trace_fuel specs) specs o k) -> x <> z ->
  exists c, In c (ds_coords ds) /\ co_axes c = [k] /\ In x (co_srcs c) /\ In z (co_srcs c)
            /\ co_name c = join (s ":") (co_srcs c).
Proof.
  intros Hnd Hc Hwf Hnc Hds Hcomp Ho H1 Hv H1z Hvz Hx Hz Hne.
  destruct (proj2 (dataset_arrays_spec _ _ _ _ _ Hnd Hc Hwf Hnc Hds) o ms Hcomp Ho) as [a [Ha Hna]].
  pose proof (ds_arrays_coords _ _ _ _ _ _ Hds Ha) as Hcs. rewrite Hna in Hcs.
  destruct (zipped_multiindex_full _ _ _ _ _ _ _ _ _ Hnd Hc Hwf H1 Hv H1z Hvz Hx Hz Hne Hcs)
    as [c [Hcin [Hcax [Hcx [Hcz Hcn]]]]].
  destruct (proj1 (ds_coords_union ds) a c Ha Hcin) as [c' [Hc' Hname]].
  destruct (proj2 (ds_coords_union ds) c' Hc') as [a2 [Ha2 Hc2]].
  pose proof (ds_arrays_coords _ _ _ _ _ _ Hds Ha2) as Hcs2.
  destruct (coords_of_name _ _ _ _ _ _ _ Hcs Hcin) as [Hj Hnec].
  destruct (coords_of_name _ _ _ _ _ _ _ Hcs2 Hc2) as [Hj2 Hne2].
  assert (Hfree : forall (o' : str) cs' c0, coords_of specs inputs outputs li o' = Ok cs' -> In c0 cs' ->
            forall n, In n (co_srcs c0) -> mem_char ":"%char n = false).
  { intros o' cs' c0 Hcs' Hc0 n Hn. destruct (coords_of_axes _ _ _ _ _ _ _ _ Hcs' Hc0 Hn) as [_ Hin].
    apply in_map_iff in Hin as [asp [<- Hasp]]. now apply (wf_names_nocolon specs Hwf). }
  assert (Hs : co_srcs c' = co_srcs c).
  { apply (join_inj ":"%char); [assumption|assumption|exact (Hfree _ _ _ Hcs2 Hc2)|exact (Hfree _ _ _ Hcs Hcin)|].
    change [":"%char] with (s ":"). now rewrite <- Hj, <- Hj2. }
  exists c'. rewrite Hs. repeat split; try assumption.
  - destruct (dataset_coord_on_exact_axis _ _ _ _ _ _ _ _ _ Hnd Hc Hwf Hnc Hds Hcomp Ho H1 Hv Hx) as [_ Hall].
    apply Hall; [assumption|now rewrite Hs].
  - now rewrite Hj2, Hs.
Qed.
