(* C19: the labelling model never refuses well-formed requests.
   - the recursion of `_trace_dependencies` terminates within the fuel S (length specs) when the MapSpecs
     are listed in a topological order (`topo_specs`): trace_dep / trace_one / trace return Ok;
   - hence coords_of, dims_of and dataset_vars return Ok when, in addition, every array named by a
     MapSpec can be delivered (it is an input or an output of the run). *)
From Verif Require Import Base.Prelude Base.StrUtil Base.Index Base.NdArr Model.MapSpec Model.MapSpecSpec
  Model.XrLabel Model.XrLabelSpec Proofs.IndexFacts Proofs.StrFacts Proofs.MapSpecFacts Proofs.XrLabelFacts.

Lemma topo_split specs : topo_specs specs = true ->
  forall pre m post, specs = pre ++ m :: post ->
  forall a m', In a (ins m) -> In m' (m :: post) -> has_inputs m' = true ->
  ~ In (aname a) (map aname (outs m')).
Proof.
  induction specs as [|m0 specs IH]; intros Ht pre m post E a m' Ha Hm' Hi Hin.
  - destruct pre; discriminate.
  - cbn [topo_specs] in Ht. apply andb_true_iff in Ht as [H0 Ht].
    destruct pre as [|p pre]; cbn in E; injection E as -> E.
    + subst specs. rewrite forallb_forall in H0. specialize (H0 a Ha).
      apply negb_true_iff in H0. assert (existsb (fun m'0 => negb (is_nil (ins m'0)) && mem_str (aname a) (map aname (outs m'0))) (m :: post) = true) as X.
      { apply existsb_exists. exists m'. split; [assumption|]. rewrite <- has_inputs_nil, Hi. now apply mem_str_In. }
      congruence.
    + now apply (IH Ht pre m post E a m' Ha Hm' Hi).
Qed.

(* termination: the producer of every computed input of the spec at position p sits at a position < p *)
Lemma trace_dep_total_pos specs : topo_specs specs = true ->
  forall n pre m post o, length pre <= n -> specs = pre ++ m :: post -> mapping_get specs o = Some m ->
  forall fuel, length pre < fuel -> exists d, trace_dep fuel specs o = Ok d.
Proof.
  intros Ht. induction n as [n IHn] using lt_wf_ind. intros pre m post o Hn E M fuel Hf.
  destruct fuel as [|f]; [lia|]. cbn [trace_dep]. rewrite M.
  match goal with |- exists d, (do evs <- mapM ?F ?L; _) = _ => destruct (mapM_total F L) as [evs Hev] end.
  - intros [nm axis] Hin. cbn [fst snd].
    destruct (mapping_get specs nm) as [m2|] eqn:M2; [|now eexists].
    apply named_axes_In in Hin as [a [Ha [Hnm _]]]. subst nm.
    destruct (mapping_get_Some _ _ _ M2) as [Hm2 [Hi2 Ho2]].
    assert (Hpre : In m2 pre).
    { rewrite E in Hm2. apply in_app_or in Hm2 as [H|H]; [assumption|].
      exfalso. exact (topo_split specs Ht pre m post E a m2 Ha H Hi2 Ho2). }
    apply in_split in Hpre as [pre2 [post2 Ep]].
    assert (E2 : specs = pre2 ++ m2 :: (post2 ++ m :: post)).
    { rewrite E, Ep. now rewrite <- app_assoc. }
    assert (Hl : length pre2 < length pre) by (rewrite Ep, app_length; cbn; lia).
    destruct (IHn (length pre2) ltac:(lia) pre2 m2 _ (aname a) (le_n _) E2 M2 f ltac:(lia)) as [d Hd].
    rewrite Hd. cbn [bind]. now eexists.
  - rewrite Hev. cbn [bind]. now eexists.
Qed.

Theorem trace_dep_total specs o m :
  topo_specs specs = true -> mapping_get specs o = Some m ->
  exists d, trace_dep (trace_fuel specs) specs o = Ok d.
Proof.
  intros Ht M. destruct (mapping_get_Some _ _ _ M) as [Hm _]. apply in_split in Hm as [pre [post E]].
  apply (trace_dep_total_pos specs Ht (length pre) pre m post o (le_n _) E M).
  unfold trace_fuel. rewrite E, app_length. cbn. lia.
Qed.

Lemma trace_one_total specs o m :
  NoDup (out_names specs) -> topo_specs specs = true -> mapping_get specs o = Some m ->
  exists l, trace_one specs o = Ok l.
Proof.
  intros Hnd Ht M. unfold trace_one. destruct (trace_dep_total specs o m Ht M) as [d Hd]. rewrite Hd. cbn [bind].
  apply mapM_total. intros [n sx] Hin. cbn [fst snd]. unfold order_like, axes_get.
  assert (Hn : In n (map fst (reorder d))) by (apply in_map_iff; now exists (n, sx)).
  apply reorder_keys in Hn as [k [l0 [Hl0 Hn]]].
  apply (In_dget str_eqb str_eqb_eq) in Hl0; [|exact (trace_dep_NoDup specs _ o d Hd)].
  assert (Hc : In n (carried (trace_fuel specs) specs o k)).
  { apply (trace_dep_carried specs Hnd _ _ _ Hd). now exists l0. }
  destruct (carried_occ _ _ _ _ _ Hc) as [m' [a [Hm' [Ha [E _]]]]].
  assert (mem_str n (map aname (all_aspecs specs)) = true) as ->.
  { apply mem_str_In, in_map_iff. exists a. split; [assumption|]. now apply (ins_all_aspecs specs m'). }
  cbn [bind]. now eexists.
Qed.

Lemma mapping_keys_get specs o : In o (mapping_keys specs) -> exists m, mapping_get specs o = Some m.
Proof.
  unfold mapping_keys. rewrite dedup_first_In, in_flat_map. intros [m [Hm Ho]].
  destruct (has_inputs m) eqn:Hi; [|destruct Ho].
  induction specs as [|m0 specs IH]; [destruct Hm|]. rewrite mapping_get_cons.
  destruct (mapping_get specs o) as [m'|] eqn:G; [now eexists|].
  destruct Hm as [->|Hm].
  - apply mem_str_In in Ho. rewrite Hi, Ho. now eexists.
  - destruct (IH Hm) as [m' Hm']. discriminate.
Qed.

(* the fuel of `_trace_dependencies` is never exhausted: trace_dependencies returns *)
Theorem trace_total specs :
  NoDup (out_names specs) -> topo_specs specs = true -> exists tr, trace specs = Ok tr.
Proof.
  intros Hnd Ht. unfold trace.
  match goal with |- exists tr, (do rows <- mapM ?F ?L; _) = _ => destruct (mapM_total F L) as [rows Hr] end.
  - intros o Ho. destruct (mapping_keys_get _ _ Ho) as [m M].
    destruct (trace_one_total specs o m Hnd Ht M) as [l ->]. cbn [bind]. now eexists.
  - rewrite Hr. cbn [bind]. now eexists.
Qed.

(* the names `_xarray` looks at for o are carried to o along some axis *)
Lemma target_names_carried specs tr o n ax :
  NoDup (out_names specs) -> trace specs = Ok tr -> In (n, ax) (target_of tr o) ->
  exists k, In n (carried (trace_fuel specs) specs o k).
Proof.
  intros Hnd Htr Hin. unfold target_of in Hin.
  destruct (dget str_eqb tr o) as [l|] eqn:G; cbn in Hin; [|destruct Hin].
  apply (dget_In str_eqb str_eqb_eq) in G. unfold trace in Htr.
  destruct (mapM _ (mapping_keys specs)) as [rows|] eqn:R; [|discriminate]. cbn [bind] in Htr.
  injection Htr as <-. apply filter_In in G as [G _].
  apply mapM_inv in R. destruct (Forall2_In_r _ _ _ _ R G) as [o' [_ Ho']].
  destruct (trace_one specs o') as [l'|] eqn:T; [|discriminate]. cbn in Ho'. injection Ho' as -> <-.
  unfold trace_one in T. destruct (trace_dep (trace_fuel specs) specs o) as [d|] eqn:D; [|discriminate].
  cbn [bind] in T. pose proof (mapM_fst _ _ _ T) as Hk.
  assert (Hn : In n (map fst (reorder d))).
  { rewrite <- Hk. apply in_map_iff. now exists (n, ax). }
  apply reorder_keys in Hn as [k [l0 [Hl0 Hn]]].
  apply (In_dget str_eqb str_eqb_eq) in Hl0; [|exact (trace_dep_NoDup specs (trace_fuel specs) o d D)].
  exists k. apply (trace_dep_carried specs Hnd _ _ _ D). now exists l0.
Qed.

(* every array that a MapSpec indexes can be delivered: it is an input or an output of the run *)
Definition arrays_known (specs : list mapspec) (inputs outputs : list str) : Prop :=
  forall m a, In m specs -> In a (ins m) -> In (aname a) inputs \/ In (aname a) outputs.

Theorem coords_of_total specs inputs outputs li o :
  NoDup (out_names specs) -> topo_specs specs = true -> arrays_known specs inputs outputs ->
  exists cs, coords_of specs inputs outputs li o = Ok cs.
Proof.
  intros Hnd Ht Hk. unfold coords_of, coords_raw_of. destruct (trace_total specs Hnd Ht) as [tr Htr].
  rewrite Htr. cbn [bind].
  assert (Hocc : forall n ax, In (n, ax) (target_of tr o) ->
            exists m a, In m specs /\ In a (ins m) /\ aname a = n).
  { intros n ax Hin. destruct (target_names_carried _ _ _ _ _ Hnd Htr Hin) as [k Hc].
    destruct (carried_occ _ _ _ _ _ Hc) as [m [a [Hm [Ha [E _]]]]]. now exists m, a. }
  destruct (existsb _ (target_of tr o)) eqn:E1.
  { exfalso. apply existsb_exists in E1 as [[n ax] [Hin H]]. cbn [fst] in H.
    apply andb_true_iff in H as [H H3]. apply andb_true_iff in H as [H1 _].
    apply negb_true_iff, mem_str_false in H1. apply negb_true_iff, mem_str_false in H3.
    destruct (Hocc n ax Hin) as [m [a [Hm [Ha <-]]]]. destruct (Hk m a Hm Ha); contradiction. }
  destruct (existsb (fun na => negb (mem_str (fst na) (map aname (all_aspecs specs)))) (target_of tr o)) eqn:E2.
  { exfalso. apply existsb_exists in E2 as [[n ax] [Hin H]]. cbn [fst] in H.
    apply negb_true_iff, mem_str_false in H. apply H.
    destruct (Hocc n ax Hin) as [m [a [Hm [Ha <-]]]]. apply in_map_iff. exists a. split; [reflexivity|].
    now apply (ins_all_aspecs specs m). }
  cbn [bind]. now eexists.
Qed.

Theorem dataset_vars_total specs inputs outputs li :
  NoDup (out_names specs) -> topo_specs specs = true -> consistent (all_aspecs specs) = true ->
  (forall ms a, In ms specs -> In a (outs ms) -> no_colon_axes a) ->
  arrays_known specs inputs outputs ->
  exists ds, dataset_vars specs inputs outputs li = Ok ds.
Proof.
  intros Hnd Ht Hc Hnc Hk. unfold dataset_vars.
  match goal with |- exists ds, (do arrays <- mapM ?F ?L; _) = _ => destruct (mapM_total F L) as [arrays Ha] end.
  - intros o Ho. apply filter_In in Ho as [Ho _]. apply in_flat_map in Ho as [ms [Hms Ho]].
    apply in_map_iff in Ho as [a [<- Ha]].
    destruct (coords_of_total specs inputs outputs li (aname a) Hnd Ht Hk) as [cs ->]. cbn [bind].
    rewrite (dims_are_axes specs ms a Hc Hms Ha (Hnc _ _ Hms Ha)). cbn [bind]. now eexists.
  - rewrite Ha. cbn [bind]. now eexists.
Qed.

(* the dataset-level coordinate theorems without any `... = Ok _` hypothesis *)
Theorem dataset_labels_total specs inputs outputs li :
  NoDup (out_names specs) -> topo_specs specs = true -> consistent (all_aspecs specs) = true ->
  forallb wf_aspec (all_aspecs specs) = true ->
  (forall m a, In m specs -> In a (outs m) -> no_colon_axes a) ->
  arrays_known specs inputs outputs ->
  exists ds, dataset_vars specs inputs outputs li = Ok ds
    /\ (forall o ms, computed_by specs o = Some ms -> In o outputs ->
          exists a, In a (ds_arrays ds) /\ da_name a = o
                    /\ exists asp, In asp (outs ms) /\ aname asp = o /\ da_dims a = indices asp)
    /\ (forall o ms k x, computed_by specs o = Some ms -> In o outputs ->
          one_dimensional specs x -> visible inputs li x = true ->
          In x (carried (trace_fuel specs) specs o k) ->
          (exists c, In c (ds_coords ds) /\ co_axes c = [k] /\ In x (co_srcs c))
          /\ (forall c, In c (ds_coords ds) -> In x (co_srcs c) -> co_axes c = [k]))
    /\ (forall o ms k x z, computed_by specs o = Some ms -> In o outputs ->
          one_dimensional specs x -> visible inputs li x = true ->
          one_dimensional specs z -> visible inputs li z = true ->
          In x (carried (trace_fuel specs) specs o k) -> In z (carried (trace_fuel specs) specs o k) -> x <> z ->
          exists c, In c (ds_coords ds) /\ co_axes c = [k] /\ In x (co_srcs c) /\ In z (co_srcs c)
                    /\ co_name c = join (s ":") (co_srcs c)).
Proof.
  intros Hnd Ht Hc Hwf Hnc Hk.
  destruct (dataset_vars_total specs inputs outputs li Hnd Ht Hc Hnc Hk) as [ds Hds]. exists ds.
  split; [assumption|]. split; [|split].
  - intros o ms Hcomp Ho.
    destruct (proj2 (dataset_arrays_spec _ _ _ _ _ Hnd Hc Hwf Hnc Hds) o ms Hcomp Ho) as [a [Ha Hna]].
    exists a. repeat split; try assumption.
    unfold computed_by in Hcomp. apply find_some in Hcomp as [Hms Hcomp]. apply andb_true_iff in Hcomp as [_ Hcomp].
    apply mem_str_In, in_map_iff in Hcomp as [asp [En Hasp]]. exists asp. repeat split; try assumption.
    assert (Hd : dims_of specs (da_name a) = Ok (da_dims a)).
    { clear - Hds Ha. unfold dataset_vars in Hds.
      match type of Hds with (do arrays <- ?E; _) = _ => destruct E as [arrays|] eqn:A end; [|discriminate].
      cbn [bind] in Hds. injection Hds as <-. cbn [ds_arrays] in Ha.
      apply filter_In in Ha as [Ha _]. apply dset_fold_In in Ha as [[]|Ha].
      apply mapM_inv in A. destruct (Forall2_In_r _ _ _ _ A Ha) as [o' [_ Hf]].
      destruct (coords_of specs inputs outputs li o'); [|discriminate]. cbn [bind] in Hf.
      destruct (dims_of specs o') as [dm|] eqn:D; [|discriminate]. cbn [bind] in Hf. injection Hf as <-. exact D. }
    rewrite Hna, <- En, (dims_are_axes specs ms asp Hc Hms Hasp (Hnc _ _ Hms Hasp)) in Hd. now injection Hd.
  - intros o ms k x Hcomp Ho H1 Hv Hx.
    exact (dataset_coord_on_exact_axis _ _ _ _ _ _ _ _ _ Hnd Hc Hwf Hnc Hds Hcomp Ho H1 Hv Hx).
  - intros o ms k x z Hcomp Ho H1 Hv H1z Hvz Hx Hz Hne.
    exact (dataset_zipped_multiindex _ _ _ _ _ _ _ _ _ _ Hnd Hc Hwf Hnc Hds Hcomp Ho H1 Hv H1z Hvz Hx Hz Hne).
Qed.
