(* C01 - Map results equal the MapSpec denotation (statements only; every proof is in Proofs/).

   Model/MapRun.v   : the sequential loop of Pipeline.map (linear indices, input_keys, flat-index placement, storage dump)
   Model/MapDenote.v: the specification (pointwise denotation over full output indices)
   All theorems hold for an ARBITRARY user-function oracle `body`, arbitrary rank and arbitrary interleaving of
   external (mapped) and internal axes.

   Auxiliary notions used in the statements (Proofs/PlaceFacts.v, Proofs/MapRunFacts.v):
     elem v jj            element jj of a returned value (a scalar `VS x` is its own only element)
     val_ok mask int v    what _set_output demands of one returned value: a scalar when every axis is mapped,
                          otherwise a well-formed array of exactly the internal shape
     target sh mask V     the array that holds at full index idx the element  int_of(idx)  of the value  V i
                          returned at the linear index  i = ravel ext (ext_of(idx)) :
                          map (fun idx => elem (V (ravel (ext_of mask sh) (ext_of mask idx))) (int_of mask idx)) (all_indices sh)
     body_arity body      the oracle returns one value per output name (see the comment at its definition) *)
From Verif Require Import Base.Prelude Base.Index Base.NdArr Model.MapSpec Model.MapSpecSpec Model.MapRun Model.MapDenote
  Model.SymBody Model.AutoGen Model.AutoGenSpec
  Proofs.IndexFacts Proofs.PlaceFacts Proofs.SelectFacts Proofs.MapRunFacts Proofs.C01Example Proofs.C01Corr
  Model.AutoGenNames
  Proofs.AutoGenFacts Proofs.AutoGenComplete Proofs.AutoGenRun Proofs.C01xCorr Proofs.C01xExample Proofs.MapStoreLink
  Proofs.C01xEnd.
From Verif Require Corr.Run_C01 Corr.Run_C01x Model.XrLabelSpec Model.Store Model.StoreSpec Proofs.AutoGenFresh.

(* 1. placement: folding `place` (= _set_output through flat indices) over all linear indices fills the result
      array with exactly the target; in particular every position is written and no write lands elsewhere *)
Theorem C01_place_all : forall sh mask (V : nat -> val),
  length mask = length sh ->
  (forall i, i < prod (ext_of mask sh) -> val_ok mask (int_of mask sh) (V i)) ->
  fold_left (fun acc i => do arr <- acc; place sh mask i (V i) arr)
            (seq 0 (prod (ext_of mask sh))) (Ok (repeat none_str (prod sh)))
  = Ok (map (fun idx => elem (V (ravel (ext_of mask sh) (ext_of mask idx))) (int_of mask idx)) (all_indices sh)).
Proof. exact place_all. Qed.
Print Assumptions C01_place_all.

(* 2. storage: after dumping every linear index at its output key the stored array is the same target *)
Theorem C01_sto_all : forall sh mask (V : nat -> val),
  length mask = length sh ->
  (forall i, i < prod (ext_of mask sh) -> val_ok mask (int_of mask sh) (V i)) ->
  exists st,
    fold_left (fun acc i => do st <- acc; sto_dump sh mask (unravel (ext_of mask sh) i) (V i) st)
              (seq 0 (prod (ext_of mask sh))) (Ok []) = Ok st
    /\ sto_array sh st = {| shp := sh; dat := target sh mask V |}.
Proof. exact sto_all. Qed.
Print Assumptions C01_sto_all.

Example C01_example_place : (* rank 3, internal axes on both sides of the mapped axis *)
  length [false; true; false] = length [2; 3; 2]
  /\ (forall i, i < prod (ext_of [false; true; false] [2; 3; 2]) ->
      val_ok [false; true; false] (int_of [false; true; false] [2; 3; 2]) (ex_V i)).
Proof. exact ex_place_hyps. Qed.

(* 3. the keyword arguments of iteration i are the arguments the notation names at position unravel ext i
      (equality of results, i.e. including every error the slicing may raise) *)
Theorem C01_select_kwargs_arg_at : forall ms,
  wf_decl ms = true -> NoDup (map aname (ins ms)) -> NoDup (output_indices ms) ->
  forall kw ext i,
  length ext = length (external_indices ms) -> forallb (fun d => 0 <? d) ext = true ->
  select_kwargs ms kw ext i = mapM (arg_at ms (unravel ext i)) kw.
Proof. exact select_kwargs_arg_at. Qed.
Print Assumptions C01_select_kwargs_arg_at.

Example C01_example_select :
  wf_decl ex_ms2 = true /\ NoDup (map aname (ins ex_ms2)) /\ NoDup (output_indices ex_ms2)
  /\ length [3; 2] = length (external_indices ex_ms2) /\ forallb (fun d => 0 <? d) [3; 2] = true.
Proof. exact ex_select_hyps. Qed.

(* the side conditions on (sh, mask) below are consequences of MapSpec.shape having produced them *)
Theorem C01_shape_side_conditions : forall ms ish internal sh mask,
  wf_decl ms = true -> shape ms ish internal = Ok (sh, mask) ->
  length mask = length sh /\ length (ext_of mask sh) = length (external_indices ms).
Proof. exact shape_side_conditions. Qed.
Print Assumptions C01_shape_side_conditions.

(* ... and the ones on the MapSpec are consequences of func_ok *)
Theorem C01_func_ok_side_conditions : forall f ms,
  func_ok f = true -> fspec f = Some ms ->
  wf_decl ms = true /\ NoDup (map aname (ins ms)) /\ NoDup (output_indices ms) /\ 0 < length (fouts f).
Proof. exact func_ok_spec. Qed.
Print Assumptions C01_func_ok_side_conditions.

(* NOTE on `body_arity` (theorems 4-6).  FULL statement without it is false for a literally arbitrary oracle:
   denote_mapped only reads nth_error outs j for j < #outputs, whereas run_mapped raises ValueError when
   length outs <> #outputs; e.g. body := fun _ _ => Ok [VS "r"; VS "extra"], one function  x[i] -> y[i]  with
   fouts = ["y"], x of shape [3]: request_ok = true, denote_run = Ok _, map_run = Err ValueError.
   The hypothesis is a property of the oracle, which models `_pick_output(func, func( **kw))` and therefore has one
   entry per output name by construction; every other aspect of `body` (values, errors, shapes) is arbitrary. *)

(* 4. one mapped function ("map_step_denotes"): whenever the denotation is defined, the loop returns exactly the
      denoted arrays, both as result arrays and as stored arrays, after prod(ext) calls *)
Theorem C01_run_mapped_denotes : forall body, body_arity body ->
  forall f ms kw sh mask,
  wf_decl ms = true -> NoDup (map aname (ins ms)) -> NoDup (output_indices ms) -> 0 < length (fouts f) ->
  length mask = length sh -> length (ext_of mask sh) = length (external_indices ms) ->
  forallb (fun d => 0 <? d) sh = true ->
  forall arrs, denote_mapped body f ms kw sh mask = Ok arrs ->
  run_mapped body f ms kw sh mask = Ok (arrs, arrs, prod (ext_of mask sh)).
Proof. exact run_mapped_denotes. Qed.
Print Assumptions C01_run_mapped_denotes.

Example C01_example_mapped : (* x[i] -> y[j, i] : internal axis before the mapped axis *)
  wf_decl ex_ms1 = true /\ NoDup (map aname (ins ex_ms1)) /\ NoDup (output_indices ex_ms1)
  /\ 0 < length (fouts ex_f1) /\ length [false; true] = length [2; 3]
  /\ length (ext_of [false; true] [2; 3]) = length (external_indices ex_ms1)
  /\ forallb (fun d => 0 <? d) [2; 3] = true
  /\ shape ex_ms1 [(s "x", [3])] [(s "y", [2])] = Ok ([2; 3], [false; true])
  /\ is_ok (denote_mapped sym_body ex_f1 ex_ms1 ex_kw1 [2; 3] [false; true]) = true.
Proof. exact ex_mapped_hyps. Qed.

(* 5. the whole run: a valid request whose denotation is defined is answered with exactly the denoted arrays,
      returned (Result.output) AND stored *)
Theorem C01_map_run_denotes : forall body, body_arity body ->
  forall user p inputs d,
  request_ok p inputs = true -> denote_run body p inputs user = Ok d ->
  exists st, map_run body p inputs user = Ok st
             /\ map (fun x => (fst (fst x), snd (fst x))) (r_out st) = d_out d
             /\ map (fun x => (fst (fst x), snd x)) (r_out st) = d_out d.
Proof. exact map_run_denotes. Qed.
Print Assumptions C01_map_run_denotes.

Corollary C01_map_run_never_refuses : forall body, body_arity body ->
  forall user p inputs d,
  request_ok p inputs = true -> denote_run body p inputs user = Ok d ->
  forall e, map_run body p inputs user <> Err e.
Proof. exact map_run_never_refuses. Qed.
Print Assumptions C01_map_run_never_refuses.

(* 6. link to the differential check: the observation of the model (Corr/Run_C01.run, with the structural user
      function) satisfies the executable statement `spec_ok` that the harness applies to the implementation, for
      EVERY case (the harness evaluates this on samples as `spec_failures_on_model`) *)
Theorem C01_model_meets_spec : forall c, Run_C01.spec_ok c (Run_C01.run c) = true.
Proof. exact model_meets_spec. Qed.
Print Assumptions C01_model_meets_spec.

(* the structural user function of the correspondence harness is such an oracle *)
Theorem C01_sym_body_arity : body_arity sym_body.
Proof. exact sym_body_arity. Qed.
Print Assumptions C01_sym_body_arity.

(* non-vacuity: two functions  x[i] -> y[j, i]  (internal axis BEFORE the mapped axis) and
   y[:, i], w[k] -> z[i, k]  (':' reduction, outer product), structural bodies; y has shape (2,3), z has shape (3,2) *)
Example C01_example_request :
  request_ok ex_p ex_inputs = true /\ is_ok (denote_run sym_body ex_p ex_inputs []) = true
  /\ option_map (fun d => map (fun x => (fst x, val_shape (snd x))) (d_out d))
                (match denote_run sym_body ex_p ex_inputs [] with Ok d => Some d | Err _ => None end)
     = Some [(s "y", Ok [2; 3]); (s "z", Ok [3; 2])].
Proof. exact ex_request_hyps. Qed.

(* ====================================================================================================
   AUTOGENERATED MapSpecs (Model/AutoGen.v: Pipeline.__init__/add/_validate_mapspec/_autogen_mapspec_axes with
   find_non_root_axes, replace_none_in_axes, create_missing_mapspecs, as repaired by d490e73 348bc4e 776ea17 1a2c41d).
   `construct user` maps the USER-LEVEL function list (producers of arrays may carry no MapSpec although their outputs
   are consumed with axes) to the EFFECTIVE list that Pipeline.map runs.
   ==================================================================================================== *)

(* 7. whenever construction succeeds: only MapSpecs differ; a MapSpec the user wrote is untouched; a function without
      MapSpec gets one exactly when one of its outputs is an indexed input of some MapSpec, and that MapSpec is
      `generated_ok` (no inputs, well formed in the sense of C08, names exactly the outputs, same axes for all outputs);
      all MapSpecs of the effective list name the axes of every array consistently (XrLabelSpec.consistent is the
      hypothesis `validate_consistent_axes` of C19) - in particular the generated axes agree with every consumer *)
Theorem C01_autogen_completion : forall user eff,
  construct user = Ok eff ->
  length eff = length user
  /\ Forall2 (fun f e => e = set_spec f (fspec e)
                         /\ (forall m, fspec f = Some m -> e = f)
                         /\ (fspec f = None ->
                             if existsb (consumed user) (fouts f)
                             then exists g, fspec e = Some g /\ generated_ok f g = true
                             else e = f)) user eff
  /\ XrLabelSpec.consistent (all_aspecs (map fspec eff)) = true.
Proof. exact construct_readable. Qed.
Print Assumptions C01_autogen_completion.

Theorem C01_generated_ok_meaning : forall f g,
  generated_ok f g = true ->
  ins g = [] /\ wf_decl g = true /\ map aname (outs g) = fouts f
  /\ forall o o', In o (outs g) -> In o' (outs g) -> axes o = axes o'.
Proof. exact generated_ok_meaning. Qed.
Print Assumptions C01_generated_ok_meaning.

(* the same, as the executable statement that the harness applies to the MapSpecs reported by the implementation *)
Theorem C01_autogen_completion_ok : forall user eff,
  construct user = Ok eff -> completion_ok user (map fspec eff) = true.
Proof. exact construct_completion. Qed.
Print Assumptions C01_autogen_completion_ok.

(* 7b. conversely, a user-level list that is `completable` (Model/AutoGenSpec.v, declarative: unique outputs, MapSpec
       outputs = output tuples, user MapSpecs well formed and mutually consistent, the indexed uses of the outputs of
       one spec-less function compatible with each other) is NEVER refused by the construction, in whatever order the
       functions are added; and the incremental construction (one validation per Pipeline.add) ends in the same list
       as one validation of the whole list.  (Before the repairs 348bc4e / 776ea17 this was false: see
       known_findings.jsonl C01-autogen-*.) *)
Theorem C01_autogen_never_refuses : forall user,
  completable user = true -> exists eff, construct user = Ok eff.
Proof. exact construct_never_refuses. Qed.
Print Assumptions C01_autogen_never_refuses.

Theorem C01_autogen_incremental_is_oneshot : forall user,
  completable user = true -> exists eff, construct user = Ok eff /\ effective user = Ok eff.
Proof. exact construct_effective. Qed.
Print Assumptions C01_autogen_incremental_is_oneshot.

(* 7c. at run time a function with a generated MapSpec ( ... -> o[axes], no inputs) is run exactly like a function
       without MapSpec: ONE call on whole arrays; the generated MapSpec only feeds the shape table *)
Theorem C01_generated_called_once : forall body user st e g st',
  fspec e = Some g -> ins g = [] ->
  run_func body user st e = Ok st' ->
  exists kw outs,
    func_kwargs e (r_env st) = Ok kw /\ body e kw = Ok outs
    /\ r_calls st' = r_calls st + 1
    /\ r_env st' = combine (fouts e) outs ++ r_env st
    /\ r_out st' = r_out st ++ map (fun x => (fst x, snd x, snd x)) (combine (fouts e) outs).
Proof. exact generated_called_once. Qed.
Print Assumptions C01_generated_called_once.

(* 8. end to end: the run of the effective list computed by the model of the construction denotes (theorem 5) *)
Corollary C01_autogen_map_run_denotes : forall body, body_arity body ->
  forall userfs eff user inputs d,
  construct userfs = Ok eff ->
  request_ok eff inputs = true -> denote_run body eff inputs user = Ok d ->
  exists st, map_run body eff inputs user = Ok st
             /\ map (fun x => (fst (fst x), snd (fst x))) (r_out st) = d_out d
             /\ map (fun x => (fst (fst x), snd x)) (r_out st) = d_out d.
Proof. intros body Ha userfs eff user inputs d _. now apply map_run_denotes. Qed.
Print Assumptions C01_autogen_map_run_denotes.

(* 8b. the names `unnamed_k` chosen for axes that no consumer names are fresh: the search of replace_none_in_axes ends
       (within len(names)+1 candidates) on a name that is not taken, and different k give different names *)
Theorem C01_fresh_names : forall fuel i names,
  length names < fuel -> ~ In (unnamed (fresh fuel i names)) names.
Proof. exact AutoGenFresh.fresh_not_in. Qed.
Print Assumptions C01_fresh_names.

Theorem C01_unnamed_injective : forall i j, unnamed i = unnamed j -> i = j.
Proof. exact AutoGenFresh.unnamed_inj. Qed.
Print Assumptions C01_unnamed_injective.

(* 8c. the generated MapSpec has pairwise distinct axes when, among the indexed uses of the outputs of one spec-less
       function, an index name stands at one position only (`distinct_axes`, Model/AutoGenNames.v; necessary:
       a[i, :] with b[:, i] for sibling outputs gives  ... -> a[i, i], b[i, i]) ... *)
Theorem C01_generated_axes_distinct : forall user eff,
  construct user = Ok eff -> completable user = true -> distinct_axes user = true ->
  forall f e g, In (f, e) (combine user eff) -> fspec f = None -> fspec e = Some g -> NoDup (output_indices g).
Proof. exact AutoGenFresh.generated_axes_distinct. Qed.
Print Assumptions C01_generated_axes_distinct.

(*     ... hence the effective list is a valid request whenever the user-level list is one as written *)
Theorem C01_autogen_request_ok : forall user eff inputs,
  completable user = true -> distinct_axes user = true -> construct user = Ok eff ->
  request_ok user inputs = true -> request_ok eff inputs = true.
Proof. exact AutoGenFresh.construct_request_ok. Qed.
Print Assumptions C01_autogen_request_ok.

(* 8d. USER-LEVEL END TO END (7b + 8c + 5): hypotheses on the user-level list only.  The list is constructed, the
       effective list is a valid request, and whenever its denotation is defined the run returns and stores it. *)
Theorem C01_user_level_end_to_end : forall body, body_arity body ->
  forall user inputs internal,
  completable user = true -> distinct_axes user = true -> request_ok user inputs = true ->
  exists eff,
    construct user = Ok eff /\ request_ok eff inputs = true
    /\ forall d, denote_run body eff inputs internal = Ok d ->
       exists st, map_run body eff inputs internal = Ok st
                  /\ map (fun x => (fst (fst x), snd (fst x))) (r_out st) = d_out d
                  /\ map (fun x => (fst (fst x), snd x)) (r_out st) = d_out d.
Proof. exact user_level_end_to_end. Qed.
Print Assumptions C01_user_level_end_to_end.

(* non-vacuity: tuple-output producer without MapSpec, consumed as a[:, j] and b[i, :] by two functions, handed to
   Pipeline in the order h1, g, h2: the effective MapSpec of g is  ... -> a[i, j], b[i, j]  and the request is valid *)
Example C01_example_autogen :
  completable exa_user = true /\ distinct_axes exa_user = true
  /\ completable exa_topo = true /\ distinct_axes exa_topo = true /\ request_ok exa_topo exa_inputs = true
  /\ option_map (map (fun f => option_map print (fspec f))) (match construct exa_user with Ok e => Some e | Err _ => None end)
     = Some [Some (s "a[:, j] -> r[j]"); Some (s "... -> a[i, j], b[i, j]"); Some (s "b[i, :], x[i] -> q[i]")]
  /\ match construct exa_user with
     | Ok eff => request_ok (exa_run_order eff) exa_inputs = true
                 /\ option_map (fun d => map (fun x => (fst x, val_shape (snd x))) (d_out d))
                      (match denote_run sym_body (exa_run_order eff) exa_inputs exa_internal with Ok d => Some d | Err _ => None end)
                    = Some [(s "a", Ok [2; 2]); (s "b", Ok [2; 2]); (s "r", Ok [2]); (s "q", Ok [2])]
     | Err _ => False
     end.
Proof. exact exa_hyps. Qed.

(* Mapped functions with ZERO mapped axes ( x[:], w[:, :] -> y[j, k] ): theorems 4 and 5 cover them as they stand - the
   hypotheses do not exclude an empty external shape (ext_of mask sh = [], prod [] = 1 call) - shown by an instance *)
Example C01_example_zero_mapped_axes :
  wf_decl exz_ms = true /\ nodup_str (map aname (ins exz_ms)) = true /\ nodup_str (output_indices exz_ms) = true
  /\ 0 < length (fouts exz_f) /\ length [false; false] = length [3; 2]
  /\ length (ext_of [false; false] [3; 2]) = length (external_indices exz_ms)
  /\ forallb (fun d => 0 <? d) [3; 2] = true
  /\ shape exz_ms [(s "x", [2]); (s "w", [1; 2])] exz_internal = Ok ([3; 2], [false; false])
  /\ prod (ext_of [false; false] [3; 2]) = 1
  /\ request_ok [exz_f] exz_inputs = true
  /\ option_map (fun d => map (fun x => (fst x, val_shape (snd x))) (d_out d))
       (match denote_run sym_body [exz_f] exz_inputs exz_internal with Ok d => Some d | Err _ => None end)
     = Some [(s "y", Ok [3; 2])]
  /\ option_map r_calls (match map_run sym_body [exz_f] exz_inputs exz_internal with Ok st => Some st | Err _ => None end)
     = Some 1.
Proof. exact exz_hyps. Qed.

(* 9. link to the differential check for the extended case type (explicit requests AND user-level lists) *)
Theorem C01_model_meets_spec_x : forall c, Run_C01x.spec_ok c (Run_C01x.run c) = true.
Proof. exact model_meets_spec_x. Qed.
Print Assumptions C01_model_meets_spec_x.

(* ====================================================================================================
   STORAGE: the abstract storage of the map loop (`sto`: full index |-> value, `sto_dump`, `sto_array`) is C07's
   reference masked array, so C07's refinement theorems (FileArray / DictArray models refine the reference) compose
   with theorem 4.  (Proofs/MapStoreLink.v)
     geom_of sh mask      the storage geometry (external shape, internal shape, mask) of an output of full shape sh
     sval_of v            what dump(key, value) receives: the row-major flat list of the returned value
     cells_of sh st       the reference array (cells Val x / Masked) denoted by the abstract storage st
     render               how to_array shows a cell (Masked = "--")
     dump_ops sh mask V   the calls  dump(output_key(i), V i)  of the loop, in loop order
     out_col .. j i       the value the user function returns for output j at linear index i
   ==================================================================================================== *)

(* 10. one storage dump of the loop IS one dump of the reference array, and what the abstract storage renders
       (theorem 2) is the rendering of the reference array *)
Theorem C01_sto_dump_is_reference_dump : forall sh mask, length mask = length sh ->
  forall st st' key v,
  in_bounds (ext_of mask sh) key = true -> val_ok mask (int_of mask sh) v ->
  sto_dump sh mask key v st = Ok st' ->
  Store.dumpM str (geom_of sh mask) (cells_of sh st) (StoreSpec.int_key key) (sval_of v) = Ok (cells_of sh st').
Proof. exact sto_dump_is_dumpM. Qed.
Print Assumptions C01_sto_dump_is_reference_dump.

Theorem C01_sto_array_is_rendered_reference : forall sh st,
  sto_array sh st = {| shp := sh; dat := map render (cells_of sh st) |}.
Proof. exact sto_array_render. Qed.
Print Assumptions C01_sto_array_is_rendered_reference.

(* reading one element back through the reference's __getitem__ *)
Theorem C01_sto_read_after_dump : forall sh mask, length mask = length sh ->
  forall st st' key v p,
  in_bounds (ext_of mask sh) key = true -> val_ok mask (int_of mask sh) v -> in_bounds sh p = true ->
  sto_dump sh mask key v st = Ok st' ->
  exists A' c,
    Store.dumpM str (geom_of sh mask) (cells_of sh st) (StoreSpec.int_key key) (sval_of v) = Ok A'
    /\ Store.getM str (geom_of sh mask) A' (StoreSpec.int_key p) = Ok (Store.OArr [] [c])
    /\ nd_get (sto_array sh st') p = Some (render c)
    /\ (ext_of mask p = key -> c = Store.Val (elem v (int_of mask p))).
Proof. exact read_after_dump. Qed.
Print Assumptions C01_sto_read_after_dump.

(* 11. the whole loop: the dumps of all linear indices, as operations of the reference machine started from the
       all-masked array, end in the reference array of the final abstract storage, whose rendering is the target *)
Theorem C01_loop_is_reference : forall sh mask, length mask = length sh ->
  forall V : nat -> val, (forall i, i < prod (ext_of mask sh) -> val_ok mask (int_of mask sh) (V i)) ->
  forall miss,
  exists st,
    fold_left (fun acc i => do st <- acc; sto_dump sh mask (unravel (ext_of mask sh) i) (V i) st)
              (seq 0 (prod (ext_of mask sh))) (Ok []) = Ok st
    /\ Store.final str (Store.stepM str miss (geom_of sh mask)) (Store.absent str (geom_of sh mask)) (dump_ops sh mask V)
       = cells_of sh st
    /\ sto_array sh st = {| shp := sh; dat := target sh mask V |}.
Proof. exact loop_is_reference. Qed.
Print Assumptions C01_loop_is_reference.

(* 12. composition with C07 (C07_file_refines / C07_dict_refines) and with theorem 4: for a mapped function whose
       denotation is defined, the FileArray MODEL and the DictArray MODEL, driven by exactly the dumps the loop of
       run_mapped performs for output j, end in a state whose to_array is the denotation of output j - and that is
       also what run_mapped returns and stores *)
Theorem C01_storage_backends_denote : forall body, body_arity body ->
  forall f ms kw sh mask,
  wf_decl ms = true -> NoDup (map aname (ins ms)) -> NoDup (output_indices ms) -> 0 < length (fouts f) ->
  length mask = length sh -> length (ext_of mask sh) = length (external_indices ms) ->
  forallb (fun d => 0 <? d) sh = true ->
  forall arrs, denote_mapped body f ms kw sh mask = Ok arrs ->
  run_mapped body f ms kw sh mask = Ok (arrs, arrs, prod (ext_of mask sh))
  /\ forall j, j < length (fouts f) ->
       exists cF cD,
         snd (Store.stepF str (geom_of sh mask)
                (Store.final str (Store.stepF str (geom_of sh mask)) [] (dump_ops sh mask (out_col body f ms kw sh mask j)))
                Store.ToArray) = Store.OArr sh cF
         /\ snd (Store.stepD str (geom_of sh mask)
                   (Store.final str (Store.stepD str (geom_of sh mask)) [] (dump_ops sh mask (out_col body f ms kw sh mask j)))
                   Store.ToArray) = Store.OArr sh cD
         /\ {| shp := sh; dat := map render cF |} = nth j arrs {| shp := []; dat := [] |}
         /\ {| shp := sh; dat := map render cD |} = nth j arrs {| shp := []; dat := [] |}.
Proof. exact mapped_storage_link. Qed.
Print Assumptions C01_storage_backends_denote.

(* ... where dump_ops (out_col .. j) are exactly the dump calls of the loop: key = output_key, value = the j-th value
   returned in that iteration *)
Theorem C01_dump_ops_are_the_loop_dumps : forall body, body_arity body ->
  forall f ms kw sh mask,
  wf_decl ms = true -> NoDup (map aname (ins ms)) -> NoDup (output_indices ms) -> 0 < length (fouts f) ->
  length mask = length sh -> length (ext_of mask sh) = length (external_indices ms) ->
  forallb (fun d => 0 <? d) sh = true ->
  forall arrs, denote_mapped body f ms kw sh mask = Ok arrs ->
  forall i, i < prod (ext_of mask sh) ->
  exists sel outs key,
    select_kwargs ms kw (ext_of mask sh) i = Ok sel /\ body f sel = Ok outs /\ length outs = length (fouts f)
    /\ output_key ms (ext_of mask sh) i = Ok key
    /\ forall j, dump_op sh mask i (out_col body f ms kw sh mask j i)
                 = Store.Dump (StoreSpec.int_key key) (sval_of (nth j outs (VS []))).
Proof. exact dump_op_is_loop_dump. Qed.
Print Assumptions C01_dump_ops_are_the_loop_dumps.

(* non-vacuity (x[i] -> y[j, i], internal axis first): the three machines run on the 3 dumps of the loop; the
   rendered to_array of each equals the denoted array *)
Example C01_example_storage_link :
  exists a,
    denote_mapped sym_body ex_f1 ex_ms1 ex_kw1 [2; 3] [false; true] = Ok [a]
    /\ run_mapped sym_body ex_f1 ex_ms1 ex_kw1 [2; 3] [false; true] = Ok ([a], [a], 3)
    /\ length ex_ops = 3
    /\ rendered (snd (Store.stepM str KeyError ex_g
                        (Store.final str (Store.stepM str KeyError ex_g) (Store.absent str ex_g) ex_ops) Store.ToArray))
       = Some a
    /\ rendered (snd (Store.stepF str ex_g (Store.final str (Store.stepF str ex_g) [] ex_ops) Store.ToArray)) = Some a
    /\ rendered (snd (Store.stepD str ex_g (Store.final str (Store.stepD str ex_g) [] ex_ops) Store.ToArray)) = Some a.
Proof. exact ex_link. Qed.
