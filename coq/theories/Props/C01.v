(* C01 - Map results equal the MapSpec denotation (statements only). *)
From Verif Require Import Base.Prelude Base.Index Base.NdArr Model.MapSpec Model.MapRun Model.MapDenote Proofs.IndexFacts.

(* placeholder until Proofs/MapRunFacts.v lands: the index bijection the placement relies on *)
Theorem C01_linear_positions_bijective : forall sh,
  map (unravel sh) (seq 0 (prod sh)) = all_indices sh /\ NoDup (all_indices sh).
Proof. intros sh. exact (conj (unravel_enumerates sh) (all_indices_NoDup sh)). Qed.
Print Assumptions C01_linear_positions_bijective.
