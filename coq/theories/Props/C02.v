(* C02 - Calling a pipeline equals composing its functions along the DAG.
   Only statements here; every proof is `exact <lemma>` into Proofs/PipeFacts.v.
   All theorems hold for ARBITRARY user code `body` (Err models a raise) and output picker `pick`.
   Reading guide:  Pipe.run  = model of Pipeline.run/_run/_get_func_args/_update_all_results (memo, log, used set)
                   Pipe.eval = the specification (plain recursion along the producer relation, no memo/log)
                   needed_top p kw o = the functions o depends on, not cut off by supplied / bound names. *)
From Coq Require Import Permutation.
From Verif Require Import Base.Prelude Base.StrOrd Base.Graph Model.Pipe Proofs.GraphFacts Proofs.PipeFacts Proofs.ArgCombFacts
                          Proofs.C02Closing.

(* Complete characterisation: error of the evaluation, else rejection of a surplus keyword, else the value. *)
Theorem C02_run_characterised : forall body pick p o kw,
  wf_pipeline p -> is_output p o = true -> aget kw o = None ->
  fst (run body pick p o kw false) =
    match eval_top body pick p kw o with
    | Err e => Err e
    | Ok v => if subset_str (akeys kw) (param_names_needed p kw o) then Ok (Value v)
              else Err UnusedParametersError
    end.
Proof. exact run_char_final. Qed.
Print Assumptions C02_run_characterised.

(* Pipeline.run as the code performs it since the repair "validate the keyword arguments of Pipeline.run before
   executing anything" is Pipe.run_checked: the keywords are validated first (Pipe.run_precheck: a needed parameter
   without value -> ValueError, else a keyword naming no parameter of a needed function -> UnusedParametersError,
   both with an EMPTY call log), then `Pipe.run` evaluates.  Every theorem below about `run` therefore describes the
   call whenever the precheck passes (run_checked_pass); with `sufficient` and `no_unused` it does. *)
Theorem C02_run_checked_characterised : forall body pick p o kw,
  wf_pipeline p -> is_output p o = true -> aget kw o = None ->
  (missingb p kw o = true -> run_checked body pick p o kw false = (Err ValueError, []))
  /\ (missingb p kw o = false -> surplusb p kw o = true ->
      run_checked body pick p o kw false = (Err UnusedParametersError, []))
  /\ (missingb p kw o = false -> surplusb p kw o = false ->
      run_checked body pick p o kw false = run body pick p o kw false
      /\ fst (run body pick p o kw false) = lift_value (eval_top body pick p kw o)).
Proof. exact run_checked_char. Qed.
Print Assumptions C02_run_checked_characterised.

Theorem C02_precheck_is_sufficient_and_no_unused : forall p kw o,
  (missingb p kw o = false <-> sufficient p kw o) /\ (surplusb p kw o = false <-> no_unused p kw o).
Proof. intros p kw o. exact (conj (missingb_sufficient p kw o) (surplusb_no_unused p kw o)). Qed.
Print Assumptions C02_precheck_is_sufficient_and_no_unused.

(* pipeline(o, kw...) = run = func(o)(kw...) returns the value of the specification *)
Theorem C02_run_eq_eval : forall body pick p o kw,
  wf_pipeline p -> is_output p o = true -> aget kw o = None -> no_unused p kw o ->
  fst (run body pick p o kw false) = lift_value (eval_top body pick p kw o).
Proof. exact run_eq_eval. Qed.
Print Assumptions C02_run_eq_eval.

(* ... and with sufficient arguments and user functions that do not raise, that value exists *)
Theorem C02_sufficient_yields_value : forall body pick p kw o,
  wf_pipeline p -> (forall f a, exists r, body f a = Ok r) -> is_output p o = true -> sufficient p kw o ->
  exists v, eval_top body pick p kw o = Ok v.
Proof. exact eval_ok_of_sufficient. Qed.
Print Assumptions C02_sufficient_yields_value.

(* exactly the needed functions are called, each once, with the arguments of the specification, every producer
   before its consumers *)
Theorem C02_run_calls_once_in_order : forall body pick p o kw v,
  wf_pipeline p -> is_output p o = true -> aget kw o = None -> eval_top body pick p kw o = Ok v ->
  let lg := snd (run body pick p o kw false) in
  NoDup (map fst lg)
  /\ (forall g, In g p -> (In (fname g) (map fst lg) <-> In g (needed_top p kw o)))
  /\ (forall l1 c l2, lg = l1 ++ c :: l2 ->
        exists f, In f p /\ fst c = fname f /\ eval_args body pick p kw f = Ok (snd c)
                  /\ forall g, In g (ups p kw f) -> In (fname g) (map fst l1)).
Proof. exact run_calls_once_in_order. Qed.
Print Assumptions C02_run_calls_once_in_order.

(* the listing order of the functions is irrelevant (value, full_output dict, call log, errors) *)
Theorem C02_run_perm_invariant : forall body pick p p' o kw full,
  wf_pipeline p -> Permutation p p' -> run body pick p o kw full = run body pick p' o kw full.
Proof. exact run_perm_invariant. Qed.
Print Assumptions C02_run_perm_invariant.

(* full_output=True: supplied values as supplied; for every other name, an entry iff it is an output of a
   needed function, and then it is the value of that same evaluation *)
Theorem C02_full_output_complete : forall body pick p o kw d lg,
  wf_pipeline p -> is_output p o = true -> aget kw o = None ->
  run body pick p o kw true = (Ok (Full d), lg) ->
  (forall k x, aget kw k = Some x -> aget d k = Some x)
  /\ (forall k x, aget kw k = None ->
        (aget d k = Some x <->
         exists f, In f (needed_top p kw o) /\ In k (outs f) /\ eval_top body pick p kw k = Ok x)).
Proof. exact full_output_complete. Qed.
Print Assumptions C02_full_output_complete.

(* a supplied intermediate reaches every consumer that does not bind the name ... *)
Theorem C02_supplied_replaces_producer : forall body pick p o kw v,
  wf_pipeline p -> is_output p o = true -> aget kw o = None -> eval_top body pick p kw o = Ok v ->
  forall c f a x orig, In c (snd (run body pick p o kw false)) -> In f p -> fst c = fname f ->
    In (a, orig) (params f) -> aget (bound f) a = None -> aget kw a = Some x -> In (orig, x) (snd c).
Proof. exact supplied_reaches_consumers. Qed.
Print Assumptions C02_supplied_replaces_producer.

(* ... and a function is executed only for the requested output or because a needed consumer reads one of its
   outputs that is neither bound nor supplied *)
Theorem C02_producer_called_only_if_needed : forall body pick p o kw v g,
  wf_pipeline p -> is_output p o = true -> aget kw o = None -> eval_top body pick p kw o = Ok v ->
  In g p -> In (fname g) (map fst (snd (run body pick p o kw false))) ->
  producer p o = Some g \/
  exists f b, In f (needed_top p kw o) /\ In b (pnames f) /\ In b (outs g)
              /\ aget (bound f) b = None /\ aget kw b = None.
Proof. exact producer_called_only_if_needed. Qed.
Print Assumptions C02_producer_called_only_if_needed.

(* a keyword that names no parameter of an executed function is rejected by the evaluation proper as well (the
   up-front check of run_checked already rejects it before anything runs: C02_run_checked_characterised) *)
Theorem C02_unused_rejected : forall body pick p o kw v,
  wf_pipeline p -> is_output p o = true -> aget kw o = None -> eval_top body pick p kw o = Ok v ->
  (exists k, In k (akeys kw) /\ ~ In k (param_names_needed p kw o)) ->
  fst (run body pick p o kw false) = Err UnusedParametersError.
Proof. exact unused_rejected. Qed.
Print Assumptions C02_unused_rejected.

(* supplying exactly the root-argument names of o (spec_roots: the non-output names the evaluation reads) is
   accepted: nothing unused, nothing missing *)
Theorem C02_spec_roots_accepted : forall p o kw,
  (forall k, In k (akeys kw) <-> In k (spec_roots p o)) -> aget kw o = None \/ is_output p o = false ->
  no_unused p kw o /\ sufficient p kw o.
Proof. exact spec_roots_accepted. Qed.
Print Assumptions C02_spec_roots_accepted.

(* every element of arg_combinations(o) (model of _compute_arg_mapping, repaired code) is accepted: with exactly
   those keywords nothing is unused, nothing is missing, and run returns the value of the specification *)
Theorem C02_arg_combinations_accepted : forall body pick p o cs c kw,
  wf_pipeline p -> is_output p o = true -> arg_combinations p o = Ok cs -> In c cs ->
  (forall k, In k (akeys kw) <-> In k c) ->
  aget kw o = None /\ no_unused p kw o /\ sufficient p kw o
  /\ fst (run body pick p o kw false) = lift_value (eval_top body pick p kw o).
Proof. exact arg_combinations_accepted. Qed.
Print Assumptions C02_arg_combinations_accepted.

Theorem C02_root_args_accepted : forall body pick p o c kw,
  wf_pipeline p -> is_output p o = true -> root_args p o = Ok c ->
  (forall k, In k (akeys kw) <-> In k c) ->
  (forall k, In k c -> is_output p k = false)
  /\ aget kw o = None /\ no_unused p kw o /\ sufficient p kw o
  /\ fst (run body pick p o kw false) = lift_value (eval_top body pick p kw o).
Proof. exact root_args_accepted. Qed.
Print Assumptions C02_root_args_accepted.

(* "yields this value": supplying an intermediate with the value the pipeline computes for it changes no value,
   and keywords that the evaluation does not read are irrelevant *)
Theorem C02_supplied_computed_consistent : forall body pick p kw a va x,
  wf_pipeline p -> aget kw a = None -> eval_top body pick p kw a = Ok va ->
  eval_top body pick p ((a, va) :: kw) x = eval_top body pick p kw x.
Proof. exact supplied_computed_consistent. Qed.
Print Assumptions C02_supplied_computed_consistent.

Theorem C02_unread_keywords_irrelevant : forall body pick p kw1 kw2 x,
  wf_pipeline p ->
  (forall f cur, In f (needed_top p kw1 x) -> In cur (pnames f) -> aget (bound f) cur = None ->
                 aget kw1 cur = aget kw2 cur) ->
  eval_top body pick p kw2 x = eval_top body pick p kw1 x.
Proof. exact unread_keywords_irrelevant. Qed.
Print Assumptions C02_unread_keywords_irrelevant.

(* with the keywords of an argument combination every root argument the evaluation reads is supplied (no default
   of the pipeline is consulted) *)
Theorem C02_arg_combinations_roots_supplied : forall p o cs c kw,
  wf_pipeline p -> is_output p o = true -> arg_combinations p o = Ok cs -> In c cs ->
  (forall k, In k (akeys kw) <-> In k c) ->
  forall f cur, In f (needed_top p kw o) -> In cur (pnames f) -> aget (bound f) cur = None ->
                is_output p cur = false -> In cur (akeys kw).
Proof. exact arg_combinations_roots_supplied. Qed.
Print Assumptions C02_arg_combinations_roots_supplied.

(* CLOSING COROLLARY: take any reference call kw0 that supplies root arguments only and yields v for o.  Every
   argument combination c of o - its root names filled with the values of kw0, its intermediate names filled with
   the values the reference call computes for them - is accepted and returns the same v. *)
Theorem C02_arg_combination_returns_reference_value : forall body pick p, wf_pipeline p -> forall kw0 o cs c kw v,
  is_output p o = true -> arg_combinations p o = Ok cs -> In c cs ->
  (forall k, In k (akeys kw0) -> is_output p k = false) ->
  eval_top body pick p kw0 o = Ok v ->
  (forall k, In k (akeys kw) <-> In k c) ->
  (forall k x, aget kw k = Some x ->
               if is_output p k then eval_top body pick p kw0 k = Ok x else aget kw0 k = Some x) ->
  eval_top body pick p kw o = Ok v /\ fst (run body pick p o kw false) = Ok (Value v).
Proof. exact arg_combination_returns_reference_value. Qed.
Print Assumptions C02_arg_combination_returns_reference_value.

(* ---------- non-vacuity: a diamond with a tuple-output function, a default, a bound value, a rename ---------- *)
Definition ex_p : pipeline :=
  [ mkf (s "f") [s "a"; s "b"] [(s "x", s "x")] [] [] false;
    mkf (s "g") [s "c"] [(s "a", s "p0"); (s "y", s "y")] [(s "y", s "d_y")] [] false;
    mkf (s "h") [s "d"] [(s "b", s "b"); (s "c", s "c"); (s "z", s "z")] [] [(s "z", s "B")] false ].
Example ex_wf : wf_pipeline ex_p.
Proof. vm_compute. reflexivity. Qed.
Example ex_hyps : is_output ex_p (s "d") = true /\ aget [(s "x", s "1")] (s "d") = None
                  /\ subset_str (akeys [(s "x", s "1")]) (param_names_needed ex_p [(s "x", s "1")] (s "d")) = true.
Proof. vm_compute. auto. Qed.
Example ex_value :
  run Sym.body Sym.pick ex_p (s "d") [(s "x", s "1")] false =
  (Ok (Value (s "h(b=out(b;f(x=1)),c=g(p0=out(a;f(x=1)),y=d_y),z=B)")),
   [(s "f", [(s "x", s "1")]);
    (s "g", [(s "p0", s "out(a;f(x=1))"); (s "y", s "d_y")]);
    (s "h", [(s "b", s "out(b;f(x=1))"); (s "c", s "g(p0=out(a;f(x=1)),y=d_y)"); (s "z", s "B")])]).
Proof. vm_compute. reflexivity. Qed.
Example ex_roots : spec_roots ex_p (s "d") = [s "x"; s "y"] /\ root_args ex_p (s "d") = Ok [s "x"; s "y"].
Proof. vm_compute. auto. Qed.

Example ex_closing :   (* the combination (b, c) of d, filled with the intermediates of the call x=1, returns the same value *)
  arg_combinations ex_p (s "d") = Ok [[s "a"; s "b"; s "y"]; [s "b"; s "c"]; [s "c"; s "x"]; [s "x"; s "y"]]
  /\ fst (run Sym.body Sym.pick ex_p (s "d")
             [(s "b", s "out(b;f(x=1))"); (s "c", s "g(p0=out(a;f(x=1)),y=d_y)")] false)
     = Ok (Value (s "h(b=out(b;f(x=1)),c=g(p0=out(a;f(x=1)),y=d_y),z=B)")).
Proof. vm_compute. auto. Qed.

(* the two repaired defects, replayed on the model of the repaired code *)
Example ex_fixed_full_output :   (* (a,b)=f(x); c=g(a,b); run("c", {x:1, a:"S"}, full_output=True) keeps the supplied a *)
  let p := [ mkf (s "f") [s "a"; s "b"] [(s "x", s "x")] [] [] false;
             mkf (s "g") [s "c"] [(s "a", s "a"); (s "b", s "b")] [] [] false ] in
  fst (run Sym.body Sym.pick p (s "c") [(s "x", s "1"); (s "a", s "S")] true) =
  Ok (Full [(s "x", s "1"); (s "a", s "S"); (s "b", s "out(b;f(x=1))"); (s "c", s "g(a=S,b=out(b;f(x=1)))")]).
Proof. vm_compute. reflexivity. Qed.
Example ex_fixed_arg_combinations :   (* (a,b)=f(x); d=h(a): the combination is ('a',), not ('a','b') *)
  let p := [ mkf (s "f") [s "a"; s "b"] [(s "x", s "x")] [] [] false;
             mkf (s "h") [s "d"] [(s "a", s "a")] [] [] false ] in
  arg_combinations p (s "d") = Ok [[s "a"]; [s "x"]].
Proof. vm_compute. reflexivity. Qed.
