(* C02 - stub; theorems follow *)
From Verif Require Import Base.Prelude Model.Pipe.
