(* C03 - Map results and call counts are independent of executor, storage and schedule (statements only). *)
From Verif Require Import Base.Prelude Base.Index Base.NdArr Model.MapSpec Model.MapRun Model.ParGen.
