(* C03 - Map results and call counts are independent of executor, storage and schedule (statements only;
   proofs in Proofs/ParGenFacts.v).  Model: Model/ParGen.v (generation-wise parallel execution with an arbitrary
   completion order per generation) on top of Model/MapRun.v (the sequential run).
   All theorems hold for an ARBITRARY user-code oracle `body`, an ARBITRARY assignment `dis` of
   dump_in_subprocess to outputs (dict / file_array / shared_memory_dict, any per-output mix) and EVERY list of
   schedules `pis` (Model/ParGen.order reads any list as an execution order; a permutation of the slots denotes
   itself). *)
From Coq Require Import Permutation.
From Verif Require Import Base.Prelude Base.StrUtil Base.Index Base.NdArr Model.MapSpec Model.MapSpecSpec Model.MapRun
  Model.ParGen Model.SymBody Proofs.ParGenFacts.

(* every list denotes a schedule = a permutation of the submission slots; every permutation is denoted by itself *)
Theorem C03_every_schedule : forall n pi,
  Permutation (order n pi) (seq 0 n) /\ (Permutation pi (seq 0 n) -> order n pi = pi).
Proof. exact (fun n pi => conj (order_perm n pi) (order_of_perm n pi)). Qed.
Print Assumptions C03_every_schedule.

(* results and stored data: whenever the sequential run of the functions (in generation order) succeeds, the parallel
   run succeeds for every completion order and every storage assignment, with the same returned arrays, the same
   stored arrays (p_out holds both per output), the same environment handed to later generations and the same
   number of calls *)
Theorem C03_par_equiv_seq : forall body dis user gens inputs pis rs,
  layering_ok gens = true ->
  map_run body (concat gens) inputs user = Ok rs ->
  exists ps, par_run body dis gens inputs user pis = Ok ps
             /\ p_env ps = r_env rs /\ p_shapes ps = r_shapes rs /\ p_out ps = r_out rs
             /\ length (p_log ps) = r_calls rs.
Proof. exact par_equiv_seq. Qed.
Print Assumptions C03_par_equiv_seq.

Corollary C03_schedule_independent : forall body dis user gens inputs pis pis' rs,
  layering_ok gens = true -> map_run body (concat gens) inputs user = Ok rs ->
  exists ps ps', par_run body dis gens inputs user pis = Ok ps /\ par_run body dis gens inputs user pis' = Ok ps'
                 /\ p_out ps = p_out ps' /\ p_env ps = p_env ps'.
Proof. exact par_schedule_independent. Qed.
Print Assumptions C03_schedule_independent.

(* converse: a parallel run that succeeds for SOME schedule implies that the sequential run succeeds, with the same
   results -- so success itself does not depend on the schedule.  The only side condition is C01's request_ok
   (it gives: a function with a MapSpec has at least one output name, as its MapSpec has); the `_mapped_named` forms
   state that condition directly. *)
Theorem C03_par_ok_seq_ok : forall body dis user gens inputs pis ps,
  layering_ok gens = true -> MapDenote.request_ok (concat gens) inputs = true ->
  par_run body dis gens inputs user pis = Ok ps ->
  exists rs, map_run body (concat gens) inputs user = Ok rs
             /\ p_env ps = r_env rs /\ p_shapes ps = r_shapes rs /\ p_out ps = r_out rs
             /\ length (p_log ps) = r_calls rs.
Proof. exact par_ok_seq_ok_req. Qed.
Print Assumptions C03_par_ok_seq_ok.

Corollary C03_par_ok_any_schedule : forall body dis user gens inputs pis pis' ps,
  layering_ok gens = true -> MapDenote.request_ok (concat gens) inputs = true ->
  par_run body dis gens inputs user pis = Ok ps ->
  exists ps', par_run body dis gens inputs user pis' = Ok ps' /\ p_out ps' = p_out ps /\ p_env ps' = p_env ps.
Proof. exact par_ok_any_schedule_req. Qed.
Print Assumptions C03_par_ok_any_schedule.

Theorem C03_par_ok_seq_ok_mapped_named : forall body dis user gens inputs pis ps,
  layering_ok gens = true -> (forall f, In f (concat gens) -> is_mapped f = true -> fouts f <> []) ->
  par_run body dis gens inputs user pis = Ok ps ->
  exists rs, map_run body (concat gens) inputs user = Ok rs
             /\ p_env ps = r_env rs /\ p_shapes ps = r_shapes rs /\ p_out ps = r_out rs
             /\ length (p_log ps) = r_calls rs.
Proof. exact par_ok_seq_ok. Qed.
Print Assumptions C03_par_ok_seq_ok_mapped_named.

(* the storage content of one mapped function does not depend on the order of the dumps:
   (statement of the key lemma: see Proofs/ParGenFacts.stored_any_schedule) *)

(* each function is invoked exactly once per linear index of its external shape (once if it has no MapSpec inputs):
   in every successful parallel run the call log is a permutation of the list
   [ (f, Some 0); ...; (f, Some (n_f - 1)) ]  /  [ (f, None) ]   over the functions of the pipeline *)
Theorem C03_calls_exactly_once : forall body dis user gens inputs pis ps,
  par_run body dis gens inputs user pis = Ok ps ->
  map prep_fun (p_preps ps) = concat gens
  /\ Permutation (map call_id (p_log ps)) (flat_map ids_of_prep (p_preps ps)).
Proof. exact calls_exactly_once. Qed.
Print Assumptions C03_calls_exactly_once.

(* never before all values it consumes are complete: in the log of every successful parallel run of a layered
   pipeline, a call of a function g is preceded by ALL calls of every function f that produces a parameter of g *)
Theorem C03_barrier : forall body dis user gens inputs pis ps,
  layered gens = true -> par_run body dis gens inputs user pis = Ok ps ->
  forall l1 c l2, p_log ps = l1 ++ c :: l2 ->
  forall p, In p (p_preps ps) -> (exists q, In q (fparams (c_fn c)) /\ In q (fouts (prep_fun p))) ->
  forall id, In id (ids_of_prep p) -> In id (map call_id l1).
Proof. exact barrier. Qed.
Print Assumptions C03_barrier.

(* each element of each storage array is dumped exactly once, by the worker iff dump_in_subprocess (for both values
   of the flag and any per-output mix): the dump trace is a permutation of
   [ (o, key i, dis o) | mapped f, i < n_f, o in outputs f ] *)
Theorem C03_single_dump : forall body dis user gens inputs pis ps,
  par_run body dis gens inputs user pis = Ok ps ->
  Permutation (map dump_id (p_trace ps)) (flat_map (dump_ids_of_prep dis) (p_preps ps)).
Proof. exact single_dump. Qed.
Print Assumptions C03_single_dump.

(* ---------- a non-trivial instance satisfies the hypotheses ---------- *)
Definition ex_ax (n i : str) : aspec := {| aname := n; axes := [Some i] |}.
Definition ex_f (name out : str) (params : list str) (sp : option mapspec) : mfunc :=
  {| fname := name; fouts := [out]; fparams := params; fbound := []; fdefaults := [];
     fspec := sp; fint := []; fret := [] |}.
Definition ex_gens : list (list mfunc) :=
  [ [ ex_f (s "f0") (s "y") [s "x"] (Some {| ins := [ex_ax (s "x") (s "i")]; outs := [ex_ax (s "y") (s "i")] |});
      ex_f (s "f1") (s "z") [s "x"] (Some {| ins := [ex_ax (s "x") (s "i")]; outs := [ex_ax (s "z") (s "i")] |}) ];
    [ ex_f (s "f2") (s "w") [s "y"; s "z"]
           (Some {| ins := [ex_ax (s "y") (s "i"); ex_ax (s "z") (s "i")]; outs := [ex_ax (s "w") (s "i")] |}) ];
    [ ex_f (s "f3") (s "r") [s "w"] None ] ].
Definition ex_inputs : env := [(s "x", VA {| shp := [3]; dat := [s "a"; s "b"; s "c"] |})].
Definition ex_pis : list (list nat) := [[5; 3; 1; 0; 2; 4]; [2; 0; 1]; [0]].
Definition ex_dis (o : str) : bool := str_eqb o (s "y") || str_eqb o (s "w").

Example C03_ex_layering : layering_ok ex_gens = true.
Proof. vm_compute. reflexivity. Qed.
Example C03_ex_request_ok : MapDenote.request_ok (concat ex_gens) ex_inputs = true.
Proof. vm_compute. reflexivity. Qed.
Example C03_ex_sequential_ok : is_ok (map_run sym_body (concat ex_gens) ex_inputs []) = true.
Proof. vm_compute. reflexivity. Qed.
Example C03_ex_parallel_ok :
  match par_run sym_body ex_dis ex_gens ex_inputs [] ex_pis with
  | Ok ps => (length (p_log ps), length (p_trace ps), map (fun c => c_idx c) (firstn 6 (p_log ps)))
  | Err _ => (0, 0, [])
  end = (10, 9, [Some 2; Some 0; Some 1; Some 0; Some 2; Some 1]).
Proof. vm_compute. reflexivity. Qed.

(* ====================================================================================================
   Runs on an EXISTING store: resume with cleanup=False and / or fixed_indices (Model/ParResume.v on top of C06's
   Model/MapResume.v).  The tasks of a generation are the selected MISSING indices of its mapped functions (and one
   task per function without mapped inputs); `seq_run_sel` is MapResume's sequential run over the given
   generations (map_run_sel = the instance gens = generations p, by reflexivity). *)
From Verif Require Import Base.PyRange Model.MapResume Model.ParResume Proofs.MapResumeFacts Proofs.ParResumeFacts.

(* for EVERY list of schedules and every dump_in_subprocess assignment: the store left behind, the returned
   outputs, and -- as a multiset -- the whole trace (calls and dumps) are those of the sequential run *)
Theorem C03_resume_par_equiv_seq : forall body dis p gens inputs user fx rs pis ps,
  NoDup (flat_map fouts (concat gens)) -> layered gens = true ->
  seq_run_sel body p gens inputs user fx rs = ROk ps ->
  exists ps', par_run_sel body dis p gens inputs user fx rs pis = Ok ps'
              /\ MapResume.p_store ps' = MapResume.p_store ps /\ MapResume.p_out ps' = MapResume.p_out ps
              /\ Permutation (MapResume.p_tr ps') (MapResume.p_tr ps).
Proof. exact par_run_sel_equiv. Qed.
Print Assumptions C03_resume_par_equiv_seq.

(* calls exactly once on an existing store: under any schedule the calls are, as a multiset, exactly the selected
   elements that miss some output (one call of a function without mapped inputs unless its output is stored);
   nothing that is stored is called again.  (C06_part_computes_exactly gives the list for the sequential run.) *)
Theorem C03_resume_calls_exactly_once : forall body dis (c : ctx) fx rs user pis ps,
  sized c rs ->
  (forall g f o, In g (x_p c) -> In f (x_p c) -> In o (fouts g) -> In o (fouts f) -> g = f) ->
  all_shapes user (x_inputs c) (x_p c) = Ok (x_shapes c) ->
  NoDup (flat_map fouts (concat (generations (x_p c)))) -> layered (generations (x_p c)) = true ->
  map_run_sel body (x_p c) (x_inputs c) user fx rs = ROk ps ->
  exists ps', par_run_sel body dis (x_p c) (generations (x_p c)) (x_inputs c) user fx rs pis = Ok ps'
              /\ MapResume.p_store ps' = MapResume.p_store ps /\ MapResume.p_out ps' = MapResume.p_out ps
              /\ Permutation (calls_of (MapResume.p_tr ps')) (flat_map (calls_for c fx rs) (concat (generations (x_p c)))).
Proof.
  intros body dis c fx rs user pis ps H1 H2 H3 H4 H5 H6.
  destruct (par_run_sel_equiv body dis _ _ _ _ _ _ pis ps H4 H5 H6) as (ps' & Hp & Hs & Ho & Ht).
  exists ps'. repeat split; try assumption.
  destruct (part_run_exact body c fx rs H1 H2 user ps H3 H4 H6) as [A _ _ _]. cbn [app calls_of flat_map] in A.
  rewrite <- A. unfold calls_of. now apply ParGenFacts.Permutation_flat_map_l.
Qed.
Print Assumptions C03_resume_calls_exactly_once.

(* every element that is computed is dumped exactly as often as in the sequential run (once per output) *)
Definition dumps_of (tr : list action) : list (str * nat) :=
  flat_map (fun a => match a with ADump o pos _ => [(o, pos)] | _ => [] end) tr.
Theorem C03_resume_single_dump : forall body dis p gens inputs user fx rs pis ps,
  NoDup (flat_map fouts (concat gens)) -> layered gens = true ->
  seq_run_sel body p gens inputs user fx rs = ROk ps ->
  exists ps', par_run_sel body dis p gens inputs user fx rs pis = Ok ps'
              /\ Permutation (dumps_of (MapResume.p_tr ps')) (dumps_of (MapResume.p_tr ps)).
Proof.
  intros body dis p gens inputs user fx rs pis ps H1 H2 H3.
  destruct (par_run_sel_equiv body dis _ _ _ _ _ _ pis ps H1 H2 H3) as (ps' & Hp & _ & _ & Ht).
  exists ps'. split; [exact Hp|]. unfold dumps_of. now apply ParGenFacts.Permutation_flat_map_l.
Qed.
Print Assumptions C03_resume_single_dump.

(* a non-trivial instance: the folder holds what map(fixed_indices={"i": 0}) left; the resuming run is executed
   under a non-trivial schedule *)
Definition ex_gens2 : list (list mfunc) := firstn 2 ex_gens.     (* without the reducing f3: axis i may be fixed *)
Definition ex_rs : rstore :=
  match seq_run_sel sym_body (concat ex_gens2) ex_gens2 ex_inputs [] (Some [(s "i", FInt 0%Z)]) empty_store with
  | ROk ps => MapResume.p_store ps
  | RErr _ _ => empty_store
  end.
Example C03_ex_resume :
  match seq_run_sel sym_body (concat ex_gens2) ex_gens2 ex_inputs [] None ex_rs,
        par_run_sel sym_body ex_dis (concat ex_gens2) ex_gens2 ex_inputs [] None ex_rs [[3; 0; 2; 1]; [1; 0]] with
  | ROk ps, Ok ps' => (length (calls_of (MapResume.p_tr ps)), calls_of (MapResume.p_tr ps'))
  | _, _ => (0, [])
  end = (6, [(s "f1", Some 2); (s "f0", Some 1); (s "f1", Some 1); (s "f0", Some 2); (s "f2", Some 2); (s "f2", Some 1)]).
Proof. vm_compute. reflexivity. Qed.
Example C03_ex_resume_layered : layered ex_gens2 = true /\ NoDup (flat_map fouts (concat ex_gens2)).
Proof. split; [vm_compute; reflexivity|]. apply MapSpecFacts.nodup_str_NoDup. vm_compute. reflexivity. Qed.

(* ====================================================================================================
   Which error surfaces.  If the sequential run fails in generation g (after the generations G1 succeeded), the
   functions of g can all be submitted, and the library's own per-element steps of g (output key, placement into the
   result array, dump) cannot fail for an element whose task succeeded (`prep_steps_ok`: true of every well-shaped
   request, see the example), then the error is that of the FIRST FAILING TASK in submission order -- argument
   selection, the user function raising, or a wrong number of outputs -- and the parallel run fails with the SAME
   error class for EVERY schedule and every storage assignment. *)
From Verif Require Import Proofs.ParGenErr.

Theorem C03_error_class : forall body dis user G1 g G2 inputs pis rs1 preps shapes' e,
  layering_ok (G1 ++ g :: G2) = true ->
  map_run body (concat G1) inputs user = Ok rs1 ->
  submit_gen user (r_env rs1) (r_shapes rs1) g = Ok (preps, shapes') -> Forall (prep_steps_ok body) preps ->
  fold_left (fun acc f => do st <- acc; run_func body user st f) g (Ok rs1) = Err e ->
  map_run body (concat (G1 ++ g :: G2)) inputs user = Err e
  /\ par_run body dis (G1 ++ g :: G2) inputs user pis = Err e.
Proof. exact par_run_err. Qed.
Print Assumptions C03_error_class.

(* instance: f1 raises ZeroDivisionError for every element; for every schedule the run fails with that class *)
Definition ex_fail (f : mfunc) (kw : env) : result (list val) :=
  if str_eqb (fname f) (s "f1") then Err ZeroDivisionError else sym_body f kw.
Example C03_ex_error_class :
  exists rs1 preps shapes',
    map_run ex_fail (concat []) ex_inputs [] = Ok rs1
    /\ submit_gen [] (r_env rs1) (r_shapes rs1) (hd [] ex_gens) = Ok (preps, shapes')
    /\ Forall (prep_steps_ok ex_fail) preps
    /\ fold_left (fun acc f => do st <- acc; run_func ex_fail [] st f) (hd [] ex_gens) (Ok rs1) = Err ZeroDivisionError
    /\ par_run ex_fail ex_dis ex_gens ex_inputs [] ex_pis = Err ZeroDivisionError.
Proof.
  eexists. eexists. eexists. split; [reflexivity|]. split; [vm_compute; reflexivity|].
  split; [|split; vm_compute; reflexivity].
  constructor; [|constructor; [|constructor]]; cbn [prep_steps_ok]; intros i sel outs Hi Hs Hb Hl.
  - assert (i = 0 \/ i = 1 \/ i = 2) as [-> | [-> | ->]] by (vm_compute in Hi; lia);
      vm_compute in Hs; injection Hs as <-; vm_compute in Hb; injection Hb as <-;
      (split; [vm_compute; reflexivity|]); intros v [<-|[]];
      (split; [eexists; vm_compute; reflexivity|intros arr; eexists; reflexivity]).
  - exfalso. assert (i = 0 \/ i = 1 \/ i = 2) as [-> | [-> | ->]] by (vm_compute in Hi; lia);
      vm_compute in Hs; injection Hs as <-; vm_compute in Hb; discriminate.
Qed.
