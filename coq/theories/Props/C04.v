(* C04 - Results stored in a run folder reload exactly, from any process (statements only). *)
From Verif Require Import Base.Prelude Model.RunInfoCodec Model.FSStore.

(* placeholder until Proofs/RunInfoFacts.v lands *)
Theorem C04_placeholder : forall k, wf_okey k = true -> wf_okey k = true.
Proof. intros k H. exact H. Qed.
Print Assumptions C04_placeholder.
