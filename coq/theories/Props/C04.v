(* C04 - Results stored in a run folder reload exactly, from any process.
   Only statements here; every proof is `exact <lemma>` into Proofs/. *)
From Verif Require Import Base.Prelude Base.StrUtil Base.Index Base.NdArr Model.MapSpec Model.MapRun Model.MapDenote
  Model.SymBody Model.RunInfoCodec Model.FSStore Corr.Run_C04 Corr.Valid_C04
  Proofs.RunInfoFacts Proofs.FSStoreFacts Proofs.ReloadFacts Proofs.ConsistentFacts Proofs.FinishFacts Proofs.SequenceFacts Proofs.C04Corr Proofs.C04Witness.

(* ---------------------------------------------------------------------------------------------------------- *)
(* 1. RunInfo.load (RunInfo.dump ri) = ri : shapes, masks (keyed by a name or a tuple of names), internal shapes
      (int or tuple), the storage choice (one name, or a dict keyed by name / tuple / the "" default), the MapSpec
      strings, the sorted output names, run folder and version come back unchanged.
      wf_run_info: names contain no ",", tuple keys have >= 2 components, keys are distinct (they are dict keys),
      all_output_names is a set. *)
Theorem C04_runinfo_roundtrip : forall ver ri, wf_run_info ri = true -> decode ver (encode ri) = Ok ri.
Proof. exact runinfo_roundtrip. Qed.
Print Assumptions C04_runinfo_roundtrip.

Example C04_runinfo_example_wf :
  wf_run_info
    {| ri_input_names := [s "x"; s "c"]; ri_all_output_names := [s "s"; s "y"; s "z"];
       ri_shapes := [(KName (s "x"), [3]); (KTup [s "y"; s "z"], [3; 2]); (KName (s "y"), [3; 2]); (KName (s "z"), [3; 2])];
       ri_internal_shapes := Some [(s "y", IInt 2); (s "z", ITup [2])];
       ri_shape_masks := [(KName (s "x"), [true]); (KTup [s "y"; s "z"], [true; false]); (KName (s "y"), [true; false]);
                          (KName (s "z"), [true; false])];
       ri_run_folder := s "/tmp/run"; ri_mapspecs := [s "x[i] -> y[i, j], z[i, j]"];
       ri_storage := StDict [(KTup [s "y"; s "z"], s "file_array"); (KName [], s "shared_memory_dict")];
       ri_version := s "0.1" |} = true.
Proof. vm_compute. reflexivity. Qed.

(* the side condition holds for the RunInfo that RunInfo.create records for any valid request *)
Theorem C04_recorded_runinfo_wf : forall c f,
  finish false c = Ok f -> valid_request c = true -> wf_run_info (f_info f) = true.
Proof. exact run_info_of_run_wf. Qed.
Print Assumptions C04_recorded_runinfo_wf.

(* Without the side condition "tuple keys have >= 2 components" the round trip is false: ",".join(("y",)) == "y", so a
   storage dict {("y",): "dict", "": "file_array"} reloads as {"y": "dict", ...} and selects another backend than the run
   used.  Replayed on the real code (before the repair load_outputs raises FileNotFoundError) and repaired by the repo
   commit "fix: treat a 1-tuple storage key as the bare output name ..." (RunInfo.create normalises 1-tuple storage keys,
   Model/FSStore.normalize_storage), so that no run records such a key any more (C04_recorded_runinfo_wf). *)
Theorem C04_runinfo_roundtrip_unguarded_refuted :
  exists ri ri', decode (s "V") (encode ri) = Ok ri' /\ ri' <> ri
                 /\ storage_class (ri_storage ri) (KName (s "y")) = Ok FileArrayK
                 /\ storage_class (ri_storage ri') (KName (s "y")) = Ok DictK.
Proof. exact runinfo_roundtrip_needs_wf. Qed.
Print Assumptions C04_runinfo_roundtrip_unguarded_refuted.

(* ---------------------------------------------------------------------------------------------------------- *)
(* 2. Reload = the run's results.  `finish false c = Ok f`: the run of request c (Model/MapRun.v) finished with final
      state f_state f and left the folder f_world f (RunInfo.__post_init__: inputs, defaults, then run_info.json last;
      element files, single-output files, _maybe_persist_memory).  valid_request c (Corr/Valid_C04.v): unique names without "," and "/", well-formed
      MapSpecs of rank >= 1 whose outputs are the function's outputs, storage-dict keys are names or non-empty tuples.
      For every output o of a function whose storage persists (file_array, or dict / shared_memory_dict with
      persist_memory), load_outputs(o) in ANY interpreter - `live` is the set of manager processes alive there: the run's
      own for the same process, [] for a fresh one (FSStore.reopen) - returns the value the run stored for o (third
      component of its r_out record; C01 proves it equals the returned value and the MapSpec denotation), and leaves the
      folder exactly as it was. *)
Theorem C04_reload_eq_results : forall c f live fn o,
  finish false c = Ok f -> valid_request c = true ->
  In fn (c_funcs c) -> In o (fouts fn) -> kind_persists c fn = true ->
  let w := {| w_root := root_name; w_files := w_files (f_world f); w_live := live |} in
  exists o' returned stored,
    find (fun x => str_eqb (fst (fst x)) o) (r_out (f_state f)) = Some (o', returned, stored)
    /\ load_outputs version_name w o = Ok (Some (PVal stored), w).
Proof. exact reload_eq_results_full. Qed.
Print Assumptions C04_reload_eq_results.

(* the hypothesis `finish false c = Ok f` is not vacuous and not restrictive: for a valid request whose denotation is
   defined (C01: then the run itself succeeds) and whose storage configuration names a backend for every mapped output,
   recording the RunInfo, writing the element / single-output files and persisting never fail *)
Theorem C04_finish_succeeds : forall c d,
  valid_request c = true -> storage_complete c = true ->
  denote_run sym_body (c_funcs c) (c_inputs c) (c_internal c) = Ok d ->
  exists f, finish false c = Ok f.
Proof. exact finish_succeeds. Qed.
Print Assumptions C04_finish_succeeds.

(* ... and, with C01's map_run_denotes, what reloads is the denotation of the request (Model/MapDenote.v) *)
Theorem C04_reload_eq_denotation : forall c f d live fn o,
  finish false c = Ok f -> valid_request c = true ->
  denote_run sym_body (c_funcs c) (c_inputs c) (c_internal c) = Ok d ->
  In fn (c_funcs c) -> In o (fouts fn) -> kind_persists c fn = true ->
  let w := {| w_root := root_name; w_files := w_files (f_world f); w_live := live |} in
  exists o' v, find (fun y => str_eqb (fst y) o) (d_out d) = Some (o', v)
               /\ load_outputs version_name w o = Ok (Some (PVal v), w).
Proof. exact reload_eq_denotation. Qed.
Print Assumptions C04_reload_eq_denotation.

(* the fresh interpreter and the run's own interpreter, spelled out *)
Corollary C04_reload_fresh : forall c f fn o,
  finish false c = Ok f -> valid_request c = true ->
  In fn (c_funcs c) -> In o (fouts fn) -> kind_persists c fn = true ->
  exists o' returned stored,
    find (fun x => str_eqb (fst (fst x)) o) (r_out (f_state f)) = Some (o', returned, stored)
    /\ load_outputs version_name (reopen (f_world f)) o = Ok (Some (PVal stored), reopen (f_world f)).
Proof. exact reload_fresh_full. Qed.
Print Assumptions C04_reload_fresh.

Corollary C04_reload_same_process : forall c f fn o,
  finish false c = Ok f -> valid_request c = true ->
  In fn (c_funcs c) -> In o (fouts fn) -> kind_persists c fn = true ->
  exists o' returned stored,
    find (fun x => str_eqb (fst (fst x)) o) (r_out (f_state f)) = Some (o', returned, stored)
    /\ load_outputs version_name (f_world f) o = Ok (Some (PVal stored), f_world f).
Proof. exact reload_same_process_full. Qed.
Print Assumptions C04_reload_same_process.

(* RunInfo.load gives back the run's RunInfo, the inputs and the defaults *)
Theorem C04_runinfo_reload : forall c f live,
  finish false c = Ok f -> valid_request c = true ->
  let w := {| w_root := root_name; w_files := w_files (f_world f); w_live := live |} in
  runinfo_load version_name w
  = Ok ({| li_info := f_info f;
           li_inputs := map (fun kv => (fst kv, PVal (snd kv))) (c_inputs c);
           li_defaults := PEnv (pipeline_defaults (c_funcs c)) |}, w).
Proof. exact runinfo_reload_full. Qed.
Print Assumptions C04_runinfo_reload.

(* 3. loading is idempotent and does not modify the folder: every load_outputs (persisted or not) returns the world it
      was given, hence a second load sees the same files and returns the same value *)
Theorem C04_reload_idempotent : forall c f live fn o,
  finish false c = Ok f -> valid_request c = true -> In fn (c_funcs c) -> In o (fouts fn) ->
  let w := {| w_root := root_name; w_files := w_files (f_world f); w_live := live |} in
  exists v w', load_outputs version_name w o = Ok (v, w') /\ w' = w /\ load_outputs version_name w' o = Ok (v, w').
Proof. exact reload_idempotent_full. Qed.
Print Assumptions C04_reload_idempotent.

(* non-vacuity: a run with a tuple-output function with an internal axis under a tuple storage key, a reduction, a
   single output, the "" default, a bare-int internal shape satisfies all hypotheses *)
Example C04_example_finishes :
  exists f, finish false mixed_case = Ok f /\ valid_request mixed_case = true /\ finished_consistent mixed_case f = true
            /\ wf_run_info (f_info f) = true
            /\ forallb (kind_persists mixed_case) (c_funcs mixed_case) = true
            /\ length (f_outs f) = 4.
Proof. exact mixed_case_finishes. Qed.

(* ---------------------------------------------------------------------------------------------------------- *)
(* 3''. Folder re-use.  run_sequence: any number of runs into the same folder, each with cleanup=True
        (_cleanup_run_folder empties the folder, Model/FSStore.cleanup_folder), starting from any folder state w0.
        After the sequence the folder holds exactly the files of a run of the LAST request into an empty folder
        (C04_sequence_last); hence, in any interpreter (`live` arbitrary: the same process with the earlier runs' manager
        processes still alive, or a fresh one), load_outputs and RunInfo.load return the values of the run that last wrote
        the folder and nothing of an earlier run - the statement does not mention the earlier requests cs at all. *)
Theorem C04_sequence_last : forall legacy w0 cs c w,
  w_root w0 = root_name -> run_sequence legacy w0 (cs ++ [c]) = Ok w ->
  exists f live, finish legacy c = Ok f /\ w = {| w_root := root_name; w_files := w_files (f_world f); w_live := live |}.
Proof. exact sequence_last. Qed.
Print Assumptions C04_sequence_last.

Theorem C04_reload_after_sequence : forall w0 cs c w live fn o,
  w_root w0 = root_name -> run_sequence false w0 (cs ++ [c]) = Ok w -> valid_request c = true ->
  In fn (c_funcs c) -> In o (fouts fn) -> kind_persists c fn = true ->
  let w' := {| w_root := w_root w; w_files := w_files w; w_live := live |} in
  exists f o' returned stored,
    finish false c = Ok f
    /\ find (fun x => str_eqb (fst (fst x)) o) (r_out (f_state f)) = Some (o', returned, stored)
    /\ load_outputs version_name w' o = Ok (Some (PVal stored), w').
Proof. exact reload_after_sequence. Qed.
Print Assumptions C04_reload_after_sequence.

Theorem C04_runinfo_after_sequence : forall w0 cs c w live,
  w_root w0 = root_name -> run_sequence false w0 (cs ++ [c]) = Ok w -> valid_request c = true ->
  let w' := {| w_root := w_root w; w_files := w_files w; w_live := live |} in
  exists f, finish false c = Ok f
    /\ runinfo_load version_name w'
       = Ok ({| li_info := f_info f; li_inputs := map (fun kv => (fst kv, PVal (snd kv))) (c_inputs c);
                li_defaults := PEnv (pipeline_defaults (c_funcs c)) |}, w').
Proof. exact runinfo_after_sequence. Qed.
Print Assumptions C04_runinfo_after_sequence.

(* sequences of valid requests never fail, so the hypotheses above are satisfiable for every such sequence *)
Theorem C04_run_sequence_succeeds : forall cs w0,
  w_root w0 = root_name -> Forall runnable cs -> exists w, run_sequence false w0 cs = Ok w.
Proof. exact run_sequence_succeeds. Qed.
Print Assumptions C04_run_sequence_succeeds.

(* ---------------------------------------------------------------------------------------------------------- *)
(* 3'. The canonical form: for EVERY valid request (with a backend for every mapped output) the model's whole
       observation - run, two reloads in the same or a fresh interpreter, RunInfo.load, inputs, defaults, xarray
       structure and coordinate values, folder unchanged, after any successful earlier runs into the same folder
       (c_prev) - satisfies the executable statement spec_ok, i.e. the very predicate that judges the
       real implementation's observations in the correspondence check. *)
Theorem C04_model_meets_spec : forall c,
  valid_request c = true -> storage_complete c = true -> forall w0,
  run_sequence false empty_world (map case_of_request (c_prev c)) = Ok w0 -> c_cleanup c = true ->
  spec_ok c (run c) = true.
Proof. exact model_meets_spec. Qed.
Print Assumptions C04_model_meets_spec.

Example C04_example_valid :
  valid_request mixed_case = true /\ storage_complete mixed_case = true /\ c_mut mixed_case = MNone
  /\ (exists d, denote_run sym_body (c_funcs mixed_case) (c_inputs mixed_case) (c_internal mixed_case) = Ok d).
Proof. exact mixed_case_valid. Qed.

(* ---------------------------------------------------------------------------------------------------------- *)
(* 4. The persist protocol of shared_memory_dict BEFORE the repair (the DictProxy itself was pickled: FS content
      ProxyHandle) violates the property in a fresh interpreter; the legacy model reproduces the observation recorded from
      the real unrepaired code exactly.  Repaired in the repo by commit 7bf0304 ("DictArray.persist writes the contents
      of the mapping, not a DictProxy"); `run` models the repaired code. *)
Theorem C04_reload_shared_legacy_refuted :
  exists c, request_ok (c_funcs c) (c_inputs c) = true /\ spec_ok c (run_with true c) = false
            /\ run_with true c = shared_fresh_unrepaired_obs /\ spec_ok c (run c) = true.
Proof. exact legacy_refuted. Qed.
Print Assumptions C04_reload_shared_legacy_refuted.
