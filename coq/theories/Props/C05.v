(* C05 - An interrupted map resumes to the uninterrupted result, redoing no stored work.
   Statements only; every proof is `exact <lemma of Proofs/>`.  The model is Model/CrashFS.v (a run of
   Model/MapResume.v compiled into file-system events; crash = prefix of the event list; resume = a run with
   cleanup=False on the crashed file system).  NewCode is the repaired write protocol (temporary file + os.replace,
   run_info.json last, DictArray.load keyed on the file), OldCode what the code did before. *)
From Verif Require Import Base.Prelude Base.StrUtil Base.Index Base.NdArr Base.PyRange
  Model.MapSpec Model.MapRun Model.SymBody.
From Verif Require Import Model.MapDenote Proofs.MapRunFacts.
From Verif Require Import Proofs.MapResumeFacts Proofs.MapValuesFacts Proofs.MapResumeDenote Proofs.CrashFSFacts Proofs.CrashLink.
From Verif Require Import Model.MapResume Model.CrashFS Model.CrashFSRef.

(* ---------------------------------------------------------------- no_partial_returned *)
(* Whatever the pipeline, the user functions, the storage and the crash point k (of a first run or of a resumed
   run): after the crash no file with a real (non-temporary) name is partially written.  Hence a resumed run,
   which only reads real names, never sees – and never returns – a torn value. *)
Theorem C05_crash_never_partial : forall body st p inputs user cleanup s0 k,
  safe_fs s0 ->
  safe_fs (crash (o_events (run_fs body NewCode st p inputs user cleanup s0)) k s0).
Proof. exact crash_never_partial. Qed.
Print Assumptions C05_crash_never_partial.

Example ex_safe_empty : safe_fs empty_fs.
Proof. exact safe_empty. Qed.

(* ---------------------------------------------------------------- no_redo_of_stored *)
(* A resumed run (any store rs read back from the folder, any user functions) calls a mapped function only for
   elements that miss at least one output file, and a function without mapped inputs only when not all of its
   output files could be loaded.  (Corollary of C06_part_computes_exactly.)  For file storage a cell is missing
   exactly when its element file does not exist (cell_of_missing). *)
Theorem C05_no_redo_of_stored : forall body (c : ctx) rs user ps,
  sized c rs ->
  (forall g f o, In g (x_p c) -> In f (x_p c) -> In o (fouts g) -> In o (fouts f) -> g = f) ->
  all_shapes user (x_inputs c) (x_p c) = Ok (x_shapes c) ->
  NoDup (flat_map fouts (concat (generations (x_p c)))) ->
  NoDup (map fname (concat (generations (x_p c)))) ->
  map_run_sel body (x_p c) (x_inputs c) user None rs = ROk ps ->
  forall f, In f (concat (generations (x_p c))) ->
    (forall i, In (fname f, Some i) (calls_of (p_tr ps)) ->
       is_mapped f = true /\ exists sm, shape_of c f = Ok sm
          /\ miss_any (stores_of rs f (prod (ext_of (snd sm) (fst sm)))) i = true)
    /\ (In (fname f, None) (calls_of (p_tr ps)) ->
          is_mapped f = false /\ forall outs, load_single rs f <> Ok (Some outs)).
Proof. exact resume_calls_only_missing. Qed.
Print Assumptions C05_no_redo_of_stored.

Theorem C05_missing_iff_no_file : forall s0 p, cell_missing (cell_of s0 p) = negb (is_file s0 p).
Proof. exact cell_of_missing. Qed.
Print Assumptions C05_missing_iff_no_file.

(* ---------------------------------------------------------------- resume_eq_uninterrupted *)
(* Bounded form (finite domain decided by vm_compute, the bound is in the statement): for the three reference
   pipelines of Model/CrashFSRef.v (mapped + whole-array consumer; two outputs with an internal axis + a reduction;
   two functions in one generation + a consumer), both persisting storages, EVERY crash point k1 of the first run
   and EVERY crash point k2 of the resumed run: the (second) resume succeeds with exactly the results of the
   uninterrupted run. *)
Theorem C05_resume_eq_uninterrupted_bounded : forall r st k1,
  In r ref_family -> In st [FileSt; DictSt] -> k1 <= n_events1 NewCode st r ->
  resume_ok NewCode st r k1 None = true
  /\ forall k2, k2 <= n_events2 NewCode st r k1 -> resume_ok NewCode st r k1 (Some k2) = true.
Proof. exact ref_family_resume. Qed.
Print Assumptions C05_resume_eq_uninterrupted_bounded.

(* General form, store level, any pipeline and any user functions: if the uninterrupted run ends with the store F,
   then a resumed run (cleanup=False, no request) started from ANY store rs all of whose cells/values are cells/values
   of F ends – when it completes – with exactly the outputs of F.  That a crashed folder of the repaired protocol reads back
   as such a store is C05_every_crash_leaves_ok_folder / C05_ok_folder_reads_substore below. *)
Theorem C05_resume_eq_uninterrupted_store : forall body (c : ctx) user rs psF psR,
  (forall g f o, In g (x_p c) -> In f (x_p c) -> In o (fouts g) -> In o (fouts f) -> g = f) ->
  all_shapes user (x_inputs c) (x_p c) = Ok (x_shapes c) ->
  NoDup (flat_map fouts (concat (generations (x_p c)))) ->
  order_ok [] (generations (x_p c)) ->
  (forall g, In g (x_p c) -> In g (concat (generations (x_p c)))) ->
  (forall f, In f (x_p c) -> is_mapped f = true -> exists ms sm, fspec f = Some ms /\ shape_of c f = Ok sm) ->
  sized c rs ->
  map_run_sel body (x_p c) (x_inputs c) user None empty_store = ROk psF ->
  map_run_sel body (x_p c) (x_inputs c) user None rs = ROk psR ->
  sub_store c rs (p_store psF) ->
  forall f, In f (x_p c) -> same_outputs c (p_store psR) (p_store psF) f.
Proof. exact run_on_substore_same_store. Qed.
Print Assumptions C05_resume_eq_uninterrupted_store.

Example ex_order_ok_ref1 : order_ok [] (generations (r_funcs ref1)).
Proof.
  vm_compute generations. cbn [order_ok app].
  repeat split; intros h Hh g Hg o Ho Hq; cbn in Hh, Hg;
    repeat match goal with H : _ \/ _ |- _ => destruct H | H : False |- _ => destruct H end; subst; cbn in Ho, Hq;
    repeat match goal with H : _ \/ _ |- _ => destruct H | H : False |- _ => destruct H end; subst; try discriminate.
Qed.

(* a non-trivial instance of the hypotheses: reference pipeline ref3, rs = the store a run restricted to i = 0 left *)
Definition ref3_ctx : ctx :=
  {| x_p := r_funcs ref3; x_inputs := r_inputs ref3;
     x_shapes := match all_shapes (r_user ref3) (r_inputs ref3) (r_funcs ref3) with Ok sh => sh | Err _ => [] end |}.
Definition ref3_part_store : rstore :=
  match map_run_sel sym_body (r_funcs ref3) (r_inputs ref3) (r_user ref3) (Some [(s "i", FInt 0%Z)]) empty_store with
  | ROk ps => p_store ps | RErr _ _ => empty_store end.
Definition ref3_full : rstore :=
  match map_run_sel sym_body (r_funcs ref3) (r_inputs ref3) (r_user ref3) None empty_store with
  | ROk ps => p_store ps | RErr _ _ => empty_store end.
Example ex_ref3_vals_same : st_val ref3_part_store = st_val ref3_full.
Proof. vm_compute. reflexivity. Qed.
Example ex_sub_store : sub_store ref3_ctx ref3_part_store ref3_full.
Proof.
  split.
  - intros f sm Hf Hm Hs. cbn in Hf. destruct Hf as [<-|[<-|[<-|[]]]]; cbn in Hm; try discriminate;
      vm_compute in Hs; injection Hs as <-; cbn zeta; intros j x Hj Hx; cbn in Hj;
      (assert (j = 0) by lia); subst j; vm_compute in Hx;
      (destruct x as [|[|x]]; [right; vm_compute; reflexivity | left; vm_compute; reflexivity | lia]).
  - intros o r H. rewrite <- ex_ref3_vals_same. exact H.
Qed.
Example ex_ref3_runs : exists psF psR,
  map_run_sel sym_body (x_p ref3_ctx) (x_inputs ref3_ctx) [] None empty_store = ROk psF
  /\ map_run_sel sym_body (x_p ref3_ctx) (x_inputs ref3_ctx) [] None ref3_part_store = ROk psR
  /\ p_store psF = ref3_full /\ calls_of (p_tr psR) = [(s "f", Some 1); (s "m", Some 1)].
Proof. do 2 eexists. split; [vm_compute; reflexivity|]. split; [vm_compute; reflexivity|]. split; vm_compute; reflexivity. Qed.

(* Completion and Result.output are proved below (C05_resume_completes_with_uninterrupted_result). *)

(* resume_eq_uninterrupted, general, WITH completion and Result.output (C01 hypotheses + order conditions):
   a resumed run (cleanup=False, no request) on any store that holds, where it holds something, denoted values,
   completes, returns the denoted arrays and ends with the full denoted store.  By C06_map_run_sel_is_map_run the
   denoted arrays are exactly what the uninterrupted run returns and stores. *)
Theorem C05_resume_completes_with_uninterrupted_result : forall body user p inputs D rs,
  body_arity body ->
  request_ok p inputs = true -> denote_run body p inputs user = Ok D -> pipeline_order_ok p = true ->
  (forall g, In g p -> fsub body p inputs D rs g) ->
  exists ps, map_run_sel body p inputs user None rs = ROk ps
    /\ (forall f, In f p -> ffull body p inputs D (p_store ps) f)
    /\ (forall f o, In f p -> In o (fouts f) -> dict_get (p_out ps) o = dict_get (d_out D) o)
    /\ Forall (dump_den body p inputs D) (p_tr ps).   (* and every value it dumps is the denoted one *)
Proof. exact full_run_on_substore_denotes. Qed.
Print Assumptions C05_resume_completes_with_uninterrupted_result.

(* (b) at the level of the run's trace: every value the uninterrupted run dumps is the denoted one (last conjunct above,
   with rs = empty_store), and ANY store built from the empty one by such dumps – any prefix or subset of the dumps of
   the uninterrupted run – is a sub-store (fsub). *)
Theorem C05_replay_of_denoted_dumps_is_substore : forall body p inputs D,
  (forall g f o, In g p -> In f p -> In o (fouts g) -> In o (fouts f) -> g = f) ->
  (forall f, In f p -> NoDup (fouts f)) ->
  forall size_of : str -> nat,
  (forall f sh mask o, In f p -> is_mapped f = true ->
     shape_of {| x_p := p; x_inputs := inputs; x_shapes := d_shapes D |} f = Ok (sh, mask) -> In o (fouts f) ->
     size_of o = prod (ext_of mask sh)) ->
  forall tr, Forall (dump_den body p inputs D) tr ->
  forall g, In g p -> fsub body p inputs D (fold_left (apply_dump size_of) tr empty_store) g.
Proof. exact replay_sub. Qed.
Print Assumptions C05_replay_of_denoted_dumps_is_substore.

(* THE FILE-SYSTEM LINK (Proofs/CrashLink.v).  folder_ok body p inputs D s0 is the invariant of the run folder:
     - every file with a real (non-temporary) name is COMPLETE, and
         outputs/<o>/__i__.pickle      holds a value v with dump_den (ADump o i v)   (the denoted element),
         outputs/<o>.cloudpickle       holds the denoted value of o,
         outputs/<o>/dict_array.cloudpickle holds a dict whose present cells hold denoted elements;
     - whenever run_info.json exists, so do inputs/<n>.cloudpickle for every input and defaults/defaults.cloudpickle.
   Hypotheses: C01's (body_arity, request_ok, defined denotation D), the decidable order conditions
   pipeline_order_ok, and paths_ok: distinct files have distinct names (decidable; true for identifiers).
   (1) ONE RUN of the repaired protocol (any storage, cleanup or not) on a folder that satisfies the invariant –
       e.g. the empty one – completes with the denoted outputs, and EVERY crash point k of it leaves a folder that
       satisfies the invariant again. *)
Theorem C05_every_crash_leaves_ok_folder : forall body user p inputs D,
  body_arity body ->
  request_ok p inputs = true -> denote_run body p inputs user = Ok D -> pipeline_order_ok p = true ->
  paths_ok {| x_p := p; x_inputs := inputs; x_shapes := d_shapes D |} (map fst inputs) = true ->
  forall st cleanup s0,
  folder_ok body p inputs D s0 ->
  let r := run_fs body NewCode st p inputs user cleanup s0 in
  (o_result r = Ok (flat_map (den_entries D) (concat (generations p)))
   /\ forall f o, In f p -> In o (fouts f) ->
        dict_get (flat_map (den_entries D) (concat (generations p))) o = dict_get (d_out D) o)
  /\ forall k, folder_ok body p inputs D (crash (o_events r) k s0).
Proof. exact run_on_ok_folder. Qed.
Print Assumptions C05_every_crash_leaves_ok_folder.

Theorem C05_empty_folder_ok : forall body user p inputs D,
  request_ok p inputs = true -> denote_run body p inputs user = Ok D -> pipeline_order_ok p = true ->
  paths_ok {| x_p := p; x_inputs := inputs; x_shapes := d_shapes D |} (map fst inputs) = true ->
  folder_ok body p inputs D empty_fs.
Proof. exact folder_ok_empty. Qed.
Print Assumptions C05_empty_folder_ok.

(* (2) READING such a folder back: the RunInfo gate (_compare_to_previous_run_info) lets it pass, and init_store
       yields a sub-store of the denoted store (so C05_resume_completes_with_uninterrupted_result applies). *)
Theorem C05_ok_folder_reads_substore : forall body user p inputs D,
  request_ok p inputs = true -> denote_run body p inputs user = Ok D -> pipeline_order_ok p = true ->
  paths_ok {| x_p := p; x_inputs := inputs; x_shapes := d_shapes D |} (map fst inputs) = true ->
  forall st (x : em), folder_ok body p inputs D (fst x) ->
  (exists x1, gate NewCode (map fst inputs) x = Ok x1)
  /\ exists y rs, init_store NewCode st {| x_p := p; x_inputs := inputs; x_shapes := d_shapes D |} x = Ok (y, rs)
                  /\ forall g, In g p -> fsub body p inputs D rs g.
Proof. exact ok_folder_reads_substore. Qed.
Print Assumptions C05_ok_folder_reads_substore.

(* (3) RESUME = UNINTERRUPTED, GENERAL: every pipeline, every storage (file_array, dict, shared_memory_dict), every
       list ks of crash points – the first run on a fresh folder is killed after k1 events, the resumed run after k2
       events, ... (crashes, by induction over ks) – then a resumed run returns EXACTLY what the uninterrupted run
       returns, which is the denoted array for every output. *)
Theorem C05_resume_eq_uninterrupted : forall body user p inputs D,
  body_arity body ->
  request_ok p inputs = true -> denote_run body p inputs user = Ok D -> pipeline_order_ok p = true ->
  paths_ok {| x_p := p; x_inputs := inputs; x_shapes := d_shapes D |} (map fst inputs) = true ->
  forall st ks,
  o_result (run_fs body NewCode st p inputs user false (crashes body st p inputs user empty_fs true ks))
  = o_result (run_fs body NewCode st p inputs user true empty_fs)
  /\ exists outs, o_result (run_fs body NewCode st p inputs user true empty_fs) = Ok outs
       /\ forall f o, In f p -> In o (fouts f) -> dict_get outs o = dict_get (d_out D) o.
Proof. exact resume_eq_uninterrupted. Qed.
Print Assumptions C05_resume_eq_uninterrupted.

(* the reference pipelines as an INSTANCE of the general theorem (hypotheses decided by vm_compute): every crash
   point k1, every k2, without the bound of C05_resume_eq_uninterrupted_bounded, and for all three storages *)
Theorem C05_resume_eq_uninterrupted_ref : forall r st k1, In r ref_family ->
  resume_ok NewCode st r k1 None = true /\ forall k2, resume_ok NewCode st r k1 (Some k2) = true.
Proof. exact ref_family_resume_unbounded. Qed.
Print Assumptions C05_resume_eq_uninterrupted_ref.

Example ex_resume_hyps : forall r, In r ref_family ->
  request_ok (r_funcs r) (r_inputs r) = true /\ pipeline_order_ok (r_funcs r) = true
  /\ exists D, denote_run sym_body (r_funcs r) (r_inputs r) (r_user r) = Ok D
       /\ paths_ok {| x_p := r_funcs r; x_inputs := r_inputs r; x_shapes := d_shapes D |} (map fst (r_inputs r)) = true.
Proof.
  intros r [<-|[<-|[<-|[]]]]; (split; [vm_compute; reflexivity|]); (split; [vm_compute; reflexivity|]);
    (destruct (denote_run sym_body _ _ _) as [D|] eqn:E; [|vm_compute in E; discriminate]);
    exists D; (split; [reflexivity|]); vm_compute in E; injection E as <-; vm_compute; reflexivity.
Qed.

(* ---------------------------------------------------------------- resume_refuted_inplace *)
(* What the code did before the repair (in-place writes, run_info.json first, DictArray.load keyed on the folder):
   crash points after which the resumed run fails although the uninterrupted run succeeds. *)
Theorem C05_resume_refuted_inplace :
  exists st k, is_ok (o_result (ref_full OldCode st ref1)) = true
               /\ is_ok (o_result (ref_run OldCode st ref1 false (crash (o_events (ref_full OldCode st ref1)) k empty_fs))) = false.
Proof. exists FileSt, 17. vm_compute. split; reflexivity. Qed.
Print Assumptions C05_resume_refuted_inplace.

Theorem C05_old_code_failure_classes :
  o_result (ref_run OldCode FileSt ref1 false (crash (o_events (ref_full OldCode FileSt ref1)) 3 empty_fs)) = Err ValueError
  /\ o_result (ref_run OldCode FileSt ref1 false (crash (o_events (ref_full OldCode FileSt ref1)) 6 empty_fs)) = Err ValueError
  /\ o_result (ref_run OldCode FileSt ref1 false (crash (o_events (ref_full OldCode FileSt ref1)) 17 empty_fs)) = Err OtherError
  /\ o_result (ref_run OldCode DictSt ref1 false (crash (o_events (ref_full OldCode DictSt ref1)) 21 empty_fs)) = Err FileNotFoundError
  /\ is_ok (o_result (ref_full OldCode FileSt ref1)) = true /\ is_ok (o_result (ref_full OldCode DictSt ref1)) = true.
Proof. exact old_code_refuted. Qed.
Print Assumptions C05_old_code_failure_classes.
