(* C05 - An interrupted map resumes to the uninterrupted result (statements only). *)
From Verif Require Import Base.Prelude Model.CrashFS.

Theorem C05_placeholder : forall n : nat, n = n.
Proof. intros n. exact eq_refl. Qed.
Print Assumptions C05_placeholder.
