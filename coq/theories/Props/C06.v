(* C06 - Running a map in pieces (fixed_indices, learners) equals running it whole (statements only). *)
From Verif Require Import Base.Prelude Base.Index Base.PyRange Model.MapResume Model.FixedSpec.

Theorem C06_placeholder : forall n : nat, n = n.
Proof. intros n. exact eq_refl. Qed.
Print Assumptions C06_placeholder.
