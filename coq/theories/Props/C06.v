(* C06 - Running a map in pieces (fixed_indices, learners) equals running it whole.
   Statements only; every proof is `exact <lemma of Proofs/>`.  The model is Model/MapResume.v (mirror of
   _run.py/_prepare.py/adaptive.py), the declarative notions are in Model/FixedSpec.v. *)
From Verif Require Import Base.Prelude Base.StrUtil Base.Index Base.NdArr Base.PyRange
  Model.MapSpec Model.MapSpecSpec Model.MapRun Model.SymBody.
From Verif Require Import Model.MapDenote Proofs.MapRunFacts.
From Verif Require Import Proofs.IndexFacts Proofs.PyRangeFacts Proofs.MapResumeFacts Proofs.MapValuesFacts Proofs.MapResumeDenote Proofs.FixedSpecFacts Proofs.PartSim Proofs.PartReads Proofs.PiecesCalls.
From Verif Require Import Model.MapResume Model.FixedSpec.

(* ---------------------------------------------------------------- Python slices / ints (Base/PyRange.v) *)
Theorem C06_fsel_indices_in_range : forall f n l, fsel_indices f n = Ok l -> forall x, In x l -> x < n.
Proof. exact fsel_indices_in_range. Qed.
Print Assumptions C06_fsel_indices_in_range.

Theorem C06_fsel_indices_NoDup : forall f n l, fsel_indices f n = Ok l -> NoDup l.
Proof. exact fsel_indices_NoDup. Qed.
Print Assumptions C06_fsel_indices_NoDup.

Theorem C06_full_slice_is_everything : forall n, fsel_indices full_slice n = Ok (seq 0 n).
Proof. exact full_slice_indices. Qed.
Print Assumptions C06_full_slice_is_everything.

(* ---------------------------------------------------------------- selected_is_product *)
(* The boolean mask that _mask_fixed_axes builds by NumPy assignment (zeros; select[key] = True; flat) is,
   in row-major order, exactly "the coordinate on every fixed external axis lies in the request". *)
Theorem C06_selected_is_product : forall (d : fixed) ms sh mask m,
  length sh = length (output_indices ms) ->
  mask_fixed_axes (Some d) ms sh mask = Ok (Some m) ->
  m = part_positions d (ext_of mask (output_indices ms)) (ext_of mask sh).
Proof. exact mask_fixed_axes_spec. Qed.
Print Assumptions C06_selected_is_product.

Definition ex_ms : mapspec :=
  {| ins := [{| aname := s "x"; axes := [Some (s "i")] |}]; outs := [{| aname := s "y"; axes := [Some (s "i")] |}] |}.
Example ex_selected :
  mask_fixed_axes (Some [(s "i", FSlice None None (Some (-2)%Z))]) ex_ms [5] [true]
  = Ok (Some [true; false; true; false; true]).
Proof. vm_compute. reflexivity. Qed.

(* ---------------------------------------------------------------- parts_cover_disjoint *)
(* If a family of requests partitions the product space of some axes (every point in exactly one part), then for
   every function: each external position lies in at least one part, and in exactly one part when the function
   carries all the partitioned axes.  (A function that carries only some of them sees overlapping parts; the
   existing/missing classification makes that harmless, see C06_pieces_eq_whole_func.) *)
Theorem C06_parts_cover_disjoint : forall (parts : list request) (axes : list (str * nat)) (names : list str) (ext : list nat),
  NoDup names ->
  (forall a n, In (a, n) axes -> 0 < n) ->
  length names = length ext ->
  (forall k a n, nth_error names k = Some a -> In (a, n) axes -> nth_error ext k = Some n) ->
  (forall d a, In d parts -> In a (map fst d) -> In a (map fst axes)) ->
  forall e, family_partitions parts axes = true -> in_bounds ext e = true ->
  1 <= containing parts names ext e
  /\ ((forall a, In a (map fst axes) -> In a names) -> containing parts names ext e = 1).
Proof. exact parts_cover_disjoint. Qed.
Print Assumptions C06_parts_cover_disjoint.

Example ex_family : family_partitions [[(s "i", FInt (-1)%Z)]; [(s "i", FSlice None (Some 2%Z) None)]] [(s "i", 3)] = true.
Proof. vm_compute. reflexivity. Qed.

(* ---------------------------------------------------------------- part_computes_exactly *)
(* One mapped function, arbitrary arguments and stores: a run with request fx computes exactly the elements
   that are selected and miss some output (in increasing order, each once), dumps them at their own position,
   loads the selected existing ones, and leaves every other cell as it was. *)
Theorem C06_part_computes_exactly_func : forall body f ms kw sh mask fx stores tr st existing,
  length stores = length (fouts f) ->
  submit_mapped body f ms kw sh mask fx stores tr = ROk (st, existing) ->
  exists fm, mask_fixed_axes fx ms sh mask = Ok fm /\
    let missing := filter (fun i => selb fm i && miss_any stores i) (seq 0 (prod (ext_of mask sh))) in
    existing = filter (fun i => selb fm i && negb (miss_any stores i)) (seq 0 (prod (ext_of mask sh)))
    /\ filled body f ms kw sh mask missing stores (m_stores st)
    /\ m_results st = map (fun i => (i, outs_at body f ms kw sh mask i)) missing
    /\ m_tr st = tr ++ flat_map (elem_trace body f ms kw sh mask) missing
    /\ calls_of (m_tr st) = calls_of tr ++ map (fun i => (fname f, Some i)) missing.
Proof. exact submit_mapped_exact. Qed.
Print Assumptions C06_part_computes_exactly_func.

(* Whole pipeline, any user functions: after a successful map(fixed_indices=fx, cleanup=False) on the store rs,
   (1) the calls are, function by function in execution order, exactly the selected missing elements
       (for a function without mapped inputs: one call unless its output is stored),
   (2) for every mapped function each output's mask is  before AND NOT (selected AND missing-before),
   (3) nothing else in the store is touched, (4) stored arrays keep their size. *)
Theorem C06_part_computes_exactly : forall body (c : ctx) fx rs user ps,
  sized c rs ->
  (forall g f o, In g (x_p c) -> In f (x_p c) -> In o (fouts g) -> In o (fouts f) -> g = f) ->
  all_shapes user (x_inputs c) (x_p c) = Ok (x_shapes c) ->
  NoDup (flat_map fouts (concat (generations (x_p c)))) ->
  map_run_sel body (x_p c) (x_inputs c) user fx rs = ROk ps ->
  calls_of (p_tr ps) = flat_map (calls_for c fx rs) (concat (generations (x_p c)))
  /\ (forall f, In f (concat (generations (x_p c))) -> is_mapped f = true -> masks_after c fx rs (p_store ps) f)
  /\ (forall o, ~ In o (flat_map fouts (concat (generations (x_p c)))) -> untouched rs (p_store ps) o)
  /\ sized c (p_store ps).
Proof.
  intros body c fx rs user ps H1 H2 H3 H4 H5.
  destruct (part_run_exact body c fx rs H1 H2 user ps H3 H4 H5) as [A B C D].
  exact (conj A (conj C (conj B D))).
Qed.
Print Assumptions C06_part_computes_exactly.

Definition ex_f : mfunc :=
  {| fname := s "f"; fouts := [s "y"]; fparams := [s "x"]; fbound := []; fdefaults := [];
     fspec := Some ex_ms; fint := []; fret := [] |}.
Definition ex_inputs : env := [(s "x", VA {| shp := [3]; dat := [s "a"; s "b"; s "c"] |})].
Definition ex_ctx : ctx := {| x_p := [ex_f]; x_inputs := ex_inputs; x_shapes := [(s "y", ([3], [true])); (s "x", ([3], [true]))] |}.
Example ex_part_run : exists ps,
  map_run_sel sym_body [ex_f] ex_inputs [] (Some [(s "i", FInt (-1)%Z)]) empty_store = ROk ps
  /\ calls_of (p_tr ps) = [(s "f", Some 2)]
  /\ all_shapes [] ex_inputs [ex_f] = Ok (x_shapes ex_ctx)
  /\ NoDup (flat_map fouts (concat (generations [ex_f]))).
Proof.
  eexists. split; [vm_compute; reflexivity|]. split; [vm_compute; reflexivity|]. split; [vm_compute; reflexivity|].
  vm_compute. constructor; [intros []|constructor].
Qed.

(* ---------------------------------------------------------------- pieces_eq_whole *)
(* One mapped function with fixed arguments: requests that together select every missing element, run one after
   the other in ANY order on the same stores, leave literally the stores of one full run; the elements called
   are those of the full run and none is called twice. *)
Theorem C06_pieces_eq_whole_func : forall body f ms kw sh mask reqs stores0 tr0 storesM trM stF exF trF,
  length stores0 = length (fouts f) -> all_len sh mask stores0 ->
  run_reqs body f ms kw sh mask reqs stores0 tr0 = ROk (storesM, trM) ->
  submit_mapped body f ms kw sh mask None stores0 trF = ROk (stF, exF) ->
  (forall x, x < prod (ext_of mask sh) -> miss_any stores0 x = true -> covered ms sh mask reqs x) ->
  storesM = m_stores stF
  /\ exists L LF, calls_of trM = calls_of tr0 ++ map (fun i => (fname f, Some i)) L
                  /\ calls_of (m_tr stF) = calls_of trF ++ map (fun i => (fname f, Some i)) LF
                  /\ NoDup L /\ NoDup LF /\ (forall x, In x L <-> In x LF).
Proof. exact pieces_eq_whole_func. Qed.
Print Assumptions C06_pieces_eq_whole_func.

Example ex_pieces : exists storesM trM stF exF,
  run_reqs sym_body ex_f ex_ms ex_inputs [3] [true]
           [Some [(s "i", FInt (-1)%Z)]; Some [(s "i", FSlice None (Some 2%Z) None)]] [repeat None 3] [] = ROk (storesM, trM)
  /\ submit_mapped sym_body ex_f ex_ms ex_inputs [3] [true] None [repeat None 3] [] = ROk (stF, exF)
  /\ storesM = m_stores stF.
Proof. do 4 eexists. split; [vm_compute; reflexivity|]. split; vm_compute; reflexivity. Qed.

(* Whole pipelines, any user functions: let F be the store of one uninterrupted full run.  A full run started on ANY
   sub-store rs of F (every stored cell / value of rs is a cell / value of F – e.g. what runs of parts left behind)
   ends, when it completes, with exactly the outputs of F in the store.  Together with
   C06_part_computes_exactly (which elements a part computes and stores) this is pieces_eq_whole at store level.
   Side conditions: unique output names, outputs of a generation are consumed only by later generations
   (order_ok; true of every pipeline pipefunc accepts), every function is in some generation. *)
Theorem C06_pieces_eq_whole_store : forall body (c : ctx) user rs psF psR,
  (forall g f o, In g (x_p c) -> In f (x_p c) -> In o (fouts g) -> In o (fouts f) -> g = f) ->
  all_shapes user (x_inputs c) (x_p c) = Ok (x_shapes c) ->
  NoDup (flat_map fouts (concat (generations (x_p c)))) ->
  order_ok [] (generations (x_p c)) ->
  (forall g, In g (x_p c) -> In g (concat (generations (x_p c)))) ->
  (forall f, In f (x_p c) -> is_mapped f = true -> exists ms sm, fspec f = Some ms /\ shape_of c f = Ok sm) ->
  sized c rs ->
  map_run_sel body (x_p c) (x_inputs c) user None empty_store = ROk psF ->
  map_run_sel body (x_p c) (x_inputs c) user None rs = ROk psR ->
  sub_store c rs (p_store psF) ->
  forall f, In f (x_p c) -> same_outputs c (p_store psR) (p_store psF) f.
Proof. exact run_on_substore_same_store. Qed.
Print Assumptions C06_pieces_eq_whole_store.

Definition ex2_g : mfunc :=
  {| fname := s "g"; fouts := [s "t"]; fparams := [s "y"]; fbound := []; fdefaults := [];
     fspec := None; fint := []; fret := [] |}.
Example ex_order_ok : order_ok [] (generations [ex_f; ex2_g]).
Proof.
  vm_compute generations. cbn [order_ok app].
  repeat split; intros h Hh g Hg o Ho Hq; cbn in Hh, Hg;
    repeat match goal with H : _ \/ _ |- _ => destruct H | H : False |- _ => destruct H end; subst; cbn in Ho, Hq;
    repeat match goal with H : _ \/ _ |- _ => destruct H | H : False |- _ => destruct H end; subst; try discriminate.
Qed.

(* ---------------------------------------------------------------- link to C01 and the denotation *)
(* LINK LEMMA.  Under C01's hypotheses (request_ok, defined denotation D, body_arity) and the decidable order
   conditions pipeline_order_ok (list in topological order, producers in earlier generations, every function in a
   generation – what pipefunc's sorted_functions / topological_generations give; evaluated on every generated request by
   the CLink cases), C01's model Model/MapRun.map_run and this property's model map_run_sel on the empty store without
   a request BOTH succeed, and both return / store the denoted arrays. *)
Theorem C06_map_run_sel_is_map_run : forall body user p inputs D,
  body_arity body ->
  request_ok p inputs = true -> denote_run body p inputs user = Ok D -> pipeline_order_ok p = true ->
  exists st ps,
    map_run body p inputs user = Ok st
    /\ map_run_sel body p inputs user None empty_store = ROk ps
    /\ map (fun x => (fst (fst x), snd (fst x))) (r_out st) = d_out D
    /\ map (fun x => (fst (fst x), snd x)) (r_out st) = d_out D
    /\ (forall f o, In f p -> In o (fouts f) -> dict_get (p_out ps) o = dict_get (d_out D) o)
    /\ (forall f, In f p -> ffull body p inputs D (p_store ps) f).
Proof. exact map_run_sel_is_map_run. Qed.
Print Assumptions C06_map_run_sel_is_map_run.

(* pieces_eq_whole against the DENOTATION, including completion and Result.output:
   whatever ran before (any parts, in any order, interrupted or not) – if the store holds, where it holds something,
   denoted values (fsub: every present cell of a mapped output is the value the denotation's call at that position
   returns, every present single output is the denoted value) – then the final full run COMPLETES, every output's
   Result.output is the denoted array, and the store is the full denoted store (ffull). *)
Theorem C06_full_run_on_substore_denotes : forall body user p inputs D rs,
  body_arity body ->
  request_ok p inputs = true -> denote_run body p inputs user = Ok D -> pipeline_order_ok p = true ->
  (forall g, In g p -> fsub body p inputs D rs g) ->
  exists ps, map_run_sel body p inputs user None rs = ROk ps
    /\ (forall f, In f p -> ffull body p inputs D (p_store ps) f)
    /\ (forall f o, In f p -> In o (fouts f) -> dict_get (p_out ps) o = dict_get (d_out D) o)
    /\ Forall (dump_den body p inputs D) (p_tr ps).   (* and every value it dumps is the denoted one *)
Proof. exact full_run_on_substore_denotes. Qed.
Print Assumptions C06_full_run_on_substore_denotes.

Example ex_denote_hyps :
  request_ok [ex_f; ex2_g] ex_inputs = true /\ is_ok (denote_run sym_body [ex_f; ex2_g] ex_inputs []) = true
  /\ pipeline_order_ok [ex_f; ex2_g] = true /\ body_arity sym_body.
Proof. split; [vm_compute; reflexivity|]. split; [vm_compute; reflexivity|]. split; [vm_compute; reflexivity | exact sym_body_arity]. Qed.

(* A VALID PART LEAVES A SUB-STORE (whole pipelines).  A run with a fixed_indices request that
   _validate_fixed_indices accepts – hence no fixed axis is reduced by any consumer – whose indices are also in range
   on the axes that only internal shapes carry (fixed_in_range; otherwise the run raises IndexError), on a pipeline
   whose MapSpecs spell every array with the same axis names (validate_consistent_axes), started on ANY sub-store of
   the denoted store: it COMPLETES, the store is again a sub-store of the denoted store, and every value it dumps is
   the denoted one.  The heart of the proof: a selected element reads, in the partially filled upstream arrays, only
   cells that the same request selects upstream (Proofs/PartReads.v: reads_hold, whole_reads_hold). *)
Theorem C06_part_leaves_substore : forall body user p inputs D fx rs,
  body_arity body ->
  request_ok p inputs = true -> denote_run body p inputs user = Ok D -> pipeline_order_ok p = true ->
  consistent_axes (arrayspecs p) ->
  validate_fixed (Some fx) inputs p = Ok tt -> fixed_in_range p (d_shapes D) fx = true ->
  (forall g, In g p -> fsub body p inputs D rs g) ->
  exists ps, map_run_sel body p inputs user (Some fx) rs = ROk ps
    /\ (forall g, In g p -> fsub body p inputs D (p_store ps) g)
    /\ Forall (dump_den body p inputs D) (p_tr ps)
    /\ (forall g o, In g p -> is_mapped g = false -> In o (fouts g) ->   (* outputs without mapped inputs are all stored *)
          dict_get (st_val (p_store ps)) o = Some (Ok (dval D o))).
Proof. exact part_from_substore. Qed.
Print Assumptions C06_part_leaves_substore.

(* PIECES_EQ_WHOLE, unconditional in the parts: ANY sequence of accepted requests (any order, overlapping or not,
   covering the index space or not), each run on the store the previous one left (parts_run), started on any
   sub-store of the denoted store (e.g. the empty one, fsub_empty): every part completes; the final full run
   completes; its Result.output is the denoted array for every output; the final store is the full denoted store;
   every value dumped on the way is the denoted one.  (That no element is computed twice is
   C06_part_computes_exactly: each run calls exactly the selected elements that are missing.) *)
Theorem C06_pieces_eq_whole : forall body user p inputs D fxs rs,
  body_arity body ->
  request_ok p inputs = true -> denote_run body p inputs user = Ok D -> pipeline_order_ok p = true ->
  consistent_axes (arrayspecs p) ->
  (forall fx, In fx fxs -> validate_fixed (Some fx) inputs p = Ok tt /\ fixed_in_range p (d_shapes D) fx = true) ->
  (forall g, In g p -> fsub body p inputs D rs g) ->
  exists rsN trs psF,
    parts_run body p inputs user fxs rs rsN trs
    /\ (forall g, In g p -> fsub body p inputs D rsN g)
    /\ Forall (Forall (dump_den body p inputs D)) trs
    /\ map_run_sel body p inputs user None rsN = ROk psF
    /\ (forall f, In f p -> ffull body p inputs D (p_store psF) f)
    /\ (forall f o, In f p -> In o (fouts f) -> dict_get (p_out psF) o = dict_get (d_out D) o)
    /\ Forall (dump_den body p inputs D) (p_tr psF).
Proof. exact pieces_eq_whole. Qed.
Print Assumptions C06_pieces_eq_whole.

(* the hypotheses are satisfiable: f: x[i] -> y[i] followed by h: y[i] -> z[i], requests i=0 and i=1: *)
Definition ex3_h : mfunc :=
  {| fname := s "h"; fouts := [s "z"]; fparams := [s "y"]; fbound := []; fdefaults := [];
     fspec := Some {| ins := [{| aname := s "y"; axes := [Some (s "i")] |}]; outs := [{| aname := s "z"; axes := [Some (s "i")] |}] |};
     fint := []; fret := [] |}.
(* ... and the CALL LOGS ARE DUPLICATE-FREE: over all the parts and the final full run no (function, element) is
   called twice (a run calls only what misses an output, what it computes is present afterwards, and what is present
   stays present).  Extra hypotheses: output names and function names are unique over the generations (decidable),
   stored arrays have the size of their index space (sized; trivially true for the empty store). *)
Theorem C06_pieces_calls_duplicate_free : forall body user p inputs D fxs rs,
  body_arity body ->
  request_ok p inputs = true -> denote_run body p inputs user = Ok D -> pipeline_order_ok p = true ->
  consistent_axes (arrayspecs p) ->
  NoDup (flat_map fouts (concat (generations p))) -> NoDup (map fname (concat (generations p))) ->
  (forall fx, In fx fxs -> validate_fixed (Some fx) inputs p = Ok tt /\ fixed_in_range p (d_shapes D) fx = true) ->
  sized {| x_p := p; x_inputs := inputs; x_shapes := d_shapes D |} rs ->
  (forall g, In g p -> fsub body p inputs D rs g) ->
  exists rsN trs psF,
    parts_run body p inputs user fxs rs rsN trs
    /\ map_run_sel body p inputs user None rsN = ROk psF
    /\ NoDup (concat (map calls_of (trs ++ [p_tr psF]))).
Proof. exact pieces_calls_duplicate_free. Qed.
Print Assumptions C06_pieces_calls_duplicate_free.

Example ex_calls_hyps :
  NoDup (flat_map fouts (concat (generations [ex_f; ex3_h]))) /\ NoDup (map fname (concat (generations [ex_f; ex3_h])))
  /\ forall c, sized c empty_store.
Proof.
  split; [vm_compute; repeat constructor; cbn; intuition discriminate|].
  split; [vm_compute; repeat constructor; cbn; intuition discriminate|].
  intros c f sm o st _ _ _ _ H. discriminate H.
Qed.

Theorem C06_empty_store_is_substore : forall body p inputs D g, fsub body p inputs D empty_store g.
Proof. exact fsub_empty. Qed.
Print Assumptions C06_empty_store_is_substore.

Example ex_part_hyps : exists D,
  denote_run sym_body [ex_f; ex3_h] ex_inputs [] = Ok D
  /\ request_ok [ex_f; ex3_h] ex_inputs = true /\ pipeline_order_ok [ex_f; ex3_h] = true
  /\ consistent_axes (arrayspecs [ex_f; ex3_h])
  /\ forall fx, In fx [[(s "i", FInt 0%Z)]; [(s "i", FSlice (Some 1%Z) None None)]] ->
       validate_fixed (Some fx) ex_inputs [ex_f; ex3_h] = Ok tt /\ fixed_in_range [ex_f; ex3_h] (d_shapes D) fx = true.
Proof.
  destruct (denote_run sym_body [ex_f; ex3_h] ex_inputs []) as [D|] eqn:E; [|vm_compute in E; discriminate].
  exists D. split; [reflexivity|]. split; [vm_compute; reflexivity|]. split; [vm_compute; reflexivity|]. split.
  - intros sp1 sp2 k x y H1 H2 _ K1 K2. cbn in H1, H2.
    destruct H1 as [<-|[<-|[<-|[<-|[]]]]], H2 as [<-|[<-|[<-|[<-|[]]]]]; destruct k as [|[|k]]; cbn in K1, K2; congruence.
  - vm_compute in E. injection E as <-. intros fx [<-|[<-|[]]]; split; vm_compute; reflexivity.
Qed.

(* ---------------------------------------------------------------- final_run_computes_nothing *)
Theorem C06_final_run_computes_nothing_func : forall body f ms kw sh mask stores tr st existing,
  length stores = length (fouts f) ->
  (forall x, x < prod (ext_of mask sh) -> miss_any stores x = false) ->
  submit_mapped body f ms kw sh mask None stores tr = ROk (st, existing) ->
  m_stores st = stores /\ m_tr st = tr /\ existing = seq 0 (prod (ext_of mask sh)).
Proof. exact submit_mapped_complete. Qed.
Print Assumptions C06_final_run_computes_nothing_func.

(* Whole pipeline: a full run on a store in which every element of every output is present calls no user
   function and leaves the store exactly as it is. *)
Theorem C06_final_run_computes_nothing : forall body p inputs user rs ps,
  (forall shapes, all_shapes user inputs p = Ok shapes ->
                  complete {| x_p := p; x_inputs := inputs; x_shapes := shapes |} rs) ->
  map_run_sel body p inputs user None rs = ROk ps ->
  p_store ps = rs /\ calls_of (p_tr ps) = [].
Proof. exact full_run_on_complete. Qed.
Print Assumptions C06_final_run_computes_nothing.

Example ex_final : exists ps1 ps2,
  map_run_sel sym_body [ex_f] ex_inputs [] None empty_store = ROk ps1
  /\ map_run_sel sym_body [ex_f] ex_inputs [] None (p_store ps1) = ROk ps2
  /\ p_store ps2 = p_store ps1 /\ calls_of (p_tr ps2) = [].
Proof. do 2 eexists. split; [vm_compute; reflexivity|]. split; [vm_compute; reflexivity|]. split; vm_compute; reflexivity. Qed.

(* ---------------------------------------------------------------- bad_request_rejected *)
(* A request that _validate_fixed_indices refuses is refused before any user function is called. *)
Theorem C06_bad_request_rejected_before_any_call : forall body p inputs user fx rs e,
  validate_fixed fx inputs p = Err e -> map_run_sel body p inputs user fx rs = RErr e [].
Proof. exact rejected_before_any_call. Qed.
Print Assumptions C06_bad_request_rejected_before_any_call.

(* an axis that no MapSpec of the pipeline writes (declarative: FixedSpec.axis_known) *)
Theorem C06_unknown_axis_rejected : forall d inputs p a,
  In a (map fst d) -> axis_known p a = false -> exists e, validate_fixed (Some d) inputs p = Err e.
Proof. exact unknown_axis_rejected. Qed.
Print Assumptions C06_unknown_axis_rejected.

(* partial: stated with the model's reduced_axes (mirror of _reduced_axes) instead of FixedSpec.axis_reduced;
   the two agree when every array is spelled with the same axis names in all MapSpecs (not proved) *)
Theorem C06_reduced_axis_rejected_partial : forall d inputs p a,
  In a (map fst d) -> In a (reduced_axes p) -> exists e, validate_fixed (Some d) inputs p = Err e.
Proof. exact reduced_axis_rejected. Qed.
Print Assumptions C06_reduced_axis_rejected_partial.

(* partial: the axis is located through the model's mapspec_axes (same remark) *)
Theorem C06_out_of_range_rejected_partial : forall d inputs p name axs k a sel arr n e,
  In (name, axs) (mapspec_axes (specs_of p)) -> nth_error axs k = Some (Some a) ->
  dict_get d a = Some sel -> dict_get inputs name = Some (VA arr) -> nth_error (shp arr) k = Some n ->
  fsel_indices sel n = Err e ->
  exists e', validate_fixed (Some d) inputs p = Err e'.
Proof. exact out_of_range_rejected. Qed.
Print Assumptions C06_out_of_range_rejected_partial.

(* FULL declarative versions under consistent axis names (every array is spelled with the same axis name at the same
   position in all MapSpecs – what validate_consistent_axes enforces at construction): *)
Theorem C06_reduced_axis_rejected : forall p, consistent_axes (arrayspecs p) ->
  forall d inputs a, In a (map fst d) -> axis_reduced p a = true -> exists e, validate_fixed (Some d) inputs p = Err e.
Proof. exact reduced_axis_rejected_decl. Qed.
Print Assumptions C06_reduced_axis_rejected.

Theorem C06_out_of_range_rejected : forall p, consistent_axes (arrayspecs p) ->
  forall d inputs a name k sel arr n e,
  In (name, k) (carriers_of p a) -> dict_get d a = Some sel ->
  dict_get inputs name = Some (VA arr) -> nth_error (shp arr) k = Some n -> fsel_indices sel n = Err e ->
  exists e', validate_fixed (Some d) inputs p = Err e'.
Proof. exact out_of_range_rejected_decl. Qed.
Print Assumptions C06_out_of_range_rejected.

(* bad_request_rejected: a request that the declarative classification of Model/FixedSpec.v calls Rejected (unknown
   axis, reduced axis, or index out of range on an axis of a supplied input) is refused by _validate_fixed_indices –
   and therefore (C06_bad_request_rejected_before_any_call) before any user function is called *)
Theorem C06_bad_request_rejected : forall p, consistent_axes (arrayspecs p) ->
  forall inputs (d : fixed), NoDup (map fst d) -> NoDup (map fst inputs) ->
  request_status p inputs (init_shapes inputs) d = Rejected ->
  exists e, validate_fixed (Some d) inputs p = Err e.
Proof. exact rejected_status_rejected. Qed.
Print Assumptions C06_bad_request_rejected.

(* the hypothesis in decidable form (evaluated on every generated request by the CLink cases of Corr/Run_C06.v) *)
Theorem C06_consistent_axes_decidable : forall arrs, consistent_axesb arrs = true -> consistent_axes arrs.
Proof. exact consistent_axesb_ok. Qed.
Print Assumptions C06_consistent_axes_decidable.

Example ex_consistent : consistent_axes (arrayspecs [ex_f; ex2_g]).
Proof.
  intros sp1 sp2 k x y H1 H2 _ K1 K2. cbn in H1, H2.
  destruct H1 as [<-|[<-|[]]], H2 as [<-|[<-|[]]]; destruct k as [|[|k]]; cbn in K1, K2; congruence.
Qed.
Example ex_rejected_status :
  request_status [ex_f; ex2_g] ex_inputs (init_shapes ex_inputs) [(s "i", FInt 0%Z)] = Rejected   (* i is reduced by g *)
  /\ request_status [ex_f] ex_inputs (init_shapes ex_inputs) [(s "i", FInt 7%Z)] = Rejected.
Proof. split; vm_compute; reflexivity. Qed.

Example ex_rejected :
  map_run_sel sym_body [ex_f] ex_inputs [] (Some [(s "i", FInt 3%Z)]) empty_store = RErr IndexError []
  /\ map_run_sel sym_body [ex_f] ex_inputs [] (Some [(s "zz", FInt 0%Z)]) empty_store = RErr ValueError [].
Proof. split; vm_compute; reflexivity. Qed.

(* ---------------------------------------------------------------- learners_eq_map *)
(* One mapped function with fixed arguments: running the points of a learner's sequence (the selected indices, in
   any order, each point = "skip when every output has the index, else compute with force_dump") gives the stores
   of the map run with the same request and calls the same elements, once each. *)
Theorem C06_learners_eq_map_func : forall body f ms kw sh mask fx L stores tr stL stM exM fm,
  length stores = length (fouts f) -> all_len sh mask stores ->
  mask_fixed_axes fx ms sh mask = Ok fm ->
  NoDup L -> (forall x, In x L <-> (x < prod (ext_of mask sh) /\ selb fm x = true)) ->
  learner_fold body f ms kw sh mask L {| m_stores := stores; m_results := []; m_tr := tr |} = ROk stL ->
  submit_mapped body f ms kw sh mask fx stores tr = ROk (stM, exM) ->
  m_stores stL = m_stores stM
  /\ exists CL CM, calls_of (m_tr stL) = calls_of tr ++ map (fun i => (fname f, Some i)) CL
                   /\ calls_of (m_tr stM) = calls_of tr ++ map (fun i => (fname f, Some i)) CM
                   /\ NoDup CL /\ NoDup CM /\ (forall x, In x CL <-> In x CM).
Proof. exact learner_eq_submit. Qed.
Print Assumptions C06_learners_eq_map_func.

Example ex_learner : exists stL stM exM,
  learner_fold sym_body ex_f ex_ms ex_inputs [3] [true] [2; 0; 1] {| m_stores := [repeat None 3]; m_results := []; m_tr := [] |} = ROk stL
  /\ submit_mapped sym_body ex_f ex_ms ex_inputs [3] [true] None [repeat None 3] [] = ROk (stM, exM)
  /\ m_stores stL = m_stores stM.
Proof. do 3 eexists. split; [vm_compute; reflexivity|]. split; vm_compute; reflexivity. Qed.

(* the point of a learner in the pipeline model (learner_step: kwargs read off the current store) is learner_elem *)
Theorem C06_learner_step_is_elem : forall body c f ms sm i ls ls',
  fspec f = Some ms -> shape_of c f = Ok sm ->
  learner_step body c f (Some i) ls = ROk ls' ->
  let stores := stores_of (ls_store ls) f (prod (ext_of (snd sm) (fst sm))) in
  (forallb (fun st => has_index st i) stores = true /\ ls' = ls)
  \/ exists kw st,
       func_kwargs_sel c (ls_store ls) f = Ok kw
       /\ learner_elem body f ms kw (fst sm) (snd sm) {| m_stores := stores; m_results := []; m_tr := ls_tr ls |} i = ROk st
       /\ ls_store ls' = put_stores (ls_store ls) f (m_stores st) /\ ls_tr ls' = m_tr st.
Proof. exact learner_step_is_elem. Qed.
Print Assumptions C06_learner_step_is_elem.

(* The sequence the learners used before the repair (`range(prod(shape))` over the FULL shape): with an internal
   axis it contains indices beyond the external space, and such an index is computed and dumped at the position of
   an element that was already computed (x[i] -> y[i, n0], 3 x 2: index 3 lands on element 0). *)
Theorem C06_learner_sequence_full_shape_refuted :
  exists sh mask i, i < prod sh /\ prod (ext_of mask sh) <= i /\ ravel (ext_of mask sh) (unravel (ext_of mask sh) i) < prod (ext_of mask sh).
Proof. exists [3; 2], [true; false], 3. vm_compute. repeat split; repeat constructor. Qed.
Print Assumptions C06_learner_sequence_full_shape_refuted.
