(* C07 - Every storage backend behaves as a masked n-d object array.
   Only statements here; every proof is `exact <lemma>` into Proofs/.

   Vocabulary (Base/PySlice.v, Model/Store.v, Model/StoreSpec.v):
     geom (external shape, internal shape, shape_mask), geom_ok (consistent, all sizes >= 1), full_shape
     op := Dump key v | Get key | ToArray | Mask | MaskLinear | Has i | GetIdx i | PersistReopen
     stepF / stepD   line-by-line models of FileArray / DictArray (= SharedMemoryDictArray), started from []
     stepM miss      the reference: a masked n-d array of the full shape (NumPy semantics), started from `absent`
                     (miss = exception class of get_from_index on a missing element, not fixed by the property)
     valid_ops       dumped values have the internal shape, linear indices are < size
     written ops None e   the value dumped last to external position e by ops (None: never)
     bad_key sizes key    wrong rank, or some int component outside [-n, n) of its axis *)
From Verif Require Import Base.Prelude Base.Index Base.PySlice Model.Store Model.StoreSpec Model.StoreLegacy Corr.Run_C07
  Proofs.PySliceFacts Proofs.StoreFileFacts Proofs.StoreDictFacts Proofs.StoreFacts Proofs.StoreLegacyFacts
  Proofs.C07Facts.

(* ---- one step: under the representation invariant, a step of the backend is a step of the reference on the
        abstraction, and the invariant is kept ---- *)
Theorem C07_file_refines : forall (E : Type) (g : geom), geom_ok g = true ->
  forall (s : stF E) (o : op E), invF E g s -> valid_op E g o = true ->
  stepM E FileNotFoundError g (absF E g s) o = (absF E g (fst (stepF E g s o)), snd (stepF E g s o))
  /\ invF E g (fst (stepF E g s o)).
Proof. exact stepF_refines. Qed.
Print Assumptions C07_file_refines.

Theorem C07_dict_refines : forall (E : Type) (g : geom), geom_ok g = true ->
  forall (d : stD E) (o : op E), invD E g d -> valid_op E g o = true ->
  stepM E KeyError g (absD E g d) o = (absD E g (fst (stepD E g d o)), snd (stepD E g d o))
  /\ invD E g (fst (stepD E g d o)).
Proof. exact stepD_refines. Qed.
Print Assumptions C07_dict_refines.

(* ---- every operation sequence: the outputs of the backend are the outputs of the reference ---- *)
Theorem C07_file_refines_seq : forall (E : Type) (g : geom), geom_ok g = true ->
  forall ops : list (op E), valid_ops E g ops = true ->
  run_ops E (stepF E g) [] ops = run_ops E (stepM E FileNotFoundError g) (absent E g) ops.
Proof. exact file_refines_seq. Qed.
Print Assumptions C07_file_refines_seq.

Theorem C07_dict_refines_seq : forall (E : Type) (g : geom), geom_ok g = true ->
  forall ops : list (op E), valid_ops E g ops = true ->
  run_ops E (stepD E g) [] ops = run_ops E (stepM E KeyError g) (absent E g) ops.
Proof. exact dict_refines_seq. Qed.
Print Assumptions C07_dict_refines_seq.

(* ---- all backends agree on every sequence (up to the exception class of get_from_index on a missing element) ---- *)
Theorem C07_backends_agree : forall (E : Type) (g : geom), geom_ok g = true ->
  forall ops : list (op E), valid_ops E g ops = true ->
  Forall2 (out_agree E FileNotFoundError KeyError) (run_ops E (stepF E g) [] ops) (run_ops E (stepD E g) [] ops).
Proof. exact backends_agree. Qed.
Print Assumptions C07_backends_agree.

(* ---- what any key (ints, negative ints, slices) reads after any history: the selected cells of the last written
        values, masked where nothing was written ---- *)
Theorem C07_get_after_history_file : forall (E : Type) (g : geom), geom_ok g = true ->
  forall (ops : list (op E)) (key : list kitem), valid_ops E g ops = true ->
  snd (stepF E g (final E (stepF E g) [] ops) (Get key))
  = match getL E g (written E g ops None) key with Ok r => r | Err e => OErr e end.
Proof. exact get_after_history_file. Qed.
Print Assumptions C07_get_after_history_file.

Theorem C07_get_after_history_dict : forall (E : Type) (g : geom), geom_ok g = true ->
  forall (ops : list (op E)) (key : list kitem), valid_ops E g ops = true ->
  snd (stepD E g (final E (stepD E g) [] ops) (Get key))
  = match getL E g (written E g ops None) key with Ok r => r | Err e => OErr e end.
Proof. exact get_after_history_dict. Qed.
Print Assumptions C07_get_after_history_dict.

(* ---- written elements read back equal ---- *)
Theorem C07_written_reads_back : forall (E : Type) (g : geom), geom_ok g = true ->
  forall (ops : list (op E)) (p : list nat) (v : sval E) (x : E),
  valid_ops E g ops = true -> in_bounds (full_shape g) p = true ->
  written E g ops None (ext_of (g_mask g) p) = Some v ->
  nth_error v (ravel (g_int g) (int_of (g_mask g) p)) = Some x ->
  snd (stepF E g (final E (stepF E g) [] ops) (Get (int_key p))) = OArr [] [Val x]
  /\ snd (stepD E g (final E (stepD E g) [] ops) (Get (int_key p))) = OArr [] [Val x].
Proof. exact written_reads_back. Qed.
Print Assumptions C07_written_reads_back.

(* (the element hypothesis above is never vacuous: a written value has an element at every internal position) *)
Theorem C07_written_has_element : forall (E : Type) (g : geom), geom_ok g = true ->
  forall (ops : list (op E)) (p : list nat) (v : sval E),
  valid_ops E g ops = true -> in_bounds (full_shape g) p = true ->
  written E g ops None (ext_of (g_mask g) p) = Some v ->
  exists x : E, nth_error v (ravel (g_int g) (int_of (g_mask g) p)) = Some x.
Proof. exact written_has_element. Qed.
Print Assumptions C07_written_has_element.

(* ---- unwritten elements are masked ---- *)
Theorem C07_unwritten_masked : forall (E : Type) (g : geom), geom_ok g = true ->
  forall (ops : list (op E)) (p : list nat),
  valid_ops E g ops = true -> in_bounds (full_shape g) p = true ->
  written E g ops None (ext_of (g_mask g) p) = None ->
  snd (stepF E g (final E (stepF E g) [] ops) (Get (int_key p))) = OArr [] [Masked]
  /\ snd (stepD E g (final E (stepD E g) [] ops) (Get (int_key p))) = OArr [] [Masked].
Proof. exact unwritten_masked. Qed.
Print Assumptions C07_unwritten_masked.

(* ---- IndexError exactly for a wrong rank or an int component outside [-n, n), in every reachable state ---- *)
Theorem C07_key_errors_exact : forall (E : Type) (g : geom), geom_ok g = true ->
  forall (ops : list (op E)) (key : list kitem) (v : list E),
  valid_ops E g ops = true -> length v = prod (g_int g) ->
  let sF := final E (stepF E g) [] ops in
  let sD := final E (stepD E g) [] ops in
  (snd (stepF E g sF (Get key)) = OErr IndexError <-> bad_key (full_shape g) key)
  /\ (snd (stepD E g sD (Get key)) = OErr IndexError <-> bad_key (full_shape g) key)
  /\ (snd (stepF E g sF (Dump key v)) = OErr IndexError <-> bad_key (g_ext g) key)
  /\ (snd (stepD E g sD (Dump key v)) = OErr IndexError <-> bad_key (g_ext g) key).
Proof. exact key_errors_exact. Qed.
Print Assumptions C07_key_errors_exact.

(* ---- linear indices follow the row-major order of the external shape ---- *)
Theorem C07_mask_linear_rowmajor : forall (E : Type) (g : geom), geom_ok g = true ->
  forall ops : list (op E), valid_ops E g ops = true ->
  let missing := map (fun i : nat => is_none (written E g ops None (unravel (g_ext g) i))) (seq 0 (size g)) in
  snd (stepF E g (final E (stepF E g) [] ops) MaskLinear) = OBools missing
  /\ snd (stepD E g (final E (stepD E g) [] ops) MaskLinear) = OBools missing.
Proof. exact mask_linear_rowmajor. Qed.
Print Assumptions C07_mask_linear_rowmajor.

Theorem C07_has_index_rowmajor : forall (E : Type) (g : geom), geom_ok g = true ->
  forall (ops : list (op E)) (i : nat), valid_ops E g ops = true -> i < size g ->
  let present := negb (is_none (written E g ops None (unravel (g_ext g) i))) in
  snd (stepF E g (final E (stepF E g) [] ops) (Has i)) = OBool present
  /\ snd (stepD E g (final E (stepD E g) [] ops) (Has i)) = OBool present.
Proof. exact has_index_rowmajor. Qed.
Print Assumptions C07_has_index_rowmajor.

Theorem C07_get_from_index_rowmajor : forall (E : Type) (g : geom), geom_ok g = true ->
  forall (ops : list (op E)) (i : nat) (v : sval E), valid_ops E g ops = true -> i < size g ->
  written E g ops None (unravel (g_ext g) i) = Some v ->
  snd (stepF E g (final E (stepF E g) [] ops) (GetIdx i)) = OArr (g_int g) (map Val v)
  /\ snd (stepD E g (final E (stepD E g) [] ops) (GetIdx i)) = OArr (g_int g) (map Val v).
Proof. exact get_from_index_rowmajor. Qed.
Print Assumptions C07_get_from_index_rowmajor.

(* ---- the executable statement used by the correspondence check holds for the model run of every case ---- *)
Theorem C07_spec_ok_run : forall c : Run_C07.case, Run_C07.spec_ok c (Run_C07.run c) = true.
Proof. exact spec_ok_run. Qed.
Print Assumptions C07_spec_ok_run.

(* ---- Python slices select valid indices only (used by all of the above) ---- *)
Theorem C07_slice_indices_in_range : forall (a b c : option Z) (n : nat) (l : list nat),
  slice_indices a b c n = Ok l -> forall i : nat, In i l -> i < n.
Proof. exact slice_indices_in_range. Qed.
Print Assumptions C07_slice_indices_in_range.

(* ---- the code before the repairs (Model/StoreLegacy.v) does not satisfy the statements: findings, repaired by
        the fix: commits f05e6d1 (dump keys) and 7196226 (DictArray missing elements) ---- *)
Theorem C07_file_refines_seq_v0_refuted : exists g ops,
  geom_ok g = true /\ valid_ops Z g ops = true
  /\ run_ops Z (stepF_v0 Z g) [] ops <> run_ops Z (stepM Z FileNotFoundError g) (absent Z g) ops.
Proof. exact file_refines_seq_v0_refuted. Qed.
Print Assumptions C07_file_refines_seq_v0_refuted.

Theorem C07_dict_refines_seq_v0_refuted : exists g ops,
  geom_ok g = true /\ valid_ops Z g ops = true
  /\ run_ops Z (stepD_v0 Z g) [] ops <> run_ops Z (stepM Z KeyError g) (absent Z g) ops.
Proof. exact dict_refines_seq_v0_refuted. Qed.
Print Assumptions C07_dict_refines_seq_v0_refuted.

Theorem C07_backends_agree_v0_refuted : exists g ops,
  geom_ok g = true /\ valid_ops Z g ops = true
  /\ ~ Forall2 (out_agree Z FileNotFoundError KeyError)
         (run_ops Z (stepF_v0 Z g) [] ops) (run_ops Z (stepD_v0 Z g) [] ops).
Proof. exact backends_agree_v0_refuted. Qed.
Print Assumptions C07_backends_agree_v0_refuted.

(* ---- non-vacuity: a geometry with an internal axis in front, negative / slice keys, a history with overwrites ---- *)
Example C07_example :
  let g := {| g_ext := [3]; g_int := [2]; g_mask := [false; true] |} in
  let ops : list (op Z) := [Dump [KInt 2] [7; 8]%Z; Dump [KSlice (Some 0%Z) (Some 2%Z) None] [1; 2]%Z;
                            Dump [KInt (-3)] [5; 6]%Z; Get [KInt (-1); KInt 2]; Get [KInt 0; KSlice None None (Some (-1)%Z)];
                            MaskLinear; Has 1; GetIdx 0; PersistReopen; ToArray] in
  geom_ok g = true /\ valid_ops Z g ops = true
  /\ written Z g ops None [0] = Some [5; 6]%Z /\ written Z g ops None [2] = Some [7; 8]%Z
  /\ run_ops Z (stepF Z g) [] ops
     = [ONone; ONone; ONone; OArr [] [Val 8%Z]; OArr [3] [Val 7%Z; Val 1%Z; Val 5%Z]; OBools [false; false; false];
        OBool true; OArr [2] [Val 5%Z; Val 6%Z]; ONone;
        OArr [2; 3] [Val 5%Z; Val 1%Z; Val 7%Z; Val 6%Z; Val 2%Z; Val 8%Z]]
  /\ ~ bad_key (full_shape g) [KInt (-1); KInt 2] /\ bad_key (full_shape g) [KInt 2; KInt 0].
Proof.
  cbv zeta. repeat split; try (vm_compute; reflexivity).
  - intros [H|[n [z [d [H1 [H2 H3]]]]]]; [vm_compute in H; congruence|].
    destruct n as [|[|n]]; cbn in H1, H2; [| |destruct n; discriminate];
      injection H1 as <-; injection H2 as <-; apply H3; unfold int_in_range; cbn; lia.
  - right. exists 0, 2%Z, 2. repeat split. unfold int_in_range. cbn. lia.
Qed.

From Verif Require Import Proofs.IndexFacts Proofs.IndexOrder.

(* the linear indices of the three theorems above never alias: two linear indices below size address one external position
   only if they are equal, and two in-range external positions share a linear index (file name / dict key) only if they
   are equal - for every external shape *)
Theorem C07_linear_indices_do_not_alias : forall g : geom,
  (forall i j, i < size g -> j < size g -> unravel (g_ext g) i = unravel (g_ext g) j -> i = j)
  /\ (forall e1 e2, in_bounds (g_ext g) e1 = true -> in_bounds (g_ext g) e2 = true ->
        ravel (g_ext g) e1 = ravel (g_ext g) e2 -> e1 = e2).
Proof. intros g. exact (conj (unravel_inj (g_ext g)) (ravel_inj (g_ext g))). Qed.
Print Assumptions C07_linear_indices_do_not_alias.
