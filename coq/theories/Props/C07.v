(* C07 - Every storage backend behaves as a masked n-d object array.  (statements only; proofs in Proofs/) *)
From Verif Require Import Base.Prelude Base.Index Base.PySlice Model.Store.
