(* C08 - MapSpec parsing, printing, shapes and index maps are mutually consistent.
   Only statements here; every proof is `exact <lemma>` into Proofs/. *)
From Verif Require Import Base.Prelude Base.Index Model.MapSpec Model.MapSpecSpec
  Proofs.IndexFacts Proofs.MapSpecFacts Proofs.MapSpecParse Proofs.MapSpecShape Corr.Run_C08 Proofs.C08Corr
  Model.MapSpecAxes Model.XrLabelSpec Proofs.MapSpecAxesFacts.

(* over linear indices 0..N-1, output_key visits every output position exactly once in row-major order
   (all_indices is itertools.product of the ranges; it has no duplicates and length prod sh) *)
Theorem C08_output_key_bijection_rowmajor : forall m sh,
  length sh = n_input_indices m -> forallb (fun d => 0 <? d) sh = true ->
  mapM (output_key m sh) (seq 0 (prod sh)) = Ok (all_indices sh)
  /\ NoDup (all_indices sh) /\ length (all_indices sh) = prod sh.
Proof. intros m sh H1 H2. exact (conj (output_key_rowmajor m sh H1 H2) (conj (all_indices_NoDup sh) (all_indices_length sh))). Qed.
Print Assumptions C08_output_key_bijection_rowmajor.

(* linear index <-> position are mutually inverse (so "exactly once" holds for each position) *)
Theorem C08_linear_index_roundtrip : forall sh,
  (forall n, n < prod sh -> ravel sh (unravel sh n) = n)
  /\ (forall key, in_bounds sh key = true -> unravel sh (ravel sh key) = key).
Proof. intros sh. exact (conj (ravel_unravel sh) (unravel_ravel sh)). Qed.
Print Assumptions C08_linear_index_roundtrip.

(* input_keys selects for each input exactly the entries whose named indices equal the output position
   (full slices for ':'); stated for specs without duplicate input names / output indices *)
Theorem C08_input_keys_select : forall m sh n,
  wf_decl m = true -> NoDup (map aname (ins m)) -> NoDup (output_indices m) ->
  length sh = length (external_indices m) -> forallb (fun d => 0 <? d) sh = true ->
  exists d, input_keys m sh n = Ok d /\ input_keys_ok m (unravel sh n) d = true.
Proof. exact input_keys_select. Qed.
Print Assumptions C08_input_keys_select.

(* construction accepts exactly the declaratively well-formed specs: malformed specs (an input index
   absent from the output, ':' in an output, outputs with different indices, non-identifier names,
   no output) are rejected *)
Theorem C08_malformed_rejected : forall i o m,
  build i o = Ok m <-> (wf_decl {| ins := raw_of i; outs := raw_of o |} = true
                        /\ m = {| ins := raw_of i; outs := raw_of o |}).
Proof. exact build_accepts_iff_wf. Qed.
Print Assumptions C08_malformed_rejected.

(* rename maps well-formed specs to well-formed specs denoting the renamed mapping (same axes) *)
Theorem C08_rename_wf : forall m ren,
  wf_decl m = true ->
  (wf_decl (rename_struct m ren) = true -> rename m ren = Ok (rename_struct m ren))
  /\ (forall r, rename m ren = Ok r -> r = rename_struct m ren /\ wf_decl r = true).
Proof. exact rename_wf. Qed.
Print Assumptions C08_rename_wf.

(* add_axes appends the new axes to every array; result is well-formed; duplicates are rejected *)
Theorem C08_add_axes_wf : forall m ax,
  (forallb (fresh_axes ax) (ins m ++ outs m) = true -> wf_decl (add_axes_struct m ax) = true ->
   add_axes m ax = Ok (add_axes_struct m ax))
  /\ (forall r, add_axes m ax = Ok r ->
        r = add_axes_struct m ax /\ wf_decl r = true /\ forallb (fresh_axes ax) (ins m ++ outs m) = true).
Proof. exact add_axes_wf. Qed.
Print Assumptions C08_add_axes_wf.

(* non-vacuity: a concrete well-formed spec with a reduction, a zip and an outer product *)
Example C08_example_wf :
  let m := {| ins := [ {| aname := s "a"; axes := [Some (s "i"); None] |};
                       {| aname := s "b.c"; axes := [Some (s "j")] |} ];
              outs := [ {| aname := s "q"; axes := [Some (s "i"); Some (s "j")] |} ] |} in
  wf_decl m = true /\ NoDup (map aname (ins m)) /\ NoDup (output_indices m)
  /\ length [2; 3] = length (external_indices m) /\ n_input_indices m = 2.
Proof.
  cbv zeta. repeat split; try reflexivity.
  - repeat constructor; cbn; intuition discriminate.
  - repeat constructor; cbn; intuition discriminate.
Qed.

(* MapSpec.from_string (str m) = m : the printed notation of every well-formed spec (all arrays of rank >= 1,
   the notation has no rank-0 form) parses back to exactly that spec, including the "..." form for no inputs *)
Theorem C08_parse_print : forall m,
  wf_decl m = true -> printable m = true -> parse (print m) = Ok m.
Proof. exact parse_print. Qed.
Print Assumptions C08_parse_print.

(* hence the notation is unambiguous: different well-formed specs print differently *)
Theorem C08_print_injective : forall m1 m2,
  wf_decl m1 = true -> printable m1 = true -> wf_decl m2 = true -> printable m2 = true ->
  print m1 = print m2 -> m1 = m2.
Proof. exact print_injective. Qed.
Print Assumptions C08_print_injective.

Example C08_example_parse_print :
  let A n ax := {| aname := n; axes := ax |} in
  let m := {| ins := [A (s "a") [Some (s "i"); None]; A (s "b.c") [Some (s "j")]];
              outs := [A (s "q") [Some (s "i"); Some (s "j")]] |} in
  let m0 := {| ins := []; outs := [A (s "q") [Some (s "i")]] |} in
  wf_decl m = true /\ printable m = true /\ print m = s "a[i, :], b.c[j] -> q[i, j]"
  /\ wf_decl m0 = true /\ printable m0 = true /\ print m0 = s "... -> q[i]".
Proof. exact parse_print_instance. Qed.

(* shape: an acceptable request (exactly the inputs with their declared ranks, zipped dimensions agree,
   internal shape of the first output long enough) yields the shape and mask the notation implies;
   every other request raises *)
Theorem C08_shape_correct : forall m ish int,
  wf_decl m = true -> forallb nodup_axes (ins m) = true ->
  NoDup (map aname (ins m)) -> NoDup (map fst ish) -> NoDup (map fst int) ->
  (shape_request_ok m ish int = true ->
     exists sh mask, shape m ish int = Ok (sh, mask) /\ shape_result_ok m ish int sh mask = true)
  /\ (shape_request_ok m ish int = false -> exists e, shape m ish int = Err e).
Proof. exact shape_correct. Qed.
Print Assumptions C08_shape_correct.

Example C08_example_shape :
  let A n ax := {| aname := n; axes := ax |} in
  let m := {| ins := [A (s "a") [Some (s "i"); None]; A (s "b") [Some (s "j")]];
              outs := [A (s "q") [Some (s "i"); Some (s "j"); Some (s "k")]] |} in
  let ish := [(s "a", [3; 7]); (s "b", [4])] in
  let int := [(s "q", [5])] in
  wf_decl m = true /\ forallb nodup_axes (ins m) = true /\ shape_request_ok m ish int = true
  /\ shape m ish int = Ok ([3; 4; 5], [true; true; false])
  /\ shape_request_ok m ish [] = false /\ shape m ish [] = Err ValueError.
Proof. exact shape_correct_instance. Qed.

(* whitespace insensitivity of the notation: with any ASCII whitespace (no newline inside brackets) around
   the indices, any mixture of whitespace and commas between arrays / around "->", whitespace around "...",
   the string parses to the spec obtained by erasing the layout; hence two layouts of one spec parse alike.
   (`sside` = explicit layout of one side, `pr_spaced` its rendering, `er_side` its erasure, `ok_side` the
   admissibility of the padding; all defined in Proofs/MapSpecParse.v) *)
Theorem C08_parse_spaced : forall L R,
  ok_side L = true -> ok_side R = true ->
  wf_decl {| ins := er_side L; outs := er_side R |} = true ->
  printable {| ins := er_side L; outs := er_side R |} = true ->
  parse (pr_spaced L R) = Ok {| ins := er_side L; outs := er_side R |}.
Proof. exact parse_spaced. Qed.
Print Assumptions C08_parse_spaced.

Theorem C08_parse_respaced : forall L R L' R',
  ok_side L = true -> ok_side R = true -> ok_side L' = true -> ok_side R' = true ->
  er_side L' = er_side L -> er_side R' = er_side R ->
  wf_decl {| ins := er_side L; outs := er_side R |} = true ->
  printable {| ins := er_side L; outs := er_side R |} = true ->
  parse (pr_spaced L' R') = parse (pr_spaced L R).
Proof. exact parse_respaced. Qed.
Print Assumptions C08_parse_respaced.

(* instance: the canonical rendering "a[i, :], b.c[j] -> q[i, j]" and "  a[ i  ,: ] ,b.c[  j]->q[i,j ]  "
   are two admissible layouts of the same well-formed spec *)
Example C08_example_spaced :
  let ax l v r := {| ax_l := s l; ax_v := v; ax_r := s r |} in
  let L := Arrays [ {| ar_sep := []; ar_name := s "a"; ar_axes := [ax ""%string (Some (s "i")) ""%string; ax " "%string None ""%string] |};
                    {| ar_sep := s ", "; ar_name := s "b.c"; ar_axes := [ax ""%string (Some (s "j")) ""%string] |} ] (s " ") in
  let R := Arrays [ {| ar_sep := s " "; ar_name := s "q"; ar_axes := [ax ""%string (Some (s "i")) ""%string; ax " "%string (Some (s "j")) ""%string] |} ] [] in
  let L' := Arrays [ {| ar_sep := s "  "; ar_name := s "a"; ar_axes := [ax " "%string (Some (s "i")) "  "%string; ax ""%string None " "%string] |};
                     {| ar_sep := s " ,"; ar_name := s "b.c"; ar_axes := [ax "  "%string (Some (s "j")) ""%string] |} ] [] in
  let R' := Arrays [ {| ar_sep := []; ar_name := s "q"; ar_axes := [ax ""%string (Some (s "i")) ""%string; ax ""%string (Some (s "j")) " "%string] |} ] (s "  ") in
  let m := {| ins := er_side L; outs := er_side R |} in
  ok_side L = true /\ ok_side R = true /\ ok_side L' = true /\ ok_side R' = true
  /\ wf_decl m = true /\ printable m = true
  /\ pr_spaced L R = print m
  /\ pr_spaced L R = s "a[i, :], b.c[j] -> q[i, j]"
  /\ pr_spaced L' R' = s "  a[ i  ,: ] ,b.c[  j]->q[i,j ]  "
  /\ er_side L' = er_side L /\ er_side R' = er_side R
  /\ pr_spaced (Dots (s " ") []) R' = s " ...->q[i,j ]  ".
Proof. exact parse_spaced_instance. Qed.

(* CAPSTONE: for EVERY correspondence case (parse / build + round trip / shape / all keys / rename / add_axes / direct
   index calls / translator obligations) the observation computed by the model satisfies the executable statement
   `spec_ok` that the harness applies to the implementation's observations.  Together with corr_bad = 0 (the
   implementation's observation equals the model's on every generated case) this is what makes a green run mean
   "the implementation satisfies the statement on the generated cases AND the model satisfies it on all cases".
   No guard is needed: on cases outside the property's quantifier (ill-formed base spec, duplicate names, zero
   dimensions, wrong rank) spec_ok demands nothing or demands an error, and the model raises one. *)
Theorem C08_model_meets_spec : forall c, Run_C08.spec_ok c (Run_C08.run c) = true.
Proof. exact model_meets_spec. Qed.
Print Assumptions C08_model_meets_spec.

(* the two rank checks (output_key: number of distinct input indices; input_keys: number of external indices) agree on
   well-formed specs with distinct output indices *)
Theorem C08_rank_checks_agree : forall m,
  wf_decl m = true -> NoDup (output_indices m) -> length (external_indices m) = n_input_indices m.
Proof. exact ext_len_input_indices. Qed.
Print Assumptions C08_rank_checks_agree.

(* validate_consistent_axes accepts exactly the lists of MapSpecs that name every array consistently (two occurrences
   of one array name: same rank, same index name wherever both name a position) *)
Theorem C08_validate_consistent_axes_iff : forall specs,
  validate_consistent_axes specs = Ok tt <-> consistent (all_aspecs specs) = true.
Proof. exact validate_iff_consistent. Qed.
Print Assumptions C08_validate_consistent_axes_iff.

(* after validate_consistent_axes passes, mapspec_axes has for every array one entry per dimension, agreeing with every
   occurrence on every named position; an entry is a name only if some occurrence writes it there (':'-only
   dimensions are None); mapspec_dimensions gives the rank *)
Theorem C08_consistent_axes_sound : forall specs,
  validate_consistent_axes specs = Ok tt ->
  forall a, In a (all_aspecs specs) ->
    exists ax, dict_get (mapspec_axes specs) (aname a) = Some ax
      /\ length ax = rank a
      /\ (forall i x, nth_error (axes a) i = Some (Some x) -> nth_error ax i = Some (Some x))
      /\ (forall i x, nth_error ax i = Some (Some x) ->
            exists b, In b (all_aspecs specs) /\ aname b = aname a /\ nth_error (axes b) i = Some (Some x))
      /\ dict_get (mapspec_dimensions specs) (aname a) = Some (rank a).
Proof. exact consistent_axes_sound. Qed.
Print Assumptions C08_consistent_axes_sound.

(* non-vacuity: "x[i, :] -> y[i]" and "x[:, j], y[i] -> z[i, j]" are consistent; x gets (i, j), and the
   ':'-only second dimension of w in "w[i, :] -> y[i]" is None *)
Example C08_example_axes :
  let A n ax := {| aname := n; axes := ax |} in
  let m1 := {| ins := [A (s "x") [Some (s "i"); None]]; outs := [A (s "y") [Some (s "i")]] |} in
  let m2 := {| ins := [A (s "x") [None; Some (s "j")]; A (s "y") [Some (s "i")]];
               outs := [A (s "z") [Some (s "i"); Some (s "j")]] |} in
  let m3 := {| ins := [A (s "w") [Some (s "i"); None]]; outs := [A (s "y") [Some (s "i")]] |} in
  validate_consistent_axes [m1; m2; m3] = Ok tt
  /\ dict_get (mapspec_axes [m1; m2; m3]) (s "x") = Some [Some (s "i"); Some (s "j")]
  /\ dict_get (mapspec_axes [m1; m2; m3]) (s "w") = Some [Some (s "i"); None]
  /\ dict_get (mapspec_dimensions [m1; m2; m3]) (s "x") = Some 2
  /\ validate_consistent_axes [m1; {| ins := [A (s "x") [Some (s "j"); None]]; outs := [A (s "z") [Some (s "j")]] |}]
     = Err ValueError.
Proof. vm_compute. repeat split; reflexivity. Qed.

From Verif Require Import Proofs.IndexOrder.

(* "row-major" pointwise: two in-range positions have the same linear index only if they are the same position, and the
   linear index is smaller exactly when the position is lexicographically smaller (first index most significant) -
   so no two iterations write one output position, for shapes of every rank and size *)
Theorem C08_linear_index_injective_lexicographic : forall sh a b,
  in_bounds sh a = true -> in_bounds sh b = true ->
  (ravel sh a = ravel sh b -> a = b)
  /\ (lex_lt a b <-> ravel sh a < ravel sh b).
Proof.
  intros sh a b Ha Hb.
  exact (conj (ravel_inj sh a b Ha Hb) (conj (ravel_lex_mono sh a b Ha Hb) (ravel_lt_lex sh a b Ha Hb))).
Qed.
Print Assumptions C08_linear_index_injective_lexicographic.

(* non-vacuity: in shape (2, 3), (0, 2) < (1, 0) lexicographically and 2 < 3 linearly *)
Example C08_example_lexicographic :
  in_bounds [2; 3] [0; 2] = true /\ in_bounds [2; 3] [1; 0] = true /\ lex_lt [0; 2] [1; 0]
  /\ ravel [2; 3] [0; 2] = 2 /\ ravel [2; 3] [1; 0] = 3.
Proof. cbn. repeat split; auto. Qed.

(* "every output position": the positions visited by C08_output_key_bijection_rowmajor are exactly the in-range ones *)
Theorem C08_visited_positions_exactly_in_range : forall sh idx,
  In idx (all_indices sh) <-> in_bounds sh idx = true.
Proof. exact all_indices_iff_in_bounds. Qed.
Print Assumptions C08_visited_positions_exactly_in_range.
