(* C08 - MapSpec parsing, printing, shapes and index maps are mutually consistent.
   Only statements here; every proof is `exact <lemma>` into Proofs/. *)
From Verif Require Import Base.Prelude Base.Index Model.MapSpec Model.MapSpecSpec Proofs.IndexFacts Proofs.MapSpecFacts.

(* over linear indices 0..N-1, output_key visits every output position exactly once in row-major order
   (all_indices is itertools.product of the ranges; it has no duplicates and length prod sh) *)
Theorem C08_output_key_bijection_rowmajor : forall m sh,
  length sh = n_input_indices m -> forallb (fun d => 0 <? d) sh = true ->
  mapM (output_key m sh) (seq 0 (prod sh)) = Ok (all_indices sh)
  /\ NoDup (all_indices sh) /\ length (all_indices sh) = prod sh.
Proof. intros m sh H1 H2. exact (conj (output_key_rowmajor m sh H1 H2) (conj (all_indices_NoDup sh) (all_indices_length sh))). Qed.
Print Assumptions C08_output_key_bijection_rowmajor.
