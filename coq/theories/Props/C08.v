(* C08 - MapSpec parsing, printing, shapes and index maps are mutually consistent.
   Only statements here; every proof is `exact <lemma>` into Proofs/. *)
From Verif Require Import Base.Prelude Base.Index Model.MapSpec Model.MapSpecSpec
  Proofs.IndexFacts Proofs.MapSpecFacts.

(* over linear indices 0..N-1, output_key visits every output position exactly once in row-major order
   (all_indices is itertools.product of the ranges; it has no duplicates and length prod sh) *)
Theorem C08_output_key_bijection_rowmajor : forall m sh,
  length sh = n_input_indices m -> forallb (fun d => 0 <? d) sh = true ->
  mapM (output_key m sh) (seq 0 (prod sh)) = Ok (all_indices sh)
  /\ NoDup (all_indices sh) /\ length (all_indices sh) = prod sh.
Proof. intros m sh H1 H2. exact (conj (output_key_rowmajor m sh H1 H2) (conj (all_indices_NoDup sh) (all_indices_length sh))). Qed.
Print Assumptions C08_output_key_bijection_rowmajor.

(* linear index <-> position are mutually inverse (so "exactly once" holds for each position) *)
Theorem C08_linear_index_roundtrip : forall sh,
  (forall n, n < prod sh -> ravel sh (unravel sh n) = n)
  /\ (forall key, in_bounds sh key = true -> unravel sh (ravel sh key) = key).
Proof. intros sh. exact (conj (ravel_unravel sh) (unravel_ravel sh)). Qed.
Print Assumptions C08_linear_index_roundtrip.

(* input_keys selects for each input exactly the entries whose named indices equal the output position
   (full slices for ':'); stated for specs without duplicate input names / output indices *)
Theorem C08_input_keys_select : forall m sh n,
  wf_decl m = true -> NoDup (map aname (ins m)) -> NoDup (output_indices m) ->
  length sh = length (external_indices m) -> forallb (fun d => 0 <? d) sh = true ->
  exists d, input_keys m sh n = Ok d /\ input_keys_ok m (unravel sh n) d = true.
Proof. exact input_keys_select. Qed.
Print Assumptions C08_input_keys_select.

(* construction accepts exactly the declaratively well-formed specs: malformed specs (an input index
   absent from the output, ':' in an output, outputs with different indices, non-identifier names,
   no output) are rejected *)
Theorem C08_malformed_rejected : forall i o m,
  build i o = Ok m <-> (wf_decl {| ins := raw_of i; outs := raw_of o |} = true
                        /\ m = {| ins := raw_of i; outs := raw_of o |}).
Proof. exact build_accepts_iff_wf. Qed.
Print Assumptions C08_malformed_rejected.

(* rename maps well-formed specs to well-formed specs denoting the renamed mapping (same axes) *)
Theorem C08_rename_wf : forall m ren,
  wf_decl m = true ->
  (wf_decl (rename_struct m ren) = true -> rename m ren = Ok (rename_struct m ren))
  /\ (forall r, rename m ren = Ok r -> r = rename_struct m ren /\ wf_decl r = true).
Proof. exact rename_wf. Qed.
Print Assumptions C08_rename_wf.

(* add_axes appends the new axes to every array; result is well-formed; duplicates are rejected *)
Theorem C08_add_axes_wf : forall m ax,
  (forallb (fresh_axes ax) (ins m ++ outs m) = true -> wf_decl (add_axes_struct m ax) = true ->
   add_axes m ax = Ok (add_axes_struct m ax))
  /\ (forall r, add_axes m ax = Ok r ->
        r = add_axes_struct m ax /\ wf_decl r = true /\ forallb (fresh_axes ax) (ins m ++ outs m) = true).
Proof. exact add_axes_wf. Qed.
Print Assumptions C08_add_axes_wf.

(* non-vacuity: a concrete well-formed spec with a reduction, a zip and an outer product *)
Example C08_example_wf :
  let m := {| ins := [ {| aname := s "a"; axes := [Some (s "i"); None] |};
                       {| aname := s "b.c"; axes := [Some (s "j")] |} ];
              outs := [ {| aname := s "q"; axes := [Some (s "i"); Some (s "j")] |} ] |} in
  wf_decl m = true /\ NoDup (map aname (ins m)) /\ NoDup (output_indices m)
  /\ length [2; 3] = length (external_indices m) /\ n_input_indices m = 2.
Proof.
  cbv zeta. repeat split; try reflexivity.
  - repeat constructor; cbn; intuition discriminate.
  - repeat constructor; cbn; intuition discriminate.
Qed.
