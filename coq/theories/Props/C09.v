(* C09 - stub; theorems follow *)
From Verif Require Import Base.Prelude Model.Pipe Model.CacheSem.
