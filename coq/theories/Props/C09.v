(* C09 - Caching never changes what a pipeline returns.   (statements only; proofs in Proofs/CacheSemFacts.v)

   Model: Model/CacheSem.v (Pipeline._run with the result cache, compute_cache_key, get_result_from_cache,
   update_cache, the mutation entry points, _get_or_set_cache), vocabulary of the statements: Model/CacheSemSpec.v.
   `exec_hist body pick P legacy use p c h`: the observations of history h on pipeline p with cache c;
   use=false is the uncached twin; legacy=false is the REPAIRED code (three `fix:` commits), legacy=true the code
   as found.  `body`/`pick` are arbitrary user code / output pickers. *)
From Verif Require Import Base.Prelude Base.StrOrd Base.Graph Model.Pipe Model.CacheSem Model.CacheSemSpec
  Proofs.CacheSemBase Proofs.CacheSemFacts.
From Verif Require Model.MapRun Model.MapRunCache Proofs.MapRunCacheFacts Model.Lazy Model.LazySeq Proofs.LazySeqFacts.

(* ---------- the property ---------- *)
(* For every replacement policy (anything `lawful`), every pipeline, every choice of cached functions (the `cached`
   flags of p), every history of calls (with / without full_output, supplying root arguments or intermediates,
   surplus or missing keywords) and update_defaults / update_bound / replace mutations: each call that succeeds
   without caching returns an equal value with caching enabled.
   Only side condition: every pipeline of the history is well-formed (`hist_wfb`: accepted by construction-time
   validation).  That Pipeline.root_args (the model of _compute_arg_mapping) exists, consists of non-outputs and
   covers every name the output reads is PROVED from well-formedness (C09_roots_ok_of_wf below). *)
Theorem C09_cache_transparent :
  forall (body : str -> alist -> result str) (pick : str -> str -> str) (C : Type) (P : policy C) (good : C -> Prop),
    lawful P good ->
    forall (p : pipeline) (h : list step) (c0 : C),
      hist_wfb p h = true -> empty_cache P good c0 ->
      Forall2 step_transparent (exec_hist body pick P false false p c0 h) (exec_hist body pick P false true p c0 h).
Proof. exact @cache_transparent_wf. Qed.
Print Assumptions C09_cache_transparent.

(* root_args of a well-formed pipeline: defined for every output, only non-outputs, covers what the output reads *)
Theorem C09_roots_ok_of_wf : forall p, wf_pipeline p -> roots_okb p = true.
Proof. exact RootArgsFacts.roots_okb_of_wf. Qed.
Print Assumptions C09_roots_ok_of_wf.

(* the invariant behind it (DESIGN: cache_inv): from ANY two caches whose resident entries are raw results of their
   functions for the key's root values, not only from empty ones *)
Theorem C09_cache_inv_history :
  forall (body : str -> alist -> result str) (pick : str -> str -> str) (C : Type) (P : policy C) (good : C -> Prop),
    lawful P good ->
    forall (h : list step) (p : pipeline) (cu cc : C),
      (forall q, In q (hist_pipelines p h) -> wf_pipeline q) ->
      cache_inv body pick P good p cu -> cache_inv body pick P good p cc ->
      Forall2 step_transparent (exec_hist body pick P false false p cu h) (exec_hist body pick P false true p cc h).
Proof.
  intros body pick C P good LAW h p cu cc Hw. apply (cache_transparent_inv body pick P good LAW). now apply hist_wf_good.
Qed.
Print Assumptions C09_cache_inv_history.

(* the two container models of CacheSem.v are lawful, hence the instances *)
Theorem C09_simple_lawful : lawful simple_policy (fun _ => True).
Proof. exact simple_lawful. Qed.
Print Assumptions C09_simple_lawful.

Theorem C09_lru_lawful : lawful lru_policy (fun c => nodupk (ldict c)).
Proof. exact lru_lawful. Qed.
Print Assumptions C09_lru_lawful.

Theorem C09_cache_transparent_simple :
  forall body pick (p : pipeline) (h : list step),
    hist_wfb p h = true ->
    Forall2 step_transparent (exec_hist body pick simple_policy false false p [] h)
                             (exec_hist body pick simple_policy false true p [] h).
Proof. intros. exact (cache_transparent_wf body pick simple_policy _ simple_lawful p h [] H simple_empty). Qed.
Print Assumptions C09_cache_transparent_simple.

Theorem C09_cache_transparent_lru :
  forall body pick (max_size : nat) (p : pipeline) (h : list step),
    hist_wfb p h = true ->
    Forall2 step_transparent (exec_hist body pick lru_policy false false p (lru_empty max_size) h)
                             (exec_hist body pick lru_policy false true p (lru_empty max_size) h).
Proof. intros. exact (cache_transparent_wf body pick lru_policy _ lru_lawful p h _ H (lru_empty_ok max_size)). Qed.
Print Assumptions C09_cache_transparent_lru.

(* one call, from arbitrary caches satisfying the invariant: the cached twin also succeeds, with an equal outcome *)
Theorem C09_call_transparent :
  forall body pick (C : Type) (P : policy C) (good : C -> Prop), lawful P good ->
  forall p, wf_pipeline p ->
  forall kw full cu cc o out_u lgu cu',
    cache_inv body pick P good p cu -> cache_inv body pick P good p cc ->
    crun body pick P false false p cu o kw full = (Ok out_u, lgu, cu') ->
    exists out_c lgc cc', crun body pick P false true p cc o kw full = (Ok out_c, lgc, cc') /\ outcome_eq out_u out_c.
Proof.
  intros body pick C P good LAW p WF. destruct (wf_topo p WF) as [ls LS].
  exact (call_transparent body pick P good LAW p WF (RootArgsFacts.roots_okb_of_wf p WF) ls LS).
Qed.
Print Assumptions C09_call_transparent.

(* the uncached twin of this model is exactly Pipe.run, the model of C02 *)
Theorem C09_uncached_twin_is_pipe_run :
  forall body pick (C : Type) (P : policy C) (p : pipeline), wf_pipeline p ->
  forall kw full (c : C) o,
    crun body pick P false false p c o kw full
    = (fst (Pipe.run body pick p o kw full), snd (Pipe.run body pick p o kw full), c).
Proof. intros body pick C P p WF. exact (uncached_twin_is_pipe_run body pick P p (RootArgsFacts.roots_okb_of_wf p WF)). Qed.
Print Assumptions C09_uncached_twin_is_pipe_run.

(* ---------- no re-execution ---------- *)
(* A call does not execute a cached function f0 whose entry (the key k0 that a request for an output o0 of f0
   computes in this call: `the_key` = the key of CacheSem.crun_out) is resident when the call starts - for policies that never evict (SimpleCache, DiskCache without
   max_size); the entry is still resident afterwards, so this holds for every repetition. *)
Theorem C09_no_reexec_when_resident :
  forall body pick (C : Type) (P : policy C) (p : pipeline), wf_pipeline p -> never_evicts P ->
  forall kw full c o f0 o0 ra k0 r lg c',
    In f0 p -> In o0 (outs f0) -> root_args p o0 = Ok ra -> the_key p kw true f0 ra = Some k0 ->
    cmem P c k0 = true ->
    crun body pick P false true p c o kw full = (r, lg, c') ->
    (forall call, In call lg -> fst call <> fname f0) /\ cmem P c' k0 = true.
Proof. exact @no_reexec_resident'. Qed.
Print Assumptions C09_no_reexec_when_resident.

Theorem C09_simple_never_evicts : never_evicts simple_policy.
Proof. exact simple_never_evicts. Qed.
Print Assumptions C09_simple_never_evicts.

(* ---------- the map path ---------- *)
(* _get_or_set_cache is keyed by the function's own keyword arguments: it returns what the user function returns,
   for every replacement policy (a lost entry only causes recomputation) ... *)
Theorem C09_get_or_set_transparent :
  forall body pick (C : Type) (P : policy C) (good : C -> Prop), lawful P good ->
  forall p, wf_pipeline p ->
  forall f kwargs c r c' executed,
    In f p -> NoDup (akeys kwargs) -> cache_inv body pick P good p c ->
    get_or_set body P f kwargs c = (r, c', executed) ->
    r = body (fname f) (call_args f kwargs) /\ cache_inv body pick P good p c'.
Proof. exact @get_or_set_ok. Qed.
Print Assumptions C09_get_or_set_transparent.

(* Shared caches (parallel map runs): an invocation performs two ATOMIC cache operations, one read and - on a miss -
   one write (LRUCache/HybridCache.get/put hold the cache lock), and other clients act in between.  From ANY cache
   satisfying the invariant, a value that is read is the user function's value, and writing the user function's value
   re-establishes the invariant: so under every interleaving of such atomic steps each client gets what its user
   function returns.  (Proved at this granularity; real thread schedules are sampled by the harness.) *)
Theorem C09_map_shared_read :
  forall body pick (C : Type) (P : policy C) (good : C -> Prop), lawful P good ->
  forall p, wf_pipeline p ->
  forall f kwargs c v c1, In f p -> NoDup (akeys kwargs) -> cache_inv body pick P good p c ->
    gos_read P f kwargs c = (Some v, c1) ->
    body (fname f) (call_args f kwargs) = Ok v /\ cache_inv body pick P good p c1.
Proof.
  intros body pick C P good LAW p WF f kws c v c1 Hf Hnd Hc H. split.
  - exact (gos_read_ok body pick P good LAW p WF f kws c v c1 Hf Hnd Hc H).
  - pose proof (gos_read_inv body pick P good LAW p f kws c Hc) as H1. now rewrite H in H1.
Qed.
Print Assumptions C09_map_shared_read.

Theorem C09_map_shared_write :
  forall body pick (C : Type) (P : policy C) (good : C -> Prop), lawful P good ->
  forall p f kwargs c v, In f p -> NoDup (akeys kwargs) -> cache_inv body pick P good p c ->
    body (fname f) (call_args f kwargs) = Ok v -> cache_inv body pick P good p (gos_write P f kwargs c v).
Proof. exact @gos_write_inv. Qed.
Print Assumptions C09_map_shared_write.

(* ... hence any sequence of such invocations computes the uncached results *)
Theorem C09_map_cache_transparent :
  forall body pick (C : Type) (P : policy C) (good : C -> Prop), lawful P good ->
  forall p, wf_pipeline p ->
  forall (calls : list (pfunc * alist)) (c : C),
    (forall f kwargs, In (f, kwargs) calls -> In f p /\ NoDup (akeys kwargs)) ->
    cache_inv body pick P good p c ->
    fst (map_calls body P calls c) = map (fun fk => body (fname (fst fk)) (call_args (fst fk) (snd fk))) calls
    /\ cache_inv body pick P good p (snd (map_calls body P calls c)).
Proof. exact @map_calls_transparent. Qed.
Print Assumptions C09_map_cache_transparent.

(* ... and for WHOLE map runs: Model/MapRunCache.v is the sequential Pipeline.map of Model/MapRun.v (the model of
   C01) with the cache threaded through every invocation (_run_iteration / _execute_single -> _get_or_set_cache).
   For every lawful cache, from every cache whose readable entries are results of the pipeline's functions (in
   particular an empty one, or the cache left by earlier map runs on the same functions): the run with cache returns
   EXACTLY what the run without cache returns (arrays as returned and as stored, or the same error), leaves such a
   cache again, and executes the user functions at most as often as the uncached run calls them. *)
Theorem C09_map_run_cache_transparent :
  forall (body : MapRun.mfunc -> MapRun.env -> result (list MapRun.val)) (C : Type)
         (P : MapRunCache.kvcache MapRunCache.mkey MapRunCache.mval C) (good : C -> Prop),
    MapRunCache.kv_lawful P good ->
    forall p : list MapRun.mfunc,
      (forall f g, In f p -> In g p -> MapRun.fouts f = MapRun.fouts g -> f = g) ->
      forall inputs user c r c' x,
        MapRunCacheFacts.kinv body P good p c ->
        MapRunCache.map_run_c body P p inputs user c = (r, c', x) ->
        r = MapRun.map_run body p inputs user
        /\ MapRunCacheFacts.kinv body P good p c'
        /\ (forall st', r = Ok st' -> x <= MapRun.r_calls st').
Proof.
  intros body C P good LAW p DIST inputs user c r c' x Hc H.
  exact (MapRunCacheFacts.map_run_c_ok body P good LAW p DIST p inputs user c r c' x (fun f Hf => Hf) Hc H).
Qed.
Print Assumptions C09_map_run_cache_transparent.

Theorem C09_map_dict_lawful : MapRunCache.kv_lawful MapRunCache.map_simple (fun _ => True).
Proof. exact MapRunCacheFacts.map_simple_lawful. Qed.
Print Assumptions C09_map_dict_lawful.

(* the empty dict satisfies the hypothesis *)
Example C09_map_empty_inv body p : MapRunCacheFacts.kinv body MapRunCache.map_simple (fun _ => True) p [].
Proof. split; [exact I|]. intros k v H. discriminate. Qed.

(* ---------- lazy pipelines (Model/LazySeq.v, C18) ---------- *)
(* the first request to a fresh lazy pipeline object WITH its caches (the task-graph SimpleCache / the pipeline's LRU
   cache) is exactly the lazy run without caches (Lazy.lazy_run: result, heap of _LazyFunction nodes, task graph) -
   for every well-formed pipeline: the side condition "root_args never fails" of C18_first_request_is_lazy_run is
   discharged by C09_roots_ok_of_wf.  (Later requests of a lazy sequence: C18; not covered here.) *)
Theorem C09_lazy_first_request_transparent : forall p dagon o kw full,
  wf_pipeline p ->
  exists c, LazySeq.crequest p dagon LazySeq.pinit o kw full =
            (fst (Lazy.lazy_run p o kw full dagon),
             {| LazySeq.pheap := Lazy.lheap (snd (Lazy.lazy_run p o kw full dagon));
                LazySeq.pdag := Lazy.ldag (snd (Lazy.lazy_run p o kw full dagon));
                LazySeq.pcache := c; LazySeq.plog := [] |}).
Proof.
  intros p dagon o kw full WF. apply LazySeqFacts.first_request_is_lazy_run; [exact WF|].
  pose proof (RootArgsFacts.roots_okb_of_wf p WF) as H. unfold roots_okb in H. rewrite forallb_forall in H.
  apply forallb_forall. intros o' Ho'. specialize (H o' Ho'). destruct (root_args p o'); [reflexivity | discriminate].
Qed.
Print Assumptions C09_lazy_first_request_transparent.

(* ---------- the code as found (legacy = true) does NOT have the property: three defects ---------- *)
Definition fb : pfunc := mkf (s "fb") [s "b"] [(s "a", s "a")] [] [] true.
Definition fc : pfunc := mkf (s "fc") [s "c"] [(s "a", s "a"); (s "b", s "b")] [] [] true.
Definition p_cut : pipeline := [fb; fc].
Definition call_c (kw : alist) : step := Call (s "c") kw false.

(* (i) p("c", a=1) then p("c", a=1, b=7): all root arguments are present, the stale entry is returned *)
Definition h_cut : list step := [call_c [(s "a", s "1")]; call_c [(s "a", s "1"); (s "b", s "7")]].
(* (ii) replace / update_bound between two equal calls *)
Definition h_replace : list step :=
  [call_c [(s "a", s "1")]; Replace (mkf (s "fb2") [s "b"] [(s "a", s "a")] [] [] true); call_c [(s "a", s "1")]].
Definition h_bound : list step :=
  [call_c [(s "a", s "1")]; UpdBound (s "b") [(s "a", s "5")]; call_c [(s "a", s "1")]].
(* (iii) the value bound in the cached function replaced the keyword value of a root argument in the key *)
Definition p_key : pipeline :=
  [mkf (s "fb") [s "b"] [(s "x", s "x")] [] [] true;
   mkf (s "fc") [s "c"] [(s "b", s "b"); (s "x", s "x")] [] [(s "x", s "B")] true].
Definition h_key : list step := [call_c [(s "x", s "1")]; call_c [(s "x", s "2")]].

Definition legacy_refuted (p : pipeline) (h : list step) : Prop :=
  hist_wfb p h = true
  /\ ~ Forall2 step_transparent (exec_hist Sym.body Sym.pick simple_policy true false p [] h)
                                (exec_hist Sym.body Sym.pick simple_policy true true p [] h).

Lemma refute p h : hist_wfb p h = true ->
  all_transparentb (exec_hist Sym.body Sym.pick simple_policy true false p [] h)
                   (exec_hist Sym.body Sym.pick simple_policy true true p [] h) = false -> legacy_refuted p h.
Proof. intros Hg Hb. split; [exact Hg|]. intros H. apply all_transparentb_complete in H. congruence. Qed.

Theorem C09_cache_transparent_refuted_supplied_intermediate : exists p h, legacy_refuted p h.
Proof. exists p_cut, h_cut. apply refute; vm_compute; reflexivity. Qed.
Print Assumptions C09_cache_transparent_refuted_supplied_intermediate.

Theorem C09_cache_transparent_refuted_replace : exists p h, legacy_refuted p h.
Proof. exists p_cut, h_replace. apply refute; vm_compute; reflexivity. Qed.
Print Assumptions C09_cache_transparent_refuted_replace.

Theorem C09_cache_transparent_refuted_update_bound : exists p h, legacy_refuted p h.
Proof. exists p_cut, h_bound. apply refute; vm_compute; reflexivity. Qed.
Print Assumptions C09_cache_transparent_refuted_update_bound.

Theorem C09_cache_transparent_refuted_bound_in_key : exists p h, legacy_refuted p h.
Proof. exists p_key, h_key. apply refute; vm_compute; reflexivity. Qed.
Print Assumptions C09_cache_transparent_refuted_bound_in_key.

(* (iv) map path, shared cache, the code as found (`if key in cache: return cache.get(key)`): another client's
   perfectly valid write between the membership test and the read evicts the entry (LRU, max_size 1) and the
   invocation returns None instead of the user function's value *)
Theorem C09_map_shared_legacy_refuted :
  exists p f kwargs c (interfere : lru -> lru),
    wf_pipeline p /\ In f p /\ NoDup (akeys kwargs)
    /\ cache_inv Sym.body Sym.pick lru_policy (fun c => nodupk (ldict c)) p c
    /\ (forall c', cache_inv Sym.body Sym.pick lru_policy (fun c => nodupk (ldict c)) p c' ->
                   cache_inv Sym.body Sym.pick lru_policy (fun c => nodupk (ldict c)) p (interfere c'))
    /\ fst (fst (get_or_set_legacy Sym.body lru_policy interfere f kwargs c)) <> Sym.body (fname f) (call_args f kwargs).
Proof.
  set (kw1 := [(s "a", s "1")]). set (kw2 := [(s "a", s "1"); (s "b", s "2")]).
  exists p_cut, fb, kw1, (snd (fst (get_or_set Sym.body lru_policy fb kw1 (lru_empty 1)))),
         (fun c' => gos_write lru_policy fc kw2 c' (s "fc(a=1,b=2)")).
  assert (WF : wf_pipeline p_cut) by (vm_compute; reflexivity).
  assert (Hfb : In fb p_cut) by (now left). assert (Hfc : In fc p_cut) by (right; now left).
  assert (N1 : NoDup (akeys kw1)) by (constructor; [intros []|constructor]).
  assert (N2 : NoDup (akeys kw2)).
  { constructor; [intros [H|[]]; vm_compute in H; discriminate|]. constructor; [intros []|constructor]. }
  split; [exact WF|]. split; [exact Hfb|]. split; [exact N1|]. split; [|split].
  - destruct (get_or_set Sym.body lru_policy fb kw1 (lru_empty 1)) as [[r c1] ex] eqn:E.
    apply (get_or_set_ok Sym.body Sym.pick lru_policy _ lru_lawful p_cut WF fb kw1 (lru_empty 1) r c1 ex Hfb N1); [|exact E].
    apply empty_cache_inv. apply lru_empty_ok.
  - intros c' Hc'. apply (gos_write_inv Sym.body Sym.pick lru_policy _ lru_lawful p_cut fc kw2 c' _ Hfc N2 Hc'). reflexivity.
  - vm_compute. discriminate.
Qed.
Print Assumptions C09_map_shared_legacy_refuted.

(* ---------- non-vacuity ---------- *)
(* the witnesses satisfy the side condition of C09_cache_transparent, and on the repaired model they are transparent
   while the cache is really used: the repeated call of h_hit executes nothing *)
Example C09_side_conditions_hold :
  hist_wfb p_cut h_cut = true /\ hist_wfb p_cut h_replace = true /\ hist_wfb p_cut h_bound = true
  /\ hist_wfb p_key h_key = true.
Proof. vm_compute. auto. Qed.

Definition h_hit : list step := [call_c [(s "a", s "1")]; call_c [(s "a", s "1")]].
Example C09_cache_is_used :
  map (fun o => match o with OCall _ lg => length lg | OMut _ => 0 end)
      (exec_hist Sym.body Sym.pick simple_policy false true p_cut [] h_hit) = [2; 0]
  /\ map (fun o => match o with OCall _ lg => length lg | OMut _ => 0 end)
         (exec_hist Sym.body Sym.pick simple_policy false false p_cut [] h_hit) = [2; 2].
Proof. vm_compute. auto. Qed.

Example C09_repaired_witnesses_transparent :
  all_transparentb (exec_hist Sym.body Sym.pick simple_policy false false p_cut [] h_cut)
                   (exec_hist Sym.body Sym.pick simple_policy false true p_cut [] h_cut) = true
  /\ all_transparentb (exec_hist Sym.body Sym.pick simple_policy false false p_key [] h_key)
                      (exec_hist Sym.body Sym.pick simple_policy false true p_key [] h_key) = true.
Proof. vm_compute. auto. Qed.

(* the hypotheses of C09_no_reexec_when_resident are satisfiable: after the first call of h_hit the entry of fc is
   resident under the key the second call computes *)
Example C09_no_reexec_instance :
  let kw := [(s "a", s "1")] in
  let '(_, _, c1) := crun Sym.body Sym.pick simple_policy false true p_cut [] (s "c") kw false in
  exists ra k0, In (s "c") (outs fc) /\ root_args p_cut (s "c") = Ok ra /\ the_key p_cut kw true fc ra = Some k0
                /\ cmem simple_policy c1 k0 = true.
Proof.
  cbv zeta. destruct (crun _ _ _ _ _ _ _ _ _ _) as [[r lg] c1] eqn:E. vm_compute in E. injection E as _ _ <-.
  exists [s "a"], (KCall [s "c"] [(s "a", s "1")]). vm_compute. auto.
Qed.

(* the map path: the second identical invocation is served from the cache and returns the same value *)
Example C09_map_instance :
  let kwargs := [(s "a", s "1")] in
  let '(r1, c1, e1) := get_or_set Sym.body simple_policy fb kwargs [] in
  let '(r2, _, e2) := get_or_set Sym.body simple_policy fb kwargs c1 in
  e1 = true /\ e2 = false /\ r1 = r2 /\ r1 = Ok (s "fb(a=1)") /\ In fb p_cut /\ NoDup (akeys kwargs).
Proof. vm_compute. repeat split; auto. constructor; [intros []|constructor]. Qed.
