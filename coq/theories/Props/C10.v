(* C10 - Structural rewrites preserve what a pipeline computes.
   Only statements here; every proof is `exact <lemma>` into Proofs/.  All theorems hold for an arbitrary
   user-code oracle `body` (called with ORIGINAL parameter names) and output picker `pick`. *)
From Verif Require Import Base.Prelude Base.StrOrd Base.StrUtil Base.Graph Model.Pipe Model.Rewrite Model.Alias
  Proofs.GraphFacts Proofs.RewriteFacts Proofs.AliasFacts.

(* ---------- renaming ---------- *)
(* rename_preserves: for a renaming that is one-to-one on the names involved, the renamed pipeline evaluates the
   renamed request (renamed output, renamed keywords) to literally the same value - nested functions included *)
Theorem C10_rename_preserves : forall body pick r N, inj_on r N -> forall fuel p kw o,
  In o N -> incl (pipe_all_names p) N -> incl (akeys kw) N ->
  neval body pick fuel (rename r p) (ren_kw r kw) (app_ren r o) = neval body pick fuel p kw o.
Proof. exact neval_rename. Qed.
Print Assumptions C10_rename_preserves.

(* Pipeline.update_renames, when it accepts, is that renaming *)
Theorem C10_update_renames_preserves : forall body pick r N p p', update_renames r p = Ok p' -> inj_on r N ->
  forall fuel kw o, In o N -> incl (pipe_all_names p) N -> incl (akeys kw) N ->
  neval body pick fuel p' (ren_kw r kw) (app_ren r o) = neval body pick fuel p kw o.
Proof.
  intros body pick r N p p' E H fuel kw o Ho Hp Hk. rewrite (update_renames_ok r p p' E).
  exact (neval_rename body pick r N H fuel p kw o Ho Hp Hk).
Qed.
Print Assumptions C10_update_renames_preserves.

(* Pipeline.update_scope (adding, replacing or removing a scope), when it accepts, is the renaming
   n |-> scope_name sc n on the selected names *)
Theorem C10_scope_preserves : forall body pick sc i o' e N p p', update_scope sc i o' e p = Ok p' ->
  inj_on (scope_renaming sc i o' e p) N ->
  forall fuel kw o, In o N -> incl (pipe_all_names p) N -> incl (akeys kw) N ->
  neval body pick fuel p' (ren_kw (scope_renaming sc i o' e p) kw) (app_ren (scope_renaming sc i o' e p) o)
  = neval body pick fuel p kw o.
Proof.
  intros body pick sc i o' e N p p' E H fuel kw o Ho Hp Hk. rewrite (update_scope_ok sc i o' e p p' E).
  exact (neval_rename body pick _ N H fuel p kw o Ho Hp Hk).
Qed.
Print Assumptions C10_scope_preserves.

(* update_scope(None, ...) undoes update_scope(sc, ...) name by name *)
Theorem C10_unscope_scope : forall sc n, mem_char dot sc = false -> mem_char dot n = false ->
  scope_name None (scope_name (Some sc) n) = n.
Proof. exact unscope_scope. Qed.
Print Assumptions C10_unscope_scope.

(* non-vacuity: a swap of two names and a scope are one-to-one on the names of a pipeline *)
Example C10_example_injective :
  let p := lift [mkf (s "f") [s "a"] [(s "x", s "x"); (s "y", s "p1")] [(s "y", s "d")] [] false;
                 mkf (s "g") [s "b"; s "c"] [(s "a", s "a")] [] [] false] in
  let N := dedup (s "b" :: pipe_all_names p) in
  incl (pipe_all_names p) N
  /\ inj_on [(s "x", s "y"); (s "y", s "x")] N
  /\ inj_on (scope_renaming (Some (s "sc")) None None [] p) N
  /\ app_ren (scope_renaming (Some (s "sc")) None None [] p) (s "b") = s "sc.b".
Proof.
  cbv zeta. split; [|split; [|split]].
  - intros x Hx. apply dedup_In. right. exact Hx.
  - apply inj_on_bool. vm_compute. reflexivity.
  - apply inj_on_bool. vm_compute. reflexivity.
  - vm_compute. reflexivity.
Qed.

(* ---------- functions an output does not depend on (join, split) ---------- *)
(* eval_irrelevant_funcs: two pipelines that agree on the producers (and, for root arguments, the defaults) of
   a set of names closed under "unbound parameters of the producer" evaluate these names alike *)
Theorem C10_eval_irrelevant_funcs : forall body pick p p' kw S,
  (forall n, In n S -> nproducer p' n = nproducer p n) ->
  (forall n, In n S -> is_output (funcs p) n = false -> default_of (funcs p') n = default_of (funcs p) n) ->
  closed_under p S ->
  forall fuel o, In o S -> neval body pick fuel p' kw o = neval body pick fuel p kw o.
Proof. exact neval_agree. Qed.
Print Assumptions C10_eval_irrelevant_funcs.

Theorem C10_join_preserves : forall body pick p q r kw S,
  join p q = Ok r ->
  closed_under p S ->
  (forall n, In n S -> ~ In n (all_outputs (funcs q))) ->
  (forall n, In n S -> is_output (funcs p) n = false -> default_of (funcs (p ++ q)) n = default_of (funcs p) n) ->
  forall fuel o, In o S -> neval body pick fuel r kw o = neval body pick fuel p kw o.
Proof. exact join_preserves. Qed.
Print Assumptions C10_join_preserves.

(* ---------- copy / pickle ---------- *)
Theorem C10_copy_preserves : forall p, apply_op OCopy p = Ok p /\ apply_op OPickle p = Ok p.
Proof. exact copy_identity. Qed.
Print Assumptions C10_copy_preserves.

(* ---------- aliasing (heap model Alias) ---------- *)
(* no_inplace_write: no operation (copy, pickle, join, simplify, split, update_defaults / bound / renames / scope,
   drop, nest_funcs) changes a dict or MapSpec object that existed before it - for every heap, also ill-formed ones *)
Theorem C10_no_inplace_write : forall spec_ren h x h' r, Alias.step spec_ren h x = Some (h', r) ->
  forall l c, nth_error h l = Some c -> Alias.is_data c = true -> nth_error h' l = Some c.
Proof. exact no_inplace_write. Qed.
Print Assumptions C10_no_inplace_write.

(* mutation_isolated: the observable state (parameters, outputs, defaults, bound, renames, MapSpec, inner
   pipelines: Alias.pobs) of a pipeline object q is unchanged by any operation applied to a pipeline p whose own
   objects (the Pipeline object and its PipeFunc objects) are not objects of q - no matter how many dicts p and q
   share *)
Theorem C10_mutation_isolated : forall spec_ren h x h' r q v,
  Alias.step spec_ren h x = Some (h', r) ->
  Alias.pobs h q = Some v ->
  (forall l, In l (Alias.objs h q) -> ~ In l (owned h (Alias.target x))) ->
  Alias.pobs h' q = Some v.
Proof. exact mutation_isolated. Qed.
Print Assumptions C10_mutation_isolated.

(* operations that return a new pipeline leave every existing pipeline unchanged *)
Theorem C10_original_unchanged : forall spec_ren h x h' r q v,
  Alias.step spec_ren h x = Some (h', r) -> Alias.target x = None -> Alias.pobs h q = Some v -> Alias.pobs h' q = Some v.
Proof. exact new_pipeline_ops_leave_original. Qed.
Print Assumptions C10_original_unchanged.

(* non-vacuity: a pipeline and its copy share the `_defaults` dict of their function, their objects are disjoint,
   and update_defaults on the copy is an operation the theorem applies to *)
Example C10_example_isolated :
  let ds := [ {| Alias.d_name := s "f"; Alias.d_outs := [s "a"]; Alias.d_params := [(s "x", s "x"); (s "y", s "y")];
                 Alias.d_sigd := []; Alias.d_defs := [(s "y", s "dy")]; Alias.d_bound := []; Alias.d_cached := false |} ] in
  exists h P Q fP fQ,
    Alias.build [] ds = Some (h, P) /\ True
    /\ (exists h2, Alias.pipeline_copy h P = Some (h2, Q)
         /\ Alias.get_pipe h2 P = Some [fP] /\ Alias.get_pipe h2 Q = Some [fQ] /\ fP <> fQ
         /\ (exists a b, Alias.get_func h2 fP = Some a /\ Alias.get_func h2 fQ = Some b /\ Alias.o_dfl a = Alias.o_dfl b)
         /\ (forall l, In l (Alias.objs h2 P) -> ~ In l (owned h2 (Alias.target (Alias.HUpdateDefaults Q [(s "x", s "dx")]))))
         /\ exists h3, Alias.step (fun _ m => m) h2 (Alias.HUpdateDefaults Q [(s "x", s "dx")]) = Some (h3, None)
                        /\ Alias.pobs h3 P = Alias.pobs h2 P /\ Alias.pobs h3 Q <> Alias.pobs h2 Q).
Proof. exact alias_instance. Qed.

(* ---------- add_mapspec_axis (map side; the names of Model/MapSpec.v shadow those of Model/Pipe.v from here on) ---------- *)
From Verif Require Import Base.Index Base.NdArr Model.MapSpec Model.MapSpecSpec Model.MapRun Model.RewriteMap
  Proofs.RewriteMapFacts.

(* add_axis_wf: if add_mapspec_axis( *params, axis) succeeds on a pipeline whose MapSpecs are well-formed
   (MapSpecSpec.wf_decl) and name their function's outputs (spec_ok), then
   - nothing but MapSpecs changes, and a function whose MapSpec changes carries the axis on ALL its outputs (upd);
   - every MapSpec is still well-formed and names its function's outputs;
   - the MapSpecs are mutually consistent (one rank and one axis name per position for every array);
   - every function that depends on one of the parameters - takes it (unbound), or takes an output of a function
     that depends on it (depi) - has the axis on all its outputs. *)
Theorem C10_add_axis_wf : forall params axis p p',
  Forall (fun f => spec_ok f = true) p -> add_axis params axis p = Ok p' ->
  Forall2 (upd axis) p p'
  /\ Forall (fun f => spec_ok f = true) p'
  /\ consistent_axes p' = true
  /\ (forall q i, In q params -> depi p q i -> goodi axis p' i).
Proof. exact add_axis_wf. Qed.
Print Assumptions C10_add_axis_wf.

Example C10_example_add_axis :
  let A n ax := {| aname := n; axes := ax |} in
  let f := {| fname := s "f"; fouts := [s "y"]; fparams := [s "x"]; fbound := []; fdefaults := [];
              fspec := Some {| ins := [A (s "x") [Some (s "i")]]; outs := [A (s "y") [Some (s "i")]] |};
              fint := []; fret := [] |} in
  let g := {| fname := s "g"; fouts := [s "z"]; fparams := [s "y"; s "c"]; fbound := []; fdefaults := [];
              fspec := None; fint := []; fret := [] |} in
  Forall (fun h => spec_ok h = true) [f; g]
  /\ exists p', add_axis [s "x"] (s "k") [f; g] = Ok p'
     /\ map (fun h => option_map print (fspec h)) p'
        = [Some (s "x[i, k] -> y[i, k]"); Some (s "y[:, k] -> z[k]")]
     /\ depi [f; g] (s "x") 1.
Proof. exact add_axis_instance. Qed.
