(* C10 - Structural rewrites preserve what a pipeline computes (statements only; proofs in Proofs/RewriteFacts.v). *)
From Verif Require Import Base.Prelude Model.Pipe Model.Rewrite.
