(* C10 - Structural rewrites preserve what a pipeline computes.
   Only statements here; every proof is `exact <lemma>` into Proofs/.  All theorems hold for an arbitrary
   user-code oracle `body` (called with ORIGINAL parameter names) and output picker `pick`. *)
From Verif Require Import Base.Prelude Base.StrOrd Base.StrUtil Base.Graph Model.Pipe Model.Rewrite Model.Alias
  Proofs.GraphFacts Proofs.RewriteFacts Proofs.AliasFacts Proofs.NestFacts Proofs.SplitFacts Proofs.MultiNestFacts Proofs.SimplifyFacts Proofs.C10Witness
  Proofs.AliasOwnFacts Proofs.AliasSepFacts Corr.PipeObs Corr.Run_C10 Proofs.C10Capstone Proofs.PipeFacts Proofs.NRunFacts.

(* ---------- renaming ---------- *)
(* rename_preserves: for a renaming that is one-to-one on the names involved, the renamed pipeline evaluates the
   renamed request (renamed output, renamed keywords) to literally the same value - nested functions included *)
Theorem C10_rename_preserves : forall body pick r N, inj_on r N -> forall fuel p kw o,
  In o N -> incl (pipe_all_names p) N -> incl (akeys kw) N ->
  neval body pick fuel (rename r p) (ren_kw r kw) (app_ren r o) = neval body pick fuel p kw o.
Proof. exact neval_rename. Qed.
Print Assumptions C10_rename_preserves.

(* Pipeline.update_renames, when it accepts, is that renaming *)
Theorem C10_update_renames_preserves : forall body pick r N p p', update_renames r p = Ok p' -> inj_on r N ->
  forall fuel kw o, In o N -> incl (pipe_all_names p) N -> incl (akeys kw) N ->
  neval body pick fuel p' (ren_kw r kw) (app_ren r o) = neval body pick fuel p kw o.
Proof.
  intros body pick r N p p' E H fuel kw o Ho Hp Hk. rewrite (update_renames_ok r p p' E).
  exact (neval_rename body pick r N H fuel p kw o Ho Hp Hk).
Qed.
Print Assumptions C10_update_renames_preserves.

(* Pipeline.update_scope (adding, replacing or removing a scope), when it accepts, is the renaming
   n |-> scope_name sc n on the selected names *)
Theorem C10_scope_preserves : forall body pick sc i o' e N p p', update_scope sc i o' e p = Ok p' ->
  inj_on (scope_renaming sc i o' e p) N ->
  forall fuel kw o, In o N -> incl (pipe_all_names p) N -> incl (akeys kw) N ->
  neval body pick fuel p' (ren_kw (scope_renaming sc i o' e p) kw) (app_ren (scope_renaming sc i o' e p) o)
  = neval body pick fuel p kw o.
Proof.
  intros body pick sc i o' e N p p' E H fuel kw o Ho Hp Hk. rewrite (update_scope_ok sc i o' e p p' E).
  exact (neval_rename body pick _ N H fuel p kw o Ho Hp Hk).
Qed.
Print Assumptions C10_scope_preserves.

(* update_scope(None, ...) undoes update_scope(sc, ...) name by name *)
Theorem C10_unscope_scope : forall sc n, mem_char dot sc = false -> mem_char dot n = false ->
  scope_name None (scope_name (Some sc) n) = n.
Proof. exact unscope_scope. Qed.
Print Assumptions C10_unscope_scope.

(* non-vacuity: a swap of two names and a scope are one-to-one on the names of a pipeline *)
Example C10_example_injective :
  let p := lift [mkf (s "f") [s "a"] [(s "x", s "x"); (s "y", s "p1")] [(s "y", s "d")] [] false;
                 mkf (s "g") [s "b"; s "c"] [(s "a", s "a")] [] [] false] in
  let N := dedup (s "b" :: pipe_all_names p) in
  incl (pipe_all_names p) N
  /\ inj_on [(s "x", s "y"); (s "y", s "x")] N
  /\ inj_on (scope_renaming (Some (s "sc")) None None [] p) N
  /\ app_ren (scope_renaming (Some (s "sc")) None None [] p) (s "b") = s "sc.b".
Proof.
  cbv zeta. split; [|split; [|split]].
  - intros x Hx. apply dedup_In. right. exact Hx.
  - apply inj_on_bool. vm_compute. reflexivity.
  - apply inj_on_bool. vm_compute. reflexivity.
  - vm_compute. reflexivity.
Qed.

(* ---------- functions an output does not depend on (join, split) ---------- *)
(* eval_irrelevant_funcs: two pipelines that agree on the producers (and, for root arguments, the defaults) of
   a set of names closed under "unbound parameters of the producer" evaluate these names alike *)
Theorem C10_eval_irrelevant_funcs : forall body pick p p' kw S,
  (forall n, In n S -> nproducer p' n = nproducer p n) ->
  (forall n, In n S -> is_output (funcs p) n = false -> default_of (funcs p') n = default_of (funcs p) n) ->
  closed_under p S ->
  forall fuel o, In o S -> neval body pick fuel p' kw o = neval body pick fuel p kw o.
Proof. exact neval_agree. Qed.
Print Assumptions C10_eval_irrelevant_funcs.

Theorem C10_join_preserves : forall body pick p q r kw S,
  join p q = Ok r ->
  closed_under p S ->
  (forall n, In n S -> ~ In n (all_outputs (funcs q))) ->
  (forall n, In n S -> is_output (funcs p) n = false -> default_of (funcs (p ++ q)) n = default_of (funcs p) n) ->
  forall fuel o, In o S -> neval body pick fuel r kw o = neval body pick fuel p kw o.
Proof. exact join_preserves. Qed.
Print Assumptions C10_join_preserves.

Example C10_example_join :
  let p := lift [mkf (s "f") [s "a"] [(s "x", s "x")] [] [] false] in
  let q := lift [mkf (s "g") [s "b"] [(s "a", s "a"); (s "y", s "y")] [(s "y", s "d")] [] false] in
  let S := [s "a"; s "x"] in
  (exists r, join p q = Ok r) /\ closed_under p S
  /\ (forall n, In n S -> ~ In n (all_outputs (funcs q)))
  /\ (forall n, In n S -> is_output (funcs p) n = false -> default_of (funcs (p ++ q)) n = default_of (funcs p) n).
Proof.
  cbv zeta. split; [eexists; vm_compute; reflexivity|]. split; [|split].
  - intros o nd c [<-|[<-|[]]] E Hc Hb; vm_compute in E; [|discriminate].
    injection E as <-. cbn in Hc. destruct Hc as [<-|[]]. right. left. reflexivity.
  - intros n [<-|[<-|[]]]; vm_compute; intuition discriminate.
  - intros n [<-|[<-|[]]] H; vm_compute in H; [discriminate|]. vm_compute. reflexivity.
Qed.

(* split_preserves: the part of split_disconnected() that holds output o contains o's function, and every output
   of that part evaluates exactly as in the whole pipeline (the connected components computed by the model are
   closed under adjacency: component_closed) *)
Theorem C10_split_preserves : forall body pick o p c kw,
  split o p = Ok c ->
  (forall n1 n2 x, In n1 p -> In n2 p -> In x (outs (nf n1)) -> In x (outs (nf n2)) -> n1 = n2) ->
  (forall n, In n p -> outs (nf n) <> []) ->
  (forall n k, In n p -> In k (akeys (dflt (nf n))) -> In k (pnames (nf n))) ->
  (exists nd, In nd c /\ In o (outs (nf nd)))
  /\ forall fuel o' nd, In nd c -> In o' (outs (nf nd)) ->
       neval body pick fuel c kw o' = neval body pick fuel p kw o'.
Proof. exact split_preserves. Qed.
Print Assumptions C10_split_preserves.

Example C10_example_split :
  let p := lift [mkf (s "f") [s "a"] [(s "x", s "x")] [(s "x", s "d")] [] false;
                 mkf (s "g") [s "b"] [(s "y", s "y")] [] [] false;
                 mkf (s "h") [s "c"; s "e"] [(s "b", s "b"); (s "y", s "y")] [] [] false] in
  exists c, split (s "c") p = Ok c /\ map nid c = [s "b"; s "c"]
    /\ (forall n, In n p -> outs (nf n) <> [])
    /\ (forall n k, In n p -> In k (akeys (dflt (nf n))) -> In k (pnames (nf n))).
Proof.
  cbv zeta. eexists. split; [vm_compute; reflexivity|]. split; [vm_compute; reflexivity|]. split.
  - intros n [<-|[<-|[<-|[]]]]; discriminate.
  - intros n k [<-|[<-|[<-|[]]]]; cbn; tauto.
Qed.

(* ---------- copy / pickle ---------- *)
Theorem C10_copy_preserves : forall p, apply_op OCopy p = Ok p /\ apply_op OPickle p = Ok p.
Proof. exact copy_identity. Qed.
Print Assumptions C10_copy_preserves.

(* ---------- aliasing (heap model Alias) ---------- *)
(* no_inplace_write: no operation (copy, pickle, join, simplify, split, update_defaults / bound / renames / scope,
   drop, nest_funcs) changes a dict or MapSpec object that existed before it - for every heap, also ill-formed ones *)
Theorem C10_no_inplace_write : forall spec_ren h x h' r, Alias.step spec_ren h x = Some (h', r) ->
  forall l c, nth_error h l = Some c -> Alias.is_data c = true -> nth_error h' l = Some c.
Proof. exact no_inplace_write. Qed.
Print Assumptions C10_no_inplace_write.

(* mutation_isolated: the observable state (parameters, outputs, defaults, bound, renames, MapSpec, inner
   pipelines: Alias.pobs) of a pipeline object q is unchanged by any operation applied to a pipeline p whose own
   objects (the Pipeline object and its PipeFunc objects) are not objects of q - no matter how many dicts p and q
   share *)
Theorem C10_mutation_isolated : forall spec_ren h x h' r q v,
  Alias.step spec_ren h x = Some (h', r) ->
  Alias.pobs h q = Some v ->
  (forall l, In l (Alias.objs h q) -> ~ In l (owned h (Alias.target x))) ->
  Alias.pobs h' q = Some v.
Proof. exact mutation_isolated. Qed.
Print Assumptions C10_mutation_isolated.

(* ... and so for every sequence of operations none of which is applied to an object of q *)
Theorem C10_mutation_isolated_seq : forall spec_ren q v xs h h',
  steps spec_ren h xs = Some h' -> Alias.pobs h q = Some v -> never_applied_to spec_ren q h xs ->
  Alias.pobs h' q = Some v.
Proof. exact mutation_isolated_seq. Qed.
Print Assumptions C10_mutation_isolated_seq.

(* operations that return a new pipeline leave every existing pipeline unchanged *)
Theorem C10_original_unchanged : forall spec_ren h x h' r q v,
  Alias.step spec_ren h x = Some (h', r) -> Alias.target x = None -> Alias.pobs h q = Some v -> Alias.pobs h' q = Some v.
Proof. exact new_pipeline_ops_leave_original. Qed.
Print Assumptions C10_original_unchanged.

(* non-vacuity: a pipeline and its copy share the `_defaults` dict of their function, their objects are disjoint,
   and update_defaults on the copy is an operation the theorem applies to *)
Example C10_example_isolated :
  let ds := [ {| Alias.d_name := s "f"; Alias.d_outs := [s "a"]; Alias.d_params := [(s "x", s "x"); (s "y", s "y")];
                 Alias.d_sigd := []; Alias.d_defs := [(s "y", s "dy")]; Alias.d_bound := []; Alias.d_cached := false |} ] in
  exists h P Q fP fQ,
    Alias.build [] ds = Some (h, P) /\ True
    /\ (exists h2, Alias.pipeline_copy h P = Some (h2, Q)
         /\ Alias.get_pipe h2 P = Some [fP] /\ Alias.get_pipe h2 Q = Some [fQ] /\ fP <> fQ
         /\ (exists a b, Alias.get_func h2 fP = Some a /\ Alias.get_func h2 fQ = Some b /\ Alias.o_dfl a = Alias.o_dfl b)
         /\ (forall l, In l (Alias.objs h2 P) -> ~ In l (owned h2 (Alias.target (Alias.HUpdateDefaults Q [(s "x", s "dx")]))))
         /\ exists h3, Alias.step (fun _ m => m) h2 (Alias.HUpdateDefaults Q [(s "x", s "dx")]) = Some (h3, None)
                        /\ Alias.pobs h3 P = Alias.pobs h2 P /\ Alias.pobs h3 Q <> Alias.pobs h2 Q).
Proof. exact alias_instance. Qed.

(* ownership across operation SEQUENCES.  Sep h R: the pipelines R are well-formed object trees (every object
   reachable from a root - the Pipeline object, its PipeFunc objects, the inner pipelines of nested functions -
   exists and is reached once) and no object belongs to two of them; they may share any number of dicts.
   Every operation on pipelines of R keeps Sep and adds the pipeline it returns to the roots: copies, joins, pickles,
   simplified and split pipelines own fresh objects; the in-place operations keep the objects of their target or
   add fresh ones. *)
Theorem C10_step_sep : forall spec_ren h R x h' r, Sep h R -> incl (operands x) R ->
  Alias.step spec_ren h x = Some (h', r) -> Sep h' (R ++ result_roots r).
Proof. exact step_sep. Qed.
Print Assumptions C10_step_sep.

(* a pipeline built from descriptions is such a root (and so is every pipeline built after it) *)
Theorem C10_build_sep : forall h ds h' P R, Alias.build h ds = Some (h', P) -> Sep h R -> AliasFacts.prefix h h' /\ Sep h' (R ++ [P]).
Proof. exact build_sep. Qed.
Print Assumptions C10_build_sep.

(* mutation_isolated along EVERY sequence (the disjointness of the intermediate heaps is derived, not assumed as in
   C10_mutation_isolated_seq): starting from separated roots, along any sequence of operations on them and on the
   pipelines those operations return (steps_r checks only that the operands are roots), the observable state of a
   root q changes only through the operations applied to q itself *)
Theorem C10_mutation_isolated_everywhere : forall spec_ren q v xs h R h' R',
  Sep h R -> In q R -> steps_r spec_ren h R xs = Some (h', R') ->
  (forall x, In x xs -> Alias.target x <> Some q) ->
  Alias.pobs h q = Some v -> Alias.pobs h' q = Some v /\ Sep h' R'.
Proof. exact mutation_isolated_everywhere. Qed.
Print Assumptions C10_mutation_isolated_everywhere.

Example C10_example_sep :
  let ds := [ {| Alias.d_name := s "f"; Alias.d_outs := [s "a"]; Alias.d_params := [(s "x", s "x"); (s "y", s "y")];
                 Alias.d_sigd := []; Alias.d_defs := [(s "y", s "dy")]; Alias.d_bound := []; Alias.d_cached := false |} ] in
  exists h P, Alias.build [] ds = Some (h, P) /\ Sep h [P]
    /\ exists h2 Q h3, steps_r no_spec_ren h [P] [Alias.HCopy P] = Some (h2, [P; Q])
       /\ steps_r no_spec_ren h [P] [Alias.HCopy P; Alias.HUpdateDefaults Q [(s "x", s "dx")]; Alias.HDrop Q (s "a")] = Some (h3, [P; Q])
       /\ Alias.pobs h3 P = Alias.pobs h P /\ Alias.pobs h3 Q <> Alias.pobs h2 Q.
Proof. exact sep_instance. Qed.

(* capstone for the aliasing probes of the correspondence (kind CAlias): for EVERY case - any pipeline description,
   rewrite, side, mutation and calls - the observation computed on the heap model satisfies the executable statement
   spec_ok, unless the case is outside the domain of the model (an operation refuses: bad_case, which the harness
   counts as a failure, never as agreement).  So spec_bad = 0 for this kind is a theorem, and the correspondence
   run compares the implementation with an observation that is PROVEN to satisfy the property. *)
Theorem C10_alias_spec_ok : forall ds rw side m callA callB,
  run (CAlias ds rw side m callA callB) = bad_case
  \/ spec_ok (CAlias ds rw side m callA callB) (run (CAlias ds rw side m callA callB)) = true.
Proof. exact alias_spec_ok. Qed.
Print Assumptions C10_alias_spec_ok.

(* ---------- dotted keys vs nested dicts ---------- *)
(* Pipeline._flatten_scopes expands dicts in place: whatever mixture of nested dicts and dotted keys is passed
   (no two spellings of one keyword: NoDup all_keys), the flat keyword list it denotes (flat_of) is unchanged;
   once no dict is left that list is what the run uses (flat_vals), and a dotted list denotes itself *)
Theorem C10_dotted_nested_equiv : forall P kw kw', flatten_scopes P kw = Ok kw' -> NoDup (all_keys kw) ->
  flat_of kw' = flat_of kw /\ NoDup (all_keys kw').
Proof. exact flatten_scopes_flat_of. Qed.
Print Assumptions C10_dotted_nested_equiv.

Theorem C10_flat_vals_flat_of : forall kw,
  forallb (fun kv => match snd kv with KV _ => true | KD _ => false end) kw = true -> flat_vals kw = flat_of kw.
Proof. exact flat_vals_flat_of. Qed.
Print Assumptions C10_flat_vals_flat_of.

Example C10_example_nested :
  let P := [mkf (s "f") [s "sc.a"] [(s "sc.x", s "x"); (s "t.y", s "y")] [] [] false;
            mkf (s "g") [s "b"] [(s "t.z", s "z"); (s "w", s "w")] [] [] false] in
  let kw := [(s "sc", KD [(s "x", s "1")]); (s "t.y", KV (s "2")); (s "t", KD [(s "z", s "3")]); (s "w", KV (s "4"))] in
  NoDup (all_keys kw)
  /\ flatten_scopes P kw = Ok (dotted [(s "sc.x", s "1"); (s "t.y", s "2"); (s "t.z", s "3"); (s "w", s "4")])
  /\ flat_of kw = [(s "sc.x", s "1"); (s "t.y", s "2"); (s "t.z", s "3"); (s "w", s "4")].
Proof.
  cbv zeta. split; [|split; vm_compute; reflexivity].
  apply nodup_strb_NoDup. vm_compute. reflexivity.
Qed.

(* ---------- the embedding of Model/Pipe.v ---------- *)
(* on pipelines without nested functions the evaluation used here is the specification `Pipe.eval` of C02 *)
Theorem C10_neval_lift : forall body pick fuel p kw o,
  neval body pick fuel (lift p) kw o = eval body pick fuel p kw o.
Proof. exact neval_lift. Qed.
Print Assumptions C10_neval_lift.

(* ---------- the run model of this layer vs the specification (run_eq_eval for nodes) ---------- *)
(* The correspondence executes Rewrite.nrun (Pipeline.run on nodes: memo, used-parameter set, call log, the inner
   runs of nested functions); the theorems of this property speak about Rewrite.neval.  They are tied by proof:
   (1) without nested functions nrun is literally Pipe.run on the flattened keywords, so by the master theorem of C02
       it equals neval - errors included; the only difference is the rejection of surplus keywords; *)
Theorem C10_nrun_lift : forall body pick p o kw fk, flatten_scopes p kw = Ok fk ->
  existsb (fun kv => str_eqb (fst kv) o) kw = false -> aget (flat_vals fk) o = None ->
  nrun body pick (lift p) o kw
  = (strip (fst (Pipe.run body pick p o (flat_vals fk) false)), snd (Pipe.run body pick p o (flat_vals fk) false)).
Proof. exact nrun_lift. Qed.
Print Assumptions C10_nrun_lift.

Theorem C10_nrun_eq_neval_lifted : forall body pick p o kw fk, wf_pipeline p -> is_output p o = true ->
  flatten_scopes p kw = Ok fk -> existsb (fun kv => str_eqb (fst kv) o) kw = false -> aget (flat_vals fk) o = None ->
  fst (nrun body pick (lift p) o kw) =
    match neval body pick (nfuel (lift p)) (lift p) (flat_vals fk) o with
    | Err e => Err e
    | Ok v => if subset_str (akeys (flat_vals fk)) (param_names_needed p (flat_vals fk) o) then Ok v
              else Err UnusedParametersError
    end.
Proof. exact nrun_eq_neval_lifted. Qed.
Print Assumptions C10_nrun_eq_neval_lifted.

(* (2) with nested functions to ANY depth (nwf: unique outputs, consistent defaults, the original parameter names of a
       nested function are not among the outputs it exports - at every level): every value that nrun returns is the
       value of the specification.
   run_eq_eval_nodes_partial - the full statement would be
       fst (nrun p o kw) = match neval (nfuel p) p flat o with Err e => Err e | Ok v => <surplus-keyword check> end;
   proved here is the direction value-of-run => value-of-spec (so a value observed in the correspondence is the
   value the theorems speak about).  NOT proved for nested nodes: that nrun returns a value whenever neval does
   (the inner run reaches every exported output and uses every argument: a reachability argument about the unique
   leaf of the inner pipeline) and the agreement of the error kinds; both remain checked by the correspondence. *)
Theorem C10_run_eq_eval_nodes_partial : forall body pick p o kw v lg, nwf p ->
  nrun body pick p o kw = (Ok v, lg) ->
  exists fk, flatten_scopes (funcs p) kw = Ok fk
    /\ (aget (flat_vals fk) o = None -> exists F, neval body pick F p (flat_vals fk) o = Ok v)
    /\ (forall w, aget (flat_vals fk) o = Some w -> w = v).
Proof. exact nrun_value_sound. Qed.
Print Assumptions C10_run_eq_eval_nodes_partial.

Theorem C10_nwf_lift : forall p, NoDup (all_outputs p) -> consistent_defaults p = true -> nwf (lift p).
Proof. exact nwf_lift. Qed.
Print Assumptions C10_nwf_lift.

(* the invariant behind it: the memo of a run holds the supplied keywords and, for every other key, the value of
   the specification - through the inner runs of nested functions *)
Theorem C10_nrun_out_sound : forall body pick n p kw st o st' v, nwf p -> Inv body pick p kw st ->
  nrun_out body pick n p kw st o = (st', Ok v) -> Inv body pick p kw st' /\ aget (res st') o = Some v.
Proof. exact nrun_out_sound. Qed.
Print Assumptions C10_nrun_out_sound.

Example C10_example_nrun :
  let p := lift [mkf (s "f") [s "a"] [(s "x", s "x")] [] [] false;
                 mkf (s "g") [s "b"] [(s "a", s "a"); (s "y", s "y")] [] [] false;
                 mkf (s "h") [s "c"] [(s "b", s "b"); (s "a", s "a")] [] [] false] in
  exists p', nest [s "a"; s "b"] (Some [s "a"; s "b"]) p = Ok p' /\ nwf p'
    /\ fst (nrun Sym.body Sym.pick p' (s "c") (dotted [(s "x", s "X"); (s "y", s "Y")])) = Ok (s "h(b=g(a=f(x=X),y=Y),a=f(x=X))")
    /\ neval Sym.body Sym.pick 5 p' [(s "x", s "X"); (s "y", s "Y")] (s "c") = Ok (s "h(b=g(a=f(x=X),y=Y),a=f(x=X))").
Proof. exact nrun_instance. Qed.

(* ---------- nest_funcs ---------- *)
(* nest_preserves, in two halves (values are compared up to fuel: `neval n .. = Ok v` for some n).
   For a pipeline with unique non-empty outputs and consistent defaults declared for parameters (what construction
   checks), keywords that do not name an output produced inside the nested group, and a new_out that keeps every
   output of the group consumed by a function outside:
   - C10_nest_sound    : whatever the pipeline produced by nest_funcs(names, new_out) computes, the original computes;
   - C10_nest_complete : whatever the original computes for a retained output, the rewritten pipeline computes,
                         provided the arguments of the new nested function (one function: it needs all its inputs)
                         have values in the rewritten pipeline. *)
Theorem C10_nest_sound : forall body pick names new_out p p' kw,
  nest names new_out p = Ok p' ->
  (forall n1 n2 o, In n1 p -> In n2 p -> In o (outs (nf n1)) -> In o (outs (nf n2)) -> n1 = n2) ->
  (forall n, In n p -> outs (nf n) <> []) ->
  let fs := group p names in
  (forall k, In k (akeys kw) -> ~ In k (all_outputs (funcs fs))) ->
  (forall a c, In a p -> ~ In a fs -> In c (pnames (nf a)) -> ahas (bound (nf a)) c = false ->
               In c (all_outputs (funcs fs)) -> In c (nested_outs fs new_out)) ->
  (forall n k, In n p -> In k (akeys (dflt (nf n))) -> In k (pnames (nf n))) ->
  consistent_defaults (funcs p) = true ->
  forall n o v, neval body pick n p' kw o = Ok v -> exists m, neval body pick m p kw o = Ok v.
Proof. exact nest_preserves. Qed.
Print Assumptions C10_nest_sound.

Theorem C10_nest_complete : forall body pick names new_out p p' kw,
  nest names new_out p = Ok p' ->
  (forall n1 n2 o, In n1 p -> In n2 p -> In o (outs (nf n1)) -> In o (outs (nf n2)) -> n1 = n2) ->
  (forall n, In n p -> outs (nf n) <> []) ->
  let fs := group p names in
  (forall k, In k (akeys kw) -> ~ In k (all_outputs (funcs fs))) ->
  (forall a c, In a p -> ~ In a fs -> In c (pnames (nf a)) -> ahas (bound (nf a)) c = false ->
               In c (all_outputs (funcs fs)) -> In c (nested_outs fs new_out)) ->
  (forall n k, In n p -> In k (akeys (dflt (nf n))) -> In k (pnames (nf n))) ->
  consistent_defaults (funcs p) = true ->
  (exists M args, args_with (neval body pick M p' kw) (funcs p') kw (nf (last p' dummy_node)) = Ok args) ->
  forall n o v, neval body pick n p kw o = Ok v -> In o (all_outputs (funcs p')) ->
                exists m, neval body pick m p' kw o = Ok v.
Proof. exact nest_preserves_complete. Qed.
Print Assumptions C10_nest_complete.

(* non-vacuity: f(x)->a, g(a,y)->b, h(b,a)->c ; nest {a, b} keeping (a, b) *)
Example C10_example_nest :
  let p := lift [mkf (s "f") [s "a"] [(s "x", s "x")] [] [] false;
                 mkf (s "g") [s "b"] [(s "a", s "a"); (s "y", s "y")] [] [] false;
                 mkf (s "h") [s "c"] [(s "b", s "b"); (s "a", s "a")] [] [] false] in
  exists p', nest [s "a"; s "b"] (Some [s "a"; s "b"]) p = Ok p'
    /\ consistent_defaults (funcs p) = true
    /\ neval Sym.body Sym.pick 5 p' [(s "x", s "X"); (s "y", s "Y")] (s "c") = Ok (s "h(b=g(a=f(x=X),y=Y),a=f(x=X))")
    /\ neval Sym.body Sym.pick 5 p [(s "x", s "X"); (s "y", s "Y")] (s "c") = Ok (s "h(b=g(a=f(x=X),y=Y),a=f(x=X))").
Proof.
  cbv zeta. eexists. split; [vm_compute; reflexivity|]. split; [vm_compute; reflexivity|].
  split; vm_compute; reflexivity.
Qed.

(* ---------- simplified_pipeline ---------- *)
(* simplify_preserves, in two halves like nest_preserves (values up to fuel), for every request the code ACCEPTS
   (`simplify o c p = Ok p'`; the requests of the known finding simplify-shared-dependency are refused, so nothing is
   claimed about them).  No disjointness of the groups is needed: the output names chosen by _output_name keep every
   output of a group that a function outside the group takes (shape_hid_rest / shape_hid_grp), and Pipeline
   construction guarantees unique outputs of the result (add_all_unique).
   Hypotheses: p has unique non-empty outputs, consistent defaults declared for parameters; the keywords do not name an
   output of a combined function; for completeness the arguments of the new nested functions have values in p'. *)
Theorem C10_simplify_sound : forall body pick o c p p' kw,
  simplify o c p = Ok p' ->
  (forall n1 n2 x, In n1 p -> In n2 p -> In x (outs (nf n1)) -> In x (outs (nf n2)) -> n1 = n2) ->
  (forall n, In n p -> outs (nf n) <> []) ->
  (forall n k, In n p -> In k (akeys (dflt (nf n))) -> In k (pnames (nf n))) ->
  consistent_defaults (funcs p) = true ->
  (forall plan, simplify_plan o c p = Ok plan ->
     forall k nd, In k (akeys kw) -> In nd p -> In (nid nd) (flat_map fst (snd plan)) -> ~ In k (outs (nf nd))) ->
  forall n o' v, neval body pick n p' kw o' = Ok v -> exists m, neval body pick m p kw o' = Ok v.
Proof. exact simplify_sound. Qed.
Print Assumptions C10_simplify_sound.

Theorem C10_simplify_complete : forall body pick o c p p' kw,
  simplify o c p = Ok p' ->
  (forall n1 n2 x, In n1 p -> In n2 p -> In x (outs (nf n1)) -> In x (outs (nf n2)) -> n1 = n2) ->
  (forall n, In n p -> outs (nf n) <> []) ->
  (forall n k, In n p -> In k (akeys (dflt (nf n))) -> In k (pnames (nf n))) ->
  consistent_defaults (funcs p) = true ->
  (forall plan, simplify_plan o c p = Ok plan ->
     forall k nd, In k (akeys kw) -> In nd p -> In (nid nd) (flat_map fst (snd plan)) -> ~ In k (outs (nf nd))) ->
  (forall plan, simplify_plan o c p = Ok plan -> forall nd, In nd (skipn (length (fst plan)) p') ->
     exists M args, args_with (neval body pick M p' kw) (funcs p') kw (nf nd) = Ok args) ->
  forall n o' v, neval body pick n p kw o' = Ok v -> In o' (all_outputs (funcs p')) ->
                 exists m, neval body pick m p' kw o' = Ok v.
Proof. exact simplify_complete. Qed.
Print Assumptions C10_simplify_complete.

(* non-vacuity: f(x)->a, g(a)->b (same root arguments), h(b,y)->c ; simplified_pipeline('c') fuses f and g *)
Example C10_example_simplify :
  let p := lift [mkf (s "f") [s "a"] [(s "x", s "x")] [] [] false;
                 mkf (s "g") [s "b"] [(s "a", s "a")] [] [] false;
                 mkf (s "h") [s "c"] [(s "b", s "b"); (s "y", s "y")] [] [] false] in
  exists p', simplify (s "c") false p = Ok p' /\ map (fun nd => outs (nf nd)) p' = [[s "c"]; [s "b"]]
    /\ consistent_defaults (funcs p) = true
    /\ neval Sym.body Sym.pick 5 p' [(s "x", s "X"); (s "y", s "Y")] (s "c") = Ok (s "h(b=g(a=f(x=X)),y=Y)")
    /\ neval Sym.body Sym.pick 5 p [(s "x", s "X"); (s "y", s "Y")] (s "c") = Ok (s "h(b=g(a=f(x=X)),y=Y)").
Proof.
  cbv zeta. eexists. split; [vm_compute; reflexivity|]. split; [vm_compute; reflexivity|].
  split; [vm_compute; reflexivity|]. split; vm_compute; reflexivity.
Qed.

(* "every request with combinable nodes is accepted" is false of the code - a function combinable with two heads lands
   in two groups and the construction of the result is refused (known finding simplify-shared-dependency) *)
Theorem C10_simplify_accepts_refuted :
  exists c, Run_C10.spec_ok c (Run_C10.run c) = false.
Proof. exact simplify_refuted. Qed.
Print Assumptions C10_simplify_accepts_refuted.

(* ---------- add_mapspec_axis (map side; the names of Model/MapSpec.v shadow those of Model/Pipe.v from here on) ---------- *)
From Verif Require Import Base.Index Base.NdArr Model.MapSpec Model.MapSpecSpec Model.MapRun Model.RewriteMap
  Proofs.RewriteMapFacts.

(* add_axis_wf: if add_mapspec_axis( *params, axis) succeeds on a pipeline whose MapSpecs are well-formed
   (MapSpecSpec.wf_decl) and name their function's outputs (spec_ok), then
   - nothing but MapSpecs changes, and a function whose MapSpec changes carries the axis on ALL its outputs (upd);
   - every MapSpec is still well-formed and names its function's outputs;
   - the MapSpecs are mutually consistent (one rank and one axis name per position for every array);
   - every function that depends on one of the parameters - takes it (unbound), or takes an output of a function
     that depends on it (depi) - has the axis on all its outputs. *)
Theorem C10_add_axis_wf : forall params axis p p',
  Forall (fun f => spec_ok f = true) p -> add_axis params axis p = Ok p' ->
  Forall2 (upd axis) p p'
  /\ Forall (fun f => spec_ok f = true) p'
  /\ consistent_axes p' = true
  /\ (forall q i, In q params -> depi p q i -> goodi axis p' i).
Proof. exact add_axis_wf. Qed.
Print Assumptions C10_add_axis_wf.

Example C10_example_add_axis :
  let A n ax := {| aname := n; axes := ax |} in
  let f := {| fname := s "f"; fouts := [s "y"]; fparams := [s "x"]; fbound := []; fdefaults := [];
              fspec := Some {| ins := [A (s "x") [Some (s "i")]]; outs := [A (s "y") [Some (s "i")]] |};
              fint := []; fret := [] |} in
  let g := {| fname := s "g"; fouts := [s "z"]; fparams := [s "y"; s "c"]; fbound := []; fdefaults := [];
              fspec := None; fint := []; fret := [] |} in
  Forall (fun h => spec_ok h = true) [f; g]
  /\ exists p', add_axis [s "x"] (s "k") [f; g] = Ok p'
     /\ map (fun h => option_map print (fspec h)) p'
        = [Some (s "x[i, k] -> y[i, k]"); Some (s "y[:, k] -> z[k]")]
     /\ depi [f; g] (s "x") 1.
Proof. exact add_axis_instance. Qed.

(* ---------- add_mapspec_axis, value level (pointwise core) ---------- *)
From Verif Require Import Model.MapDenote Proofs.AddAxisValueFacts.

(* stacking vs NumPy basic indexing: `stacked sh arrs` is what stack_last builds from arrays of one shape
   (C10_stack_last_stacked); indexing it with a key that ends in the integer n is indexing the n-th array *)
Theorem C10_stack_last_stacked : forall sh arrs,
  (forall a, In a arrs -> shp a = sh /\ length (dat a) = prod sh) -> arrs <> [] ->
  stack_last (map VA arrs) = Some (VA (stacked sh arrs)).
Proof. exact stack_last_stacked. Qed.
Print Assumptions C10_stack_last_stacked.

Theorem C10_stacked_index_val : forall sh arrs,
  (forall a, In a arrs -> shp a = sh /\ length (dat a) = prod sh) ->
  forall key n a, nth_error arrs n = Some a ->
  index_val (VA (stacked sh arrs)) (key ++ [KInt n]) = index_val (VA a) key.
Proof. exact stacked_index_val. Qed.
Print Assumptions C10_stacked_index_val.

(* add_axis_lifts_partial.  FULL statement (property text): for a pipeline p without internal axes, p' with
   add_axis [q] k p = Ok p', inputs that differ only in q := stack vs, every output array of denote_run p' whose
   function depends on q has, as its slice at index n along the new (last) axis, the output of denote_run p for
   q := vs[n], and the other outputs are equal.
   PROVED here is the pointwise core for ONE function, on what the code (new_spec, the per-function step of
   add_mapspec_axis) builds, in the case that the function already maps q and the axis is new to it: the element at
   index idx ++ [n] of output j of the function with the new MapSpec, computed from q := stack of the arrays arrs,
   is the element at index idx of output j of the function with the ORIGINAL MapSpec computed from q := arrs[n]
   (MapDenote.denote_elem: the arguments delivered by the MapSpec at that index, the user code, the routing of the
   j-th returned value; errors included).  It holds for any mask (internal axes allowed).
   The two other branches of new_spec are below: a function WITHOUT MapSpec gets `q[:, .., k] -> outs[k]`
   (C10_add_axis_lifts_fresh_partial); a mapped function that takes q WHOLE gets `q[:, .., k]` appended to its inputs
   (C10_add_axis_lifts_whole_partial).  So the pointwise statement holds for every per-function step of
   add_mapspec_axis in which the axis is new to the function.
   The assembly of the elements into arrays, for one function without internal axes, is C10_add_axis_lifts_func_partial
   and C10_add_axis_lifts_func_fresh_partial further below (slice_last of every output array).
   NOT proved: the induction along the pipeline through func_shape (that the lifted MapSpecs get the shapes sh0 ++ [K]
   and that the arrays handed from one function to the next are the stacked ones), and functions that already carry
   the axis; they remain checked by the correspondence (Corr/Run_C10Map.v, kind add_axis: the implementation and
   map_run are compared per slice). *)
Theorem C10_add_axis_lifts_elem_partial : forall body f q dims k ms ms' e n sh arrs an kw mask idx j,
  fspec f = Some ms -> mem_str q (map aname (ins ms)) = true ->
  (forall a, In a (ins ms ++ outs ms) -> has_axis k a = false) ->
  new_spec f q dims k = Ok ms' ->
  (forall a, In a arrs -> shp a = sh /\ length (dat a) = prod sh) -> nth_error arrs n = Some an ->
  length mask = length idx -> ext_of mask idx = e -> length e = length (external_indices ms) ->
  stack_last (map VA arrs) = Some (VA (stacked sh arrs))
  /\ denote_elem body f ms' (map (setq q (VA (stacked sh arrs))) kw) (mask ++ [true]) j (idx ++ [n])
     = denote_elem body f ms (map (setq q (VA an)) kw) mask j idx.
Proof. exact add_axis_lifts_elem. Qed.
Print Assumptions C10_add_axis_lifts_elem_partial.

(* a function without MapSpec that takes q (an input, or an output of a function that got the axis): new_spec gives it
   `q[:, .., :, k] -> o1[k], .., om[k]` (dims: the rank of q after the axis is added); element n of its output j, from
   q := stack of arrs, is the j-th value that the ORIGINAL unmapped call returns from q := arrs[n] (a scalar: the
   model stores scalars in mapped outputs) - the full slice `:` of the stacked array at n is the n-th array *)
Theorem C10_add_axis_lifts_fresh_partial : forall body f q k dims ms', fspec f = None -> new_spec f q dims k = Ok ms' ->
  forall sh arrs, (forall a, In a arrs -> shp a = sh /\ length (dat a) = prod sh) ->
  dict_get dims q = Some (Datatypes.S (length sh)) -> sh <> [] ->
  forall n an, nth_error arrs n = Some an -> forall kw j,
  denote_elem body f ms' (map (setq q (VA (stacked sh arrs))) kw) [true] j [n]
  = do outs <- body f (map (setq q (VA an)) kw);
    match nth_error outs j with
    | Some (VS x) => Ok x
    | _ => Err ValueError
    end.
Proof. exact fresh_elem. Qed.
Print Assumptions C10_add_axis_lifts_fresh_partial.

(* a mapped function that takes q whole (q is not among the inputs of its MapSpec) *)
Theorem C10_add_axis_lifts_whole_partial : forall body f q dims k ms ms' e n sh arrs an kw mask idx j,
  fspec f = Some ms -> mem_str q (map aname (ins ms)) = false ->
  (forall a, In a (ins ms ++ outs ms) -> has_axis k a = false) ->
  dict_get dims q = Some (Datatypes.S (length sh)) -> sh <> [] ->
  new_spec f q dims k = Ok ms' ->
  (forall a, In a arrs -> shp a = sh /\ length (dat a) = prod sh) -> nth_error arrs n = Some an ->
  length mask = length idx -> ext_of mask idx = e -> length e = length (external_indices ms) ->
  denote_elem body f ms' (map (setq q (VA (stacked sh arrs))) kw) (mask ++ [true]) j (idx ++ [n])
  = denote_elem body f ms (map (setq q (VA an)) kw) mask j idx.
Proof. exact add_axis_lifts_elem_whole. Qed.
Print Assumptions C10_add_axis_lifts_whole_partial.

Example C10_example_add_axis_whole :
  let A nm ax := {| aname := nm; axes := ax |} in
  let ms := {| ins := [A (s "x") [Some (s "i")]]; outs := [A (s "y") [Some (s "i")]] |} in
  let h := {| fname := s "h"; fouts := [s "y"]; fparams := [s "x"; s "w"]; fbound := []; fdefaults := [];
              fspec := Some ms; fint := []; fret := [] |} in
  let a0 := {| shp := [2]; dat := [s "p"; s "q"] |} in
  let a1 := {| shp := [2]; dat := [s "r"; s "t"] |} in
  let X := VA {| shp := [2]; dat := [s "u"; s "v"] |} in
  let body := fun (g : mfunc) (kw : env) =>
                match kw with [(_, VS x); (_, VA a)] => Ok [VS (s "h(" ++ x ++ s "," ++ StrUtil.join (s "|") (dat a) ++ s ")")] | _ => Err ValueError end in
  exists ms', new_spec h (s "w") [(s "w", 2)] (s "k") = Ok ms' /\ print ms' = s "x[i], w[:, k] -> y[i, k]"
    /\ denote_elem body h ms' [(s "x", X); (s "w", VA (stacked [2] [a0; a1]))] [true; true] 0 [1; 1] = Ok (s "h(v,r|t)")
    /\ denote_elem body h ms [(s "x", X); (s "w", VA a1)] [true] 0 [1] = Ok (s "h(v,r|t)").
Proof. exact add_axis_whole_instance. Qed.

Example C10_example_add_axis_fresh :
  let g := {| fname := s "g"; fouts := [s "z"]; fparams := [s "y"; s "c"]; fbound := []; fdefaults := [];
              fspec := None; fint := []; fret := [] |} in
  let a0 := {| shp := [2]; dat := [s "p"; s "q"] |} in
  let a1 := {| shp := [2]; dat := [s "r"; s "t"] |} in
  let body := fun (h : mfunc) (kw : env) =>
                match kw with [(_, VA a); (_, VS c)] => Ok [VS (s "g(" ++ StrUtil.join (s "|") (dat a) ++ s "," ++ c ++ s ")")] | _ => Err ValueError end in
  exists ms', new_spec g (s "y") [(s "y", 2)] (s "k") = Ok ms' /\ print ms' = s "y[:, k] -> z[k]"
    /\ denote_elem body g ms' [(s "y", VA (stacked [2] [a0; a1])); (s "c", VS (s "C"))] [true] 0 [1] = Ok (s "g(r|t,C)")
    /\ body g [(s "y", VA a1); (s "c", VS (s "C"))] = Ok [VS (s "g(r|t,C)")].
Proof. exact add_axis_fresh_instance. Qed.

Example C10_example_add_axis_lifts :
  let A nm ax := {| aname := nm; axes := ax |} in
  let ms := {| ins := [A (s "x") [Some (s "i")]]; outs := [A (s "y") [Some (s "i")]] |} in
  let f := {| fname := s "f"; fouts := [s "y"]; fparams := [s "x"]; fbound := []; fdefaults := [];
              fspec := Some ms; fint := []; fret := [] |} in
  let a0 := {| shp := [2]; dat := [s "p"; s "q"] |} in
  let a1 := {| shp := [2]; dat := [s "r"; s "t"] |} in
  let body := fun (g : mfunc) (kw : env) => match kw with [(_, VS v)] => Ok [VS (s "f(" ++ v ++ s ")")] | _ => Err ValueError end in
  exists ms', new_spec f (s "x") [(s "x", 2)] (s "k") = Ok ms' /\ print ms' = s "x[i, k] -> y[i, k]"
    /\ stacked [2] [a0; a1] = {| shp := [2; 2]; dat := [s "p"; s "r"; s "q"; s "t"] |}
    /\ denote_elem body f ms' [(s "x", VA (stacked [2] [a0; a1]))] [true; true] 0 [1; 0] = Ok (s "f(q)")
    /\ denote_elem body f ms [(s "x", VA a0)] [true] 0 [1] = Ok (s "f(q)").
Proof. exact add_axis_lifts_instance. Qed.

(* ---------- add_mapspec_axis, value level, one function, arrays ---------- *)
(* a function WITH a MapSpec and no internal axes (mask all true; sh0 its output shape, one entry per external index);
   both branches of new_spec (q mapped by the function / q taken whole): if the function with the new MapSpec, applied
   to q := stack of arrs, yields the arrays arrs' of shape sh0 ++ [K], then for every n the ORIGINAL function applied
   to q := arrs[n] yields arrays arrs_n, and the slice of each array of arrs' at n along the new (last) axis
   (slice_last) is the corresponding array of arrs_n (as_val: a 0-d result is the scalar) *)
Theorem C10_add_axis_lifts_func_partial : forall body f q dims k ms ms' sh arrs kw sh0 mask arrs',
  fspec f = Some ms ->
  (forall a, In a (ins ms ++ outs ms) -> has_axis k a = false) ->
  (mem_str q (map aname (ins ms)) = true \/ (dict_get dims q = Some (Datatypes.S (length sh)) /\ sh <> [])) ->
  new_spec f q dims k = Ok ms' ->
  (forall a, In a arrs -> shp a = sh /\ length (dat a) = prod sh) ->
  forallb id mask = true -> length mask = length sh0 -> length sh0 = length (external_indices ms) ->
  denote_mapped body f ms' (map (setq q (VA (stacked sh arrs))) kw) (sh0 ++ [length arrs]) (mask ++ [true]) = Ok arrs' ->
  forall n an, nth_error arrs n = Some an ->
  exists arrs_n, denote_mapped body f ms (map (setq q (VA an)) kw) sh0 mask = Ok arrs_n
    /\ Forall2 (fun A' A => slice_last n (VA A') = Some (as_val A)) arrs' arrs_n.
Proof. exact add_axis_lifts_func. Qed.
Print Assumptions C10_add_axis_lifts_func_partial.

(* a function WITHOUT MapSpec: element n of output array j of the function that got `q[:, .., k] -> outs[k]` is the
   j-th value the original unmapped call returns from q := arrs[n] *)
Theorem C10_add_axis_lifts_func_fresh_partial : forall body f q k dims ms' sh arrs kw arrs',
  fspec f = None -> new_spec f q dims k = Ok ms' ->
  (forall a, In a arrs -> shp a = sh /\ length (dat a) = prod sh) ->
  dict_get dims q = Some (Datatypes.S (length sh)) -> sh <> [] ->
  denote_mapped body f ms' (map (setq q (VA (stacked sh arrs))) kw) [length arrs] [true] = Ok arrs' ->
  forall n an, nth_error arrs n = Some an -> forall j A', nth_error arrs' j = Some A' ->
  exists outs_n x, body f (map (setq q (VA an)) kw) = Ok outs_n /\ nth_error outs_n j = Some (VS x)
                   /\ shp A' = [length arrs] /\ nth_error (dat A') n = Some x.
Proof. exact add_axis_lifts_func_fresh. Qed.
Print Assumptions C10_add_axis_lifts_func_fresh_partial.

Example C10_example_add_axis_lifts_func :
  let A nm ax := {| aname := nm; axes := ax |} in
  let ms := {| ins := [A (s "x") [Some (s "i")]]; outs := [A (s "y") [Some (s "i")]] |} in
  let f := {| fname := s "f"; fouts := [s "y"]; fparams := [s "x"]; fbound := []; fdefaults := [];
              fspec := Some ms; fint := []; fret := [] |} in
  let a0 := {| shp := [2]; dat := [s "p"; s "q"] |} in
  let a1 := {| shp := [2]; dat := [s "r"; s "t"] |} in
  let body := fun (g : mfunc) (kw : env) => match kw with [(_, VS v)] => Ok [VS (s "f(" ++ v ++ s ")")] | _ => Err ValueError end in
  exists ms' Y' Y1, new_spec f (s "x") [(s "x", 2)] (s "k") = Ok ms'
    /\ denote_mapped body f ms' [(s "x", VA (stacked [2] [a0; a1]))] [2; 2] [true; true] = Ok [Y']
    /\ Y' = {| shp := [2; 2]; dat := [s "f(p)"; s "f(r)"; s "f(q)"; s "f(t)"] |}
    /\ denote_mapped body f ms [(s "x", VA a1)] [2] [true] = Ok [Y1]
    /\ slice_last 1 (VA Y') = Some (VA Y1).
Proof. exact add_axis_lifts_func_instance. Qed.
