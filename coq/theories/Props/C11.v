(* C11 - Selecting outputs / supplying intermediates keeps values, runs only needed work.
   Only statements here; every proof is `exact <lemma>` into Proofs/SubPipeFacts.v / Proofs/C11Capstone.v.
   SubPipe.subpipeline = model of Pipeline.subpipeline (repaired code: fixes 808996e, 5096f67, 329d394, 2bb0f4e, b974ee5),
   which prepare_run applies for map(output_names=S) / map(auto_subpipeline=True); Pipe.eval / Pipe.needed_top =
   specification of C02; kw = the provided names I with their values.
   STATUS: for the repaired code (the kept set is the set of functions the outputs depend on, cut at the provided
   names) ALL statements are proved in full, for arbitrary cuts I: values, "exactly the needed functions",
   rejection of uncomputable requests, acceptance of computable requests (by subpipeline and by map), "map calls
   exactly the needed functions once".  The acceptance theorem has ONE guard, `dead_defaults_agree`; where it fails the code refuses a
   computable request (witness C11_dead_defaults_refused, known finding c11-inconsistent-dead-defaults).
   The map-level acceptance has no further guard since the repair b974ee5 of _validate_complete_inputs (witness
   C11_map_accepts_supplied_output_of_kept_function).
   The proofs rest on the completeness of Graph.ancestors and of Kahn layering (Proofs/GraphFacts.v). *)
From Verif Require Import Base.Prelude Base.StrOrd Base.Graph Model.Pipe Model.SubPipe Corr.Run_C11
                          Proofs.GraphFacts Proofs.PipeFacts Proofs.SubPipeFacts Proofs.C11Capstone.

(* ---------- Graph.reach finds every path (fuel = number of nodes suffices) ---------- *)
Theorem C11_descendants_complete : forall g n x, wf_graph g ->
  (exists y, In (n, y) (edges g) /\ gpath g y x) -> x <> n -> In x (descendants g n).
Proof. exact descendants_complete. Qed.
Print Assumptions C11_descendants_complete.

Theorem C11_ancestors_complete : forall g n x, wf_graph g -> gpath g x n -> x <> n -> In x (ancestors g n).
Proof. exact ancestors_complete. Qed.
Print Assumptions C11_ancestors_complete.

(* Kahn layering succeeds on every graph that has a rank function (completeness of Graph.topo_generations) *)
Theorem C11_topo_generations_complete : forall g (r : str -> nat),
  (forall u v, In u (nodes g) -> In v (nodes g) -> In (u, v) (edges g) -> r u < r v) ->
  exists ls, topo_generations g = Some ls.
Proof. exact topo_generations_complete. Qed.
Print Assumptions C11_topo_generations_complete.

(* for every requested output the sub-pipeline computes the value of the full pipeline, with the provided
   values substituted (for every fuel, in particular for eval_top of either pipeline) *)
Theorem C11_subpipeline_values : forall body pick p Ip Sq p' kw,
  wf_pipeline p -> subpipeline p Ip (Some Sq) = Ok p' -> (forall k, In k (akeys kw) <-> In k Ip) ->
  forall n o, In o Sq -> eval body pick n p' kw o = eval body pick n p kw o.
Proof. exact subpipeline_values. Qed.
Print Assumptions C11_subpipeline_values.

(* the functions of the sub-pipeline are functions of p (only defaults may be restored) *)
Theorem C11_subpipeline_functions : forall p Ip Sq p',
  subpipeline p Ip (Some Sq) = Ok p' ->
  forall f', In f' p' -> exists f, In f p /\ fname f' = fname f /\ outs f' = outs f /\ params f' = params f
                                   /\ bound f' = bound f /\ cached f' = cached f.
Proof. exact subpipeline_functions. Qed.
Print Assumptions C11_subpipeline_functions.

(* EXACTLY the functions on a dependency path to S that are not cut off by I are kept - for EVERY cut I
   (formerly refuted by f0(x) -> a; f3(x, a) -> y; I = {x, a}; S = {y}, and proved only for root-argument cuts) *)
Theorem C11_subpipeline_needed_exact : forall p Ip Sq p' kw,
  wf_pipeline p -> subpipeline p Ip (Some Sq) = Ok p' -> (forall k, In k (akeys kw) <-> In k Ip) ->
  forall f, In f p -> (In (fid f) (map fid p') <-> exists o, In o Sq /\ In f (needed_top p kw o)).
Proof. exact subpipeline_needed_exact. Qed.
Print Assumptions C11_subpipeline_needed_exact.

(* the same in the executable form the correspondence check evaluates *)
Theorem C11_subpipeline_needed_exact_set : forall p Ip Sq p',
  wf_pipeline p -> subpipeline p Ip (Some Sq) = Ok p' -> seteq_str (map fid p') (needed_set p Ip Sq) = true.
Proof. exact subpipeline_needed_exact_set. Qed.
Print Assumptions C11_subpipeline_needed_exact_set.

(* the producers of the requested outputs are always among the kept functions (so the later check of
   Pipeline.subpipeline that every requested output survived can only fire for a name that is no output of p) *)
Theorem C11_requested_outputs_survive : forall p Ip Sq outs,
  mapM (node_of p) Sq = Ok outs ->
  forall o, In o Sq -> is_output p o = true -> is_output (keep p (required p Ip outs)) o = true.
Proof. exact requested_outputs_survive. Qed.
Print Assumptions C11_requested_outputs_survive.

(* when S is not computable from I (an unknown output, or a needed parameter without value) the request is rejected *)
Theorem C11_uncomputable_rejected : forall p Ip Sq kw,
  wf_pipeline p -> (forall k, In k (akeys kw) <-> In k Ip) ->
  (exists o, In o Sq /\ ~ (is_output p o = true /\ sufficient p kw o)) ->
  exists e, subpipeline p Ip (Some Sq) = Err e.
Proof. exact uncomputable_rejected. Qed.
Print Assumptions C11_uncomputable_rejected.

(* every computable request is accepted (formerly refuted by const() -> k; f(x, k) -> y; I = {x}; S = {y}).
   Hypotheses: the provided names are names of the pipeline; `dead_defaults_agree`: the needed functions agree on
   the defaults of every intermediate name that no needed function produces *)
Theorem C11_computable_accepted : forall p Ip Sq kw,
  wf_pipeline p -> (forall k, In k (akeys kw) <-> In k Ip) ->
  (forall k, In k Ip -> is_output p k = true \/ In k (root_arg_names p)) ->
  (forall o, In o Sq -> is_output p o = true /\ sufficient p kw o) ->
  dead_defaults_agree p kw Sq ->
  exists p', subpipeline p Ip (Some Sq) = Ok p'.
Proof. exact computable_accepted. Qed.
Print Assumptions C11_computable_accepted.

(* the guard cannot be dropped: h() -> a; f(x, a=1) -> b; g(b, a=2) -> c; I = {a, x}; S = {c} is refused *)
Theorem C11_dead_defaults_refused :
  wf_pipelineb w_dead = true /\ computableb w_dead [s "a"; s "x"] [s "c"] = true
  /\ all_readb w_dead [s "a"; s "x"] [s "c"] = true
  /\ subpipeline w_dead [s "a"; s "x"] (Some [s "c"]) = Err ValueError.
Proof. exact dead_defaults_witness. Qed.
Print Assumptions C11_dead_defaults_refused.

(* the two former refutation witnesses: accepted, and exactly the needed function kept *)
Theorem C11_former_witnesses :
  (wf_pipelineb w_nullary = true /\ computableb w_nullary [s "x"] [s "y"] = true
   /\ subpipeline w_nullary [s "x"] (Some [s "y"]) = Ok w_nullary)
  /\ (wf_pipelineb w_mixed = true /\ computableb w_mixed [s "x"; s "a"] [s "y"] = true
      /\ needed_set w_mixed [s "x"; s "a"] [s "y"] = [s "y"]
      /\ subpipeline w_mixed [s "x"; s "a"] (Some [s "y"]) = Ok [mkf (s "f3") [s "y"] [(s "x", s "x"); (s "a", s "a")] [] [] false]).
Proof. exact former_witnesses. Qed.
Print Assumptions C11_former_witnesses.

(* Pipeline.map(inputs, output_names=S [, auto_subpipeline=True]) on a pipeline without MapSpecs: the results for S
   are the values of the full pipeline with the provided values substituted; the functions called are exactly the
   functions of the sub-pipeline, each once *)
Theorem C11_map_values_and_calls : forall body pick p inputs Sq auto store lg,
  wf_pipeline p -> map_run body pick p inputs (Some Sq) auto = Ok (store, lg) ->
  exists p', subpipeline p (akeys inputs) (Some Sq) = Ok p'
    /\ (forall o, In o Sq -> exists v, aget store o = Some v /\ eval_top body pick p inputs o = Ok v)
    /\ (forall f, In f p -> (In (fid f) (map fid p') <-> In (fname f) (map fst lg)))
    /\ NoDup (map fst lg).
Proof. exact map_run_spec. Qed.
Print Assumptions C11_map_values_and_calls.

(* calls_exactly_needed, in full: whatever names are provided (roots or intermediates) *)
Theorem C11_calls_exactly_needed : forall body pick p inputs Sq auto store lg,
  wf_pipeline p -> map_run body pick p inputs (Some Sq) auto = Ok (store, lg) ->
  NoDup (map fst lg)
  /\ forall f, In f p -> (In (fname f) (map fst lg) <-> exists o, In o Sq /\ In f (needed_top p inputs o)).
Proof. exact map_calls_exactly_needed. Qed.
Print Assumptions C11_calls_exactly_needed.

(* ACCEPTANCE at the level of Pipeline.map: a computable request map(inputs, output_names=S [, auto_subpipeline])
   is accepted and runs to completion (user functions that do not raise), outside the ONE known-finding region
   `dead_defaults_agree` (c11-inconsistent-dead-defaults).  No requested output is itself provided, and every provided
   name must be read by a needed function (otherwise _validate_complete_inputs rejects it as an extra input, which
   the property allows).  The former second guard "no provided name is an output of a needed function" is gone
   (repair b974ee5: one output of a kept multi-output function may be provided) *)
Theorem C11_map_computable_accepted : forall body pick p inputs Sq auto,
  wf_pipeline p -> (forall f a, exists r, body f a = Ok r) ->
  (forall o, In o Sq -> is_output p o = true /\ sufficient p inputs o) ->
  dead_defaults_agree p inputs Sq ->
  (forall k, In k (akeys inputs) ->
     exists o f, In o Sq /\ In f (needed_top p inputs o) /\ In k (pnames f) /\ aget (bound f) k = None) ->
  (forall o, In o Sq -> ~ In o (akeys inputs)) ->
  exists store lg, map_run body pick p inputs (Some Sq) auto = Ok (store, lg).
Proof. exact map_computable_accepted. Qed.
Print Assumptions C11_map_computable_accepted.

(* the former refusal f(x) -> (a, c); h(a, c) -> d; inputs {x, a}; S = {d}: accepted, f runs because c is needed, h
   receives the PROVIDED a; a plain map still rejects a provided output name *)
Theorem C11_map_accepts_supplied_output_of_kept_function :
  wf_pipelineb w_k2 = true /\ computableb w_k2 [s "x"; s "a"] [s "d"] = true
  /\ subpipeline w_k2 [s "x"; s "a"] (Some [s "d"]) = Ok w_k2
  /\ option_map (fun r => (aget (fst r) (s "d"), map fst (snd r)))
       (match map_run Sym.body Sym.pick w_k2 [(s "x", s "1"); (s "a", s "A")] (Some [s "d"]) false with
        | Ok r => Some r | Err _ => None end)
     = Some (Some (s "h(a=A,c=out(c;f(x=1)))"), [s "f"; s "h"])
  /\ map_run Sym.body Sym.pick w_k2 [(s "x", s "1"); (s "a", s "A"); (s "d", s "D")] None false = Err ValueError.
Proof. exact k2_witness. Qed.
Print Assumptions C11_map_accepts_supplied_output_of_kept_function.

(* CAPSTONE for the case kind CSub: outside the one remaining known-finding region the executable statement of
   the correspondence check holds of the model's observation, for every case *)
Theorem C11_sub_capstone : forall p Ip Sq, dead_defaults_okb p Ip Sq = true ->
  spec_ok (CSub p Ip Sq) (run (CSub p Ip Sq)) = true.
Proof. exact sub_capstone. Qed.
Print Assumptions C11_sub_capstone.

(* ---------- non-vacuity ---------- *)
Definition ex_p : pipeline :=
  [ mkf (s "f") [s "a"; s "b"] [(s "x", s "x")] [] [] false;
    mkf (s "g") [s "c"] [(s "a", s "a"); (s "y", s "y")] [(s "y", s "d_y")] [] false;
    mkf (s "h") [s "d"] [(s "z", s "z")] [] [] false ].
Example ex_sub : wf_pipeline ex_p /\
  option_map (map fid) (match subpipeline ex_p [s "x"] (Some [s "c"]) with Ok q => Some q | Err _ => None end)
  = Some [s "a"; s "c"].
Proof. vm_compute. auto. Qed.
Example ex_uncomputable : subpipeline ex_p [] (Some [s "c"]) = Err ValueError.
Proof. vm_compute. reflexivity. Qed.
Example ex_map :
  option_map (fun r => (fst r, map fst (snd r)))
    (match map_run Sym.body Sym.pick ex_p [(s "x", s "1")] (Some [s "c"]) false with Ok r => Some r | Err _ => None end)
  = Some ([(s "a", s "out(a;f(x=1))"); (s "b", s "out(b;f(x=1))"); (s "c", s "g(a=out(a;f(x=1)),y=d_y)")], [s "f"; s "g"]).
Proof. vm_compute. reflexivity. Qed.
