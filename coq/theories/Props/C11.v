(* C11 - stub; theorems follow *)
From Verif Require Import Base.Prelude Model.Pipe Model.SubPipe.
