(* C11 - Selecting outputs / supplying intermediates keeps values, runs only needed work.
   Only statements here; every proof is `exact <lemma>` into Proofs/SubPipeFacts.v.
   SubPipe.subpipeline = model of Pipeline.subpipeline (repaired code: fixes 808996e, 5096f67), which
   prepare_run applies for map(output_names=S) / map(auto_subpipeline=True); Pipe.eval / Pipe.needed_top =
   specification of C02; kw = the provided names I with their values.
   STATUS: values / kept-needed / rejection of uncomputable requests are proved in full.  "Exactly the needed
   functions" and "every computable request is accepted" are REFUTED for the code as it is (known findings
   c11-cutoff-producer-kept, c11-needed-without-provided-ancestor, ...); the exactness is proved under the guard
   "only root arguments are provided".  No theorem is proved for acceptance (see the FULL block below). *)
From Verif Require Import Base.Prelude Base.StrOrd Base.Graph Model.Pipe Model.SubPipe
                          Proofs.GraphFacts Proofs.PipeFacts Proofs.SubPipeFacts.

(* for every requested output the sub-pipeline computes the value of the full pipeline, with the provided
   values substituted (for every fuel, in particular for eval_top of either pipeline) *)
Theorem C11_subpipeline_values : forall body pick p Ip Sq p' kw,
  wf_pipeline p -> subpipeline p Ip (Some Sq) = Ok p' -> (forall k, In k (akeys kw) <-> In k Ip) ->
  forall n o, In o Sq -> eval body pick n p' kw o = eval body pick n p kw o.
Proof. exact subpipeline_values. Qed.
Print Assumptions C11_subpipeline_values.

(* every function on a dependency path to S that is not cut off by I is kept *)
Theorem C11_subpipeline_keeps_needed : forall p Ip Sq p' kw,
  wf_pipeline p -> subpipeline p Ip (Some Sq) = Ok p' -> (forall k, In k (akeys kw) <-> In k Ip) ->
  forall o f, In o Sq -> In f (needed_top p kw o) -> In f p'.
Proof. exact subpipeline_keeps_needed. Qed.
Print Assumptions C11_subpipeline_keeps_needed.

(* when S is not computable from I (an unknown output, or a needed parameter without value) the request is rejected *)
Theorem C11_uncomputable_rejected : forall p Ip Sq kw,
  wf_pipeline p -> (forall k, In k (akeys kw) <-> In k Ip) ->
  (exists o, In o Sq /\ ~ (is_output p o = true /\ sufficient p kw o)) ->
  exists e, subpipeline p Ip (Some Sq) = Err e.
Proof. exact uncomputable_rejected. Qed.
Print Assumptions C11_uncomputable_rejected.

(* FULL: forall p I S p', wf_pipeline p -> computableb p I S = true -> all_readb p I S = true ->
         subpipeline p I (Some S) = Ok p' -> seteq_str (map fid p') (needed_set p I S) = true.
   Refuted (witness: f0(x) -> a; f3(x, a) -> y; I = {x, a}; S = {y}: f0 is kept although a cuts it off). *)
Theorem C11_subpipeline_needed_exact_refuted :
  exists p Ip Sq p', wf_pipeline p /\ computableb p Ip Sq = true /\ all_readb p Ip Sq = true
    /\ subpipeline p Ip (Some Sq) = Ok p' /\ seteq_str (map fid p') (needed_set p Ip Sq) = false.
Proof. exact subpipeline_needed_exact_refuted. Qed.
Print Assumptions C11_subpipeline_needed_exact_refuted.

(* ... and proved when only root arguments are provided (the use of map(inputs, output_names=S)) *)
Theorem C11_subpipeline_needed_exact_partial : forall p Ip Sq p' kw,
  wf_pipeline p -> subpipeline p Ip (Some Sq) = Ok p' -> (forall k, In k (akeys kw) <-> In k Ip) ->
  (forall k, In k Ip -> is_output p k = false) ->
  forall f, In f p -> (In f p' <-> exists o, In o Sq /\ In f (needed_top p kw o)).
Proof. exact subpipeline_needed_exact_roots. Qed.
Print Assumptions C11_subpipeline_needed_exact_partial.

(* FULL: forall p I S, wf_pipeline p -> computableb p I S = true -> all_readb p I S = true ->
         exists p', subpipeline p I (Some S) = Ok p'.
   Refuted (witness: const() -> k; f(x, k) -> y; I = {x}; S = {y}).  A guarded version ("every needed function is a
   descendant of a provided input, no kept function is cut off, no shared default is lost") is NOT proved:
   it needs the completeness of Graph.reach, which is only checked against networkx by correspondence. *)
Theorem C11_computable_accepted_refuted :
  exists p Ip Sq, wf_pipeline p /\ computableb p Ip Sq = true /\ all_readb p Ip Sq = true
    /\ subpipeline p Ip (Some Sq) = Err ValueError.
Proof. exact computable_accepted_refuted. Qed.
Print Assumptions C11_computable_accepted_refuted.

(* Pipeline.map(inputs, output_names=S [, auto_subpipeline=True]) on a pipeline without MapSpecs: the results for S
   are the values of the full pipeline with the provided values substituted; the functions called are exactly the
   functions of the sub-pipeline, each once *)
Theorem C11_map_values_and_calls : forall body pick p inputs Sq auto store lg,
  wf_pipeline p -> map_run body pick p inputs (Some Sq) auto = Ok (store, lg) ->
  exists p', subpipeline p (akeys inputs) (Some Sq) = Ok p'
    /\ (forall o, In o Sq -> exists v, aget store o = Some v /\ eval_top body pick p inputs o = Ok v)
    /\ (forall f, In f p -> (In f p' <-> In (fname f) (map fst lg)))
    /\ NoDup (map fst lg).
Proof. exact map_run_spec. Qed.
Print Assumptions C11_map_values_and_calls.

(* calls_exactly_needed, guarded like the exactness above (FULL statement: without the root-only hypothesis;
   refuted by the same witness as C11_subpipeline_needed_exact_refuted) *)
Theorem C11_calls_exactly_needed_partial : forall body pick p inputs Sq auto store lg,
  wf_pipeline p -> map_run body pick p inputs (Some Sq) auto = Ok (store, lg) ->
  (forall k, In k (akeys inputs) -> is_output p k = false) ->
  NoDup (map fst lg)
  /\ forall f, In f p -> (In (fname f) (map fst lg) <-> exists o, In o Sq /\ In f (needed_top p inputs o)).
Proof. exact map_calls_exactly_needed. Qed.
Print Assumptions C11_calls_exactly_needed_partial.

(* ---------- non-vacuity ---------- *)
Definition ex_p : pipeline :=
  [ mkf (s "f") [s "a"; s "b"] [(s "x", s "x")] [] [] false;
    mkf (s "g") [s "c"] [(s "a", s "a"); (s "y", s "y")] [(s "y", s "d_y")] [] false;
    mkf (s "h") [s "d"] [(s "z", s "z")] [] [] false ].
Example ex_sub : wf_pipeline ex_p /\
  option_map (map fid) (match subpipeline ex_p [s "x"] (Some [s "c"]) with Ok q => Some q | Err _ => None end)
  = Some [s "a"; s "c"].
Proof. vm_compute. auto. Qed.
Example ex_uncomputable : subpipeline ex_p [] (Some [s "c"]) = Err ValueError.
Proof. vm_compute. reflexivity. Qed.
Example ex_map :
  option_map (fun r => (fst r, map fst (snd r)))
    (match map_run Sym.body Sym.pick ex_p [(s "x", s "1")] (Some [s "c"]) false with Ok r => Some r | Err _ => None end)
  = Some ([(s "a", s "out(a;f(x=1))"); (s "b", s "out(b;f(x=1))"); (s "c", s "g(a=out(a;f(x=1)),y=d_y)")], [s "f"; s "g"]).
Proof. vm_compute. reflexivity. Qed.
