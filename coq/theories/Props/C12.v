(* C12 - theorem statements (stub; filled in below as the proofs are completed) *)
From Verif Require Import Base.Prelude Model.PrepareSteps Model.Validate Model.ValidateSpec.
