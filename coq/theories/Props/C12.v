(* C12 - Ill-formed pipelines and inputs are rejected before any user code runs.
   Only theorem statements (proofs: Proofs/ValidateFacts.v, Proofs/PrepareFacts.v).
   The ordering obligation on the step list REGENERATED from the Python source is proved in
   coq/gen/Check_PrepareSteps.v, compiled on every run of the check after the translator. *)
From Verif Require Import Base.Prelude Base.StrOrd Base.Graph Model.MapSpec Model.MapSpecSpec
  Model.PrepareSteps Model.Validate Model.ValidateSpec.
From Verif Require Model.Pipe.
From Verif Require Import Model.Mutate.
From Verif Require Import Corr.Run_C12 Proofs.PrepareFacts Proofs.ValidateFacts Proofs.ValidateDecide Proofs.MutateFacts
  Proofs.ValidateClasses Proofs.ValidateBridge.

(* ---------- construction ---------- *)
(* what construction accepts is free of every construction-time fault class of the property *)
Theorem C12_validate_construct_sound : forall fs,
  validate_construct fs = Ok tt -> WellFormedC fs.
Proof. exact validate_construct_sound. Qed.
Print Assumptions C12_validate_construct_sound.

(* each fault class is rejected (duplicate output, output = own parameter, cycle, inconsistent defaults,
   MapSpec vs signature, MapSpecs disagreeing about an array's axes) *)
Theorem C12_validate_construct_complete_per_fault : forall fs,
  (F_dup_output fs \/ F_out_is_param fs \/ F_cycle fs \/ F_defaults fs \/ F_spec_signature fs \/ F_axes fs) ->
  exists e, validate_construct fs = Err e.
Proof. exact validate_construct_complete_per_fault. Qed.
Print Assumptions C12_validate_construct_complete_per_fault.

(* ---------- map ---------- *)
(* what prepare_run accepts is free of every map-time fault class *)
Theorem C12_validate_map_sound : forall q,
  validate_map q = Ok tt ->
  ~ F_executor q /\ ~ F_missing_input q /\ ~ F_surplus_input q /\ ~ F_axes (q_funcs q) /\ ~ F_rank q
  /\ ~ F_zip q /\ ~ F_storage q.
Proof. exact validate_map_sound. Qed.
Print Assumptions C12_validate_map_sound.

Theorem C12_validate_map_complete_per_fault : forall q,
  (F_executor q \/ F_missing_input q \/ F_surplus_input q \/ F_axes (q_funcs q) \/ F_rank q \/ F_storage q
   \/ F_zip q) ->
  exists e, validate_map q = Err e.
Proof. exact validate_map_complete_per_fault. Qed.
Print Assumptions C12_validate_map_complete_per_fault.

(* ---------- the bridge to C02 / C09 / C10 / C11 / C13 / C18 ---------- *)
(* What the constructor's own validation accepts satisfies `Pipe.wf_pipelineb`, the precondition of the theorems
   about Pipeline.run.  `pythonic`: what Python itself guarantees and pipefunc does not validate (an output name
   exists, the signature has distinct parameter names, dict keys are distinct) + the harness convention that
   __name__ identifies a function. *)
Theorem C12_construct_ok_wf_pipeline : forall fs,
  pythonic fs -> validate_construct fs = Ok tt -> Pipe.wf_pipelineb (lift fs) = true.
Proof. exact construct_ok_wf_pipeline. Qed.
Print Assumptions C12_construct_ok_wf_pipeline.

(* The converse does not hold: Pipeline.add checks the defaults incrementally, so a default conflict on a name that
   only a LATER function turns into an output is refused although the complete pipeline is well-formed
   (h(a, b="1") -> c, k(c, b="2") -> d, mk() -> b: accepted as [mk; h; k], refused as [h; k; mk]). *)
Example C12_bridge_converse_fails :
  let F n o ps d := {| rname := s n; routs := [s o]; rparams := ps; rsigd := d; rdefs := []; rbound := [];
                       rspec := None; rint := [] |} in
  let h := F "h"%string "c"%string [s "a"; s "b"] [(s "b", s "1")] in
  let k := F "k"%string "d"%string [s "c"; s "b"] [(s "b", s "2")] in
  let mk := F "mk"%string "b"%string [] [] in
  Pipe.wf_pipelineb (lift [h; k; mk]) = true /\ validate_construct [h; k; mk] = Err ValueError
  /\ validate_construct [mk; h; k] = Ok tt /\ pythonic [h; k; mk].
Proof.
  cbv zeta. split; [vm_compute; reflexivity|]. split; [vm_compute; reflexivity|]. split; [vm_compute; reflexivity|].
  split.
  - intros g Hg. cbn in Hg.
    destruct Hg as [<-|[<-|[<-|[]]]]; cbn; (split; [discriminate|]); split; repeat constructor; cbn; intuition discriminate.
  - cbn. repeat constructor; cbn; intuition discriminate.
Qed.

(* ---------- exception classes ---------- *)
(* construction: ValueError for every fault class; a cycle - checked last in Pipeline.add - is
   networkx.NetworkXUnfeasible (OtherError); the only other class is the IndexError of a MapSpec without outputs *)
Theorem C12_construct_error_classes : forall fs e,
  validate_construct fs = Err e ->
  e = ValueError \/ e = OtherError \/ (e = IndexError /\ exists f m, In f fs /\ rspec f = Some m /\ outs m = []).
Proof. exact validate_construct_class. Qed.
Print Assumptions C12_construct_error_classes.

Theorem C12_add_error_classes : forall fs f e,
  add_checks fs f = Err e ->
  e = ValueError
  \/ (e = OtherError /\ unique_new fs f = Ok tt /\ consistent_defaults (fs ++ [f]) = Ok tt
      /\ mapspec_outputs_match (fs ++ [f]) = Ok tt /\ validate_consistent_axes (specs_of (fs ++ [f])) = Ok tt
      /\ acyclicb (fgraph (fs ++ [f])) = false).
Proof. exact add_checks_class. Qed.
Print Assumptions C12_add_error_classes.

Theorem C12_func_error_classes : forall f e,
  validate_func f = Err e -> e = ValueError \/ (e = IndexError /\ exists m, rspec f = Some m /\ outs m = []).
Proof. exact validate_func_class. Qed.
Print Assumptions C12_func_error_classes.

(* map: the fault classes checked before RunInfo.create raise ValueError, each when everything the code checks
   before it has passed (executor first; inputs after the graph checks; axes; storage names) *)
Theorem C12_map_head_error_classes : forall q,
  (F_executor q -> validate_map q = Err ValueError)
  /\ (c_exec q = Ok tt -> graph_checks (q_funcs q) = Ok tt -> (F_missing_input q \/ F_surplus_input q) ->
      validate_map q = Err ValueError)
  /\ (c_exec q = Ok tt -> c_inputs q = Ok tt -> F_axes (q_funcs q) -> validate_map q = Err ValueError)
  /\ (c_exec q = Ok tt -> c_inputs q = Ok tt -> c_axes q = Ok tt -> F_storage q -> validate_map q = Err ValueError).
Proof. exact validate_map_head_classes. Qed.
Print Assumptions C12_map_head_error_classes.

(* ---------- nothing runs, nothing is written ---------- *)
(* for EVERY step list: if every effect is preceded by all checks, a rejected request has performed no effect *)
Theorem C12_checks_before_effects_generic :
  forall (ctx : Type) (chk : str -> ctx -> result unit) steps c e tr,
    no_effect_before_checks steps = true -> exec chk steps c [] = (Err e, tr) -> tr = [].
Proof. intros ctx chk0. exact (rejected_no_effect chk0). Qed.
Print Assumptions C12_checks_before_effects_generic.

(* the model's own step lists satisfy the ordering (the regenerated ones: gen/Check_PrepareSteps.v) *)
Theorem C12_model_steps_ordered :
  no_effect_before_checks (map_steps false) = true
  /\ no_effect_before_checks (without_effect E_cleanup (map_steps true)) = true.
Proof. split; vm_compute; reflexivity. Qed.
Print Assumptions C12_model_steps_ordered.

(* in the model of map (prepare_run; then the run proper) a rejected request has an empty call log and, with
   cleanup=False, an unchanged file system (empty effect trace); with cleanup=True at most the requested removal
   of the old folder has happened first *)
Theorem C12_rejected_runs_nothing : forall user_calls q e tr calls,
  map_model user_calls q = (Err e, tr, calls) ->
  calls = []
  /\ (q_cleanup q = false -> tr = [])
  /\ (q_cleanup q = true -> tr = [] \/ exists t, tr = E_cleanup :: t).
Proof. exact rejected_runs_nothing. Qed.
Print Assumptions C12_rejected_runs_nothing.

Theorem C12_accepted_after_all_checks : forall user_calls q tr calls,
  map_model user_calls q = (Ok tt, tr, calls) -> validate_map q = Ok tt /\ calls = user_calls q.
Proof. exact accepted_after_all_checks. Qed.
Print Assumptions C12_accepted_after_all_checks.

(* ---------- the model satisfies the executable statement used on the implementation's observations ---------- *)
(* (`spec_ok` decides the fault classes with the boolean deciders wfc_b / wfm_b of Model/ValidateSpec.v; they accept
   everything that is free of the declarative fault classes, so a request they call faulty is rejected by the
   model, with no call and - for cleanup=False - no effect.  Cases carry claimed_valid = false: the acceptance of
   the generator's own valid cases is an empirical anchor, not a theorem.) *)
Theorem C12_model_meets_spec_construct : forall fs,
  (forall h, In h fs -> routs h <> []) -> spec_ok (CConstruct fs false) (run (CConstruct fs false)) = true.
Proof. exact model_meets_spec_construct. Qed.
Print Assumptions C12_model_meets_spec_construct.

Theorem C12_model_meets_spec_map : forall q,
  spec_ok (CMap q false) (run (CMap q false)) = true.
Proof. exact model_meets_spec_map. Qed.
Print Assumptions C12_model_meets_spec_map.

Theorem C12_model_meets_spec_order : forall cleanup,
  spec_ok (CPrepOrder cleanup) (run (CPrepOrder cleanup)) = true.
Proof. exact model_meets_spec_order. Qed.
Print Assumptions C12_model_meets_spec_order.

(* ---------- mutate-then-use: ill-formed states created AFTER construction ---------- *)
(* ONE call of the member-level API (pipeline[name].update_defaults / update_bound / update_renames) or of the
   pipeline-level API (update_defaults / update_renames / add / replace), then the next run / map.  The graph
   (re)built at the start of run / map re-checks unique outputs, consistent defaults and acyclicity - the only
   pipeline-level validation a member-level change ever meets. *)
Theorem C12_mutate_then_run_sound : forall fs mu fs',
  apply_mutation fs mu = Ok fs' -> use_run fs' = Ok tt ->
  fs' = mutate_desc fs mu /\ ~ F_dup_output fs' /\ ~ F_defaults fs' /\ ~ F_cycle fs'.
Proof. exact mutate_then_run_sound. Qed.
Print Assumptions C12_mutate_then_run_sound.

Theorem C12_mutate_then_run_complete_per_fault : forall fs mu,
  let fs' := mutate_desc fs mu in
  (F_dup_output fs' \/ F_defaults fs' \/ F_cycle fs') ->
  (exists e, apply_mutation fs mu = Err e) \/ (exists e, use_run fs' = Err e).
Proof. exact mutate_then_run_complete_per_fault. Qed.
Print Assumptions C12_mutate_then_run_complete_per_fault.

Theorem C12_mutate_then_map_complete_per_fault : forall q fs',
  (F_dup_output fs' \/ F_defaults fs' \/ F_cycle fs') -> exists e, validate_map (with_funcs q fs') = Err e.
Proof. exact mutate_then_map_complete_per_fault. Qed.
Print Assumptions C12_mutate_then_map_complete_per_fault.

(* a member-level mutation re-validates the member: no duplicate output, no output named like a parameter *)
Theorem C12_member_mutation_revalidates_member : forall fs j f fs' mu,
  (exists d, mu = MDefaults j d) \/ (exists b ow, mu = MBound j b ow) \/ (exists ren, mu = MRename j ren) ->
  nth_error fs j = Some f -> apply_mutation fs mu = Ok fs' ->
  exists f', nth_error fs' j = Some f' /\ validate_func f' = Ok tt
             /\ NoDup (routs f') /\ (forall o, In o (routs f') -> ~ In o (rparams f')).
Proof. exact member_mutation_revalidates_member. Qed.
Print Assumptions C12_member_mutation_revalidates_member.

(* the scenario of the seeded regression C12-m1: f(a, b=1) -> c, g(c, b=1) -> y; pipeline["y"].update_defaults(b=5)
   is accepted by the member, and rejected by the graph checks of the next run and of the next map (with an existing
   run folder and cleanup=False: no call, no effect); likewise an output renamed onto another output and a
   parameter renamed into a cycle *)
Module ExM.
  Definition F (n o : string) (ps : list string) : raw_func :=
    {| rname := s n; routs := [s o]; rparams := map s ps; rsigd := [(s "b", s "1")]; rdefs := [];
       rbound := []; rspec := None; rint := [] |}.
  Definition fs : list raw_func := [F "f" "c" ["a"; "b"]%string; F "g" "y" ["c"; "b"]%string].
  Definition mu : mutation := MDefaults 1 [(s "b", s "5")].
  Definition q : mreq :=
    {| q_funcs := fs; q_inputs := [(s "a", IScalar (s "1"))]; q_internal := []; q_storage := StStr (s "dict");
       q_registry := [s "dict"]; q_parallel := false; q_executor := false; q_cleanup := false;
       q_prev := Some {| pv_inputs := [(s "a", IScalar (s "1"))]; pv_internal := []; pv_funcs := None |} |}.
End ExM.
Example C12_example_mutate_then_use :
  validate_construct ExM.fs = Ok tt
  /\ apply_mutation ExM.fs ExM.mu = Ok (mutate_desc ExM.fs ExM.mu)
  /\ use_run (mutate_desc ExM.fs ExM.mu) = Err ValueError
  /\ map_model (fun _ => [s "would-run"]) (with_funcs ExM.q (mutate_desc ExM.fs ExM.mu)) = (Err ValueError, [], [])
  /\ (exists fs', apply_mutation ExM.fs (MRename 0 [(s "c", s "y")]) = Ok fs' /\ use_run fs' = Err ValueError)
  /\ (exists fs', apply_mutation ExM.fs (MRename 0 [(s "a", s "y")]) = Ok fs' /\ use_run fs' = Err OtherError)
  /\ apply_mutation ExM.fs (PRename [(s "c", s "y")]) = Err ValueError.
Proof.
  repeat split; try (vm_compute; reflexivity); eexists; split; vm_compute; reflexivity.
Qed.

(* ---------- pipeline(output, **kwargs) ---------- *)
(* Since the repair "validate the keyword arguments of Pipeline.run before executing anything" (model:
   Pipe.run_checked = Pipe.run_precheck, then the evaluation Pipe.run) a call with a missing or a surplus keyword
   is rejected with an EMPTY call log; before it the statement was refuted (former known findings
   run-missing-input-after-calls / run-surplus-input-after-calls). *)
Theorem C12_run_rejects_before_calls : forall p o kw,
  spec_ok (CCall p o kw false) (run (CCall p o kw false)) = true.
Proof. exact model_meets_spec_call. Qed.
Print Assumptions C12_run_rejects_before_calls.

(* the order inside Pipeline.run (model list; the list regenerated from the source: gen/Check_PrepareSteps.v):
   every check precedes the first invocation of user code *)
Theorem C12_run_entry_ordered :
  no_effect_before_checks run_entry_steps = true /\ spec_ok CRunOrder (run CRunOrder) = true.
Proof. split; [vm_compute; reflexivity|exact model_meets_spec_run_order]. Qed.
Print Assumptions C12_run_entry_ordered.

(* the two former witnesses *)
Example C12_example_run_rejected_up_front :
  Pipe.run_checked Pipe.Sym.body Pipe.Sym.pick
    [Pipe.mkf (s "f0") [s "o0"] [(s "z", s "z"); (s "y", s "y")] [] [(s "y", s "B0_y")] false;
     Pipe.mkf (s "f1") [s "o1"] [(s "o0", s "o0"); (s "y", s "y")] [] [] false]
    (s "o1") [(s "z", s "v_z")] false = (Err ValueError, [])
  /\ Pipe.run_checked Pipe.Sym.body Pipe.Sym.pick
    [Pipe.mkf (s "f2") [s "o2"] [(s "x", s "x"); (s "o0", s "o0")] [] [(s "o0", s "B2_o0")] false]
    (s "o2") [(s "x", s "v_x"); (s "zz", s "v_zz")] false = (Err UnusedParametersError, []).
Proof. split; vm_compute; reflexivity. Qed.

(* ---------- non-vacuity ---------- *)
Module Ex.
  Definition A (n : string) (ax : list (option str)) : aspec := {| aname := s n; axes := ax |}.
  Definition i_ := Some (s "i").
  Definition j_ := Some (s "j").
  (* f(x, y, c="C") -> a   with  x[i], y[i, j] -> a[i, j]      g(a) -> (b, t)  with  a[i, :] -> b[i], t[i] *)
  Definition f : raw_func :=
    {| rname := s "f"; routs := [s "a"]; rparams := [s "x"; s "y"; s "c"]; rsigd := [(s "c", s "C")]; rdefs := [];
       rbound := []; rspec := Some {| ins := [A "x" [i_]; A "y" [i_; j_]]; outs := [A "a" [i_; j_]] |}; rint := [] |}.
  Definition g : raw_func :=
    {| rname := s "g"; routs := [s "b"; s "t"]; rparams := [s "a"]; rsigd := []; rdefs := []; rbound := [];
       rspec := Some {| ins := [A "a" [i_; None]]; outs := [A "b" [i_]; A "t" [i_]] |}; rint := [] |}.
  Definition q : mreq :=
    {| q_funcs := [f; g];
       q_inputs := [(s "x", IList [2] (s "[x0,x1]")); (s "y", INd [2; 3] (s "[..]"))];
       q_internal := []; q_storage := StDict [([], s "dict")]; q_registry := [s "dict"; s "file_array"];
       q_parallel := false; q_executor := false; q_cleanup := false; q_prev := None |}.
End Ex.

Example C12_example_accepted :
  validate_construct [Ex.f; Ex.g] = Ok tt /\ validate_map Ex.q = Ok tt.
Proof. split; vm_compute; reflexivity. Qed.

(* instances of the hypotheses of the model_meets_spec theorems, and a rejected request of the map model *)
Example C12_example_hypotheses :
  (forall h, In h [Ex.f; Ex.g] -> routs h <> [])
  /\ map_model (fun _ => [s "would-run"])
        {| q_funcs := q_funcs Ex.q; q_inputs := q_inputs Ex.q; q_internal := []; q_storage := StStr (s "bogus");
           q_registry := q_registry Ex.q; q_parallel := false; q_executor := false; q_cleanup := false;
           q_prev := Some {| pv_inputs := q_inputs Ex.q; pv_internal := []; pv_funcs := None |} |}
     = (Err ValueError, [], [])
  /\ map_model (fun _ => [s "would-run"]) Ex.q
     = (Ok tt, [E_dump_inputs; E_dump_defaults; E_dump_info; E_init_arrays], [s "would-run"]).
Proof.
  split; [intros h [<-|[<-|[]]]; discriminate|]. split; vm_compute; reflexivity.
Qed.

(* one instance per fault class, each rejected by the model *)
Example C12_example_faults :
  let set_outs (h : raw_func) o := {| rname := rname h; routs := o; rparams := rparams h; rsigd := rsigd h;
                                      rdefs := rdefs h; rbound := rbound h; rspec := None; rint := [] |} in
  let set_params (h : raw_func) p := {| rname := rname h; routs := routs h; rparams := p; rsigd := rsigd h;
                                        rdefs := rdefs h; rbound := rbound h; rspec := None; rint := [] |} in
  validate_construct [set_outs Ex.f [s "a"]; set_outs Ex.g [s "a"]] = Err ValueError             (* duplicate output *)
  /\ validate_construct [set_outs Ex.f [s "x"]] = Err ValueError                                 (* output = parameter *)
  /\ validate_construct [set_params (set_outs Ex.f [s "a"]) [s "b"]; set_outs Ex.g [s "b"]] = Err OtherError  (* cycle *)
  /\ validate_map {| q_funcs := q_funcs Ex.q; q_inputs := [(s "x", IList [2] []); (s "y", INd [3; 3] [])];
                     q_internal := []; q_storage := q_storage Ex.q; q_registry := q_registry Ex.q;
                     q_parallel := false; q_executor := false; q_cleanup := false; q_prev := None |}
     = Err ValueError                                                                             (* zip mismatch *)
  /\ validate_map {| q_funcs := q_funcs Ex.q; q_inputs := q_inputs Ex.q;
                     q_internal := []; q_storage := StStr (s "bogus"); q_registry := q_registry Ex.q;
                     q_parallel := false; q_executor := false; q_cleanup := false; q_prev := None |}
     = Err ValueError.                                                                            (* unknown storage *)
Proof. cbv zeta. repeat split; vm_compute; reflexivity. Qed.
