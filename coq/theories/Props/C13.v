(* C13 - User-function failures surface unchanged, attributed and reproducible.
   Only statements here; every proof is `exact <lemma>` into Proofs/Failing*.v.

   User code is an ARBITRARY oracle `ubody` that may return `Raised e` (e : exn = class name + args); all theorems
   quantify over it, over all pipelines / map requests, all generation lists, both storage disciplines
   (dump_sub) and both execution paths (stop = true: sequential; stop = false: executor).
   "returns instead of hanging" is NOT a theorem: it is checked by timeout on every explored case (partial). *)
From Verif Require Import Base.Prelude.
From Verif Require Model.Pipe Model.Failing Proofs.FailingFacts Proofs.FailingOnceFacts.
From Verif Require Base.NdArr Model.MapSpec Model.MapRun Model.FailingMap
  Proofs.FailingMapFacts Proofs.FailingStoreFacts Proofs.FailingWitness.

(* ================================================================== pipeline(...) / Pipeline.run *)
Module PipeCalls.
  Import Pipe Failing FailingFacts FailingOnceFacts.

  (* error_surfaces + call_failure_once: if, in the evaluation order of the run (= its call log), the first
     raising invocation is c (every earlier invocation returned), then the call raises exactly that exception
     term (class and args unchanged) with the note (function name, keyword arguments of exactly that invocation
     under the function's current parameter names), and NOTHING is invoked after c *)
  Theorem C13_error_surfaces_run : forall ubody pick p o kw full lg1 c lg2 e,
    snd (Pipe.run (enc ubody) pick p o kw full) = lg1 ++ c :: lg2 ->
    all_return ubody lg1 -> ubody (fst c) (snd c) = Raised e ->
    run_f ubody pick p o kw full = (FRaised e (note_of p c), lg1 ++ [c]) /\ lg2 = [].
  Proof. exact run_error_surfaces. Qed.
  Print Assumptions C13_error_surfaces_run.

  (* conversely, a reported user exception is the one raised by the last invocation of the log, all earlier
     invocations returned, and the note is the note of that invocation *)
  Theorem C13_run_raised_sound : forall ubody pick p o kw full e n lg,
    run_f ubody pick p o kw full = (FRaised e n, lg) ->
    exists lg1 c, lg = lg1 ++ [c] /\ all_return ubody lg1 /\ ubody (fst c) (snd c) = Raised e /\ n = note_of p c.
  Proof. exact run_raised_sound. Qed.
  Print Assumptions C13_run_raised_sound.

  (* a user exception is never swallowed or replaced by a library error *)
  Theorem C13_run_never_swallows : forall ubody pick p o kw full c,
    In c (snd (Pipe.run (enc ubody) pick p o kw full)) -> raises ubody c ->
    exists e n, fst (run_f ubody pick p o kw full) = FRaised e n.
  Proof. exact run_never_swallows. Qed.
  Print Assumptions C13_run_never_swallows.

  (* call_failure_once (invocations, no well-formedness needed): the failing invocation occurs exactly once, as
     the last entry of the log *)
  Theorem C13_call_failure_once : forall ubody pick p o kw full e n lg,
    run_f ubody pick p o kw full = (FRaised e n, lg) ->
    exists lg1 c, lg = lg1 ++ [c] /\ ~ In c lg1 /\ ubody (fst c) (snd c) = Raised e.
  Proof. exact run_failure_once. Qed.
  Print Assumptions C13_call_failure_once.

  (* every function of a well-formed pipeline (distinct names, acyclic) is entered at most once per call, also
     when the call ends with a user exception (memoisation in all_results + the Kahn rank of the function graph) *)
  Theorem C13_run_calls_once : forall (ubody : str -> alist -> Exn.outcome str) pick p o kw full,
    wf_pipeline p -> NoDup (map fst (snd (Pipe.run (enc ubody) pick p o kw full))).
  Proof. exact run_calls_once. Qed.
  Print Assumptions C13_run_calls_once.

  (* call_failure_once at the level of functions: the failing FUNCTION was entered exactly once, last *)
  Theorem C13_call_failure_once_function : forall (ubody : str -> alist -> Exn.outcome str) pick p o kw full e n lg,
    wf_pipeline p ->
    run_f ubody pick p o kw full = (FRaised e n, lg) ->
    exists lg1 c, lg = lg1 ++ [c] /\ ~ In (fst c) (map fst lg1) /\ ubody (fst c) (snd c) = Raised e
                  /\ NoDup (map fst lg).
  Proof. exact run_failure_function_once. Qed.
  Print Assumptions C13_call_failure_once_function.

  (* reproduce_same: the snapshot exposed after the call names the failing invocation, and reproduce() raises the
     same exception (determinism of user code = `ubody` is a function) *)
  Theorem C13_reproduce_same_run : forall ubody pick p o kw full sn,
    run_snapshot ubody pick p o kw full = Some sn ->
    reproduce ubody sn = Raised (sn_exn sn)
    /\ exists n lg, run_f ubody pick p o kw full = (FRaised (sn_exn sn) n, lg)
                    /\ last_opt lg = Some (sn_fname sn, sn_kwargs sn).
  Proof. exact run_reproduce_same. Qed.
  Print Assumptions C13_reproduce_same_run.

  (* non-vacuity: a two-function pipeline with a renamed parameter whose second function raises *)
  Example C13_example_run :
    wf_pipeline ex_p
    /\ snd (Pipe.run (enc ex_body) Sym.pick ex_p (s "o1") [(s "x", s "v")] false) = [ex_c0] ++ ex_c1 :: []
    /\ all_return ex_body [ex_c0]
    /\ ex_body (fst ex_c1) (snd ex_c1) = Raised ex_exn
    /\ run_f ex_body Sym.pick ex_p (s "o1") [(s "x", s "v")] false
       = (FRaised ex_exn (s "f1", [(s "o0", s "f0(x=v)")]), [ex_c0; ex_c1])
    /\ exists sn, run_snapshot ex_body Sym.pick ex_p (s "o1") [(s "x", s "v")] false = Some sn
                  /\ sn_fname sn = s "f1" /\ sn_kwargs sn = [(s "p0", s "f0(x=v)")] /\ sn_exn sn = ex_exn.
  Proof. exact example_run_surfaces. Qed.
End PipeCalls.

(* ================================================================== Pipeline.map / map_async *)
Module MapCalls.
  Import NdArr MapSpec MapRun FailingMap FailingMapFacts FailingStoreFacts FailingWitness.

  (* error_surfaces, both paths, hypothesis-free: the first raising invocation c of the run (in submission order) is
     reported unchanged with the note = c itself (function, keyword arguments of exactly that invocation), and on the
     sequential path nothing runs after it -- unless the LIBRARY's own machinery raised (an earlier task of the same
     generation whose selection / dump failed, or a failing dump while the completed results are stored in the
     exception handler); a user exception is never replaced by another user exception and never swallowed *)
  Theorem C13_error_surfaces_map : forall ubody dump_sub stop gens inputs user st tr fl lg1 c lg2 e,
    map_run_f ubody dump_sub stop gens inputs user = (st, tr, fl) ->
    m_log st = lg1 ++ c :: lg2 -> all_ret ubody lg1 -> ubody (fst c) (snd c) = Raised e ->
    (fl = Some (FailUser e c) /\ (stop = true -> lg2 = [])) \/ exists x, fl = Some (FailLib x).
  Proof. exact map_error_surfaces_or_lib. Qed.
  Print Assumptions C13_error_surfaces_map.

  (* the same with the library-error alternative excluded by hypothesis (sequential path) *)
  Theorem C13_error_surfaces_map_seq_partial : forall ubody dump_sub gens inputs user st tr fl lg1 c lg2 e,
    map_run_f ubody dump_sub true gens inputs user = (st, tr, fl) ->
    m_log st = lg1 ++ c :: lg2 -> all_ret ubody lg1 -> ubody (fst c) (snd c) = Raised e ->
    (forall x, fl <> Some (FailLib x)) ->
    fl = Some (FailUser e c) /\ lg2 = [].
  Proof.
    intros ubody dump_sub gens inputs user st tr fl lg1 c lg2 e H Hl Hd Hr Hn.
    destruct (map_error_surfaces ubody dump_sub true _ _ _ _ _ _ _ _ _ _ H Hl Hd Hr Hn) as [A B].
    split; [exact A|exact (B eq_refl)].
  Qed.
  Print Assumptions C13_error_surfaces_map_seq_partial.

  (* ... and on the executor path: every task of the current generation may run (lg2), the first raising task in
     submission order is the one reported *)
  Theorem C13_error_surfaces_map_par_partial : forall ubody dump_sub gens inputs user st tr fl lg1 c lg2 e,
    map_run_f ubody dump_sub false gens inputs user = (st, tr, fl) ->
    m_log st = lg1 ++ c :: lg2 -> all_ret ubody lg1 -> ubody (fst c) (snd c) = Raised e ->
    (forall x, fl <> Some (FailLib x)) ->
    fl = Some (FailUser e c).
  Proof.
    intros ubody dump_sub gens inputs user st tr fl lg1 c lg2 e H Hl Hd Hr Hn.
    exact (proj1 (map_error_surfaces ubody dump_sub false _ _ _ _ _ _ _ _ _ _ H Hl Hd Hr Hn)).
  Qed.
  Print Assumptions C13_error_surfaces_map_par_partial.

  (* a reported user exception was raised by an invocation of the log, every invocation submitted before it
     returned; on the sequential path it is the last invocation *)
  Theorem C13_map_raised_sound : forall ubody dump_sub stop gens inputs user st tr e c,
    map_run_f ubody dump_sub stop gens inputs user = (st, tr, Some (FailUser e c)) ->
    exists lg1 lg2, m_log st = lg1 ++ c :: lg2 /\ all_ret ubody lg1 /\ ubody (fst c) (snd c) = Raised e
                    /\ (stop = true -> lg2 = []).
  Proof. exact map_raised_sound. Qed.
  Print Assumptions C13_map_raised_sound.

  (* no_later_generation: exactly `length tr` generations were started; every invocation of the log is of a function
     of one of these, and the failing function is in the LAST of them: no function of a later generation is invoked *)
  Theorem C13_no_later_generation : forall ubody dump_sub stop gens inputs user st tr fl,
    map_run_f ubody dump_sub stop gens inputs user = (st, tr, fl) ->
    length tr <= length gens
    /\ Forall (fun c => In (fst c) (concat (firstn (length tr) gens))) (m_log st)
    /\ (forall e c, fl = Some (FailUser e c) ->
          exists pre g post, gens = pre ++ g :: post /\ length tr = S (length pre) /\ In (fst c) g).
  Proof. exact map_no_later_generation. Qed.
  Print Assumptions C13_no_later_generation.

  (* prefix_results_kept, FULL (repaired code: fix "keep the results that completed before a function raised").
     `holds s t outs`: for the j-th output o of the task's function, a mapped task has all entries dumped for its
     output key in the array stored under o, another task has its value stored under o.
     When map raises a user exception (or returns), EVERY result that completed before the failure is in the
     store: all tasks of the earlier generations and, in the failing generation, every task that precedes the failing
     one in submission order (`take_done rs`), for every storage and both paths.  Names are distinct. *)
  Theorem C13_prefix_results_kept : forall ubody dump_sub stop gens inputs user st tr fl,
    map_run_f ubody dump_sub stop gens inputs user = (st, tr, fl) ->
    (fl = None \/ exists e c, fl = Some (FailUser e c)) ->
    NoDup (flat_map fouts (concat gens)) -> NoDup (map fname (concat gens)) ->
    forall rs t outs, In rs tr -> In (t, TDone outs) (take_done rs) -> holds (m_store st) t outs.
  Proof. exact map_prefix_results_kept. Qed.
  Print Assumptions C13_prefix_results_kept.

  (* ... on the sequential path that is every invocation of the run that returned *)
  Theorem C13_prefix_results_kept_seq : forall ubody dump_sub gens inputs user st tr fl,
    map_run_f ubody dump_sub true gens inputs user = (st, tr, fl) ->
    (fl = None \/ exists e c, fl = Some (FailUser e c)) ->
    NoDup (flat_map fouts (concat gens)) -> NoDup (map fname (concat gens)) ->
    forall rs t outs, In rs tr -> In (t, TDone outs) rs -> holds (m_store st) t outs.
  Proof. exact map_prefix_results_kept_seq. Qed.
  Print Assumptions C13_prefix_results_kept_seq.

  (* the completed generations alone (no hypothesis on the kind of failure) *)
  Theorem C13_prefix_results_kept_generations : forall ubody dump_sub stop gens inputs user st tr fl,
    map_run_f ubody dump_sub stop gens inputs user = (st, tr, fl) ->
    NoDup (flat_map fouts (concat gens)) ->
    forall rs t outs, In rs (completed tr fl) -> In (t, TDone outs) rs -> holds (m_store st) t outs.
  Proof. exact map_completed_generations_kept. Qed.
  Print Assumptions C13_prefix_results_kept_generations.

  (* executor path, beyond the property: with a storage that dumps in the worker (file_array, shared_memory_dict)
     every completed ELEMENT of a mapped function is in the store, also those submitted AFTER the failing task *)
  Theorem C13_dumped_elements_kept : forall ubody dump_sub stop gens inputs user st tr fl,
    map_run_f ubody dump_sub stop gens inputs user = (st, tr, fl) ->
    dump_sub = true ->
    forall rs t outs, In rs tr -> In (t, TDone outs) rs -> t_map t <> None -> holds (m_store st) t outs.
  Proof. exact map_dumped_elements_kept. Qed.
  Print Assumptions C13_dumped_elements_kept.

  (* entries of the store are what load_outputs returns at that position when the key occurs with one value *)
  Theorem C13_stored_is_loadable : forall (st : sto) idx x,
    In (idx, x) st -> (forall x', In (idx, x') st -> x' = x) -> sto_get st idx = Some x.
  Proof. exact sto_get_in. Qed.
  Print Assumptions C13_stored_is_loadable.

  (* reproduce_same: the snapshot is (failing invocation, exception); calling the function again with the stored
     keyword arguments raises the same exception *)
  Theorem C13_reproduce_same_map : forall ubody dump_sub stop gens inputs user st tr fl sn,
    map_run_f ubody dump_sub stop gens inputs user = (st, tr, fl) -> map_snapshot fl = Some sn ->
    mreproduce ubody sn = Raised (snd sn) /\ fl = Some (FailUser (snd sn) (fst sn)).
  Proof. exact map_reproduce_same. Qed.
  Print Assumptions C13_reproduce_same_map.

  (* a run that reports no failure had no raising invocation and ran every generation *)
  Theorem C13_map_ok_all_return : forall ubody dump_sub stop gens inputs user st tr,
    map_run_f ubody dump_sub stop gens inputs user = (st, tr, None) ->
    all_ret ubody (m_log st) /\ length tr = length gens.
  Proof. exact map_ok_all_return. Qed.
  Print Assumptions C13_map_ok_all_return.

  (* non-vacuity: the two runs that refuted the property before the repair (former known findings) now satisfy the
     full theorem; the dumped-element theorem on a storage that dumps in the worker; two generations on both paths *)
  Example C13_example_single_kept :
    exists st tr c,
      map_run_f w_body true true [[w_s; w_g]] (w_inputs [s "b"]) [] = (st, tr, Some (FailUser wexn c))
      /\ NoDup (flat_map fouts (concat [[w_s; w_g]])) /\ NoDup (map fname (concat [[w_s; w_g]]))
      /\ (exists rs, In rs tr /\ In (w_task_s, TDone [VS (s "s(C)")]) rs)
      /\ holds (m_store st) w_task_s [VS (s "s(C)")].
  Proof. exact example_single_kept. Qed.

  Example C13_example_dict_kept :
    exists st tr c t,
      map_run_f w_body false true [[w_g]] [(s "x", VA {| shp := [2]; dat := [s "a"; s "b"] |})] [] =
        (st, tr, Some (FailUser wexn c))
      /\ (exists rs, In rs tr /\ In (t, TDone [VS (s "g(a)")]) rs) /\ t_map t <> None
      /\ holds (m_store st) t [VS (s "g(a)")].
  Proof. exact example_dict_kept. Qed.

  Example C13_example_dumped_kept :
    exists st tr c t,
      map_run_f w_body true true [[w_g]] [(s "x", VA {| shp := [2]; dat := [s "a"; s "b"] |})] [] =
        (st, tr, Some (FailUser wexn c))
      /\ (exists rs, In rs tr /\ In (t, TDone [VS (s "g(a)")]) rs) /\ t_map t <> None
      /\ holds (m_store st) t [VS (s "g(a)")]
      /\ m_log st = [(w_g, [(s "x", VS (s "a"))]); c] /\ fst c = w_g.
  Proof. exact example_dumped_kept. Qed.

  Example C13_example_generation_kept : forall stop,
    exists st tr c,
      map_run_f w_body2 false stop [[w_g]; [w_h]] [(s "x", VA {| shp := [2]; dat := [s "a"; s "c"] |})] [] =
        (st, tr, Some (FailUser wexn c))
      /\ fst c = w_h
      /\ length tr = 2
      /\ map (fun c => fname (fst c)) (m_log st) = [s "g"; s "g"; s "h"]
      /\ (exists rs t outs, In rs (completed tr (Some (FailUser wexn c))) /\ In (t, TDone outs) rs)
      /\ forall rs t outs, In rs (completed tr (Some (FailUser wexn c))) -> In (t, TDone outs) rs ->
                           holds (m_store st) t outs.
  Proof. exact example_generation_kept. Qed.
End MapCalls.

(* ================================================================== capstone: the boolean statement *)
From Verif Require Corr.C13Pipe Corr.Run_C13 Proofs.C13PipeCap.

(* CAPSTONE, pipeline(...) / run / func cases: the executable statement that judges the implementation
   (Run_C13.spec_ok, written from the property text) holds of the model's own observation for EVERY pipeline call
   case -- every pipeline (well-formed or not), output, keywords, flag, entry point, failing invocation and
   exception -- provided the function names contain no '(' (the call log renders an invocation as name(...)).
   There is no known region left.  It combines error_surfaces, call_failure_once (function level),
   reproduce_same and the note / snapshot shape. *)
Theorem C13_capstone_pipe : forall p o kw full entry tgt e,
  C13PipeCap.names_ok p = true ->
  Run_C13.spec_ok (Run_C13.CPipe p o kw full entry tgt e) (Run_C13.run (Run_C13.CPipe p o kw full entry tgt e)) = true.
Proof. intros p o kw full entry tgt e H. exact (C13PipeCap.pipe_capstone p o kw full tgt e H). Qed.
Print Assumptions C13_capstone_pipe.

(* CAPSTONE, map cases, WITHOUT the store conjunct: Corr/C13Map.map_spec_ok = map_judge true and
   map_head_ok = map_judge false are the same boolean statement except that the latter omits the last conjunct
   ("results completed before the failure remain loadable", which compares the stored arrays with the denotation of
   C01).  map_head_ok -- the exception unchanged, the note = failing function + kwargs of that invocation, no
   invocation of a later generation (generation = dependency depth), the sequential path stops at the failure, the
   ErrorSnapshot names that invocation and reproduce() raises the same exception -- holds of the model's own
   observation for EVERY map case (any generations / inputs / storage discipline / path / in-process flag / failing
   invocation / exception) whose model run does not end in an exception of the library itself, provided the function
   names contain no '('.  NOT proved: the store conjunct at this boolean level (its Prop-level counterpart is
   C13_prefix_results_kept; the engine evaluates the full spec_ok on the model for every explored case). *)
From Verif Require Corr.C13Map Proofs.C13MapCap.

Theorem C13_capstone_map_head : forall gens inputs internal dump_sub par inproc tgt e,
  C13MapCap.names_ok_m gens = true ->
  C13MapCap.model_no_lib gens inputs internal dump_sub par tgt e = true ->
  C13Map.map_head_ok gens inputs internal dump_sub par inproc tgt e
    (C13Map.map_run gens inputs internal dump_sub par inproc tgt e) = true.
Proof. exact C13MapCap.map_capstone_head. Qed.
Print Assumptions C13_capstone_map_head.

(* ================================================================== executor path: every schedule *)
(* The model executes the tasks of a generation in submission order.  That choice is immaterial: for EVERY order in
   which an executor runs them, each task has the same outcome (it depends on the task alone: its kwargs were fixed at
   submission from the results of earlier generations, and it writes only to the stores of its own function), the
   call log is a permutation, and the failure that _process_generation reports -- the first failing task in
   SUBMISSION order -- is the same.  Together with C13_error_surfaces_map this is error_surfaces for the executor
   path under every schedule (the library-error alternative remains: excluding it needs "a valid request never makes
   the library's own machinery fail", which is C01's business, not proved for this model). *)
From Verif Require Proofs.FailingSchedFacts.

Theorem C13_every_schedule : forall ubody dump_sub ts ts' st st1 rs st1' rs',
  Permutation.Permutation ts ts' ->
  FailingMap.exec_tasks ubody dump_sub false ts st = (st1, rs) ->
  FailingMap.exec_tasks ubody dump_sub false ts' st = (st1', rs') ->
  Permutation.Permutation rs rs'
  /\ Permutation.Permutation (FailingMap.m_log st1) (FailingMap.m_log st1')
  /\ (forall t, In t ts -> forall r, In (t, r) rs' -> r = FailingSchedFacts.outcome_of ubody dump_sub st t)
  /\ rs = map (fun t => (t, FailingSchedFacts.outcome_of ubody dump_sub st t)) ts.
Proof. exact FailingSchedFacts.exec_tasks_every_schedule. Qed.
Print Assumptions C13_every_schedule.

Theorem C13_reported_failure_schedule_free : forall ubody dump_sub ts st st1 rs,
  FailingMap.exec_tasks ubody dump_sub false ts st = (st1, rs) ->
  FailingMap.first_fail rs
  = FailingSchedFacts.first_fail_in ts (FailingSchedFacts.outcome_of ubody dump_sub st).
Proof. exact FailingSchedFacts.reported_failure_schedule_free. Qed.
Print Assumptions C13_reported_failure_schedule_free.
