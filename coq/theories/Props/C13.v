(* C13 - stub; theorems follow *)
From Verif Require Import Base.Prelude Model.Failing.
