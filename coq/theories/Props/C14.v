(* C14 - Cache containers conform to their replacement-policy model.  Statements only. *)
From Verif Require Import Base.Prelude Model.Caches Model.CachesSpec.
