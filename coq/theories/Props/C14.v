(* C14 - Cache containers conform to their replacement-policy model.
   Only statements here; every proof is `exact <lemma>` into Proofs/CachesFacts.v.
   `run_ops step st ops` = list of outputs of the operation sequence, `final step st ops` = state reached.
   All theorems quantify over EVERY operation sequence `ops` (and every type D of the unused/used duration). *)
From Verif Require Import Base.Prelude Model.Caches Model.CachesSpec Model.SharedSteps Proofs.CachesFacts Proofs.SharedFacts.

(* ---------------------------------------------------------------- LRUCache *)
(* queue and dict stay a bijection, at most max_size entries, in every reachable state *)
Theorem C14_lru_inv : forall D mx (ops : list (op D)), 1 <= mx ->
  let st := final (lru_step mx) lru_empty ops in
  NoDup (l_queue st) /\ NoDup (map fst (l_dict st))
  /\ (forall k, In k (l_queue st) <-> In k (map fst (l_dict st)))
  /\ length (l_dict st) <= mx.
Proof. exact lru_inv_reachable. Qed.
Print Assumptions C14_lru_inv.

(* no operation of any sequence raises *)
Theorem C14_lru_no_raise : forall D mx (ops : list (op D)), 1 <= mx ->
  forallb (fun r => negb (is_raised r)) (run_ops (lru_step mx) lru_empty ops) = true.
Proof. exact lru_no_raise. Qed.
Print Assumptions C14_lru_no_raise.

(* the outputs are exactly those of ONE recency-ordered list of at most max_size entries
   (put/hit move a key to the most-recent end, a put into a full list drops the least recent head) *)
Theorem C14_lru_refines : forall D mx (ops : list (op D)), 1 <= mx ->
  run_ops (lru_step mx) lru_empty ops = run_ops (lru_spec_step mx) [] ops.
Proof. exact lru_refines. Qed.
Print Assumptions C14_lru_refines.

(* the recency list itself: bounded, duplicate free, a resident key carries the value most recently put *)
Theorem C14_lru_spec_sound : forall D mx (ops : list (op D)), 1 <= mx ->
  let l := final (lru_spec_step mx) [] ops in
  length l <= mx /\ NoDup (map fst l) /\ forall k v, lookup k l = Some v -> latest k (rev ops) = Some v.
Proof. exact lru_spec_sound. Qed.
Print Assumptions C14_lru_spec_sound.

(* on the code model: len <= max_size; `in` is true exactly when `get` finds a value; that value is the one
   most recently put for the key *)
Theorem C14_lru_presence_latest : forall D mx (ops : list (op D)) k, 1 <= mx ->
  let st := final (lru_step mx) lru_empty ops in
  length (l_dict st) <= mx
  /\ (amem k (l_dict st) = true <-> exists v, aget k (l_dict st) = Some v)
  /\ (forall v, aget k (l_dict st) = Some v -> latest k (rev ops) = Some v).
Proof. exact lru_presence_latest. Qed.
Print Assumptions C14_lru_presence_latest.

(* ---------------------------------------------------------------- SimpleCache *)
Theorem C14_simple_is_map : forall D (ops : list (op D)),
  run_ops simple_step [] ops = run_ops simple_spec_step [] ops.
Proof. exact simple_is_map. Qed.
Print Assumptions C14_simple_is_map.

Theorem C14_simple_no_raise : forall D (ops : list (op D)),
  forallb (fun r => negb (is_raised r)) (run_ops simple_step [] ops) = true.
Proof. exact simple_no_raise. Qed.
Print Assumptions C14_simple_no_raise.

(* ---------------------------------------------------------------- HybridCache *)
(* All Hybrid theorems hold for EVERY arithmetic A on durations/scores (add, mul, div, <, ==0, 0, int->num);
   the correspondence check instantiates A with IEEE binary64 (Corr/Run_C14.farith), so zero, tiny, huge,
   infinite and nan durations are covered. *)

(* the three dicts keep the same keys in the same order, no duplicates, at most max_size entries, counts >= 1 *)
Theorem C14_hybrid_inv : forall (A : arith) (aw dw : num A) mx (ops : list (op (num A))), 1 <= mx ->
  let st := final (hyb_step A aw dw mx true) hyb_empty ops in
  map fst (h_cnt st) = map fst (h_dict st) /\ map fst (h_dur st) = map fst (h_dict st)
  /\ NoDup (map fst (h_dict st)) /\ length (h_dict st) <= mx
  /\ Forall (fun kv => 1 <= snd kv) (h_cnt st).
Proof. intros A aw dw mx ops H. exact (hyb_inv_reachable A aw dw mx H ops). Qed.
Print Assumptions C14_hybrid_inv.

Theorem C14_hybrid_no_raise : forall (A : arith) (aw dw : num A) mx (ops : list (op (num A))), 1 <= mx ->
  forallb (fun r => negb (is_raised r)) (run_ops (hyb_step A aw dw mx true) hyb_empty ops) = true.
Proof. intros A aw dw mx ops H. exact (hyb_no_raise A aw dw mx H ops). Qed.
Print Assumptions C14_hybrid_no_raise.

(* the outputs are exactly those of ONE list of entries (key, value, count, duration) in insertion order where
   a put into a cache that has reached max_size first drops the first entry with the lowest score
   aw * count/sum(counts) + dw * duration/sum(durations)   (duration term 0 when all durations are 0) *)
Theorem C14_hybrid_refines : forall (A : arith) (aw dw : num A) mx (ops : list (op (num A))), 1 <= mx ->
  run_ops (hyb_step A aw dw mx true) hyb_empty ops = run_ops (hyb_spec_step A aw dw mx) [] ops.
Proof. intros A aw dw mx ops H. exact (hyb_refines A aw dw mx H ops). Qed.
Print Assumptions C14_hybrid_refines.

(* PARTIAL (extra hypotheses: `<` of the arithmetic is irreflexive and transitive - true of IEEE `<`, but not
   provable for an abstract arithmetic and not proved here for PrimFloat): in every reachable state a put into
   a full cache removes exactly the key `victim st`, and no entry has a score strictly below the victim's.
   Full statement = the same without the two order hypotheses. *)
Theorem C14_hybrid_policy_partial : forall (A : arith) (aw dw : num A) mx, 1 <= mx ->
  (forall x, nltb A x x = false) ->
  (forall x y z, nltb A x y = true -> nltb A y z = true -> nltb A x z = true) ->
  forall (ops : list (op (num A))) k v d,
  let st := final (hyb_step A aw dw mx true) hyb_empty ops in
  mx <= length (h_dict st) ->
  hyb_put A aw dw mx true st k v d
  = (mkHyb (aset k v (adel (victim A aw dw st) (h_dict st))) (aset k 1 (adel (victim A aw dw st) (h_cnt st)))
           (aset k d (adel (victim A aw dw st) (h_dur st))), ONone)
  /\ In (victim A aw dw st) (map fst (h_dict st))
  /\ exists sv, In (victim A aw dw st, sv) (score_list A aw dw st)
                /\ forall k' s, In (k', s) (score_list A aw dw st) -> nltb A s sv = false.
Proof. exact hyb_policy. Qed.
Print Assumptions C14_hybrid_policy_partial.
(* non-vacuity: exact integer arithmetic satisfies the hypotheses *)
Example C14_hybrid_policy_instance :
  (forall x, nltb zarith x x = false)
  /\ (forall x y z, nltb zarith x y = true -> nltb zarith y z = true -> nltb zarith x z = true).
Proof. exact (conj zarith_irr zarith_trans). Qed.

(* ---------------------------------------------------------------- DiskCache *)
(* wl = with_lru_cache, ls = lru_cache_size, m0 = max_size at creation; Reopen m = a new DiskCache object on
   the same directory with max_size m.  ct = logical creation/overwrite time of a file. *)
Theorem C14_disk_inv : forall wl ls, (wl = true -> 1 <= ls) ->
  forall D m0 (ops : list (dop D)),
  let st := final (disk_step wl ls true) (disk_open [] 0 m0) ops in
  NoDup (map fst (d_files st)) /\ NoDup (map ct (d_files st))
  /\ Forall (fun x => ct x < d_clock st) (d_files st) /\ lru_inv ls (d_lru st).
Proof. exact disk_inv_reachable. Qed.
Print Assumptions C14_disk_inv.

Theorem C14_disk_no_raise : forall wl ls, (wl = true -> 1 <= ls) ->
  forall D m0 (ops : list (dop D)),
  forallb (fun r => negb (is_raised r)) (run_ops (disk_step wl ls true) (disk_open [] 0 m0) ops) = true.
Proof. exact disk_no_raise. Qed.
Print Assumptions C14_disk_no_raise.

(* the outputs are exactly those of: files = ONE list of (key, value) in order of writing, bounded by max_size by
   dropping the oldest, in front of it (if with_lru_cache) the recency list of lru_cache_size entries; `in`/`get`
   look in the front first, `len` counts files, Reopen keeps the files and empties the front *)
Theorem C14_disk_refines : forall wl ls, (wl = true -> 1 <= ls) ->
  forall D m0 (ops : list (dop D)),
  run_ops (disk_step wl ls true) (disk_open [] 0 m0) ops = run_ops (disk_spec_step wl ls) (mkDS [] [] m0) ops.
Proof. exact disk_refines. Qed.
Print Assumptions C14_disk_refines.

(* after ANY history (incl. re-opening with a smaller max_size) a put leaves at most max_size files and every
   file it deleted is older than every file it kept *)
Theorem C14_disk_policy : forall wl ls, (wl = true -> 1 <= ls) ->
  forall D m0 (ops : list (dop D)) k v,
  let st := final (disk_step wl ls true) (disk_open [] 0 m0) ops in
  let written := adel k (d_files st) ++ [(k, (v, d_clock st))] in
  let st' := fst (disk_put wl ls true st k v) in
  incl (d_files st') written
  /\ (forall n, d_max st = Some n -> length (d_files st') <= n)
  /\ (forall x y, In x written -> ~ In x (d_files st') -> In y (d_files st') -> ct x < ct y).
Proof. exact disk_policy. Qed.
Print Assumptions C14_disk_policy.

(* len <= max_size in every reachable state when the directory is always re-opened with the same max_size *)
Theorem C14_disk_bound : forall wl ls, (wl = true -> 1 <= ls) ->
  forall D m0 (ops : list (dop D)),
  Forall (fun o => match o with Reopen m => m = m0 | DOp _ => True end) ops ->
  let st := final (disk_step wl ls true) (disk_open [] 0 m0) ops in
  d_max st = m0 /\ forall n, m0 = Some n -> length (d_files st) <= n.
Proof. exact disk_bound. Qed.
Print Assumptions C14_disk_bound.
Example C14_disk_bound_instance :
  Forall (fun o : dop unit => match o with Reopen m => m = Some 2 | DOp _ => True end)
         [DOp (Put 0 1 tt); Reopen (Some 2); DOp (Put 1 2 tt); DOp (Put 2 3 tt)].
Proof. repeat constructor. Qed.

(* disk_bound WITHOUT the hypothesis on the Reopens.  `settled true m0 ops` scans the history: the bound is
   guaranteed at creation, after every put and after clear; get / in / len keep it; a Reopen keeps it iff it held
   and the new max_size is not smaller (a DiskCache re-opened with a smaller max_size does hold more files than
   max_size until the next put - that is what the code does, the constructor deletes nothing). *)
Theorem C14_disk_bound_general : forall wl ls, (wl = true -> 1 <= ls) ->
  forall D m0 (ops : list (dop D)),
  let st := final (disk_step wl ls true) (disk_open [] 0 m0) ops in
  d_max st = snd (settled true m0 ops)
  /\ (fst (settled true m0 ops) = true -> forall n, d_max st = Some n -> length (d_files st) <= n).
Proof. exact disk_bound_general. Qed.
Print Assumptions C14_disk_bound_general.
(* the scan is not vacuous: here the bound is lost by the Reopen with a smaller max_size and regained by the put *)
Example C14_disk_bound_general_instance :
  fst (settled true (Some 3) [DOp (Put 0 1 tt); DOp (Put 1 2 tt); Reopen (Some 1)]) = false
  /\ fst (settled true (Some 3) [DOp (Put 0 1 tt); DOp (Put 1 2 tt); Reopen (Some 1); DOp (Put 2 3 tt); DOp (Get 0)]) = true.
Proof. split; reflexivity. Qed.

(* after ANY history the bound holds from the next put on, until the directory is re-opened again *)
Theorem C14_disk_bound_after_put : forall wl ls, (wl = true -> 1 <= ls) ->
  forall D m0 (ops1 ops2 : list (dop D)) k v d,
  (forall o, In o ops2 -> match o with Reopen _ => False | DOp _ => True end) ->
  let st := final (disk_step wl ls true) (disk_open [] 0 m0) (ops1 ++ DOp (Put k v d) :: ops2) in
  forall n, d_max st = Some n -> length (d_files st) <= n.
Proof. exact disk_bound_after_put. Qed.
Print Assumptions C14_disk_bound_after_put.

(* ---------------------------------------------------------------- the code BEFORE the fixes (models *_v0 /
   guard=false / fixed=false): the full no-raise statements were refuted by these witnesses, which were replayed
   on the real code, repaired by the `fix:` commits, and are replayed on every run by the harness *)
Theorem C14_lru_no_raise_refuted_before_fix : exists mx (ops : list (op unit)),
  1 <= mx /\ forallb (fun r => negb (is_raised r)) (run_ops (lru_step_v0 mx) lru_empty ops) = false.
Proof. exists 2, [Put 0 1 tt; Put 0 2 tt; Put 1 3 tt; Put 2 4 tt]. split; [repeat constructor | reflexivity]. Qed.
Print Assumptions C14_lru_no_raise_refuted_before_fix.

Theorem C14_lru_presence_refuted_before_fix :
  run_ops (@lru_step_v0 unit 1) lru_empty [Put 0 1 tt; Put 0 2 tt; Mem 0; Len] = [ONone; ONone; OBool false; OLen 0].
Proof. exact lru_v0_self_evict. Qed.
Print Assumptions C14_lru_presence_refuted_before_fix.

Theorem C14_hybrid_no_raise_refuted_before_fix : exists (A : arith) (aw dw : num A) mx (ops : list (op (num A))),
  1 <= mx /\ forallb (fun r => negb (is_raised r)) (run_ops (hyb_step A aw dw mx false) hyb_empty ops) = false.
Proof. exists zarith, 1%Z, 1%Z, 1, [Put 0 1 0%Z; Put 1 2 0%Z]. split; [repeat constructor | reflexivity]. Qed.
Print Assumptions C14_hybrid_no_raise_refuted_before_fix.

Theorem C14_disk_no_raise_refuted_before_fix : exists m0 (ops : list (dop unit)),
  forallb (fun r => negb (is_raised r)) (run_ops (disk_step true 2 false) (disk_open [] 0 m0) ops) = false.
Proof.
  exists (Some 3), [DOp (Put 0 1 tt); DOp (Put 1 2 tt); DOp (Put 2 3 tt); Reopen (Some 1); DOp (Put 3 4 tt)].
  reflexivity.
Qed.
Print Assumptions C14_disk_no_raise_refuted_before_fix.

(* ---------------------------------------------------------------- shared=True: several clients (processes) *)
(* Model/SharedSteps.v: every call on the managed dict / list and every lock acquire / release is one atomic
   step; `reachable code (init d0 progs) g` = g is reached by SOME interleaving of the steps of the clients
   i = 0, 1, 2, ... (any number), client i issuing the operations `progs i` of the REPAIRED code (lru_code,
   hyb_code); c_done = the (operation, result) pairs a client has obtained, most recent first.  The small-step
   model is tied to the real code on every run: the harness explores ALL schedules of two clients with its step
   scheduler and Coq replays each schedule on this model (Run_C14.conc_small).

   shared_linearizable: in every complete interleaved history there is a sequential order h of the operations
   that take the lock (put, get, clear), keeping each client's own order, such that the managed objects are the
   state the SEQUENTIAL model (lru_step / hyb_step: all theorems above apply to it) reaches on h, every client
   got exactly the results the sequential run of h gives it, and every lock-free result (`in`, `len`) is the
   answer on managed objects that a state of that sequential run, or an intermediate content of one of its
   operations, exhibits (lockfree_ok; made explicit by *_lockfree_values). *)
Theorem C14_shared_lru_linearizable : forall D mx, 1 <= mx ->
  forall progs g, reachable (lru_code D mx) (init lru_empty progs) g -> complete g ->
  exists h : list (nat * op D),
    Forall (fun x => lru_locked D (snd x) = true) h
    /\ g_lock g = None
    /\ g_data g = st_from (lru_step mx) lru_empty h
    /\ forall i,
         map fst (rev (c_done (g_cl g i))) = progs i
         /\ filter (fun x => lru_locked D (fst x)) (rev (c_done (g_cl g i)))
            = SharedSteps.proj i (res_from (lru_step mx) lru_empty h)
         /\ Forall (lockfree_ok lru (op D) (lru_step mx) (lru_locked D) (lru_read D) lru_vis lru_empty h)
                   (c_done (g_cl g i)).
Proof. exact lru_shared_linearizable. Qed.
Print Assumptions C14_shared_lru_linearizable.

(* in EVERY reachable interleaved state (also in the middle of operations) no client has seen an exception *)
Theorem C14_shared_lru_no_raise : forall D mx, 1 <= mx ->
  forall progs g i, reachable (lru_code D mx) (init lru_empty progs) g ->
  Forall (fun x => is_raised (snd x) = false) (c_done (g_cl g i)).
Proof. exact lru_shared_no_raise. Qed.
Print Assumptions C14_shared_lru_no_raise.

(* in EVERY reachable interleaved state: a client is inside a critical section iff it owns the lock; with the lock
   free the managed objects are a state of the sequential model (so lru_inv holds); and at every moment the
   dict has no duplicate keys and at most max_size entries *)
Theorem C14_shared_lru_inv : forall D mx, 1 <= mx ->
  forall progs g, reachable (lru_code D mx) (init lru_empty progs) g ->
  (forall i, in_cs lru (op D) (lru_locked D) (g_cl g i) <-> g_lock g = Some i)
  /\ (g_lock g = None ->
      exists h : list (nat * op D), g_data g = st_from (lru_step mx) lru_empty h /\ lru_inv mx (g_data g))
  /\ NoDup (map fst (l_dict (g_data g))) /\ length (l_dict (g_data g)) <= mx.
Proof. exact lru_shared_inv. Qed.
Print Assumptions C14_shared_lru_inv.

(* exactly what the lock-free `k in cache` / `len(cache)` can return: the answer on a dict dd that is the dict
   of a state of the sequential run with some keys deleted (none deleted if no operation was in progress) or
   the dict of the next state of the run; always at most max_size entries *)
Theorem C14_shared_lru_lockfree_values : forall D mx, 1 <= mx ->
  forall (h : list (nat * op D)) x,
  lockfree_ok lru (op D) (lru_step mx) (lru_locked D) (lru_read D) lru_vis lru_empty h x ->
  lru_locked D (fst x) = false ->
  exists n dd,
    (sub dd (l_dict (st_from (lru_step mx) lru_empty (firstn n h)))
     \/ dd = l_dict (st_from (lru_step mx) lru_empty (firstn (S n) h)))
    /\ length dd <= mx
    /\ snd x = match fst x with Mem k => OBool (amem k dd) | Len => OLen (length dd) | _ => ONone end.
Proof. exact lru_lockfree_values. Qed.
Print Assumptions C14_shared_lru_lockfree_values.

(* the same four statements for HybridCache, for every arithmetic A *)
Theorem C14_shared_hybrid_linearizable : forall (A : arith) (aw dw : num A) mx, 1 <= mx ->
  forall progs g, reachable (hyb_code A aw dw mx) (init hyb_empty progs) g -> complete g ->
  exists h : list (nat * op (num A)),
    Forall (fun x => hyb_locked A (snd x) = true) h
    /\ g_lock g = None
    /\ g_data g = st_from (hyb_step A aw dw mx true) hyb_empty h
    /\ forall i,
         map fst (rev (c_done (g_cl g i))) = progs i
         /\ filter (fun x => hyb_locked A (fst x)) (rev (c_done (g_cl g i)))
            = SharedSteps.proj i (res_from (hyb_step A aw dw mx true) hyb_empty h)
         /\ Forall (lockfree_ok (hyb A) (op (num A)) (hyb_step A aw dw mx true) (hyb_locked A) (hyb_read A)
                                (hyb_vis A) hyb_empty h)
                   (c_done (g_cl g i)).
Proof. exact hyb_shared_linearizable. Qed.
Print Assumptions C14_shared_hybrid_linearizable.

Theorem C14_shared_hybrid_no_raise : forall (A : arith) (aw dw : num A) mx, 1 <= mx ->
  forall progs g i, reachable (hyb_code A aw dw mx) (init hyb_empty progs) g ->
  Forall (fun x => is_raised (snd x) = false) (c_done (g_cl g i)).
Proof. exact hyb_shared_no_raise. Qed.
Print Assumptions C14_shared_hybrid_no_raise.

Theorem C14_shared_hybrid_inv : forall (A : arith) (aw dw : num A) mx, 1 <= mx ->
  forall progs g, reachable (hyb_code A aw dw mx) (init hyb_empty progs) g ->
  (forall i, in_cs (hyb A) (op (num A)) (hyb_locked A) (g_cl g i) <-> g_lock g = Some i)
  /\ (g_lock g = None ->
      exists h : list (nat * op (num A)),
        g_data g = st_from (hyb_step A aw dw mx true) hyb_empty h /\ hyb_inv A mx (g_data g))
  /\ NoDup (map fst (h_dict (g_data g))) /\ length (h_dict (g_data g)) <= mx.
Proof. exact hyb_shared_inv. Qed.
Print Assumptions C14_shared_hybrid_inv.

Theorem C14_shared_hybrid_lockfree_values : forall (A : arith) (aw dw : num A) mx, 1 <= mx ->
  forall (h : list (nat * op (num A))) x,
  lockfree_ok (hyb A) (op (num A)) (hyb_step A aw dw mx true) (hyb_locked A) (hyb_read A) (hyb_vis A) hyb_empty h x ->
  hyb_locked A (fst x) = false ->
  exists n dd,
    (sub dd (h_dict (st_from (hyb_step A aw dw mx true) hyb_empty (firstn n h)))
     \/ dd = h_dict (st_from (hyb_step A aw dw mx true) hyb_empty (firstn (S n) h)))
    /\ length dd <= mx
    /\ snd x = match fst x with Mem k => OBool (amem k dd) | Len => OLen (length dd) | _ => ONone end.
Proof. exact hyb_lockfree_values. Qed.
Print Assumptions C14_shared_hybrid_lockfree_values.

(* the sequential reading used above IS the sequential model run on the operations of h *)
Theorem C14_shared_sequential_reading : forall S O (seq : S -> O -> S * out) (h : list (nat * O)) s,
  st_from seq s h = final seq s (map snd h)
  /\ map (fun x => snd (snd x)) (res_from seq s h) = run_ops seq s (map snd h).
Proof. intros. exact (conj (st_from_final S O seq h s) (res_from_run_ops S O seq h s)). Qed.
Print Assumptions C14_shared_sequential_reading.

(* the schedule replay used by the correspondence (Run_C14.conc_small: `turn` = one pick of the harness' step
   scheduler) only visits reachable states of the interleaving semantics *)
Theorem C14_shared_replay_sound : forall S O (code : O -> prog S) fuel i g0 g,
  reachable code g0 g -> reachable code g0 (turn code fuel i g).
Proof. exact turn_reachable. Qed.
Print Assumptions C14_shared_replay_sound.
