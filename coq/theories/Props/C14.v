(* C14 - Cache containers conform to their replacement-policy model.
   Only statements here; every proof is `exact <lemma>` into Proofs/CachesFacts.v.
   `run_ops step st ops` = list of outputs of the operation sequence, `final step st ops` = state reached.
   All theorems quantify over EVERY operation sequence `ops` (and every type D of the unused/used duration). *)
From Verif Require Import Base.Prelude Model.Caches Model.CachesSpec Proofs.CachesFacts.

(* ---------------------------------------------------------------- LRUCache *)
(* queue and dict stay a bijection, at most max_size entries, in every reachable state *)
Theorem C14_lru_inv : forall D mx (ops : list (op D)), 1 <= mx ->
  let st := final (lru_step mx) lru_empty ops in
  NoDup (l_queue st) /\ NoDup (map fst (l_dict st))
  /\ (forall k, In k (l_queue st) <-> In k (map fst (l_dict st)))
  /\ length (l_dict st) <= mx.
Proof. exact lru_inv_reachable. Qed.
Print Assumptions C14_lru_inv.

(* no operation of any sequence raises *)
Theorem C14_lru_no_raise : forall D mx (ops : list (op D)), 1 <= mx ->
  forallb (fun r => negb (is_raised r)) (run_ops (lru_step mx) lru_empty ops) = true.
Proof. exact lru_no_raise. Qed.
Print Assumptions C14_lru_no_raise.

(* the outputs are exactly those of ONE recency-ordered list of at most max_size entries
   (put/hit move a key to the most-recent end, a put into a full list drops the least recent head) *)
Theorem C14_lru_refines : forall D mx (ops : list (op D)), 1 <= mx ->
  run_ops (lru_step mx) lru_empty ops = run_ops (lru_spec_step mx) [] ops.
Proof. exact lru_refines. Qed.
Print Assumptions C14_lru_refines.

(* the recency list itself: bounded, duplicate free, a resident key carries the value most recently put *)
Theorem C14_lru_spec_sound : forall D mx (ops : list (op D)), 1 <= mx ->
  let l := final (lru_spec_step mx) [] ops in
  length l <= mx /\ NoDup (map fst l) /\ forall k v, lookup k l = Some v -> latest k (rev ops) = Some v.
Proof. exact lru_spec_sound. Qed.
Print Assumptions C14_lru_spec_sound.

(* on the code model: len <= max_size; `in` is true exactly when `get` finds a value; that value is the one
   most recently put for the key *)
Theorem C14_lru_presence_latest : forall D mx (ops : list (op D)) k, 1 <= mx ->
  let st := final (lru_step mx) lru_empty ops in
  length (l_dict st) <= mx
  /\ (amem k (l_dict st) = true <-> exists v, aget k (l_dict st) = Some v)
  /\ (forall v, aget k (l_dict st) = Some v -> latest k (rev ops) = Some v).
Proof. exact lru_presence_latest. Qed.
Print Assumptions C14_lru_presence_latest.

(* ---------------------------------------------------------------- SimpleCache *)
Theorem C14_simple_is_map : forall D (ops : list (op D)),
  run_ops simple_step [] ops = run_ops simple_spec_step [] ops.
Proof. exact simple_is_map. Qed.
Print Assumptions C14_simple_is_map.

Theorem C14_simple_no_raise : forall D (ops : list (op D)),
  forallb (fun r => negb (is_raised r)) (run_ops simple_step [] ops) = true.
Proof. exact simple_no_raise. Qed.
Print Assumptions C14_simple_no_raise.

(* ---------------------------------------------------------------- HybridCache *)
(* All Hybrid theorems hold for EVERY arithmetic A on durations/scores (add, mul, div, <, ==0, 0, int->num);
   the correspondence check instantiates A with IEEE binary64 (Corr/Run_C14.farith), so zero, tiny, huge,
   infinite and nan durations are covered. *)

(* the three dicts keep the same keys in the same order, no duplicates, at most max_size entries, counts >= 1 *)
Theorem C14_hybrid_inv : forall (A : arith) (aw dw : num A) mx (ops : list (op (num A))), 1 <= mx ->
  let st := final (hyb_step A aw dw mx true) hyb_empty ops in
  map fst (h_cnt st) = map fst (h_dict st) /\ map fst (h_dur st) = map fst (h_dict st)
  /\ NoDup (map fst (h_dict st)) /\ length (h_dict st) <= mx
  /\ Forall (fun kv => 1 <= snd kv) (h_cnt st).
Proof. intros A aw dw mx ops H. exact (hyb_inv_reachable A aw dw mx H ops). Qed.
Print Assumptions C14_hybrid_inv.

Theorem C14_hybrid_no_raise : forall (A : arith) (aw dw : num A) mx (ops : list (op (num A))), 1 <= mx ->
  forallb (fun r => negb (is_raised r)) (run_ops (hyb_step A aw dw mx true) hyb_empty ops) = true.
Proof. intros A aw dw mx ops H. exact (hyb_no_raise A aw dw mx H ops). Qed.
Print Assumptions C14_hybrid_no_raise.

(* the outputs are exactly those of ONE list of entries (key, value, count, duration) in insertion order where
   a put into a cache that has reached max_size first drops the first entry with the lowest score
   aw * count/sum(counts) + dw * duration/sum(durations)   (duration term 0 when all durations are 0) *)
Theorem C14_hybrid_refines : forall (A : arith) (aw dw : num A) mx (ops : list (op (num A))), 1 <= mx ->
  run_ops (hyb_step A aw dw mx true) hyb_empty ops = run_ops (hyb_spec_step A aw dw mx) [] ops.
Proof. intros A aw dw mx ops H. exact (hyb_refines A aw dw mx H ops). Qed.
Print Assumptions C14_hybrid_refines.

(* PARTIAL (extra hypotheses: `<` of the arithmetic is irreflexive and transitive - true of IEEE `<`, but not
   provable for an abstract arithmetic and not proved here for PrimFloat): in every reachable state a put into
   a full cache removes exactly the key `victim st`, and no entry has a score strictly below the victim's.
   Full statement = the same without the two order hypotheses. *)
Theorem C14_hybrid_policy_partial : forall (A : arith) (aw dw : num A) mx, 1 <= mx ->
  (forall x, nltb A x x = false) ->
  (forall x y z, nltb A x y = true -> nltb A y z = true -> nltb A x z = true) ->
  forall (ops : list (op (num A))) k v d,
  let st := final (hyb_step A aw dw mx true) hyb_empty ops in
  mx <= length (h_dict st) ->
  hyb_put A aw dw mx true st k v d
  = (mkHyb (aset k v (adel (victim A aw dw st) (h_dict st))) (aset k 1 (adel (victim A aw dw st) (h_cnt st)))
           (aset k d (adel (victim A aw dw st) (h_dur st))), ONone)
  /\ In (victim A aw dw st) (map fst (h_dict st))
  /\ exists sv, In (victim A aw dw st, sv) (score_list A aw dw st)
                /\ forall k' s, In (k', s) (score_list A aw dw st) -> nltb A s sv = false.
Proof. exact hyb_policy. Qed.
Print Assumptions C14_hybrid_policy_partial.
(* non-vacuity: exact integer arithmetic satisfies the hypotheses *)
Example C14_hybrid_policy_instance :
  (forall x, nltb zarith x x = false)
  /\ (forall x y z, nltb zarith x y = true -> nltb zarith y z = true -> nltb zarith x z = true).
Proof. exact (conj zarith_irr zarith_trans). Qed.

(* ---------------------------------------------------------------- DiskCache *)
(* wl = with_lru_cache, ls = lru_cache_size, m0 = max_size at creation; Reopen m = a new DiskCache object on
   the same directory with max_size m.  ct = logical creation/overwrite time of a file. *)
Theorem C14_disk_inv : forall wl ls, (wl = true -> 1 <= ls) ->
  forall D m0 (ops : list (dop D)),
  let st := final (disk_step wl ls true) (disk_open [] 0 m0) ops in
  NoDup (map fst (d_files st)) /\ NoDup (map ct (d_files st))
  /\ Forall (fun x => ct x < d_clock st) (d_files st) /\ lru_inv ls (d_lru st).
Proof. exact disk_inv_reachable. Qed.
Print Assumptions C14_disk_inv.

Theorem C14_disk_no_raise : forall wl ls, (wl = true -> 1 <= ls) ->
  forall D m0 (ops : list (dop D)),
  forallb (fun r => negb (is_raised r)) (run_ops (disk_step wl ls true) (disk_open [] 0 m0) ops) = true.
Proof. exact disk_no_raise. Qed.
Print Assumptions C14_disk_no_raise.

(* the outputs are exactly those of: files = ONE list of (key, value) in order of writing, bounded by max_size by
   dropping the oldest, in front of it (if with_lru_cache) the recency list of lru_cache_size entries; `in`/`get`
   look in the front first, `len` counts files, Reopen keeps the files and empties the front *)
Theorem C14_disk_refines : forall wl ls, (wl = true -> 1 <= ls) ->
  forall D m0 (ops : list (dop D)),
  run_ops (disk_step wl ls true) (disk_open [] 0 m0) ops = run_ops (disk_spec_step wl ls) (mkDS [] [] m0) ops.
Proof. exact disk_refines. Qed.
Print Assumptions C14_disk_refines.

(* after ANY history (incl. re-opening with a smaller max_size) a put leaves at most max_size files and every
   file it deleted is older than every file it kept *)
Theorem C14_disk_policy : forall wl ls, (wl = true -> 1 <= ls) ->
  forall D m0 (ops : list (dop D)) k v,
  let st := final (disk_step wl ls true) (disk_open [] 0 m0) ops in
  let written := adel k (d_files st) ++ [(k, (v, d_clock st))] in
  let st' := fst (disk_put wl ls true st k v) in
  incl (d_files st') written
  /\ (forall n, d_max st = Some n -> length (d_files st') <= n)
  /\ (forall x y, In x written -> ~ In x (d_files st') -> In y (d_files st') -> ct x < ct y).
Proof. exact disk_policy. Qed.
Print Assumptions C14_disk_policy.

(* len <= max_size in every reachable state when the directory is always re-opened with the same max_size *)
Theorem C14_disk_bound : forall wl ls, (wl = true -> 1 <= ls) ->
  forall D m0 (ops : list (dop D)),
  Forall (fun o => match o with Reopen m => m = m0 | DOp _ => True end) ops ->
  let st := final (disk_step wl ls true) (disk_open [] 0 m0) ops in
  d_max st = m0 /\ forall n, m0 = Some n -> length (d_files st) <= n.
Proof. exact disk_bound. Qed.
Print Assumptions C14_disk_bound.
Example C14_disk_bound_instance :
  Forall (fun o : dop unit => match o with Reopen m => m = Some 2 | DOp _ => True end)
         [DOp (Put 0 1 tt); Reopen (Some 2); DOp (Put 1 2 tt); DOp (Put 2 3 tt)].
Proof. repeat constructor. Qed.

(* ---------------------------------------------------------------- the code BEFORE the fixes (models *_v0 /
   guard=false / fixed=false): the full no-raise statements were refuted by these witnesses, which were replayed
   on the real code, repaired by the `fix:` commits, and are replayed on every run by the harness *)
Theorem C14_lru_no_raise_refuted_before_fix : exists mx (ops : list (op unit)),
  1 <= mx /\ forallb (fun r => negb (is_raised r)) (run_ops (lru_step_v0 mx) lru_empty ops) = false.
Proof. exists 2, [Put 0 1 tt; Put 0 2 tt; Put 1 3 tt; Put 2 4 tt]. split; [repeat constructor | reflexivity]. Qed.
Print Assumptions C14_lru_no_raise_refuted_before_fix.

Theorem C14_lru_presence_refuted_before_fix :
  run_ops (@lru_step_v0 unit 1) lru_empty [Put 0 1 tt; Put 0 2 tt; Mem 0; Len] = [ONone; ONone; OBool false; OLen 0].
Proof. exact lru_v0_self_evict. Qed.
Print Assumptions C14_lru_presence_refuted_before_fix.

Theorem C14_hybrid_no_raise_refuted_before_fix : exists (A : arith) (aw dw : num A) mx (ops : list (op (num A))),
  1 <= mx /\ forallb (fun r => negb (is_raised r)) (run_ops (hyb_step A aw dw mx false) hyb_empty ops) = false.
Proof. exists zarith, 1%Z, 1%Z, 1, [Put 0 1 0%Z; Put 1 2 0%Z]. split; [repeat constructor | reflexivity]. Qed.
Print Assumptions C14_hybrid_no_raise_refuted_before_fix.

Theorem C14_disk_no_raise_refuted_before_fix : exists m0 (ops : list (dop unit)),
  forallb (fun r => negb (is_raised r)) (run_ops (disk_step true 2 false) (disk_open [] 0 m0) ops) = false.
Proof.
  exists (Some 3), [DOp (Put 0 1 tt); DOp (Put 1 2 tt); DOp (Put 2 3 tt); Reopen (Some 1); DOp (Put 3 4 tt)].
  reflexivity.
Qed.
Print Assumptions C14_disk_no_raise_refuted_before_fix.
