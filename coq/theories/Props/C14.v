(* C14 - Cache containers conform to their replacement-policy model.
   Only statements here; every proof is `exact <lemma>` into Proofs/CachesFacts.v.
   `run_ops step st ops` = list of outputs of the operation sequence, `final step st ops` = state reached.
   All theorems quantify over EVERY operation sequence `ops` (and every type D of the unused/used duration). *)
From Verif Require Import Base.Prelude Model.Caches Model.CachesSpec Proofs.CachesFacts.

(* ---------------------------------------------------------------- LRUCache *)
(* queue and dict stay a bijection, at most max_size entries, in every reachable state *)
Theorem C14_lru_inv : forall D mx (ops : list (op D)), 1 <= mx ->
  let st := final (lru_step mx) lru_empty ops in
  NoDup (l_queue st) /\ NoDup (map fst (l_dict st))
  /\ (forall k, In k (l_queue st) <-> In k (map fst (l_dict st)))
  /\ length (l_dict st) <= mx.
Proof. exact lru_inv_reachable. Qed.
Print Assumptions C14_lru_inv.

(* no operation of any sequence raises *)
Theorem C14_lru_no_raise : forall D mx (ops : list (op D)), 1 <= mx ->
  forallb (fun r => negb (is_raised r)) (run_ops (lru_step mx) lru_empty ops) = true.
Proof. exact lru_no_raise. Qed.
Print Assumptions C14_lru_no_raise.

(* the outputs are exactly those of ONE recency-ordered list of at most max_size entries
   (put/hit move a key to the most-recent end, a put into a full list drops the least recent head) *)
Theorem C14_lru_refines : forall D mx (ops : list (op D)), 1 <= mx ->
  run_ops (lru_step mx) lru_empty ops = run_ops (lru_spec_step mx) [] ops.
Proof. exact lru_refines. Qed.
Print Assumptions C14_lru_refines.

(* the recency list itself: bounded, duplicate free, a resident key carries the value most recently put *)
Theorem C14_lru_spec_sound : forall D mx (ops : list (op D)), 1 <= mx ->
  let l := final (lru_spec_step mx) [] ops in
  length l <= mx /\ NoDup (map fst l) /\ forall k v, lookup k l = Some v -> latest k (rev ops) = Some v.
Proof. exact lru_spec_sound. Qed.
Print Assumptions C14_lru_spec_sound.

(* on the code model: len <= max_size; `in` is true exactly when `get` finds a value; that value is the one
   most recently put for the key *)
Theorem C14_lru_presence_latest : forall D mx (ops : list (op D)) k, 1 <= mx ->
  let st := final (lru_step mx) lru_empty ops in
  length (l_dict st) <= mx
  /\ (amem k (l_dict st) = true <-> exists v, aget k (l_dict st) = Some v)
  /\ (forall v, aget k (l_dict st) = Some v -> latest k (rev ops) = Some v).
Proof. exact lru_presence_latest. Qed.
Print Assumptions C14_lru_presence_latest.

(* ---------------------------------------------------------------- SimpleCache *)
Theorem C14_simple_is_map : forall D (ops : list (op D)),
  run_ops simple_step [] ops = run_ops simple_spec_step [] ops.
Proof. exact simple_is_map. Qed.
Print Assumptions C14_simple_is_map.

Theorem C14_simple_no_raise : forall D (ops : list (op D)),
  forallb (fun r => negb (is_raised r)) (run_ops simple_step [] ops) = true.
Proof. exact simple_no_raise. Qed.
Print Assumptions C14_simple_no_raise.
