(* C14 - HybridCache policy for the IEEE binary64 instance (Python floats), WITHOUT hypotheses on `<`.
   Kept in its own file because its Print Assumptions lists Coq's primitive floats / 63-bit integers and the
   one FloatAxioms axiom ltb_spec (PrimFloat.ltb agrees with the SpecFloat specification); the generic theorem
   C14_hybrid_policy_partial (Props/C14.v) stays closed under the global context.
   farith (Corr/Run_C14.v) = binary64 add, mul, div, <, ==0, 0.0, int->float. *)
From Coq Require Import Floats.
From Verif Require Import Base.Prelude Model.Caches Proofs.CachesFacts Proofs.FloatOrder Corr.Run_C14.

(* IEEE `<` is a strict order on all floats (nan included: nothing is below or above it) *)
Theorem C14_float_lt_strict_order :
  (forall x : float, PrimFloat.ltb x x = false)
  /\ (forall x y z : float, PrimFloat.ltb x y = true -> PrimFloat.ltb y z = true -> PrimFloat.ltb x z = true).
Proof. exact (conj ltb_irrefl ltb_trans). Qed.
Print Assumptions C14_float_lt_strict_order.

(* hybrid_policy, full statement for Python floats: in every reachable state a put into a full cache removes
   exactly the key `victim st`, and no entry has a score strictly below the victim's *)
Theorem C14_hybrid_policy_float : forall (aw dw : float) mx, 1 <= mx ->
  forall (ops : list (op float)) k v d,
  let st := final (hyb_step farith aw dw mx true) hyb_empty ops in
  mx <= length (h_dict st) ->
  hyb_put farith aw dw mx true st k v d
  = (mkHyb (aset k v (adel (victim farith aw dw st) (h_dict st)))
           (aset k 1 (adel (victim farith aw dw st) (h_cnt st)))
           (aset k d (adel (victim farith aw dw st) (h_dur st))), ONone)
  /\ In (victim farith aw dw st) (map fst (h_dict st))
  /\ exists sv, In (victim farith aw dw st, sv) (score_list farith aw dw st)
                /\ forall k' s, In (k', s) (score_list farith aw dw st) -> PrimFloat.ltb s sv = false.
Proof. intros aw dw mx H. exact (hyb_policy farith aw dw mx H ltb_irrefl ltb_trans). Qed.
Print Assumptions C14_hybrid_policy_float.
