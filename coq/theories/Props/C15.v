(* C15 - Cache keys identify argument values: equal key iff equal value.  (stub: statements are added with the proofs) *)
From Verif Require Import Base.Prelude Model.PyVal Model.ToHashable Model.ToHashableSpec.
