(* C15 - Cache keys identify argument values: equal key iff equal value.
   Only statements here; every proof is `exact <lemma>` into Proofs/.
   Model: Model/PyVal.v (values, ==, hash, the canonical sort key, sorted), Model/ToHashable.v (to_hashable after the
   repairs: object ndarrays, Counter zero counts, masked arrays, canonical sort key, DiskCache file names),
   `supported` and the one remaining guard `no_pandas`: Model/ToHashableSpec.v.
   py_same = "equal values of the same type" (leaves compared with Python's ==: 1 == True == 1.0), py_eq = Python's ==
   on keys.  No guard about sortability, zero counts or masks is left: those findings were repaired in the code. *)
From Verif Require Import Base.Prelude Model.PyVal Model.ToHashable Model.ToHashableSpec Corr.Run_C15.
From Verif Require Import Proofs.ToHashableFacts Proofs.C15SpecFacts.

(* ---- key_hashable: to_hashable returns a hashable key - FULL: every well-formed value, pandas included *)
Theorem C15_key_hashable : forall fp v k,
  wf v = true -> to_hashable fp v = Ok k -> py_hashable k = true.
Proof. exact key_hashable. Qed.
Print Assumptions C15_key_hashable.

Example C15_key_hashable_nontrivial :   (* {2: [1], 1: (5, {3, 'a', None}), None: masked array} *)
  let v := PDict [(PInt 2, PList [PInt 1]); (PInt 1, PTuple [PInt 5; PSet [PInt 3; PStr (s "a"); PNone]]);
                  (PNone, PSeq (KNd true (s "<i8") [2%Z]) [PInt 1; PA AMasked])] in
  wf v = true /\ exists k, to_hashable true v = Ok k /\ py_hashable k = true.
Proof. repeat split; try (vm_compute; reflexivity). eexists. split; vm_compute; reflexivity. Qed.

(* ---- total_on_supported: a key is returned (sorted() can no longer raise: canonical sort key) - FULL: every
   well-formed value whose opaque objects may and can use the pickle fallback, pandas included *)
Theorem C15_total_on_supported : forall fp v,
  wf v = true -> convertible fp v = true -> exists k, to_hashable fp v = Ok k.
Proof. exact total_on_supported. Qed.
Print Assumptions C15_total_on_supported.

(* ---- eq_implies_key_eq: equal values of the same type get equal keys (canonicity of the sort by _sort_key:
   mixed-type / None / tuple / frozenset elements and keys included) - FULL: every pair of well-formed values,
   pandas Series / DataFrames included *)
Theorem C15_eq_implies_key_eq : forall fp v w k k',
  wf v = true -> wf w = true ->
  py_same v w = true -> to_hashable fp v = Ok k -> to_hashable fp w = Ok k' -> py_eq k k' = true.
Proof. exact eq_implies_key_eq. Qed.
Print Assumptions C15_eq_implies_key_eq.

Example C15_eq_implies_key_eq_nontrivial :
  (* {1: [{'b', None, 2}], frozenset({1}): Counter(a=0, b=2), 2.5: ()}  vs
     {2.5: (), True: [{2.0, 'b', None}], frozenset({True}): Counter(b=2)}  *)
  let v := PDict [(PInt 1, PList [PSet [PStr (s "b"); PNone; PInt 2]]);
                  (PFrozenset [PInt 1], PCounter [(PStr (s "a"), PInt 0); (PStr (s "b"), PInt 2)]);
                  (PFloat 10, PTuple [])] in
  let w := PDict [(PFloat 10, PTuple []); (PBool true, PList [PSet [PFloat 8; PStr (s "b"); PNone]]);
                  (PFrozenset [PBool true], PCounter [(PStr (s "b"), PInt 2)])] in
  wf v = true /\ wf w = true /\ py_same v w = true /\ v <> w
  /\ exists k k', to_hashable true v = Ok k /\ to_hashable true w = Ok k' /\ py_eq k k' = true.
Proof.
  repeat split; try (vm_compute; reflexivity); try discriminate.
  do 2 eexists. repeat split; vm_compute; reflexivity.
Qed.

(* ---- key_eq_implies_eq (injectivity): equal keys only for equal values of the same type.
   Full statement = the same without `no_pandas`; it is FALSE for pandas Series / DataFrames
   (the remaining known finding pandas-key-loses-index-dtype-order; the key layout is pinned by the test-suite): *)
Theorem C15_key_eq_implies_eq_refuted_series :
  exists v w k k', supported v = true /\ supported w = true /\ py_same v w = false
                   /\ to_hashable true v = Ok k /\ to_hashable true w = Ok k' /\ py_eq k k' = true.
Proof. exact key_eq_implies_eq_refuted_series. Qed.
Print Assumptions C15_key_eq_implies_eq_refuted_series.
Theorem C15_key_eq_implies_eq_refuted_frame :
  exists v w k k', supported v = true /\ supported w = true /\ py_same v w = false
                   /\ to_hashable true v = Ok k /\ to_hashable true w = Ok k' /\ py_eq k k' = true.
Proof. exact key_eq_implies_eq_refuted_frame. Qed.
Print Assumptions C15_key_eq_implies_eq_refuted_frame.

Theorem C15_key_eq_implies_eq_partial : forall fp v w k k',
  supported v = true -> supported w = true -> no_pandas v = true -> no_pandas w = true ->
  to_hashable fp v = Ok k -> to_hashable fp w = Ok k' -> py_eq k k' = true -> py_same v w = true.
Proof. exact key_eq_implies_eq. Qed.
Print Assumptions C15_key_eq_implies_eq_partial.

Example C15_key_eq_implies_eq_nontrivial :   (* [1, 2] vs (1, [2]): both supported, keys exist and differ *)
  let v := PList [PInt 1; PInt 2] in
  let w := PTuple [PInt 1; PList [PInt 2]] in
  supported v = true /\ supported w = true /\ no_pandas v = true /\ no_pandas w = true
  /\ exists k k', to_hashable true v = Ok k /\ to_hashable true w = Ok k' /\ py_eq k k' = false.
Proof. repeat split; try (vm_compute; reflexivity). do 2 eexists. repeat split; vm_compute; reflexivity. Qed.

(* ---- the executable statement itself (Corr/Run_C15.spec_ok, the oracle that judges the implementation's
   observations on every run) holds of the model's observation.  pair_guard v = supported v && no_pandas v. *)
Theorem C15_spec_ok_pair_partial : forall fp v w,
  pair_guard v = true -> pair_guard w = true -> spec_ok (CPair fp v w) (run (CPair fp v w)) = true.
Proof. exact spec_ok_pair. Qed.
Print Assumptions C15_spec_ok_pair_partial.

(* memoize (default SimpleCache; key = to_hashable of the pair (args, kwargs)): a stored result is returned only for
   a call whose (args, kwargs) equals (py_same) the (args, kwargs) of the call that produced it - for all call
   sequences whose call values are supported and pandas-free.  In particular f(3, y=2) and f(3, ('y', 2)) never
   share a result. *)
Theorem C15_memoize_sound_partial : forall args,
  (forall a, In a args -> supported a = true /\ no_pandas a = true) ->
  spec_ok (CMemo args) (run (CMemo args)) = true.
Proof. exact spec_ok_memo. Qed.
Print Assumptions C15_memoize_sound_partial.

(* re-keying after an in-place modification: the key of the mutated object equals the key of an independently built
   equal value (the model has no memory of identity or earlier contents) and equals the earlier key exactly when the
   value is unchanged *)
Theorem C15_rekey_partial : forall v w,
  pair_guard v = true -> pair_guard w = true -> spec_ok (CRekey v w) (run (CRekey v w)) = true.
Proof. exact spec_ok_rekey. Qed.
Print Assumptions C15_rekey_partial.

(* DiskCache file names: the model's _pickle_key is a function of the key (sets inside are ordered) - no guard *)
Theorem C15_pickle_key_stable : forall v, spec_ok (CPickle v) (run (CPickle v)) = true.
Proof. exact spec_ok_pickle. Qed.
Print Assumptions C15_pickle_key_stable.

(* capstone: every case kind, outside the pandas region *)
Theorem C15_spec_ok_partial : forall c, case_guard c = true -> spec_ok c (run c) = true.
Proof. exact spec_ok_all. Qed.
Print Assumptions C15_spec_ok_partial.

Example C15_spec_ok_nontrivial :
  case_guard (CRekey (PDict [(PInt 1, PList [PSet [PStr (s "b"); PNone]]); (PFloat 10, PTuple [])])
                     (PDict [(PInt 1, PList [PSet [PStr (s "b")]]); (PFloat 10, PTuple [])])) = true.
Proof. vm_compute. reflexivity. Qed.
