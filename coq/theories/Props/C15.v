(* C15 - Cache keys identify argument values: equal key iff equal value.
   Only statements here; every proof is `exact <lemma>` into Proofs/.
   Model: Model/PyVal.v (values, ==, <, hash, sorted), Model/ToHashable.v (to_hashable), guards and `supported`:
   Model/ToHashableSpec.v. *)
From Verif Require Import Base.Prelude Model.PyVal Model.ToHashable Model.ToHashableSpec Proofs.ToHashableFacts.

(* ---- key_hashable: to_hashable returns a hashable key.
   Full statement:  forall fp v k, supported v = true -> to_hashable fp v = Ok k -> py_hashable k = true.
   It is FALSE for masked arrays with masked elements (known finding masked-array-key-unhashable): *)
Theorem C15_key_hashable_refuted :
  exists v k, supported v = true /\ to_hashable true v = Ok k /\ py_hashable k = false.
Proof. exact key_hashable_refuted. Qed.
Print Assumptions C15_key_hashable_refuted.

(* proved for every well-formed value without masked elements (pandas values: not covered by the proofs) *)
Theorem C15_key_hashable_partial : forall fp v k,
  wf v = true -> unmasked v = true -> no_pandas v = true ->
  to_hashable fp v = Ok k -> py_hashable k = true.
Proof. exact key_hashable. Qed.
Print Assumptions C15_key_hashable_partial.
