(* C15 - Cache keys identify argument values: equal key iff equal value.
   Only statements here; every proof is `exact <lemma>` into Proofs/.
   Model: Model/PyVal.v (values, ==, <, hash, sorted), Model/ToHashable.v (to_hashable), guards and `supported`:
   Model/ToHashableSpec.v. *)
From Verif Require Import Base.Prelude Model.PyVal Model.ToHashable Model.ToHashableSpec Corr.Run_C15.
From Verif Require Import Proofs.ToHashableFacts Proofs.C15SpecFacts.

(* ---- key_hashable: to_hashable returns a hashable key (masked arrays included since fix f23baae).
   Full statement = the same for every supported value; pandas values are covered by C15_key_hashable_pandas. *)
Theorem C15_key_hashable_partial : forall fp v k,
  wf v = true -> no_pandas v = true ->
  to_hashable fp v = Ok k -> py_hashable k = true.
Proof. exact key_hashable. Qed.
Print Assumptions C15_key_hashable_partial.

Example C15_key_hashable_nontrivial :   (* {2: [1], 1: (5, {3})} satisfies the hypotheses *)
  let v := PDict [(PInt 2, PList [PInt 1]); (PInt 1, PTuple [PInt 5; PSet [PInt 3]])] in
  wf v = true /\ no_pandas v = true /\ exists k, to_hashable true v = Ok k.
Proof. repeat split; try (vm_compute; reflexivity). eexists. vm_compute. reflexivity. Qed.

(* ---- eq_implies_key_eq: equal values of the same type get equal keys (canonicity of sorted()).
   Full statement:  forall fp v w k k', supported v = true -> supported w = true -> py_same v w = true ->
                    to_hashable fp v = Ok k -> to_hashable fp w = Ok k' -> py_eq k k' = true.
   FALSE: frozenset keys are only partially ordered by < (known finding sorted-partial-order-frozenset-keys),
   Counter equality ignores zero counts (known finding counter-zero-count-distinct-keys): *)
Theorem C15_eq_implies_key_eq_refuted_partial_order :
  exists v w k k', supported v = true /\ supported w = true /\ py_same v w = true
                   /\ to_hashable true v = Ok k /\ to_hashable true w = Ok k' /\ py_eq k k' = false.
Proof. exact eq_implies_key_eq_refuted_partial_order. Qed.
Print Assumptions C15_eq_implies_key_eq_refuted_partial_order.
(* proved when everything that gets sorted consists of scalars of one comparable class (numbers | str | bytes),
   no Counter holds a zero count, no pandas values.  py_same compares leaves with Python's == (1 == True == 1.0);
   py_eq is Python's == on the keys. *)
Theorem C15_eq_implies_key_eq_partial : forall fp v w k k',
  wf v = true -> wf w = true -> homogeneous_sortable v = true -> homogeneous_sortable w = true ->
  no_pandas v = true -> no_pandas w = true ->
  py_same v w = true -> to_hashable fp v = Ok k -> to_hashable fp w = Ok k' -> py_eq k k' = true.
Proof. exact eq_implies_key_eq. Qed.
Print Assumptions C15_eq_implies_key_eq_partial.

Example C15_eq_implies_key_eq_nontrivial :   (* {1: [{'b', 'a'}], 2.5: ()} vs {2.5: (), True: [{'a', 'b'}]} *)
  let v := PDict [(PInt 1, PList [PSet [PStr (s "b"); PStr (s "a")]]); (PFloat 10, PTuple [])] in
  let w := PDict [(PFloat 10, PTuple []); (PBool true, PList [PSet [PStr (s "a"); PStr (s "b")]])] in
  wf v = true /\ wf w = true /\ homogeneous_sortable v = true /\ homogeneous_sortable w = true
  /\ no_pandas v = true /\ no_pandas w = true /\ py_same v w = true /\ v <> w.
Proof. repeat split; try (vm_compute; reflexivity). discriminate. Qed.

(* ---- total_on_supported: a key is returned.
   Full statement:  forall fp v, supported v = true -> convertible fp v = true -> exists k, to_hashable fp v = Ok k.
   FALSE: sorted() raises TypeError on mutually incomparable set elements / dict keys
   (known finding sorted-typeerror-incomparable-keys): *)
Theorem C15_total_on_supported_refuted :
  exists v, supported v = true /\ convertible true v = true /\ to_hashable true v = Err TypeError.
Proof. exact total_refuted. Qed.
Print Assumptions C15_total_on_supported_refuted.

Theorem C15_total_on_supported_partial : forall fp v,
  wf v = true -> homogeneous_sortable v = true -> no_pandas v = true -> convertible fp v = true ->
  exists k, to_hashable fp v = Ok k.
Proof. exact total_on_supported. Qed.
Print Assumptions C15_total_on_supported_partial.

(* ---- key_eq_implies_eq (injectivity): equal keys only for equal values of the same type.
   FALSE for pandas Series / DataFrames (known finding pandas-key-loses-index-dtype-order): *)
Theorem C15_key_eq_implies_eq_refuted_series :
  exists v w k k', supported v = true /\ supported w = true /\ py_same v w = false
                   /\ to_hashable true v = Ok k /\ to_hashable true w = Ok k' /\ py_eq k k' = true.
Proof. exact key_eq_implies_eq_refuted_series. Qed.
Print Assumptions C15_key_eq_implies_eq_refuted_series.
Theorem C15_key_eq_implies_eq_refuted_frame :
  exists v w k k', supported v = true /\ supported w = true /\ py_same v w = false
                   /\ to_hashable true v = Ok k /\ to_hashable true w = Ok k' /\ py_eq k k' = true.
Proof. exact key_eq_implies_eq_refuted_frame. Qed.
Print Assumptions C15_key_eq_implies_eq_refuted_frame.

(* proved for all supported values without pandas (masked arrays, opaque objects, mixed/unsortable containers
   included - whenever both keys exist).  Full statement = the same without `no_pandas`. *)
Theorem C15_key_eq_implies_eq_partial : forall fp v w k k',
  supported v = true -> supported w = true -> no_pandas v = true -> no_pandas w = true ->
  to_hashable fp v = Ok k -> to_hashable fp w = Ok k' -> py_eq k k' = true -> py_same v w = true.
Proof. exact key_eq_implies_eq. Qed.
Print Assumptions C15_key_eq_implies_eq_partial.

Example C15_key_eq_implies_eq_nontrivial :   (* [1, 2] vs (1, [2]): both supported, keys exist and differ *)
  let v := PList [PInt 1; PInt 2] in
  let w := PTuple [PInt 1; PList [PInt 2]] in
  supported v = true /\ supported w = true /\ no_pandas v = true /\ no_pandas w = true
  /\ exists k k', to_hashable true v = Ok k /\ to_hashable true w = Ok k' /\ py_eq k k' = false.
Proof. repeat split; try (vm_compute; reflexivity). do 2 eexists. repeat split; vm_compute; reflexivity. Qed.

(* ---- the executable statement itself (Corr/Run_C15.spec_ok, the oracle that judges the implementation's
   observations on every run) holds of the model's observation:
   pairs - for values inside all guards (pair_guard = supported, homogeneous_sortable, no_pandas, no_zero_count,
   unmasked); the unguarded form is refuted by the witnesses above. *)
Theorem C15_spec_ok_pair_partial : forall fp v w,
  pair_guard v = true -> pair_guard w = true -> spec_ok (CPair fp v w) (run (CPair fp v w)) = true.
Proof. exact spec_ok_pair. Qed.
Print Assumptions C15_spec_ok_pair_partial.

(* memoize (default SimpleCache; key = to_hashable of the pair (args, kwargs)): a stored result is returned only for
   a call whose (args, kwargs) equals (py_same) the (args, kwargs) of the call that produced it - for all call
   sequences whose call values are supported and pandas-free (calls that raise are allowed by the statement; they
   are the subject of the pair theorems).  In particular f(3, y=2) and f(3, ('y', 2)) never share a result. *)
Theorem C15_memoize_sound_partial : forall args,
  (forall a, In a args -> supported a = true /\ no_pandas a = true) ->
  spec_ok (CMemo args) (run (CMemo args)) = true.
Proof. exact spec_ok_memo. Qed.
Print Assumptions C15_memoize_sound_partial.

Example C15_spec_ok_nontrivial :
  pair_guard (PDict [(PInt 1, PList [PSet [PStr (s "b"); PStr (s "a")]]); (PFloat 10, PTuple [])]) = true.
Proof. vm_compute. reflexivity. Qed.

(* re-keying after an in-place modification: the key of the mutated object equals the key of an independently built
   equal value (py_eq k1 k1 by reflexivity: the model has no memory of identity or earlier contents) and equals the
   earlier key exactly when the value is unchanged *)
Theorem C15_rekey_partial : forall v w,
  pair_guard v = true -> pair_guard w = true -> spec_ok (CRekey v w) (run (CRekey v w)) = true.
Proof. exact spec_ok_rekey. Qed.
Print Assumptions C15_rekey_partial.
