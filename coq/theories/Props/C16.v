(* C16 - Type-annotation validation agrees with subtype compatibility.
   Only statements here; every proof is `exact <lemma>` into Proofs/.
   compat = model of pipefunc.typing.is_type_compatible (Model/Ty.v, after the repairs listed there),
   sub    = declarative relation from the property text (Model/Ty.v),
   subb   = its decision procedure, the oracle of the correspondence check (Model/TySpec.v). *)
From Verif Require Import Base.Prelude Model.Ty Model.TyPipe Model.TySpec Proofs.TyFacts Proofs.TyPipeFacts Proofs.TyOrigFacts Model.TyOrig Model.TySets Proofs.TySetsFacts Corr.Run_C16.

(* --- the algebraic laws named by the property, for ALL annotations of the grammar --- *)
Theorem C16_compat_reflexive : forall a, compat a a = true.
Proof. exact compat_reflexive. Qed.
Print Assumptions C16_compat_reflexive.

Theorem C16_compat_any : forall a, compat a TAny = true.
Proof. exact compat_any. Qed.
Print Assumptions C16_compat_any.

Theorem C16_compat_noannotation : forall a, compat a TNoAnn = true /\ compat TNoAnn a = true.
Proof. exact compat_noannotation. Qed.
Print Assumptions C16_compat_noannotation.

(* --- the oracle used by spec_ok decides the declarative relation --- *)
Theorem C16_subb_iff_sub : forall a b, subb a b = true <-> sub a b.
Proof. exact subb_iff_sub. Qed.
Print Assumptions C16_subb_iff_sub.

(* --- main theorem.  Full statement:
         forall a b, wf a = true -> wf b = true -> (compat a b = true <-> sub a b)
       (wf = the normal form typing builds: non-empty unions / argument lists, no directly nested Annotated).
       It is FALSE for the code (C16_compat_iff_sub_refuted: a TypeVar source is accepted whatever its bound,
       known finding typevar-source-accepted), and proved for sources without TypeVar. --- *)
Theorem C16_compat_iff_sub_partial : forall a b,
  wf a = true -> wf b = true -> notv a = true -> (compat a b = true <-> sub a b).
Proof. exact compat_iff_sub_partial. Qed.
Print Assumptions C16_compat_iff_sub_partial.

Example C16_partial_nonvacuous :
  let a := TUnion [TAnnot (TGen OTuple [TCls CBool; TArray (TCls CInt)]) [MStr (s "m")]; TCls CNone] in
  let b := TUnion [TGen OTuple [TCls CInt; TArray (TUnion [TCls CInt; TCls CStr])]; TCls CNone;
                   TVar (s "T") (Some (TCls CStr)) []] in
  wf a = true /\ wf b = true /\ notv a = true /\ compat a b = true /\ compat b a = false.
Proof. vm_compute. repeat split. Qed.

Theorem C16_compat_iff_sub_refuted :
  exists a b, wf a = true /\ wf b = true /\ compat a b = true /\ ~ sub a b.
Proof. exact compat_iff_sub_refuted. Qed.
Print Assumptions C16_compat_iff_sub_refuted.

(* the complete description of the code, finding included: is_type_compatible is the reference relation with every
   TypeVar of the SOURCE read as unknown (vars_unknown replaces them by a missing annotation); no guard besides wf *)
Theorem C16_compat_iff_sub_unknown : forall a b,
  wf a = true -> wf b = true -> (compat a b = true <-> sub (vars_unknown a) b).
Proof. exact compat_iff_sub_unknown. Qed.
Print Assumptions C16_compat_iff_sub_unknown.

(* one direction needs no TypeVar guard: whatever the reference accepts, the code accepts (no false rejection) *)
Theorem C16_compat_complete : forall a b, wf a = true -> wf b = true -> sub a b -> compat a b = true.
Proof. exact compat_complete. Qed.
Print Assumptions C16_compat_complete.

(* as equality of the two functions: what the correspondence check evaluates on every case *)
Theorem C16_compat_eq_subb : forall a b, wf a = true -> wf b = true -> notv a = true -> compat a b = subb a b.
Proof. exact compat_eq_subb. Qed.
Print Assumptions C16_compat_eq_subb.

(* --- unions: a union source needs all members accepted, a union target needs one (TypeVars allowed;
       `splits a` = a is a union or an annotated union, which is split member by member before the target) --- *)
Theorem C16_compat_union_src : forall l b,
  wf (TUnion l) = true -> wf b = true -> compat (TUnion l) b = forallb (fun x => compat x b) l.
Proof. exact compat_union_src. Qed.
Print Assumptions C16_compat_union_src.

Theorem C16_compat_union_tgt : forall a l,
  wf a = true -> wf (TUnion l) = true -> splits a = false ->
  compat a (TUnion l) = existsb (fun t => compat a t) l.
Proof. exact compat_union_tgt. Qed.
Print Assumptions C16_compat_union_tgt.

Theorem C16_compat_union_tgt_intro : forall a t l,
  wf a = true -> wf (TUnion l) = true -> In t l -> compat a t = true -> compat a (TUnion l) = true.
Proof. exact compat_union_tgt_intro. Qed.
Print Assumptions C16_compat_union_tgt_intro.

(* --- pipelines (model of validate_consistent_type_annotations, Model/TyPipe.v).
       spec_edges fs = the edges of the pipeline with their effective source type: the return annotation,
       wrapped in Array when the output is consumed through a MapSpec reduction.
       pipe_guard = annotations in normal form, no TypeVar in a return annotation (finding typevar-source-accepted),
       no mapped function returning an object-array type (finding reduced-array-output-not-wrapped);
       pipe_guard_accept = pipe_guard without the TypeVar conjunct (acceptance needs no TypeVar guard).
       Full statements = the same with only the normal-form conjunct; they are refuted on the real code by the
       witnesses of known_findings.jsonl (replayed by the check on every run as KNOWN-FINDING). --- *)
Theorem C16_validation_off_accepts_all : forall fs, construct fs false = Ok tt.
Proof. exact validation_off_accepts_all. Qed.
Print Assumptions C16_validation_off_accepts_all.

Theorem C16_edges_ok_accepts_partial : forall fs,
  pipe_guard_accept fs = true ->
  (forall e, In e (spec_edges fs) -> sub (fst e) (snd e)) ->
  construct fs true = Ok tt.
Proof. exact edges_ok_accepts. Qed.
Print Assumptions C16_edges_ok_accepts_partial.

Theorem C16_bad_edge_rejects_partial : forall fs e,
  pipe_guard fs = true -> In e (spec_edges fs) -> ~ sub (fst e) (snd e) ->
  construct fs true = Err TypeError.
Proof. exact bad_edge_rejects. Qed.
Print Assumptions C16_bad_edge_rejects_partial.

(* a reduction pipeline inside the guard: y maps over x, z takes the whole array *)
Definition ex_reduce (b : ty) : list pfunc :=
  [ Fn (s "y") (TUnion [TCls CBool; TCls CNone]) [(s "x", Some (TCls CInt))]
       (Some (Ms [(s "x", [Some (s "i")])] [(s "y", [Some (s "i")])]));
    Fn (s "z") (TCls CInt) [(s "y", Some b)] None ].
Example C16_pipeline_guard_nonvacuous :
  pipe_guard (ex_reduce (TArray (TUnion [TCls CInt; TCls CNone]))) = true
  /\ pipe_guard_accept (ex_reduce (TArray (TUnion [TCls CInt; TCls CNone]))) = true
  /\ spec_edges (ex_reduce (TArray (TUnion [TCls CInt; TCls CNone])))
     = [(TArray (TUnion [TCls CBool; TCls CNone]), TArray (TUnion [TCls CInt; TCls CNone]))]
  /\ construct (ex_reduce (TArray (TUnion [TCls CInt; TCls CNone]))) true = Ok tt
  /\ pipe_guard (ex_reduce (TUnion [TCls CInt; TCls CNone])) = true
  /\ construct (ex_reduce (TUnion [TCls CInt; TCls CNone])) true = Err TypeError.
Proof. vm_compute. repeat split. Qed.

(* --- the executable statement evaluated by the correspondence check holds of the model on every valid case
       (valid: Corr/Run_C16.v) --- *)
Theorem C16_spec_ok_on_model : forall c, valid c = true -> spec_ok c (run c) = true.
Proof. exact spec_ok_on_model. Qed.
Print Assumptions C16_spec_ok_on_model.

(* --- the repaired defects: on the dispatch of the unrepaired code (Model/TyOrig.v, pipefunc 8bc6eee) the guarded
       main theorem is false; six witnesses in normal form without TypeVar source, one per repair ("fix:" commits):
       arity, direction for a required Annotated, string metadata, annotated union source, Array element type
       against a plain Annotated, constrained TypeVar target --- *)
Theorem C16_compat_orig_refuted :
  exists l : list (ty * ty), length l = 6 /\ forallb (fun p => disagrees (fst p) (snd p)) l = true.
Proof. exact compat_orig_refuted. Qed.
Print Assumptions C16_compat_orig_refuted.

(* --- the reference relation is sound for a set-theoretic reading of the annotations (Model/TySets.v: den t v =
       "v is a value of type t"), on the static fragment (classes, Any, unions, parametrised list/set/tuple/dict/
       OrderedDict, Annotated, Array[T]; not the "unknown" forms -- missing annotation, Unresolvable, bare generics,
       ndarray[...] -- which are compatible both ways, and not TypeVars) --- *)
Theorem C16_sub_sound_sets : forall a b,
  static a = true -> static b = true -> sub a b -> forall v, den a v -> den b v.
Proof. exact sub_sound_sets. Qed.
Print Assumptions C16_sub_sound_sets.

Example C16_sound_sets_nonvacuous :
  let a := TGen OODict [TCls CStr; TUnion [TCls CBool; TCls CNone]] in
  let b := TAnnot (TGen ODict [TCls CStr; TUnion [TCls CInt; TCls CNone]]) [MStr (s "doc")] in
  static a = true /\ static b = true /\ subb a b = true
  /\ den a (VCont OODict [[VStr (s "k"); VBool true]; [VStr (s "l"); VNone]]).
Proof. vm_compute. repeat split; try reflexivity. intros row [<-|[<-|[]]]; repeat split; auto. Qed.
