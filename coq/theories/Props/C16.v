(* C16 - Type-annotation validation agrees with subtype compatibility (statements only). *)
From Verif Require Import Base.Prelude Model.Ty Model.TyPipe Model.TySpec.
