(* C16 - Type-annotation validation agrees with subtype compatibility.
   Only statements here; every proof is `exact <lemma>` into Proofs/.
   compat = model of pipefunc.typing.is_type_compatible (Model/Ty.v, after the repairs listed there),
   sub    = declarative relation from the property text (Model/Ty.v),
   subb   = its decision procedure, the oracle of the correspondence check (Model/TySpec.v). *)
From Verif Require Import Base.Prelude Model.Ty Model.TyPipe Model.TySpec Proofs.TyFacts.

(* --- the algebraic laws named by the property, for ALL annotations of the grammar --- *)
Theorem C16_compat_reflexive : forall a, compat a a = true.
Proof. exact compat_reflexive. Qed.
Print Assumptions C16_compat_reflexive.

Theorem C16_compat_any : forall a, compat a TAny = true.
Proof. exact compat_any. Qed.
Print Assumptions C16_compat_any.

Theorem C16_compat_noannotation : forall a, compat a TNoAnn = true /\ compat TNoAnn a = true.
Proof. exact compat_noannotation. Qed.
Print Assumptions C16_compat_noannotation.

(* --- the oracle used by spec_ok decides the declarative relation --- *)
Theorem C16_subb_iff_sub : forall a b, subb a b = true <-> sub a b.
Proof. exact subb_iff_sub. Qed.
Print Assumptions C16_subb_iff_sub.

(* --- main theorem.  Full statement:
         forall a b, wf a = true -> wf b = true -> (compat a b = true <-> sub a b)
       (wf = the normal form typing builds: non-empty unions / argument lists, no directly nested Annotated).
       It is FALSE for the code (C16_compat_iff_sub_refuted: a TypeVar source is accepted whatever its bound,
       known finding typevar-source-accepted), and proved for sources without TypeVar. --- *)
Theorem C16_compat_iff_sub_partial : forall a b,
  wf a = true -> wf b = true -> notv a = true -> (compat a b = true <-> sub a b).
Proof. exact compat_iff_sub_partial. Qed.
Print Assumptions C16_compat_iff_sub_partial.

Example C16_partial_nonvacuous :
  let a := TUnion [TAnnot (TGen OTuple [TCls CBool; TArray (TCls CInt)]) [MStr (s "m")]; TCls CNone] in
  let b := TUnion [TGen OTuple [TCls CInt; TArray (TUnion [TCls CInt; TCls CStr])]; TCls CNone;
                   TVar (s "T") (Some (TCls CStr)) []] in
  wf a = true /\ wf b = true /\ notv a = true /\ compat a b = true /\ compat b a = false.
Proof. vm_compute. repeat split. Qed.

Theorem C16_compat_iff_sub_refuted :
  exists a b, wf a = true /\ wf b = true /\ compat a b = true /\ ~ sub a b.
Proof. exact compat_iff_sub_refuted. Qed.
Print Assumptions C16_compat_iff_sub_refuted.

(* as equality of the two functions: what the correspondence check evaluates on every case *)
Theorem C16_compat_eq_subb : forall a b, wf a = true -> wf b = true -> notv a = true -> compat a b = subb a b.
Proof. exact compat_eq_subb. Qed.
Print Assumptions C16_compat_eq_subb.

(* --- unions: a union source needs all members accepted, a union target needs one --- *)
Theorem C16_compat_union_src : forall l b,
  wf (TUnion l) = true -> wf b = true -> notv (TUnion l) = true ->
  compat (TUnion l) b = forallb (fun x => compat x b) l.
Proof. exact compat_union_src. Qed.
Print Assumptions C16_compat_union_src.

Theorem C16_compat_union_tgt : forall a l,
  wf a = true -> wf (TUnion l) = true -> notv a = true -> splits a = false ->
  compat a (TUnion l) = existsb (fun t => compat a t) l.
Proof. exact compat_union_tgt. Qed.
Print Assumptions C16_compat_union_tgt.

Theorem C16_compat_union_tgt_intro : forall a t l,
  wf a = true -> wf (TUnion l) = true -> notv a = true -> In t l -> compat a t = true -> compat a (TUnion l) = true.
Proof. exact compat_union_tgt_intro. Qed.
Print Assumptions C16_compat_union_tgt_intro.
