(* C17 - Sweeps enumerate exactly the documented combinations.
   Only statements here; every proof is `exact <lemma>` into Proofs/SweepFacts.v. *)
From Verif Require Import Base.Prelude Base.Index Model.Sweep Model.SweepSpec Proofs.SweepFacts.
