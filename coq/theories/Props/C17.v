(* C17 - Sweeps enumerate exactly the documented combinations.
   Only statements here; every proof is `exact <lemma>` into Proofs/Sweep*.v. *)
From Verif Require Import Base.Prelude Base.Index Model.Sweep Model.SweepSpec Proofs.IndexFacts Proofs.SweepFacts.

(* len(sweep) == len(sweep.list()) for every sweep whose list() returns *)
Theorem C17_len_eq_length : forall s l, generate s = Ok l -> len s = Ok (length l).
Proof. exact len_eq_length. Qed.
Print Assumptions C17_len_eq_length.

(* list() is the documented list: the combination of every index vector of the zipped groups exactly once
   (all_indices = row-major enumeration without repetition), constants added where absent, derivers applied
   in order, excluded combinations removed; errors of user callables surface unchanged.
   Holds whenever dims is omitted or lists its groups in item order. *)
Theorem C17_generate_is_rowmajor_product : forall s,
  wf_sweep s = true -> in_item_order s = true ->
  generate s = spec_list s
  /\ NoDup (all_indices (map (glen (items s)) (groups s)))
  /\ length (all_indices (map (glen (items s)) (groups s))) = prod (map (glen (items s)) (groups s)).
Proof.
  intros s H1 H2.
  exact (conj (generate_is_rowmajor_product s H1 H2) (conj (all_indices_NoDup _) (all_indices_length _))).
Qed.
Print Assumptions C17_generate_is_rowmajor_product.

(* the same for every dims except a permutation of the item keys given as plain strings (there the code
   enumerates in item order, see C17_generate_permuted) *)
Theorem C17_generate_is_spec : forall s, wf_sweep s = true -> order_ok s -> generate s = spec_list s.
Proof. exact generate_is_spec. Qed.
Print Assumptions C17_generate_is_spec.

From Verif Require Import Proofs.SweepMulti Proofs.SweepProduct Proofs.SweepWitness.

(* product of sweeps with disjoint keys = Cartesian product of the combination lists, row-major, as finite maps
   (ceq: same value for every key), including constants, derivers and exclusions of all operands, and len agrees.
   FULL STATEMENT (false of the code, see C17_product_is_cartesian_refuted_zip): the same without the hypothesis marked
   "guard" (operands without items are covered: they have no combinations and neither has the product). Hypotheses: operands well formed, every name (item, constant and deriver keys) used by one operand only,
   user callables only look at keys of their own operand, dims omitted or in item order. *)
Theorem C17_product_is_cartesian_partial : forall s others ls,
  Forall (fun o => wf_sweep o = true) (s :: others) ->
  NoDup (concat (map all_keys (s :: others))) ->
  Forall local_sweep (s :: others) ->
  Forall (fun o => in_item_order o = true) (s :: others) ->
  (dims s = None -> Forall (fun o => dims o = None) others) ->          (* guard: product-loses-zip *)
  mapM generate (s :: others) = Ok ls ->
  exists p l, product s others = Ok p /\ generate p = Ok l /\ Forall2 ceq l (cart_union ls)
              /\ len p = Ok (length l).
Proof. exact product_is_cartesian_guarded. Qed.
Print Assumptions C17_product_is_cartesian_partial.

(* a non-trivial instance of the hypotheses: three operands, a zip, constants, local derivers and excludes *)
Example C17_product_hyps_inhabited :
  Forall (fun o => wf_sweep o = true) [e_1; e_2; e_3]
  /\ NoDup (concat (map all_keys [e_1; e_2; e_3]))
  /\ Forall local_sweep [e_1; e_2; e_3]
  /\ Forall (fun o => in_item_order o = true) [e_1; e_2; e_3]
  /\ (dims e_1 = None -> Forall (fun o => dims o = None) [e_2; e_3])
  /\ exists ls, mapM generate [e_1; e_2; e_3] = Ok ls /\ length (cart_union ls) = 8.
Proof. exact product_example_hyps. Qed.

(* without the guard on dims: 8 combinations instead of 2 x 2 (known finding product-loses-zip) *)
Theorem C17_product_is_cartesian_refuted_zip :
  exists s others ls p l,
    Forall (fun o => wf_sweep o = true) (s :: others)
    /\ NoDup (concat (map all_keys (s :: others)))
    /\ Forall local_sweep (s :: others)
    /\ Forall (fun o => in_item_order o = true) (s :: others)
    /\ Forall (fun o => items o <> []) (s :: others)
    /\ mapM generate (s :: others) = Ok ls
    /\ product s others = Ok p /\ generate p = Ok l /\ len p = Ok (length l)
    /\ length l = 8 /\ length (cart_union ls) = 4.
Proof. exact product_loses_zip_witness. Qed.
Print Assumptions C17_product_is_cartesian_refuted_zip.

(* a + b, MultiSweep( *l ): concatenation, and len is the sum / the length of the list *)
Theorem C17_add_is_concat : forall a b,
  mgenerate (madd a b) = (do x <- mgenerate a; do y <- mgenerate b; Ok (x ++ y))
  /\ mlen (madd a b) = (do x <- mlen a; do y <- mlen b; Ok (x + y)).
Proof. intros a b. exact (conj (add_is_concat a b) (add_len_sum a b)). Qed.
Print Assumptions C17_add_is_concat.

Theorem C17_multi_is_concat : forall l, mgenerate (MMulti l) = (do ls <- mapM mgenerate l; Ok (concat ls)).
Proof. exact mgenerate_multi. Qed.
Print Assumptions C17_multi_is_concat.

Theorem C17_multi_len_eq_length : forall m l, mgenerate m = Ok l -> mlen m = Ok (length l).
Proof. exact mlen_eq_length. Qed.
Print Assumptions C17_multi_len_eq_length.

From Verif Require Import Proofs.SweepCount Proofs.SweepFilter.

(* filtered_sweep(keys) of a sweep WITH derivers: the distinct projections onto keys, each exactly once
   (holds with constants and exclude as well; keys non-empty, without repetition, present in every combination) *)
Theorem C17_filtered_is_projection_derivers : forall s keys l d0,
  ders s = Some d0 -> keys <> [] -> NoDup keys ->
  generate s = Ok l -> (forall c, In c l -> forall k, In k keys -> dget c k <> None) ->
  exists f l', filtered s keys = Ok f /\ generate f = Ok l' /\ len f = Ok (length l')
    /\ NoDup l' /\ (forall x, In x l' <-> In x (map (proj keys) l)).
Proof. exact filtered_with_derivers. Qed.
Print Assumptions C17_filtered_is_projection_derivers.

(* count_sweep (counting loop, given the (dependency, root_args) pairs of the pipeline): every root-argument tuple
   that occurs is reported exactly once, with the number of combinations sharing it *)
Theorem C17_count_sweep_counts : forall deps cs r,
  count_sweep deps cs = Ok r ->
  map fst r = map fst deps
  /\ Forall2 (fun da dc =>
       let args := snd da in let cnt := snd dc in
       NoDup (map fst cnt)
       /\ (forall key n, In (key, n) cnt -> n = count_of args cs key /\ 0 < n)
       /\ (forall c, In c cs -> In (tuple_of args c) (map fst cnt))) deps r.
Proof. exact count_sweep_counts. Qed.
Print Assumptions C17_count_sweep_counts.

From Verif Require Import Proofs.SweepFilterB.

(* filtered_sweep(keys) of a sweep without derivers, constants and exclude: the filtered sweep enumerates the
   distinct projections onto keys - no two of its combinations are equal as finite maps (nodup_ceq), each is the
   projection of a combination of the sweep, and every projection occurs (also when a dimension is empty: then
   neither the sweep nor the filtered sweep has combinations).  Value lists without duplicates inside one key, as in
   DESIGN.md. *)
Theorem C17_filtered_is_projection : forall s keys l,
  wf_sweep s = true -> in_item_order s = true ->
  opt_keys (consts s) = [] -> excl s = None -> ders s = None ->
  Forall (fun kv => NoDup (snd kv)) (items s) ->
  keys <> [] -> NoDup keys -> incl keys (concat (groups s)) ->
  generate s = Ok l ->
  exists f l', filtered s keys = Ok f /\ generate f = Ok l' /\ len f = Ok (length l')
    /\ nodup_ceq l'
    /\ (forall x, In x l' -> exists c, In c l /\ ceq (proj keys c) x)
    /\ (forall c, In c l -> exists x, In x l' /\ ceq (proj keys c) x).
Proof. exact filtered_no_derivers. Qed.
Print Assumptions C17_filtered_is_projection.

Example C17_filtered_hyps_inhabited :
  wf_sweep e_f = true /\ in_item_order e_f = true
  /\ opt_keys (consts e_f) = [] /\ excl e_f = None /\ ders e_f = None
  /\ Forall (fun kv => NoDup (snd kv)) (items e_f)
  /\ [s "c"; s "a"] <> [] /\ NoDup [s "c"; s "a"] /\ incl [s "c"; s "a"] (concat (groups e_f))
  /\ exists l, generate e_f = Ok l /\ length l = 6.
Proof. exact filtered_example_hyps. Qed.

(* dims = the item keys as plain strings in another order: the code enumerates in item order, i.e. the list is
   exactly the documented list of the same sweep with dims omitted *)
Theorem C17_generate_permuted : forall s d,
  wf_sweep s = true -> dims s = Some d -> dims_is_keyset d (dkeys (items s)) = true ->
  generate s = spec_list (set_dims s None) /\ wf_sweep (set_dims s None) = true
  /\ in_item_order (set_dims s None) = true.
Proof. exact generate_permuted. Qed.
Print Assumptions C17_generate_permuted.

(* "exactly once": with duplicate-free value lists no two documented base combinations are equal as finite maps *)
Theorem C17_spec_base_distinct : forall s,
  wf_sweep s = true -> Forall (fun kv => NoDup (snd kv)) (items s) -> nodup_ceq (spec_base s).
Proof. exact spec_base_distinct. Qed.
Print Assumptions C17_spec_base_distinct.

(* dims = the item keys as plain strings in another order (the one case where the code does not follow the order
   of dims): list() still consists of exactly the documented combinations, as finite maps, for callables that
   depend on the finite map only *)
Theorem C17_generate_permuted_same_set : forall s d L,
  wf_sweep s = true -> dims s = Some d -> dims_is_keyset d (dkeys (items s)) = true ->
  ext_sweep s -> spec_list s = Ok L ->
  exists L', generate s = Ok L'
    /\ (forall v', In v' L' -> exists v, In v L /\ ceq v' v)
    /\ (forall v, In v L -> exists v', In v' L' /\ ceq v v').
Proof. exact generate_permuted_same_set. Qed.
Print Assumptions C17_generate_permuted_same_set.

From Verif Require Import Model.SweepSeq Proofs.SweepSeqFacts.

(* operation sequences on shared objects (product / + / filtered_sweep / add_derivers): in the model no operation
   modifies an object that already exists; the correspondence check observes list()/len() of every operand and
   every earlier result after each step on the real objects *)
Theorem C17_operations_preserve_objects : forall h slots op h' id,
  step h slots op = SNew h' id -> forall k o, nth_error h k = Some o -> nth_error h' k = Some o.
Proof. exact step_preserves_objects. Qed.
Print Assumptions C17_operations_preserve_objects.

From Coq Require Import Sorted.
From Verif Require Import Proofs.IndexOrder.

(* the enumeration order named in C17_generate_is_rowmajor_product, pointwise: the index vectors of the zipped groups come
   in strictly increasing lexicographic order (first group slowest, last group fastest), for every number and size of groups *)
Theorem C17_enumeration_order_lexicographic : forall sh, StronglySorted lex_lt (all_indices sh).
Proof. exact all_indices_lex_sorted. Qed.
Print Assumptions C17_enumeration_order_lexicographic.

Example C17_example_enumeration_order : all_indices [2; 2] = [[0; 0]; [0; 1]; [1; 0]; [1; 1]].
Proof. reflexivity. Qed.
