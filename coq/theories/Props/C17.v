(* C17 - Sweeps enumerate exactly the documented combinations.
   Only statements here; every proof is `exact <lemma>` into Proofs/Sweep*.v. *)
From Verif Require Import Base.Prelude Base.Index Model.Sweep Model.SweepSpec Proofs.IndexFacts Proofs.SweepFacts.

(* len(sweep) == len(sweep.list()) for every sweep whose list() returns *)
Theorem C17_len_eq_length : forall s l, generate s = Ok l -> len s = Ok (length l).
Proof. exact len_eq_length. Qed.
Print Assumptions C17_len_eq_length.

(* list() is the documented list: the combination of every index vector of the zipped groups exactly once
   (all_indices = row-major enumeration without repetition), constants added where absent, derivers applied
   in order, excluded combinations removed; errors of user callables surface unchanged.
   Holds whenever dims is omitted or lists its groups in item order. *)
Theorem C17_generate_is_rowmajor_product : forall s,
  wf_sweep s = true -> in_item_order s = true ->
  generate s = spec_list s
  /\ NoDup (all_indices (map (glen (items s)) (groups s)))
  /\ length (all_indices (map (glen (items s)) (groups s))) = prod (map (glen (items s)) (groups s)).
Proof.
  intros s H1 H2.
  exact (conj (generate_is_rowmajor_product s H1 H2) (conj (all_indices_NoDup _) (all_indices_length _))).
Qed.
Print Assumptions C17_generate_is_rowmajor_product.

(* the same for every dims except a permutation of the item keys given as plain strings (there the code
   enumerates in item order, see C17_generate_permuted) *)
Theorem C17_generate_is_spec : forall s, wf_sweep s = true -> order_ok s -> generate s = spec_list s.
Proof. exact generate_is_spec. Qed.
Print Assumptions C17_generate_is_spec.
