(* C18 - stub; theorems follow *)
From Verif Require Import Base.Prelude Model.Pipe Model.Lazy.
