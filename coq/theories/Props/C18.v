(* C18 - Lazy pipelines evaluate to the eager result, at most once per node.
   Only statements here; every proof is `exact <lemma>` into Proofs/LazyFacts.v.
   Lazy.lazy_run = model of Pipeline(lazy=True).run (allocates _LazyFunction nodes, records task-graph edges);
   Lazy.evaluate = model of _LazyFunction.evaluate / evaluate_lazy (memo per node, call log with node ids);
   Pipe.eval / Pipe.needed_top / Pipe.run = specification and eager model of C02.
   All theorems hold for ARBITRARY user code `body` (Err models a raise) and output picker `pick`. *)
From Verif Require Import Base.Prelude Base.StrOrd Base.Graph Model.Pipe Model.Lazy
                          Proofs.GraphFacts Proofs.PipeFacts Proofs.LazyFacts.

(* a lazy run invokes nothing: no node of the returned structure is evaluated (and the model's run has no
   call log at all; user code is only reachable through Lazy.evaluate) *)
Theorem C18_nothing_before_evaluate : forall p o kw full dagon r st,
  lazy_run p o kw full dagon = (r, st) -> forall nd, In nd (lheap st) -> memo nd = None.
Proof. exact nothing_before_evaluate. Qed.
Print Assumptions C18_nothing_before_evaluate.

(* evaluate() of the deferred object = the value of the specification (or the error the user code raises) ... *)
Theorem C18_lazy_eq_spec : forall body pick p kw o dagon,
  wf_pipeline p -> forall a st, lazy_run p o kw false dagon = (Ok (LValue a), st) ->
  snd (evaluate body pick {| eheap := lheap st; elog := [] |} a) = eval_top body pick p kw o.
Proof. exact lazy_eq_spec. Qed.
Print Assumptions C18_lazy_eq_spec.

(* ... = the eager result *)
Theorem C18_lazy_eq_eager : forall body pick p kw o dagon,
  wf_pipeline p -> forall a st, lazy_run p o kw false dagon = (Ok (LValue a), st) ->
  fst (run body pick p o kw false) = lift_value (snd (evaluate body pick {| eheap := lheap st; elog := [] |} a)).
Proof. exact lazy_eq_eager. Qed.
Print Assumptions C18_lazy_eq_eager.

(* a successful evaluate() calls every node at most once, every function at most once, exactly the needed
   functions, with the arguments of the specification; evaluating again calls nothing and returns the same *)
Theorem C18_evaluate_once : forall body pick p kw o dagon,
  wf_pipeline p -> forall a st, lazy_run p o kw false dagon = (Ok (LValue a), st) ->
  forall st1 v, evaluate body pick {| eheap := lheap st; elog := [] |} a = (st1, Ok v) ->
  NoDup (map fst (elog st1))
  /\ NoDup (map (fun e => fst (snd e)) (elog st1))
  /\ (forall g, In g p -> (In (fname g) (map (fun e => fst (snd e)) (elog st1)) <-> In g (needed_top p kw o)))
  /\ (forall i c, In (i, c) (elog st1) ->
        exists f, In f p /\ fst c = fname f /\ eval_args body pick p kw f = Ok (snd c))
  /\ evaluate body pick st1 a = (st1, Ok v).
Proof. exact evaluate_once. Qed.
Print Assumptions C18_evaluate_once.

(* the recorded task graph is acyclic: every edge goes from an older to a newer node *)
Theorem C18_dag_acyclic : forall p o kw full dagon r st,
  lazy_run p o kw full dagon = (r, st) -> forall a b, In (a, b) (ldag st) -> a < b.
Proof. exact dag_acyclic. Qed.
Print Assumptions C18_dag_acyclic.

(* under construct_dag(): (a, b) is an edge iff node b has the lazy argument a *)
Theorem C18_dag_edges_exact : forall p o kw full r st,
  lazy_run p o kw full true = (r, st) ->
  forall a b, In (a, b) (ldag st) <-> exists nd, nth_error (lheap st) b = Some nd /\ In a (refs_of (nargs nd)).
Proof. exact dag_edges_exact. Qed.
Print Assumptions C18_dag_edges_exact.

(* ... i.e. every edge is a producer-consumer dependency of the evaluation (directly, or into / out of the picker
   of a tuple output), every such dependency has its edge, and every needed function has a node *)
Theorem C18_dag_edges_are_dependencies : forall p kw o a st,
  wf_pipeline p -> lazy_run p o kw false true = (Ok (LValue a), st) ->
  (forall x y, In (x, y) (ldag st) ->
     (exists f cur g, is_fnode (lheap st) y f /\ In cur (pnames f) /\ source_of p kw f cur = SUp g
                      /\ points (lheap st) x g cur)
     \/ (exists g n nd, nth_error (lheap st) y = Some nd /\ nk nd = NPick n /\ is_fnode (lheap st) x g
                        /\ In n (outs g) /\ multi g = true))
  /\ (forall y f cur g, is_fnode (lheap st) y f -> In cur (pnames f) -> source_of p kw f cur = SUp g ->
        exists x, points (lheap st) x g cur /\ In (x, y) (ldag st))
  /\ (forall f, In f (needed_top p kw o) -> exists y, is_fnode (lheap st) y f).
Proof. exact dag_edges_spec. Qed.
Print Assumptions C18_dag_edges_are_dependencies.

(* ---------- non-vacuity ---------- *)
Definition ex_p : pipeline :=
  [ mkf (s "f") [s "a"; s "b"] [(s "x", s "x")] [] [] false;
    mkf (s "g") [s "c"] [(s "a", s "a"); (s "b", s "b")] [] [] false;
    mkf (s "h") [s "d"] [(s "c", s "c"); (s "a", s "a")] [] [] false ].
Example ex_wf : wf_pipeline ex_p.
Proof. vm_compute. reflexivity. Qed.
Example ex_lazy :
  let '(r, st) := lazy_run ex_p (s "d") [(s "x", s "1")] false true in
  r = Ok (LValue (ARef 4)) /\ length (lheap st) = 5
  /\ ldag st = [(0, 1); (0, 2); (1, 3); (2, 3); (3, 4); (1, 4)]
  /\ snd (evaluate Sym.body Sym.pick {| eheap := lheap st; elog := [] |} (ARef 4))
     = Ok (s "h(c=g(a=out(a;f(x=1)),b=out(b;f(x=1))),a=out(a;f(x=1)))")
  /\ map fst (elog (fst (evaluate Sym.body Sym.pick {| eheap := lheap st; elog := [] |} (ARef 4)))) = [0; 3; 4].
Proof. vm_compute. auto. Qed.

(* ---------- sequences of requests to one lazy pipeline object (Model/LazySeq.v: task-graph / LRU caches) ---------- *)
From Verif Require Import Model.LazySeq Proofs.LazySeqFacts.

(* the first request to a fresh lazy pipeline object (inside a fresh construct_dag() block or outside, with or
   without cached functions) never hits a cache: it is exactly Lazy.lazy_run, so every theorem above applies to
   it.  Hypothesis: root_args succeeds on every output (decidable for a given pipeline, see ex_seq_roots). *)
Theorem C18_first_request_is_lazy_run : forall p dagon o kw full,
  wf_pipeline p -> forallb (fun o' => is_ok (root_args p o')) (all_outputs p) = true ->
  exists c, crequest p dagon pinit o kw full =
            (fst (lazy_run p o kw full dagon),
             {| pheap := lheap (snd (lazy_run p o kw full dagon)); pdag := ldag (snd (lazy_run p o kw full dagon));
                pcache := c; plog := [] |}).
Proof. exact first_request_is_lazy_run. Qed.
Print Assumptions C18_first_request_is_lazy_run.

Example ex_seq_roots : forallb (fun o' => is_ok (root_args ex_p o')) (all_outputs ex_p) = true.
Proof. vm_compute. reflexivity. Qed.
(* "a" then "d" with the same root value inside one construct_dag(): the node of f is shared through the cache
   (5 + 2 + 2 nodes: the second request adds its own pickers, g and h), and f runs once *)
Example ex_seq :
  let rs := [(s "a", [(s "x", s "1")], false, false); (s "d", [(s "x", s "1")], false, false)] in
  let '(ps1, outcomes) := run_requests Sym.body Sym.pick ex_p true pinit rs in
  let '(ps2, values) := eval_all Sym.body Sym.pick ps1 outcomes in
  plog ps1 = [] /\ length (pheap ps2) = 7
  /\ map (fun e => fst (snd e)) (plog ps2) = [s "f"; s "g"; s "h"]
  /\ values = [Some (Ok (inl (s "out(a;f(x=1))")));
               Some (Ok (inl (s "h(c=g(a=out(a;f(x=1)),b=out(b;f(x=1))),a=out(a;f(x=1)))")))].
Proof. vm_compute. auto. Qed.

(* ---------- keyword values that contain deferred objects (Model/LazyXref.v: templates) ---------- *)
From Verif Require Import Model.LazyXref.
(* a keyword value without a deferred object inside (no marker) is an ordinary value: evaluate_lazy leaves it alone,
   and it contributes no edge and no dependency - the template machinery is conservative over Lazy / LazySeq *)
Theorem C18_plain_value_is_inert : forall rec v st,
  plain v -> subst rec v None st [] = (st, Ok v) /\ refs_edge v = [] /\ refs_all v = [].
Proof. exact plain_value_is_inert. Qed.
Print Assumptions C18_plain_value_is_inert.

(* the predecessors add_edge records for a node are exactly the deferred objects that evaluating the node evaluates,
   at every container depth (formerly only one level deep: finding c18-nested-container-dependency-not-recorded) *)
Theorem C18_recorded_edges_are_all_dependencies : forall nd, deps_edge nd = deps_all nd.
Proof. exact recorded_edges_are_all_dependencies. Qed.
Print Assumptions C18_recorded_edges_are_all_dependencies.
