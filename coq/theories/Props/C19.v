(* C19 - xarray datasets label results with the right dimensions and coordinates.
   Only statements here; every proof is `exact <lemma>` into Proofs/XrLabelFacts.v (witnesses by vm_compute).
   The model (Model/XrLabel.v) mirrors trace_dependencies/_trace_dependencies/mapspec_axes/_xarray/
   _xarray_dataset after the repairs eb90cd5 and 3e7da28; xarray/pandas object construction is library
   behaviour that is observed by the correspondence harness and not modelled. *)
From Verif Require Import Base.Prelude Base.StrUtil Base.Index Base.NdArr Model.MapSpec Model.MapSpecSpec
  Model.MapRun Model.MapDenote Model.SymBody Model.XrLabel Model.XrLabelSpec
  Proofs.StrFacts Proofs.MapSpecFacts Proofs.XrLabelFacts Proofs.XrLabelTotal Proofs.XrLabelCorr Proofs.XrLabelCapstone Corr.Run_C19.

(* Hypotheses shared by the theorems (all enforced by Pipeline construction):
     NoDup (out_names specs)               every array is the output of at most one function,
     consistent (all_aspecs specs) = true  validate_consistent_axes,
     no_colon_axes a                       outputs carry no ':' (MapSpec.__post_init__). *)

(* each MapSpec output is a variable whose dimensions are its MapSpec axes in order *)
Theorem C19_dims_are_axes : forall specs ms a,
  consistent (all_aspecs specs) = true -> In ms specs -> In a (outs ms) -> no_colon_axes a ->
  dims_of specs (aname a) = Ok (indices a).
Proof. exact dims_are_axes. Qed.
Print Assumptions C19_dims_are_axes.

(* the traced dependencies are exactly the arrays carried to o along k through element-wise functions
   (`carried` is the declarative reading; trace_dep the mirrored recursion with its dicts and sorting) *)
Theorem C19_trace_is_carried : forall specs, NoDup (out_names specs) ->
  forall fuel o d, trace_dep fuel specs o = Ok d ->
  forall k x, (exists l, dget str_eqb d k = Some l /\ In x l) <-> In x (carried fuel specs o k).
Proof. exact trace_dep_carried. Qed.
Print Assumptions C19_trace_is_carried.

(* a one-dimensional root input x (or, with load_intermediate, any visible one-dimensional source) mapped
   along axis k - possibly through intermediate element-wise functions - appears as a coordinate on
   exactly that axis: some coordinate of o lies on (k,) and has x as a source, and every coordinate of o
   that has x as a source lies on (k,).  `forallb wf_aspec` = array names are identifiers (ArraySpec). *)
Theorem C19_coord_on_exact_axis : forall specs inputs loadable li o k cs x,
  NoDup (out_names specs) -> consistent (all_aspecs specs) = true ->
  forallb wf_aspec (all_aspecs specs) = true ->
  one_dimensional specs x -> visible inputs li x = true ->
  In x (carried (trace_fuel specs) specs o k) ->
  coords_of specs inputs loadable li o = Ok cs ->
  (exists c, In c cs /\ co_axes c = [k] /\ In x (co_srcs c))
  /\ (forall c, In c cs -> In x (co_srcs c) -> co_axes c = [k]).
Proof. exact coord_on_axis_full. Qed.
Print Assumptions C19_coord_on_exact_axis.

(* zipped inputs are combined into ONE coordinate whose name is the ":"-join of all its levels *)
Theorem C19_zipped_multiindex : forall specs inputs loadable li o k cs x z,
  NoDup (out_names specs) -> consistent (all_aspecs specs) = true ->
  forallb wf_aspec (all_aspecs specs) = true ->
  one_dimensional specs x -> visible inputs li x = true ->
  one_dimensional specs z -> visible inputs li z = true ->
  In x (carried (trace_fuel specs) specs o k) -> In z (carried (trace_fuel specs) specs o k) ->
  x <> z ->
  coords_of specs inputs loadable li o = Ok cs ->
  exists c, In c cs /\ co_axes c = [k] /\ In x (co_srcs c) /\ In z (co_srcs c)
            /\ co_name c = join (s ":") (co_srcs c).
Proof. exact zipped_multiindex_full. Qed.
Print Assumptions C19_zipped_multiindex.

(* the dict assignment `coords[name] = ...` never overwrites: coordinate names of one output are distinct *)
Theorem C19_coord_names_distinct : forall specs inputs loadable li o raw,
  (forall a, In a (all_aspecs specs) -> mem_char ":"%char (aname a) = false) ->
  coords_raw_of specs inputs loadable li o = Ok raw -> NoDup (map co_name raw).
Proof. exact coord_names_distinct. Qed.
Print Assumptions C19_coord_names_distinct.

(* outputs without a MapSpec are assigned as plain variables and never as labelled DataArrays *)
Theorem C19_unmapped_outputs_plain : forall specs inputs outputs li ds,
  dataset_vars specs inputs outputs li = Ok ds ->
  (forall o, In o outputs -> ~ In o (out_names specs) ->
     In o (ds_plain ds) /\ ~ In o (map da_name (ds_arrays ds)) /\ ~ In o (ds_dropped ds))
  /\ (forall o, In o (ds_plain ds) -> In o outputs /\ ~ In o (out_names specs)).
Proof. exact unmapped_outputs_plain. Qed.
Print Assumptions C19_unmapped_outputs_plain.

(* dataset level: every labelled array of the dataset is a declared MapSpec output whose dims are its
   declared axes in order; and every output computed element-wise (MapSpec with inputs) is one of the
   labelled arrays - it is never dropped in favour of a coordinate of the same name *)
Theorem C19_dataset_arrays : forall specs inputs outputs li ds,
  NoDup (out_names specs) -> consistent (all_aspecs specs) = true ->
  forallb wf_aspec (all_aspecs specs) = true ->
  (forall ms a, In ms specs -> In a (outs ms) -> no_colon_axes a) ->
  dataset_vars specs inputs outputs li = Ok ds ->
  (forall a, In a (ds_arrays ds) ->
     In (da_name a) outputs
     /\ exists ms asp, In ms specs /\ In asp (outs ms) /\ aname asp = da_name a /\ da_dims a = indices asp)
  /\ (forall o ms, computed_by specs o = Some ms -> In o outputs ->
        exists a, In a (ds_arrays ds) /\ da_name a = o).
Proof. exact dataset_arrays_spec. Qed.
Print Assumptions C19_dataset_arrays.

(* the coordinates of the merged Dataset are exactly (by name) the coordinates of its labelled arrays *)
Theorem C19_dataset_coords_union : forall ds,
  (forall a c, In a (ds_arrays ds) -> In c (da_coords a) ->
     exists c', In c' (ds_coords ds) /\ co_name c' = co_name c)
  /\ (forall c', In c' (ds_coords ds) -> exists a, In a (ds_arrays ds) /\ In c' (da_coords a)).
Proof. exact ds_coords_union. Qed.
Print Assumptions C19_dataset_coords_union.

(* the property's coordinate clauses on the merged Dataset (what xarray_dataset_from_results and
   load_xarray_dataset hand to xr.merge): a visible one-dimensional array x carried along axis k to a
   computed output o of the run is a source of a Dataset coordinate on exactly (k,) and of no Dataset
   coordinate on other axes; two such arrays are levels of one coordinate named by the ":"-join *)
Theorem C19_dataset_coord_on_exact_axis : forall specs inputs outputs li ds o ms k x,
  NoDup (out_names specs) -> consistent (all_aspecs specs) = true ->
  forallb wf_aspec (all_aspecs specs) = true ->
  (forall m a, In m specs -> In a (outs m) -> no_colon_axes a) ->
  dataset_vars specs inputs outputs li = Ok ds ->
  computed_by specs o = Some ms -> In o outputs ->
  one_dimensional specs x -> visible inputs li x = true ->
  In x (carried (trace_fuel specs) specs o k) ->
  (exists c, In c (ds_coords ds) /\ co_axes c = [k] /\ In x (co_srcs c))
  /\ (forall c, In c (ds_coords ds) -> In x (co_srcs c) -> co_axes c = [k]).
Proof. exact dataset_coord_on_exact_axis. Qed.
Print Assumptions C19_dataset_coord_on_exact_axis.

Theorem C19_dataset_zipped_multiindex : forall specs inputs outputs li ds o ms k x z,
  NoDup (out_names specs) -> consistent (all_aspecs specs) = true ->
  forallb wf_aspec (all_aspecs specs) = true ->
  (forall m a, In m specs -> In a (outs m) -> no_colon_axes a) ->
  dataset_vars specs inputs outputs li = Ok ds ->
  computed_by specs o = Some ms -> In o outputs ->
  one_dimensional specs x -> visible inputs li x = true ->
  one_dimensional specs z -> visible inputs li z = true ->
  In x (carried (trace_fuel specs) specs o k) -> In z (carried (trace_fuel specs) specs o k) -> x <> z ->
  exists c, In c (ds_coords ds) /\ co_axes c = [k] /\ In x (co_srcs c) /\ In z (co_srcs c)
            /\ co_name c = join (s ":") (co_srcs c).
Proof. exact dataset_zipped_multiindex. Qed.
Print Assumptions C19_dataset_zipped_multiindex.

(* "whose values equal the map result" / "identical datasets", model side (by C01_map_run_denotes): for a
   valid request the values that the model of the datasets shows for every output (Run_C19.run reads them
   from the model of Pipeline.map, `outv`) are the denotation, and returned and stored values agree *)
Theorem C19_values_are_denotation : forall q den,
  request_ok (q_funcs q) (q_inputs q) = true ->
  denote_run sym_body (q_funcs q) (q_inputs q) (q_internal q) = Ok den ->
  exists st, map_run sym_body (q_funcs q) (q_inputs q) (q_internal q) = Ok st
    /\ (forall n, outv_of (r_out st) n = dict_get (d_out den) n)
    /\ forallb (fun x => val_eqb (snd (fst x)) (snd x)) (r_out st) = true.
Proof. exact model_values_denote. Qed.
Print Assumptions C19_values_are_denotation.

(* termination / totality: when the MapSpecs are listed in a topological order (`topo_specs`: no MapSpec
   computes an input of an earlier one - a Pipeline is acyclic), the recursion of `_trace_dependencies`
   never exhausts the fuel S (length specs) of the model, so trace_dependencies returns; and when every
   array indexed by a MapSpec is an input or an output of the run, the labelling model returns a dataset.
   With these, the `... = Ok _` hypotheses of the theorems above are consequences, not assumptions. *)
Theorem C19_trace_fuel_suffices : forall specs,
  NoDup (out_names specs) -> topo_specs specs = true ->
  (forall o m, mapping_get specs o = Some m -> exists d, trace_dep (trace_fuel specs) specs o = Ok d)
  /\ exists tr, trace specs = Ok tr.
Proof.
  intros specs Hnd Ht. split.
  - intros o m M. exact (trace_dep_total specs o m Ht M).
  - exact (trace_total specs Hnd Ht).
Qed.
Print Assumptions C19_trace_fuel_suffices.

Theorem C19_dataset_total : forall specs inputs outputs li,
  NoDup (out_names specs) -> topo_specs specs = true -> consistent (all_aspecs specs) = true ->
  (forall ms a, In ms specs -> In a (outs ms) -> no_colon_axes a) ->
  arrays_known specs inputs outputs ->
  exists ds, dataset_vars specs inputs outputs li = Ok ds.
Proof. exact dataset_vars_total. Qed.
Print Assumptions C19_dataset_total.

(* the dataset-level clauses of the property with NO `... = Ok _` hypothesis: for MapSpecs that are listed in a
   topological order, name the dimensions consistently and only index deliverable arrays, the labelling model
   returns a dataset in which every computed output is a labelled array with its declared axes as dims, every
   visible one-dimensional array carried to it along k labels exactly (k,), and zipped ones share ONE
   coordinate named by the ":"-join of its levels *)
Theorem C19_dataset_labels_total : forall specs inputs outputs li,
  NoDup (out_names specs) -> topo_specs specs = true -> consistent (all_aspecs specs) = true ->
  forallb wf_aspec (all_aspecs specs) = true ->
  (forall m a, In m specs -> In a (outs m) -> no_colon_axes a) ->
  arrays_known specs inputs outputs ->
  exists ds, dataset_vars specs inputs outputs li = Ok ds
    /\ (forall o ms, computed_by specs o = Some ms -> In o outputs ->
          exists a, In a (ds_arrays ds) /\ da_name a = o
                    /\ exists asp, In asp (outs ms) /\ aname asp = o /\ da_dims a = indices asp)
    /\ (forall o ms k x, computed_by specs o = Some ms -> In o outputs ->
          one_dimensional specs x -> visible inputs li x = true ->
          In x (carried (trace_fuel specs) specs o k) ->
          (exists c, In c (ds_coords ds) /\ co_axes c = [k] /\ In x (co_srcs c))
          /\ (forall c, In c (ds_coords ds) -> In x (co_srcs c) -> co_axes c = [k]))
    /\ (forall o ms k x z, computed_by specs o = Some ms -> In o outputs ->
          one_dimensional specs x -> visible inputs li x = true ->
          one_dimensional specs z -> visible inputs li z = true ->
          In x (carried (trace_fuel specs) specs o k) -> In z (carried (trace_fuel specs) specs o k) -> x <> z ->
          exists c, In c (ds_coords ds) /\ co_axes c = [k] /\ In x (co_srcs c) /\ In z (co_srcs c)
                    /\ co_name c = join (s ":") (co_srcs c)).
Proof. exact dataset_labels_total. Qed.
Print Assumptions C19_dataset_labels_total.

(* selecting by coordinate value.  `sel_label` is the specification of label based selection on a
   one-dimensional coordinate (look the value up, slice the variable at the position found); the lookup
   itself is xarray's (observed by the harness on every coordinate value, not modelled).
   (1) with distinct coordinate values, selecting by the n-th value is positional selection of index n,
       and the selected array holds at j the element of the variable at (j completed by n at dimension q) *)
Theorem C19_sel_returns_element_partial : forall (a : nd str) q labels n v,
  nd_wf a = true -> q < length (shp a) -> length labels = nth q (shp a) 0 ->
  NoDup labels -> nth_error labels n = Some v ->
  exists b, sel_label a q labels v = Ok b
            /\ shp b = remove_at q (shp a)
            /\ forall j, in_bounds (shp b) j = true -> nd_get b j = nd_get a (insert_at q n j).
Proof. exact (@sel_returns_element str). Qed.
Print Assumptions C19_sel_returns_element_partial.

(* (2) against the denotation of C01 (Model/MapDenote.v), for an arbitrary user function `body`: if the
       variable is the jo-th output of a mapped function, the element selected by the n-th coordinate
       value is, at every remaining index j, the denoted element at index n along that axis *)
Theorem C19_sel_returns_denotation_partial :
  forall (body : mfunc -> env -> result (list val)) f ms kw sh mask arrs jo a q labels n v,
  denote_mapped body f ms kw sh mask = Ok arrs -> nth_error arrs jo = Some a ->
  q < length sh -> length labels = nth q sh 0 -> NoDup labels -> nth_error labels n = Some v ->
  exists b, sel_label a q labels v = Ok b
            /\ shp b = remove_at q sh
            /\ forall j, in_bounds (shp b) j = true ->
                 exists x, nd_get b j = Some x
                           /\ denote_elem body f ms kw mask jo (insert_at q n j) = Ok x.
Proof. exact sel_returns_denotation. Qed.
Print Assumptions C19_sel_returns_denotation_partial.

(* the executable statement demands a dataset for every valid request: any exception observed from the
   constructors is judged a violation (this is how the repaired defects and the two "no dataset" findings
   were and are detected) *)
Theorem C19_spec_rejects_errors : forall c e, valid c = true -> spec_ok c (SErr e) = false.
Proof. exact spec_rejects_errors. Qed.
Print Assumptions C19_spec_rejects_errors.

(* CAPSTONE - link to the differential check: outside the regions of the three known findings
     region_conflict  an index name is used with two different sizes,
     region_plain     an output without MapSpec is an array of rank >= 2,
     region_zsel      a kind 1 case in which some data variable carries a zipped coordinate (a selection by the
                      value of a zipped coordinate is attempted),
   the observation of the model (Run_C19.run: resolve the request - constructing the auto-generated
   MapSpecs -, run the model of Pipeline.map, label, render) satisfies the executable statement `spec_ok`
   that the harness applies to the implementation's observations, for EVERY valid case.  The proof uses the
   Prop-level theorems above (dims_are_axes, trace = carried, coordinate/zipped/dataset theorems, names
   never collide, totality) and C01_map_run_denotes; the harness evaluates the same equation on samples
   (`spec_failures_on_model`). *)
Theorem C19_model_meets_spec : forall c,
  valid c = true -> known_region c = false -> spec_ok c (run c) = true.
Proof. exact capstone. Qed.
Print Assumptions C19_model_meets_spec.

(* ---------- the part of the property that the code does not satisfy ---------- *)
(* Full statement (false):  forall c, valid c = true -> spec_ok c (run c) = true.
   For kind 1 cases (selection by the value of a zipped coordinate) the faithful model - the zipped
   coordinate is an object array of tuples, which xarray cannot index - contradicts "selecting by
   coordinate value returns the element": known finding C19-zipped-coordinate-not-selectable. *)
Definition zsel_witness (kind : nat) : case :=
  {| c_funcs := [ {| fname := s "f"; fouts := [s "y"]; fparams := [s "x"; s "z"]; fbound := []; fdefaults := [];
                     fspec := Some {| ins := [ {| aname := s "x"; axes := [Some (s "i")] |};
                                               {| aname := s "z"; axes := [Some (s "i")] |} ];
                                      outs := [ {| aname := s "y"; axes := [Some (s "i")] |} ] |};
                     fint := []; fret := [] |} ];
     c_inputs := [ (s "x", VA {| shp := [2]; dat := [s "x_0"; s "x_1"] |});
                   (s "z", VA {| shp := [2]; dat := [s "z_0"; s "z_1"] |}) ];
     c_internal := []; c_li := true; c_kind := kind; c_order := [] |}.

Theorem C19_sel_zipped_refuted :
  exists c, valid c = true /\ c_kind c = 1 /\ spec_ok c (run c) = false.
Proof. exists (zsel_witness 1). vm_compute. repeat split. Qed.
Print Assumptions C19_sel_zipped_refuted.

(* Two more valid requests for which no dataset is produced at all (the model records the library's
   refusal: xr.merge cannot align two sizes of one dimension name; a bare 2-D ndarray cannot be assigned
   without dimension names): known findings C19-axis-name-reused-with-different-sizes and
   C19-unmapped-array-output-not-storable. *)
Definition mk1 (name out arg idx : string) : mfunc :=
  {| fname := s name; fouts := [s out]; fparams := [s arg]; fbound := []; fdefaults := [];
     fspec := Some {| ins := [ {| aname := s arg; axes := [Some (s idx)] |} ];
                      outs := [ {| aname := s out; axes := [Some (s idx)] |} ] |};
     fint := []; fret := [] |}.

Definition conflict_witness : case :=
  {| c_funcs := [ mk1 "f" "y" "x" "i"; mk1 "g" "w" "u" "i" ];
     c_inputs := [ (s "x", VA {| shp := [3]; dat := [s "x_0"; s "x_1"; s "x_2"] |});
                   (s "u", VA {| shp := [2]; dat := [s "u_0"; s "u_1"] |}) ];
     c_internal := []; c_li := true; c_kind := 0; c_order := [] |}.

Theorem C19_axis_size_conflict_refuted :
  exists c, valid c = true /\ spec_ok c (run c) = false.
Proof. exists conflict_witness. vm_compute. split; reflexivity. Qed.
Print Assumptions C19_axis_size_conflict_refuted.

Definition plain_array_witness : case :=
  {| c_funcs := [ mk1 "f" "y" "x" "i";
                  {| fname := s "g"; fouts := [s "t"]; fparams := [s "y"]; fbound := []; fdefaults := [];
                     fspec := None; fint := []; fret := [2; 2] |} ];
     c_inputs := [ (s "x", VA {| shp := [2]; dat := [s "x_0"; s "x_1"] |}) ];
     c_internal := []; c_li := true; c_kind := 0; c_order := [] |}.

Theorem C19_unmapped_array_output_refuted :
  exists c, valid c = true /\ spec_ok c (run c) = false.
Proof. exists plain_array_witness. vm_compute. split; reflexivity. Qed.
Print Assumptions C19_unmapped_array_output_refuted.

(* non-vacuity of the executable statement: the same request satisfies everything else (kind 0) *)
Example C19_example_label_ok :
  valid (zsel_witness 0) = true /\ known_region (zsel_witness 0) = false
  /\ spec_ok (zsel_witness 0) (run (zsel_witness 0)) = true.
Proof. vm_compute. repeat split; reflexivity. Qed.

(* non-vacuity of the hypotheses: x[i], z[i] -> y[i] ; y[i], u[j] -> w[i, j] ; w[i, :] -> r[i] *)
Definition ex_specs : list mapspec :=
  [ {| ins := [ {| aname := s "x"; axes := [Some (s "i")] |}; {| aname := s "z"; axes := [Some (s "i")] |} ];
       outs := [ {| aname := s "y"; axes := [Some (s "i")] |} ] |};
    {| ins := [ {| aname := s "y"; axes := [Some (s "i")] |}; {| aname := s "u"; axes := [Some (s "j")] |} ];
       outs := [ {| aname := s "w"; axes := [Some (s "i"); Some (s "j")] |} ] |};
    {| ins := [ {| aname := s "w"; axes := [Some (s "i"); None] |} ];
       outs := [ {| aname := s "r"; axes := [Some (s "i")] |} ] |} ].

Example C19_example_hypotheses :
  let inputs := [s "x"; s "z"; s "u"] in
  let outputs := [s "r"; s "w"; s "y"] in
  NoDup (out_names ex_specs) /\ consistent (all_aspecs ex_specs) = true
  /\ forallb wf_aspec (all_aspecs ex_specs) = true
  /\ one_dimensional ex_specs (s "x") /\ one_dimensional ex_specs (s "z")
  /\ In (s "x") (carried (trace_fuel ex_specs) ex_specs (s "r") (s "i"))
  /\ In (s "z") (carried (trace_fuel ex_specs) ex_specs (s "r") (s "i"))
  /\ coords_of ex_specs inputs outputs true (s "w")
     = Ok [ {| co_name := s "x:z"; co_axes := [s "i"]; co_srcs := [s "x"; s "z"] |};
            {| co_name := s "u"; co_axes := [s "j"]; co_srcs := [s "u"] |} ]
  /\ dims_of ex_specs (s "w") = Ok [s "i"; s "j"]
  /\ (forall m a, In m ex_specs -> In a (outs m) -> no_colon_axes a)
  /\ is_ok (dataset_vars ex_specs inputs outputs true) = true
  /\ computed_by ex_specs (s "r") <> None
  /\ topo_specs ex_specs = true /\ arrays_known ex_specs inputs outputs
  /\ is_ok (trace_dep (trace_fuel ex_specs) ex_specs (s "r")) = true
  /\ option_map ds_plain (match dataset_vars ex_specs inputs (outputs ++ [s "t"]) true with
                          | Ok ds => Some ds | Err _ => None end) = Some [s "t"].
Proof.
  cbv zeta. repeat split.
  - apply nodup_str_NoDup. reflexivity.
  - intros a Ha E. vm_compute in Ha. repeat (destruct Ha as [<-|Ha]; [try discriminate E; reflexivity|]). destruct Ha.
  - intros a Ha E. vm_compute in Ha. repeat (destruct Ha as [<-|Ha]; [try discriminate E; reflexivity|]). destruct Ha.
  - vm_compute. auto.
  - vm_compute. auto.
  - intros m a Hm Ha i. vm_compute in Hm.
    repeat (destruct Hm as [<-|Hm]; [cbn in Ha; destruct Ha as [<-|[]]; destruct i as [|[|[|i]]]; cbn; discriminate|]).
    destruct Hm.
  - vm_compute. discriminate.
  - intros m a Hm Ha. vm_compute in Hm.
    repeat (destruct Hm as [<-|Hm]; [cbn in Ha; repeat (destruct Ha as [<-|Ha]; [vm_compute; tauto|]); destruct Ha|]).
    destruct Hm.
Qed.

Example C19_example_values : (* the witness request is valid: the hypotheses of C19_values_are_denotation hold *)
  match resolve (zsel_witness 0) with
  | Ok q => request_ok (q_funcs q) (q_inputs q)
            && is_ok (denote_run sym_body (q_funcs q) (q_inputs q) (q_internal q))
  | Err _ => false
  end = true.
Proof. vm_compute. reflexivity. Qed.
