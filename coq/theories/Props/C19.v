(* C19 - xarray datasets label results with the right dimensions and coordinates (statements only). *)
From Verif Require Import Base.Prelude Model.MapSpec Model.XrLabel Model.XrLabelSpec.

Theorem C19_placeholder : forall specs : list mapspec, all_aspecs specs = all_aspecs specs.
Proof. reflexivity. Qed.
Print Assumptions C19_placeholder.
