(* C20 - Resource specifications combine monotonically and without side effects.
   Only statements here; every proof is `exact <lemma>` into Proofs/ResourcesFacts.v.
   Model = Model/Resources.v (pipefunc/resources.py as repaired on branch c20); declarative notions
   (valid_res, mem_denotes, time_denotes, dominates, filled, mentions_all) = Model/ResourcesSpec.v. *)
From Coq Require Import QArith.
From Verif Require Import Base.Prelude Model.Resources Model.ResourcesSpec Proofs.ResourcesFacts.
From Verif Require Import Model.ResourcesSeq Corr.Run_C20 Proofs.ResourcesCorrFacts Proofs.ResourcesSeqFacts.
Local Close Scope Q_scope.

(* combine_max of valid operands never fails, returns a valid value that is at least as large as every operand in
   cpus, gpus, memory (exact size) and wall time (duration); unset = no constraint; operands are returned untouched *)
Theorem C20_combine_max_upper_bound : forall rs, Forall valid_res rs ->
  exists res, combine_max rs = (Ok res, rs) /\ valid_res res /\ forall r, In r rs -> dominates res r.
Proof. exact combine_max_upper_bound. Qed.
Print Assumptions C20_combine_max_upper_bound.

Example C20_combine_max_example :
  let a := mkR (Some 2%Z) None None (Some (s "1500MB")) None (Some (s "2:00:00")) None [] (s "external") in
  let b := mkR (Some 1%Z) None None (Some (s "1.2gb")) (Some 0%Z) (Some (s "10:00:00")) None [] (s "external") in
  Forall valid_res [a; b]
  /\ fst (combine_max [a; b])
     = Ok (mkR (Some 2%Z) None None (Some (s "1500MB")) (Some 0%Z) (Some (s "10:00:00")) None [] (s "external")).
Proof. split; [repeat constructor; apply sp_valid_iff; reflexivity|reflexivity]. Qed.

(* with_defaults: every field set on the receiver is kept, unset ones are taken from the defaults ([filled]);
   the only failure is a ValueError when that combination is not a valid Resources value *)
Theorem C20_with_defaults_keeps : forall r d, valid_res r -> valid_res d ->
  (valid_res (filled r d) -> fst (fst (fst (with_defaults r (Some d)))) = Ok (filled r d))
  /\ (~ valid_res (filled r d) -> fst (fst (fst (with_defaults r (Some d)))) = Err ValueError)
  /\ with_defaults r None = (Ok r, r, None, true).
Proof. exact with_defaults_keeps. Qed.
Print Assumptions C20_with_defaults_keeps.

Example C20_with_defaults_example :
  let r := mkR None (Some 1%Z) (Some 1%Z) None None None None [] (s "external") in
  let d := mkR None None (Some 2%Z) None None None (Some (s "partition-1")) [] (s "external") in
  valid_res r /\ valid_res d /\ valid_res (filled r d)
  /\ filled r d = mkR None (Some 1%Z) (Some 1%Z) None None None (Some (s "partition-1")) [] (s "external").
Proof. repeat split; try (apply sp_valid_iff; reflexivity). Qed.

(* no combinator changes an operand: the operand state returned by the model equals the state before the call
   (for update also: the result does not share the receiver's extra_args dict) *)
Theorem C20_no_mutation :
  (forall r kw, snd (fst (update r kw)) = r /\ snd (update r kw) = false)
  /\ (forall rs, snd (combine_max rs) = rs)
  /\ (forall r d, snd (fst (fst (with_defaults r d))) = r /\ snd (fst (with_defaults r d)) = d)
  /\ (forall r d, snd (fst (fst (maybe_with_defaults r d))) = r /\ snd (fst (maybe_with_defaults r d)) = d).
Proof.
  exact (conj update_no_mutation (conj combine_max_operands
          (conj with_defaults_no_mutation maybe_with_defaults_no_mutation))).
Qed.
Print Assumptions C20_no_mutation.

(* Resources.from_dict(r.dict()) == r *)
Theorem C20_dict_roundtrip : forall r, valid_res r -> from_dict (to_dict r) = Ok r.
Proof. exact dict_roundtrip. Qed.
Print Assumptions C20_dict_roundtrip.

Example C20_dict_roundtrip_example :
  let r := mkR None (Some 4%Z) (Some 2%Z) (Some (s "0.5tb")) (Some 0%Z) (Some (s "1:12:00:00")) (Some (s "gpu"))
               [(s "qos", XStr (s "high")); (s "n", XInt 3%Z)] (s "internal") in
  valid_res r /\ nodup_keys (extra_args r) = true
  /\ to_dict r = [(s "cpus_per_node", UInt 4%Z); (s "nodes", UInt 2%Z); (s "memory", UStr (s "0.5tb"));
                  (s "gpus", UInt 0%Z); (s "time", UStr (s "1:12:00:00")); (s "partition", UStr (s "gpu"));
                  (s "extra_args", UDict [(s "qos", XStr (s "high")); (s "n", XInt 3%Z)]);
                  (s "parallelization_mode", UStr (s "internal"))].
Proof. split; [apply sp_valid_iff; reflexivity|split; reflexivity]. Qed.

(* to_slurm_options mentions every set quantity.  Full statement:
     forall r, valid_res r -> mentions_all r (to_slurm_options r)
   is FALSE of the code (known finding slurm-gpus-zero-omitted): *)
Theorem C20_slurm_mentions_all_refuted :
  exists r, valid_res r /\ gpus r = Some 0%Z /\ ~ mentions_all r (to_slurm_options r).
Proof. exact slurm_mentions_all_refuted. Qed.
Print Assumptions C20_slurm_mentions_all_refuted.

Theorem C20_slurm_mentions_all_partial : forall r, valid_res r -> gpus r <> Some 0%Z ->
  mentions_all r (to_slurm_options r).
Proof. exact slurm_mentions_all_partial. Qed.
Print Assumptions C20_slurm_mentions_all_partial.

Example C20_slurm_example :
  let r := mkR (Some 4%Z) None None (Some (s "16GB")) (Some 2%Z) (Some (s "2:00:00")) None [] (s "external") in
  valid_res r /\ gpus r <> Some 0%Z
  /\ to_slurm_options r = s "--cpus-per-task=4 --gres=gpu:2 --mem=16GB --time=2:00:00".
Proof. split; [apply sp_valid_iff; reflexivity|]. split; [discriminate|reflexivity]. Qed.

(* the constructor accepts exactly the valid values (positive counts, well-formed memory / time, no exclusive
   combination), stores them unchanged, and every rejection is a ValueError *)
Theorem C20_bad_rejected : forall a,
  ((exists r, post_init a = Ok r) <-> valid_res a)
  /\ (forall r, post_init a = Ok r -> r = a)
  /\ (~ valid_res a -> post_init a = Err ValueError).
Proof.
  exact (fun a => conj (post_init_ok_iff a)
                   (conj (fun r H => proj1 (post_init_ok_same a r H)) (post_init_invalid a))).
Qed.
Print Assumptions C20_bad_rejected.

(* the two scanners accept exactly the documented grammars and compute the exact size / the duration *)
Theorem C20_memory_grammar : forall m q, mem_bytes m = Some q <-> mem_denotes m q.
Proof. exact mem_bytes_iff. Qed.
Print Assumptions C20_memory_grammar.

Theorem C20_time_grammar : forall t,
  (is_valid_wall_time t = true <-> exists n, time_denotes t n)
  /\ (forall n, time_denotes t n -> time_secs t = Ok n).
Proof. exact (fun t => conj (valid_time_iff t) (fun n => denotes_time_secs t n)). Qed.
Print Assumptions C20_time_grammar.

(* NestedPipeFunc (_maybe_max_resources without an explicit argument): None iff no child has resources, otherwise
   a valid value at least as large as every child's resources; the children are untouched *)
Theorem C20_nested_resources_upper_bound : forall ch, Forall valid_res (somes ch) ->
  match fst (fst (maybe_max_resources ENone ch)) with
  | None => somes ch = []
  | Some x => exists res, x = Ok res /\ valid_res res /\ forall c, In c (somes ch) -> dominates res c
  end
  /\ snd (fst (maybe_max_resources ENone ch)) = ch.
Proof. exact maybe_max_upper_bound. Qed.
Print Assumptions C20_nested_resources_upper_bound.

Example C20_nested_resources_example :
  let a := mkR (Some 2%Z) None None (Some (s "1GB")) None (Some (s "59:59")) None [] (s "external") in
  let b := mkR None None None (Some (s "1000MB")) (Some 1%Z) (Some (s "1:00:00")) None [] (s "external") in
  Forall valid_res (somes [Some a; None; Some b])
  /\ fst (fst (maybe_max_resources ENone [Some a; None; Some b]))
     = Some (Ok (mkR (Some 2%Z) None None (Some (s "1GB")) (Some 1%Z) (Some (s "1:00:00")) None [] (s "external"))).
Proof. split; [repeat constructor; apply sp_valid_iff; reflexivity|reflexivity]. Qed.

(* Python's == on the round-tripped value (dict equality ignores order; extra_args is a dict: unique keys) *)
Theorem C20_dict_roundtrip_eq : forall r, valid_res r -> nodup_keys (extra_args r) = true ->
  exists x, from_dict (to_dict r) = Ok x /\ res_eqb x r = true.
Proof. exact (fun r Hv Hn => ex_intro _ r (conj (dict_roundtrip r Hv) (res_eqb_refl r Hn))). Qed.
Print Assumptions C20_dict_roundtrip_eq.

(* An observation OUTSIDE the property text (it lists cpus, gpus, memory, wall time): combine_max does not carry
   nodes / cpus_per_node into its result, so for these two fields the result is not an upper bound. *)
Theorem C20_combine_max_drops_nodes :
  exists r, valid_res r /\ nodes r = Some 2%Z /\ cpus_per_node r = Some 4%Z
            /\ exists res, fst (combine_max [r; r]) = Ok res /\ nodes res = None /\ cpus_per_node res = None.
Proof. exact combine_max_drops_nodes. Qed.
Print Assumptions C20_combine_max_drops_nodes.

(* ---- operation sequences on SHARED objects (Model/ResourcesSeq.v) ----
   Objects live in a heap; [step] computes every operation from the single-call model and writes the operand states
   that update / combine_max / with_defaults return back into the heap.  No operation changes an object that already
   exists (whatever the heap contains), so every operation is a function of its operands' field values and later
   operations on an operand see it exactly as before. *)
Theorem C20_operations_preserve_objects : forall h op out h', step h op = (out, h') ->
  forall k o, nth_error h k = Some o -> nth_error h' k = Some o.
Proof. exact step_preserves_objects. Qed.
Print Assumptions C20_operations_preserve_objects.

Theorem C20_sequence_preserves_objects : forall ops h k o,
  nth_error h k = Some o -> nth_error (run_heap h ops) k = Some o.
Proof. exact sequence_preserves_objects. Qed.
Print Assumptions C20_sequence_preserves_objects.

(* ... and everything an operation returns is again a valid Resources value with a proper extra_args dict; a
   successful operation other than with_defaults(None) returns a NEW object (appended to the heap) *)
Theorem C20_operations_return_values : forall h op out h',
  Forall (fun r => valid_res r /\ nodup_keys (extra_args r) = true) h -> step h op = (out, h') ->
  Forall (fun r => valid_res r /\ nodup_keys (extra_args r) = true) h'
  /\ match out with
     | ONew => exists y, h' = h ++ [y]
     | OExisting id => h' = h /\ id < length h /\ must_be_new op = false
     | _ => h' = h
     end.
Proof. exact step_returns_values. Qed.
Print Assumptions C20_operations_return_values.

Example C20_sequence_example :
  let r := mkR (Some 2%Z) None None (Some (s "512MB")) None (Some (s "30:00")) None [] (s "external") in
  let b := mkR (Some 8%Z) None None (Some (s "0.5TB")) (Some 1%Z) None None [] (s "external") in
  Forall (fun r => valid_res r /\ nodup_keys (extra_args r) = true) [r; b]
  /\ map fst [step [r; b] (OCombine [0; 1]); step [r; b] (OUpdate 0 [(s "cpus", UInt 3%Z)]);
              step [r; b] (OWithDefaults 0 None)]
     = [ONew; ONew; OExisting 0].
Proof. split; [repeat constructor; apply sp_valid_iff; reflexivity|reflexivity]. Qed.

(* the code before "fix: Resources.update no longer mutates ...": writing back the receiver state that the old
   update returns changes the heap *)
Theorem C20_operations_preserve_objects_prefix_refuted :
  exists r kw, valid_res r /\ set_nth 0 (snd (fst (update_prefix r kw))) [r] <> [r].
Proof. exact update_prefix_changes_heap. Qed.
Print Assumptions C20_operations_preserve_objects_prefix_refuted.

(* ---- the executable statement used by the correspondence check ----
   spec_ok (Corr/Run_C20.v) is what the engine evaluates on the observations of the real implementation.
   It holds of the model's own observation for every case (all constructor arguments, operand lists, keyword
   lists, dicts).  Full statement:   forall c, spec_ok c (run c) = true
   is FALSE (known finding slurm-gpus-zero-omitted, the same defect as C20_slurm_mentions_all_refuted): *)
Theorem C20_spec_ok_run_refuted : exists c, known_region c = true /\ spec_ok c (run c) = false.
Proof. exact spec_ok_run_refuted. Qed.
Print Assumptions C20_spec_ok_run_refuted.

Theorem C20_spec_ok_run_partial : forall c, known_region c = false -> spec_ok c (run c) = true.
Proof. exact spec_ok_run_partial. Qed.
Print Assumptions C20_spec_ok_run_partial.

Example C20_spec_ok_run_example :
  let a := mkR (Some 2%Z) None None (Some (s "1500MB")) None (Some (s "2:00:00")) None [] (s "external") in
  let b := mkR (Some 1%Z) None None (Some (s "1.2gb")) (Some 0%Z) (Some (s "10:00:00")) None [] (s "external") in
  known_region (CCombine [a; b]) = false /\ forallb operand_ok [a; b] = true.
Proof. split; reflexivity. Qed.

(* the boolean validity used by spec_ok is the declarative one *)
Theorem C20_sp_valid_iff : forall r, sp_valid r = true <-> valid_res r.
Proof. exact sp_valid_iff. Qed.
Print Assumptions C20_sp_valid_iff.

(* ---- the behaviour before the repairs (model of the old code), kept as refutations ---- *)
(* r.update(foo=1) changed r.extra_args and shared the dict with the result *)
Theorem C20_no_mutation_prefix_refuted :
  exists r kw, valid_res r /\ snd (fst (update_prefix r kw)) <> r /\ snd (update_prefix r kw) = true.
Proof. exact update_prefix_mutates. Qed.
Print Assumptions C20_no_mutation_prefix_refuted.

(* max('2:00:00', '10:00:00') on strings is '2:00:00', the shorter duration *)
Theorem C20_combine_max_prefix_refuted :
  max_time_prefix (s "2:00:00") (s "10:00:00") = s "2:00:00"
  /\ time_denotes (s "2:00:00") 7200 /\ time_denotes (s "10:00:00") 36000.
Proof. exact max_time_prefix_wrong. Qed.
Print Assumptions C20_combine_max_prefix_refuted.
