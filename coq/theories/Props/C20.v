(* C20 - Resource specifications combine monotonically and without side effects.
   Only statements here; every proof is `exact <lemma>` into Proofs/. *)
From Verif Require Import Base.Prelude Model.Resources Model.ResourcesSpec Proofs.ResourcesFacts.
