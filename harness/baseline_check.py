"""Compare a junit xml of the pinned suite with /root/.vp/BASELINE.json (developer-side helper)."""
import json
import sys
import xml.etree.ElementTree as ET

base = json.load(open("/root/.vp/BASELINE.json"))
stable = set(base["stable_pass"])
root = ET.parse(sys.argv[1]).getroot()
passed = set()
for tc in root.iter("testcase"):
    if not any(ch.tag in ("failure", "error", "skipped") for ch in tc):
        passed.add(f"{tc.get('classname')}::{tc.get('name')}")
missing = sorted(stable - passed)
print(f"stable_pass={len(stable)} passed_now={len(passed)} missing={len(missing)}")
for m in missing[:40]:
    print("  MISSING", m)
sys.exit(1 if missing else 0)
