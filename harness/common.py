"""Engine shared by all property checks: build, theorem status, correspondence, verdict, evidence.

A property module (harness/props/cXX.py) provides:
  PROP, RUN (Coq module under Corr/), THEOREMS (path under coq/theories), ANCHORS, RULE, ASSUMPTIONS, TRUSTED
  generate(rng, tier, mult) -> list of JSON-able cases
  run_impl(case) -> python observation (see coqlit.to_sx)
  emit_case(case) -> Coq literal of type RUN.case
  nontrivial_key(case) -> hashable or None
optional: finding_id(case, impl_obs, model_obs, kind), shrink(case), distribution(case), pre_checks(ctx)
"""
from __future__ import annotations

import ast
import concurrent.futures as cf
import hashlib
import json
import os
import random
import re
import shutil
import subprocess
import sys
import time
from collections import Counter
from pathlib import Path

from . import coqlit

VERIF = Path(__file__).resolve().parent.parent
COQ = VERIF / "coq"
REPO = Path(os.environ.get("VERIF_REPO", "/repo"))
WORK = VERIF / "work"
EVID = Path(os.environ.get("VERIF_EVIDENCE_DIR") or (VERIF / "evidence"))  # developer runs against seeded changes redirect it
FORBIDDEN = re.compile(
    r"\b(Admitted|admit|Axiom|Axioms|Parameter|Parameters|Conjecture|Abort All|Admit Obligations)\b"
    r"|Unset Guard|bypass_check|type-in-type|impredicative-set|Unset Positivity|Unset Universe"
)


class Infra(Exception):
    """Infrastructure failure of the checking machinery itself (exit code 2, never a VIOLATION)."""


def sh(cmd, timeout, cwd=None, env=None):
    try:
        p = subprocess.run(cmd, shell=isinstance(cmd, str), cwd=cwd, env=env, timeout=timeout,
                           stdout=subprocess.PIPE, stderr=subprocess.STDOUT, text=True, errors="replace")
        return p.returncode, p.stdout
    except subprocess.TimeoutExpired as e:
        out = e.stdout or ""
        if isinstance(out, bytes):
            out = out.decode("utf-8", "replace")
        return 124, out + "\n[timeout]"


# ------------------------------------------------------------------ build + theorems
def build(jobs=16):
    rc, out = sh([str(COQ / "build.sh"), str(jobs)], timeout=3300)
    return rc, out


def strip_comments(src: str) -> str:
    out, depth, i = [], 0, 0
    while i < len(src):
        if src.startswith("(*", i):
            depth += 1
            i += 2
        elif src.startswith("*)", i) and depth:
            depth -= 1
            i += 2
        else:
            if depth == 0:
                out.append(src[i])
            i += 1
    return "".join(out)


def hygiene():
    """Scan every .v source for forbidden commands (outside comments)."""
    bad = []
    gen = sorted((COQ / "gen").glob("*.v")) if (COQ / "gen").is_dir() else []
    for p in sorted((COQ / "theories").rglob("*.v")) + gen:
        txt = strip_comments(p.read_text())
        depth = 0  # Section nesting: a Variable / Hypothesis / Context outside every Section declares an axiom
        for ln, line in enumerate(txt.splitlines(), 1):
            m = FORBIDDEN.search(line)
            if m:
                bad.append(f"{p.relative_to(COQ)}:{ln}: {m.group(0)}")
            if re.match(r"\s*Section\s+\w+", line):
                depth += 1
            elif re.match(r"\s*End\s+\w+\s*\.", line) and depth > 0:
                depth -= 1
            elif depth == 0 and re.match(r"\s*(Variables?|Hypothes[ie]s|Context)\b", line):
                bad.append(f"{p.relative_to(COQ)}:{ln}: {line.strip()[:40]} outside a Section")
    flags = (COQ / "_CoqProject").read_text()
    for f in ("-type-in-type", "-impredicative-set", "-vos", "-vok", "-noinit"):
        if f in flags:
            bad.append(f"_CoqProject: {f}")
    return bad


ALLOWED_AXIOMS = json.loads((VERIF / "trusted_base.json").read_text())["allowed_axioms"] \
    if (VERIF / "trusted_base.json").exists() else {}


def theorem_status(thm_file: str):
    """Compile the property's theorem file, capture Print Assumptions.  Returns (ok, theorems, log)."""
    src = (COQ / "theories" / thm_file).read_text()
    names = re.findall(r"^\s*(?:Theorem|Corollary)\s+([A-Za-z0-9_']+)", strip_comments(src), re.M)
    rc, out = sh(["coqc", "-Q", "theories", "Verif", f"theories/{thm_file}"], timeout=600, cwd=COQ)
    if rc != 0:
        return False, {n: "not checked (file does not compile)" for n in names}, out
    # split output into Print Assumptions answers, in order of appearance
    answers, cur = [], None
    for line in out.splitlines():
        if line.startswith("Closed under the global context"):
            if cur is not None:
                answers.append(cur)
                cur = None
            answers.append("Closed")
        elif line.startswith("Axioms:"):
            if cur is not None:
                answers.append(cur)
            cur = "Axioms:\n"
        elif cur is not None:
            cur += line + "\n"
    if cur is not None:
        answers.append(cur)
    printed = re.findall(r"^\s*Print Assumptions\s+([A-Za-z0-9_'.]+)\s*\.", strip_comments(src), re.M)
    status = {}
    allow = ALLOWED_AXIOMS
    for n, a in zip(printed, answers):
        if a.startswith("Closed"):
            status[n] = "closed"
        else:
            axs = re.findall(r"^([A-Za-z0-9_'.]+)\s*:", a, re.M)
            unknown = [x for x in axs if x not in allow.get(n, []) and x not in allow.get("*", [])]
            status[n] = "axioms:" + ",".join(axs) + ("" if not unknown else " UNLISTED:" + ",".join(unknown))
    for n in names:
        if n not in status:
            status[n] = "no Print Assumptions"
    ok = all(v == "closed" or (v.startswith("axioms:") and "UNLISTED" not in v) for v in status.values())
    ok = ok and len(printed) == len(answers)
    return ok, status, out


def coqchk(thm_file: str):
    """Independent re-check of the compiled theorem file and everything it depends on (thorough tier)."""
    mod = "Verif." + thm_file[:-2].replace("/", ".")
    rc, out = sh(["coqchk", "-silent", "-o", "-Q", "theories", "Verif", mod], timeout=1500, cwd=COQ)
    m = re.search(r"\* Axioms:(.*?)\n\s*\n\* Constants/Inductives relying on type-in-type:(.*?)\n\s*\n"
                  r"\* Constants/Inductives relying on unsafe \(co\)fixpoints:(.*?)\n\s*\n"
                  r"\* Inductives whose positivity is assumed:(.*?)\n", out, re.S)
    if rc != 0 or not m:
        return False, {"rc": rc, "tail": out[-600:]}
    fields = [" ".join(x.split()) for x in m.groups()]
    axioms = [] if fields[0] == "<none>" else fields[0].split()
    allowed = set(ALLOWED_AXIOMS.get("*", [])) | set(ALLOWED_AXIOMS.get("coqchk", []))
    ok = all(a in allowed for a in axioms) and all(f == "<none>" for f in fields[1:])
    return ok, {"axioms": axioms, "type_in_type": fields[1], "unsafe_fixpoints": fields[2], "assumed_positivity": fields[3]}


# ------------------------------------------------------------------ source fingerprints
def fingerprint(anchors):
    """AST hash per anchored function/class: {"file:qualname": sha}"""
    fp = {}
    for rel, quals in anchors:
        path = REPO / rel
        try:
            tree = ast.parse(path.read_text())
        except Exception as e:  # noqa: BLE001
            fp[f"{rel}:*"] = f"unparsable:{type(e).__name__}"
            continue
        index = {}

        def visit(node, prefix=""):
            for ch in ast.iter_child_nodes(node):
                if isinstance(ch, (ast.FunctionDef, ast.AsyncFunctionDef, ast.ClassDef)):
                    q = prefix + ch.name
                    index[q] = ch
                    visit(ch, q + ".")

        visit(tree)
        for q in quals:
            if q == "*":
                fp[f"{rel}:*"] = hashlib.sha1(ast.dump(tree).encode()).hexdigest()[:16]
            elif q in index:
                fp[f"{rel}:{q}"] = hashlib.sha1(ast.dump(index[q]).encode()).hexdigest()[:16]
            else:
                fp[f"{rel}:{q}"] = "missing"
    return fp


# ------------------------------------------------------------------ Coq evaluation of cases
HEADER = "From Verif Require Import Base.Prelude Corr.Verdict Corr.{run}.\nSet Printing Width 1000000.\n"


def _coqc(path: Path, timeout=900):
    rc, out = sh(["coqc", "-Q", "theories", "Verif", str(path)], timeout=timeout, cwd=COQ)
    for ext in (".vo", ".glob", ".vok", ".vos"):
        q = path.with_suffix(ext)
        if q.exists():
            q.unlink()
    aux = path.parent / ("." + path.stem + ".aux")
    if aux.exists():
        aux.unlink()
    return rc, out


def _parse_summary(out: str):
    m = re.search(r"=\s*\((\d+),\s*\[([^\]]*)\],\s*\[([^\]]*)\],\s*\[([^\]]*)\]\)", out.replace("\n", " "))
    if not m:
        return None
    lst = lambda x: [int(v) for v in x.split(";") if v.strip()]
    return int(m.group(1)), lst(m.group(2)), lst(m.group(3)), lst(m.group(4))


def eval_cases(mod, pairs, workdir: Path, max_bytes=180_000, jobs=16):
    """pairs: list of (case_literal, obs_literal).  Returns (corr_bad, ok_bad, model_bad) index lists."""
    files, cur, cur_sz, start = [], [], 0, 0
    for i, (c, o) in enumerate(pairs):
        item = f"({c},\n  {o})"
        if cur and cur_sz + len(item) > max_bytes:
            files.append((start, cur))
            cur, cur_sz, start = [], 0, i
        cur.append(item)
        cur_sz += len(item)
    if cur:
        files.append((start, cur))
    workdir.mkdir(parents=True, exist_ok=True)
    paths = []
    for k, (st, items) in enumerate(files):
        p = workdir / f"cases_{k}.v"
        p.write_text(HEADER.format(run=mod.RUN)
                     + f"Definition cases : list ({mod.RUN}.case * sx) := [\n" + ";\n".join(items) + "\n].\n"
                     + f"Eval vm_compute in (summary {mod.RUN}.run {mod.RUN}.spec_ok cases).\n")
        paths.append((st, len(items), p))
    corr_bad, ok_bad, model_bad = [], [], []

    def one(arg):
        st, n, p = arg
        rc, out = _coqc(p)
        return st, n, p, rc, out

    with cf.ThreadPoolExecutor(max_workers=jobs) as ex:
        for st, n, p, rc, out in ex.map(one, paths):
            res = _parse_summary(out) if rc == 0 else None
            if res is None or res[0] != n:
                keep = WORK / "failed" / p.name
                keep.parent.mkdir(parents=True, exist_ok=True)
                shutil.copy(p, keep)
                raise Infra(f"coqc failed on generated case file {keep} (rc={rc}):\n{out[-3000:]}")
            corr_bad += [st + i for i in res[1]]
            ok_bad += [st + i for i in res[2]]
            model_bad += [st + i for i in res[3]]
            p.unlink()
    return corr_bad, ok_bad, model_bad


def model_obs(mod, case_lit: str, workdir: Path):
    """Evaluate the model on one case and return its observation as JSON-like nested lists."""
    workdir.mkdir(parents=True, exist_ok=True)
    p = workdir / f"show_{os.getpid()}_{abs(hash(case_lit)) % 10**8}.v"
    p.write_text(HEADER.format(run=mod.RUN) + f"Eval vm_compute in (sx_show ({mod.RUN}.run {case_lit})).\n")
    rc, out = _coqc(p, timeout=300)
    p.unlink(missing_ok=True)
    m = re.search(r'=\s*"(.*)"%string', out.replace("\n", " "))
    if rc != 0 or not m:
        return {"error": out[-500:]}
    return coqlit.parse_show(m.group(1))


# ------------------------------------------------------------------ known findings
def load_findings(prop):
    p = VERIF / "known_findings.jsonl"
    known, fixed = {}, {}
    if p.exists():
        for line in p.read_text().splitlines():
            line = line.strip()
            if not line or line.startswith("#"):
                continue
            if line.startswith("fixed:"):
                continue
            d = json.loads(line)
            if d.get("property") != prop:
                continue
            (known if d.get("status") == "known" else fixed)[d["id"]] = d
    return known, fixed


# ------------------------------------------------------------------ the check
def impl_env_ready():
    """Make `import pipefunc` load /repo's working tree (zarr 3.x in /venv breaks the optional import)."""
    sys.modules.setdefault("zarr", None)
    if str(REPO) not in sys.path:
        sys.path.insert(0, str(REPO))
    import pipefunc  # noqa: F401

    assert Path(pipefunc.__file__).resolve().is_relative_to(REPO.resolve()), pipefunc.__file__


def run_one(mod, case):
    try:
        return mod.run_impl(case)
    except Exception as e:  # an exception escaping run_impl is an observation, never a crash of the check
        return coqlit.Err(e)


def write_replay(mod, seed, case, impl_o, model_o, kind, broken=None):
    d = WORK / "replays"
    d.mkdir(parents=True, exist_ok=True)
    n = len(list(d.glob(f"{mod.PROP}_*.json")))
    p = d / f"{mod.PROP}_{seed}_{n}.json"
    p.write_text(json.dumps({"property": mod.PROP, "seed": seed, "kind": kind, "case": case,
                             "impl_obs": impl_o, "model_obs": model_o,
                             "broken_obligation": broken}, indent=1, default=str))
    return p


def shrink_case(mod, case, still_fails, budget=60):
    if not hasattr(mod, "shrink"):
        return case
    t0 = time.time()
    changed = True
    while changed and time.time() - t0 < budget:
        changed = False
        for cand in mod.shrink(case):
            if still_fails(cand):
                case, changed = cand, True
                break
    return case


def check(mod, tier="quick", seed=0, replay=None):
    t0 = time.time()
    prop = mod.PROP
    work = WORK / f"{prop}-{os.getpid()}"
    work.mkdir(parents=True, exist_ok=True)
    lines, violations = [], 0
    ev = {"property_id": prop, "tier": tier, "seed": seed, "level": "proof", "violations": 0}
    try:
        # 1. build
        rc, out = build()
        if rc != 0:
            raise Infra("Coq build failed:\n" + out[-4000:])
        # 2. hygiene + theorem file
        bad = hygiene()
        if bad:
            raise Infra("forbidden construct in the Coq development:\n" + "\n".join(bad))
        thm_ok, thms, thm_log = theorem_status(mod.THEOREMS)
        chk = None
        if tier == "thorough" and thm_ok and not os.environ.get("VERIF_NO_COQCHK"):
            chk_ok, chk = coqchk(mod.THEOREMS)
            if not chk_ok:
                thm_ok = False
                thms["coqchk"] = "FAILED " + json.dumps(chk)
        # 3. fingerprints
        fp = fingerprint(mod.ANCHORS)
        fp_file = VERIF / "fingerprints.json"
        recorded = json.loads(fp_file.read_text()).get(prop, {}) if fp_file.exists() else {}
        changed = sorted(k for k in fp if recorded.get(k) not in (None, fp[k]))
        mult = 3 if changed else 1
        # 4. correspondence
        impl_env_ready()
        rng = random.Random(seed * 1000003 + 17)
        if replay:
            cases = [json.loads(Path(replay).read_text())["case"]]
        else:
            cases = corpus_cases(prop) + list(mod.generate(rng, tier, mult))
        if hasattr(mod, "pre_checks"):
            for msg in mod.pre_checks({"tier": tier, "rng": rng}):
                raise Infra("model/Python-semantics table mismatch: " + msg)

        def evaluate(cs):
            obs = [run_one(mod, c) for c in cs]
            trees = [coqlit.to_sx(o) for o in obs]
            pairs = [(mod.emit_case(c), coqlit.emit_sx(t)) for c, t in zip(cs, trees)]
            cb, ob, mb = eval_cases(mod, pairs, work)
            return obs, trees, cb, ob, mb

        obs, trees, corr_bad, ok_bad, model_bad = evaluate(cases)
        n_eval = len(cases)
        if os.environ.get("VERIF_DEBUG"):
            for i in sorted(set(corr_bad) | set(ok_bad))[: int(os.environ["VERIF_DEBUG"])]:
                print("DEBUG case", i, "corr_bad" if i in corr_bad else "", "ok_bad" if i in ok_bad else "")
                print("   case :", json.dumps(cases[i]))
                print("   impl :", json.dumps(coqlit.sx_to_json(trees[i])), getattr(obs[i], "detail", ""))
                print("   model:", json.dumps(model_obs(mod, mod.emit_case(cases[i]), work)))
        known, _fixed = load_findings(prop)
        reported_known = set()

        def fails_ok(c):
            o = run_one(mod, c)
            _, ob, _ = eval_cases(mod, [(mod.emit_case(c), coqlit.emit_sx(coqlit.to_sx(o)))], work)
            return bool(ob)

        def report_ok_violation(idx_list, cs, obs_l, trees_l):
            nonlocal violations
            seen = set()
            for i in idx_list:
                c = cs[i]
                fid = mod.finding_id(c, coqlit.sx_to_json(trees_l[i]), "spec") if hasattr(mod, "finding_id") else None
                if fid in known:
                    if fid not in reported_known:
                        reported_known.add(fid)
                        lines.append(f"KNOWN-FINDING: property={prop} {fid}: {known[fid]['what']}")
                    continue
                if fid in seen:
                    continue
                seen.add(fid)
                c2 = shrink_case(mod, c, fails_ok)
                o2 = run_one(mod, c2)
                mo = model_obs(mod, mod.emit_case(c2), work)
                rp = write_replay(mod, seed, c2, coqlit.sx_to_json(coqlit.to_sx(o2)), mo, "spec_ok false on implementation"
                                  + (f" [{fid}]" if fid else ""))
                lines.append(f"VIOLATION property={prop} replay={rp}")
                violations += 1
                if violations >= 5:
                    break

        if ok_bad:
            report_ok_violation(ok_bad, cases, obs, trees)
        # A disagreement between model and implementation counts even when the same case is also a listed
        # known finding: the models mirror the code as it is (known defects included), so corr_bad means
        # the code moved away from the model.
        only_corr = list(corr_bad)
        broken = None
        if not thm_ok:
            broken = "theorem file " + mod.THEOREMS + ": " + json.dumps(thms)
        if (only_corr or broken) and not violations:
            # the property is no longer shown: search for a failing input with an escalated budget
            found = False
            if not replay:
                extra = list(mod.generate(random.Random(seed * 7919 + 1), tier, 5 * mult))
                o2, t2, cb2, ob2, _ = evaluate(extra)
                n_eval += len(extra)
                ob2 = [i for i in ob2
                       if not (hasattr(mod, "finding_id")
                               and mod.finding_id(extra[i], coqlit.sx_to_json(t2[i]), "spec") in known)]
                if ob2:
                    report_ok_violation(ob2, extra, o2, t2)
                    found = violations > 0
            if not found:
                if only_corr:
                    i = only_corr[0]
                    def fails_corr(c):
                        o = run_one(mod, c)
                        cb, _, _ = eval_cases(mod, [(mod.emit_case(c), coqlit.emit_sx(coqlit.to_sx(o)))], work)
                        return bool(cb)
                    c2 = shrink_case(mod, cases[i], fails_corr)
                    o2 = run_one(mod, c2)
                    mo = model_obs(mod, mod.emit_case(c2), work)
                    rp = write_replay(mod, seed, c2, coqlit.sx_to_json(coqlit.to_sx(o2)), mo,
                                      "correspondence", broken or f"correspondence {mod.RUN}.run vs implementation "
                                      f"({len(only_corr)} disagreeing cases)")
                else:
                    rp = write_replay(mod, seed, None, None, None, "proof", broken)
                    (work / "thm.log").write_text(thm_log)
                lines.append(f"VIOLATION property={prop} replay={rp} no-failing-input-found")
                violations += 1
        # 5. evidence
        keys = Counter()
        dist = Counter()
        for c in cases:
            k = mod.nontrivial_key(c)
            if k is not None:
                keys[json.dumps(k, sort_keys=True, default=str)] += 1
            if hasattr(mod, "distribution"):
                for a, b in mod.distribution(c).items():
                    dist[f"{a}={b}"] += 1
        err_kinds = Counter(o.name for o in obs if isinstance(o, coqlit.Err))
        n_thm = len(thms)
        n_closed = sum(1 for v in thms.values() if v == "closed" or (v.startswith("axioms:") and "UNLISTED" not in v))
        step = max(1, len(cases) // 4)
        ev.update({
            "violations": violations,
            "wall_s": round(time.time() - t0, 2),
            "assumptions": list(getattr(mod, "ASSUMPTIONS", [])),
            "coverage": {
                "obligations": n_thm + 1,
                "discharged": n_closed + (0 if corr_bad else 1),
                "checker_cmd": f"cd /verif/coq && ./build.sh && coqc -Q theories Verif theories/{mod.THEOREMS} "
                               f"(Print Assumptions parsed) ; correspondence: coqc on generated cases_*.v "
                               f"(Eval vm_compute in summary {mod.RUN}.run {mod.RUN}.spec_ok cases)",
                "trusted_base": ["Coq 8.16.1 kernel incl. vm_compute (no native_compute)",
                                 "harness/common.py + harness/coqlit.py (case emission, coqc output parsing)",
                                 f"harness/props/{prop.lower()}.py (generator, implementation driver, canonicalisation)"]
                                + list(getattr(mod, "TRUSTED", [])),
                "theorems": thms,
                "coqchk": chk if chk is not None else "not run in this tier",
                "correspondence": {"cases": n_eval, "disagreements": len(corr_bad), "spec_failures_on_impl": len(ok_bad),
                                   "spec_failures_on_model": len(model_bad)},
                "evaluations": n_eval,
                "distinct_nontrivial": len(keys),
                "rule": mod.RULE,
                "samples": [{"case": cases[i], "impl_obs": coqlit.sx_to_json(trees[i])}
                            for i in range(0, len(cases), step)][:5],
                "distribution": dict(sorted(dist.items())),
                "error_kinds": dict(err_kinds),
                "fingerprints_changed": changed,
                "known_findings_reported": sorted(reported_known),
                "disagreements_checked": n_eval,
            },
        })
        ev["coverage"]["samples"] = json.loads(json.dumps(ev["coverage"]["samples"], default=str))
        EVID.mkdir(parents=True, exist_ok=True)
        (EVID / f"{prop}.json").write_text(json.dumps(ev, indent=1, default=str))
        for ln in lines:
            print(ln)
        print(f"[{prop}] tier={tier} seed={seed} cases={n_eval} distinct_nontrivial={len(keys)} "
              f"theorems={n_closed}/{n_thm} corr_bad={len(corr_bad)} ok_bad={len(ok_bad)} "
              f"violations={violations} wall={time.time()-t0:.1f}s")
        return 1 if violations else 0
    finally:
        shutil.rmtree(work, ignore_errors=True)


def corpus_cases(prop):
    d = VERIF / "corpus" / prop
    out = []
    if d.is_dir():
        for p in sorted(d.glob("*.json")):
            j = json.loads(p.read_text())
            out += j if isinstance(j, list) else [j["case"] if "case" in j else j]
    return out
