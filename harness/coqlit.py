"""Emission of Coq literals (cases and observations) and parsing of the little Coq prints back."""
from __future__ import annotations

import re


def cstr(x: str) -> str:
    """A Coq term of type `str` (list ascii)."""
    if all(32 <= ord(c) <= 126 for c in x):
        return '(s "' + x.replace('"', '""') + '")'
    return "(sb [" + "; ".join(str(b) for b in x.encode("utf-8")) + "]%nat)"


def cnat(n: int) -> str:
    assert n >= 0
    if n > 5000:
        return f"(Z.to_nat {n}%Z)"
    return f"{n}%nat"


def cz(n: int) -> str:
    return f"({n})%Z"


def cbool(b: bool) -> str:
    return "true" if b else "false"


def clist(items) -> str:
    return "[" + "; ".join(items) + "]"


def copt(x, f) -> str:
    return "None" if x is None else f"(Some {f(x)})"


def cpair(a: str, b: str) -> str:
    return f"({a}, {b})"


# ---- generic observations (sx) ----
class Err:
    """An exception observed on the implementation, reduced to a small enum."""

    KNOWN = {
        "ValueError", "IndexError", "KeyError", "TypeError", "ZeroDivisionError", "FileNotFoundError",
        "UnusedParametersError", "NotImplementedError", "RuntimeError", "AssertionError", "AttributeError",
    }

    def __init__(self, exc: BaseException | str):
        name = exc if isinstance(exc, str) else type(exc).__name__
        self.name = name if name in self.KNOWN else "OtherError"
        self.detail = "" if isinstance(exc, str) else f"{type(exc).__name__}: {exc}"[:300]

    def __repr__(self):
        return f"Err({self.name})"


def to_sx(o):
    """Python value -> sx tree: ('I', int) | ('S', str) | ('L', [..])."""
    import numpy as np

    if isinstance(o, Err):
        return ("L", [("S", "err"), ("S", o.name)])
    if isinstance(o, (bool, np.bool_)):
        return ("L", [("S", "bool"), ("I", 1 if o else 0)])
    if isinstance(o, (int, np.integer)):
        return ("I", int(o))
    if isinstance(o, str):
        return ("S", o)
    if o is None:
        return ("L", [("S", "none")])
    if isinstance(o, (list, tuple)):
        return ("L", [to_sx(x) for x in o])
    if isinstance(o, dict):
        return ("L", [("L", [to_sx(k), to_sx(v)]) for k, v in o.items()])
    if isinstance(o, Ok):
        return ("L", [("S", "ok"), to_sx(o.v)])
    raise TypeError(f"cannot convert {type(o)} to sx: {o!r}")


class Ok:
    def __init__(self, v):
        self.v = v

    def __repr__(self):
        return f"Ok({self.v!r})"


def emit_sx(t) -> str:
    k, v = t
    if k == "I":
        return f"(SI {cz(v)})"
    if k == "S":
        return f"(SS {cstr(v)})"
    return "(SL [" + "; ".join(emit_sx(x) for x in v) + "])"


def sx_to_json(t):
    k, v = t
    if k == "L":
        return [sx_to_json(x) for x in v]
    return v


def sx_size(t) -> int:
    k, v = t
    if k == "L":
        return 1 + sum(sx_size(x) for x in v)
    return 1


# ---- parsing of `sx_show` output: (I n) / (S x<hex>) / (L ...) rendered by Coq as one string ----
_tok = re.compile(r"\(|\)|-?\d+|x[0-9a-f]*|[ISL]")


def parse_show(text: str):
    """Parse the flat text produced by Corr.Verdict.sx_show into nested lists / ints / strs."""
    toks = _tok.findall(text)
    pos = 0

    def rd():
        nonlocal pos
        assert toks[pos] == "(", toks[pos : pos + 5]
        kind = toks[pos + 1]
        pos += 2
        if kind == "I":
            v = int(toks[pos])
            pos += 1
        elif kind == "S":
            v = bytes.fromhex(toks[pos][1:]).decode("utf-8", "replace")
            pos += 1
        else:
            v = []
            while toks[pos] != ")":
                v.append(rd())
        assert toks[pos] == ")"
        pos += 1
        return v

    return rd()
