"""Exception kinds injected by the C13 check (importable module: the custom class must be picklable by reference
so that it survives worker processes and ErrorSnapshot.save_to_file/load_from_file)."""
from __future__ import annotations


class CustomError(Exception):
    """A user-defined exception with two constructor arguments (picklable: args == constructor arguments)."""

    def __init__(self, a, b):
        super().__init__(a, b)
        self.a = a
        self.b = b


# kind -> (class, constructor args).  The class name and str(arg) for every arg are what the check compares.
KINDS = {
    "V": (ValueError, ("m",)),           # ValueError("m")
    "K": (KeyError, ("k",)),             # KeyError("k")
    "C": (CustomError, ("p", "q")),      # custom picklable class with two args
    "N": (RuntimeError, ()),             # an exception without args
}


def make_exc(kind: str) -> BaseException:
    """A FRESH instance per raise (notes accumulate on instances)."""
    cls, args = KINDS[kind]
    return cls(*args)


def exc_desc(kind: str):
    cls, args = KINDS[kind]
    return cls.__name__, [str(a) for a in args]
