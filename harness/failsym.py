"""Structural user functions that raise at ONE chosen invocation (C13).

The failing invocation is identified by its call string `name(p1=<canon v1>,...)` (what the call log records), so the
user function is a deterministic function of its keyword arguments: `ErrorSnapshot.reproduce()` must raise again.
All classes are module-level (picklable by reference: worker processes, cloudpickle of ErrorSnapshot).
"""
from __future__ import annotations

import inspect
import itertools
import re
import signal
import time

import numpy as np

from . import mapsym
from .exc_types import make_exc
from .symfuncs import FileLog, ListLog, SymFunc, app_string  # noqa: F401


# ------------------------------------------------------------------ pipeline-level (pipegen descriptions)
class FailSym(SymFunc):
    """SymFunc that raises a fresh exception of kind `exc_kind` when its call string equals `fail_key`."""

    def __init__(self, name, params, outputs=None, log=None, sig_defaults=None, fail_key=None, exc_kind="V"):
        super().__init__(name, params, outputs, log, sig_defaults)
        self.fail_key = fail_key
        self.exc_kind = exc_kind

    def __call__(self, *args, **kwargs):
        b = self.__signature__.bind(*args, **kwargs)
        b.apply_defaults()
        app = app_string(self.__name__, self.params, b.arguments)
        if self.log is not None:
            self.log.append(app)
        if self.fail_key is not None and app == self.fail_key:
            raise self.shared if getattr(self, "shared", None) is not None else make_exc(self.exc_kind)
        if self.outputs is None:
            return app
        return tuple(f"out({o};{app})" for o in self.outputs)


def build_pipe(pd, log, fail_key=None, exc_kind="V"):
    """The real Pipeline of a pipegen description with FailSym bodies (fresh objects: no stale error_snapshot)."""
    from pipefunc import PipeFunc, Pipeline

    pfs = []
    for fd in pd["funcs"]:
        origs = [o for _, o in fd["params"]]
        sf = FailSym(fd["name"], origs, fd["outs"] if len(fd["outs"]) > 1 else None, log, fd["sigd"],
                     fail_key=fail_key, exc_kind=exc_kind)
        renames = {o: c for c, o in fd["params"] if o != c}
        pfs.append(PipeFunc(sf, output_name=tuple(fd["outs"]) if len(fd["outs"]) > 1 else fd["outs"][0],
                            renames=renames or None, defaults=dict(fd["defs"]) or None,
                            bound=dict(fd["bound"]) or None))
    return Pipeline(pfs)


# ------------------------------------------------------------------ map-level (mapgen requests)
class MapFunc:
    """Structural map function of harness/mapsym.py (same values), failing by call string, logging to `log`."""

    def __init__(self, fd, log, fail_key=None, exc_kind="V", slow=(), delay=0.0):
        self.name, self.params, self.outs = fd["name"], list(fd["params"]), list(fd["outs"])
        self.ish = tuple(fd.get("ret") if fd.get("ret") is not None else fd.get("int") or ())
        self.aslist = bool(fd.get("intlist", False))
        self.log = log
        self.fail_key = fail_key
        self.exc_kind = exc_kind
        self.slow = frozenset(slow)          # call strings of invocations that take `delay` seconds (they return)
        self.delay = delay
        dflt = dict(fd.get("defaults") or [])
        self.__name__ = self.name
        self.__qualname__ = self.name
        self.__annotations__ = {}
        self.__signature__ = inspect.Signature([
            inspect.Parameter(p, inspect.Parameter.POSITIONAL_OR_KEYWORD,
                              default=dflt.get(p, inspect.Parameter.empty)) for p in self.params])

    def __call__(self, **kw):
        app = self.name + "(" + ",".join(f"{p}={mapsym.canon(kw[p])}" for p in self.params) + ")"
        self.log.append(app)
        if self.fail_key is not None and app == self.fail_key:
            raise self.shared if getattr(self, "shared", None) is not None else make_exc(self.exc_kind)
        if app in self.slow:
            time.sleep(self.delay)

        def value(base):
            if not self.ish:
                return base
            a = np.empty(self.ish, dtype=object)
            for j in itertools.product(*map(range, self.ish)):
                a[j] = "elem(" + base + ";" + ",".join(map(str, j)) + ")"
            return a.tolist() if (self.aslist and len(self.ish) == 1) else a

        if len(self.outs) == 1:
            return value(app)
        return tuple(value(f"out({o};{app})") for o in self.outs)


def as_closure(mf):
    """The same user function as a NESTED function (a closure over `mf`): not picklable by reference, like any
    function of a pipeline built inside a factory function, a lambda, or an interactively defined function.
    pipefunc ships it to worker processes with cloudpickle; whatever travels back with the standard pickle of
    concurrent.futures (e.g. an exception that refers to it) cannot be pickled."""

    def body(**kw):
        return mf(**kw)

    body.__name__ = mf.__name__
    body.__qualname__ = "as_closure.<locals>." + mf.__name__
    body.__signature__ = mf.__signature__
    return body


def build_map(case, log, fail_key=None, exc_kind="V", local=False, slow=(), delay=0.0):
    """local=True: every user function is a non-importable closure (see as_closure).
    slow/delay: the invocations with these call strings sleep `delay` seconds before returning."""
    from pipefunc import PipeFunc, Pipeline

    funcs = []
    for fd in case["funcs"]:
        outs = fd["outs"]
        mf = MapFunc(fd, log, fail_key, exc_kind, slow, delay)
        funcs.append(PipeFunc(
            as_closure(mf) if local else mf,
            output_name=outs[0] if len(outs) == 1 else tuple(outs),
            mapspec=mapsym.spec_str(fd.get("spec")),
            internal_shape=tuple(fd["int"]) if fd.get("int") else None,
            bound=dict(fd.get("bound") or []) or None,
        ))
    return Pipeline(funcs)


# ------------------------------------------------------------------ notes
_NOTE = re.compile(r"^Error occurred while executing function `(.*)`\.$", re.S)
_MASKED = re.compile(r"(?<=[\[\s,])--(?=[,\]\s])")


def _masked_array(data=None, mask=False, fill_value=None, dtype=None):  # noqa: ARG001
    return np.ma.masked_array(np.array(data, dtype=dtype), mask=mask)


_NS = {"__builtins__": {}, "dict": dict, "array": np.array, "object": object, "masked_array": _masked_array,
       "np": np, "masked": None, "True": True, "False": False, "None": None}


def parse_note(note: str, canon):
    """`Error occurred while executing function `f(a='x', b=array([...], dtype=object))`.` ->
    [f, [[a, canon], [b, canon]]] (textual order).  Raises ValueError when the note has another form."""
    m = _NOTE.match(note)
    if not m:
        raise ValueError("not a handle_error note")
    call = m.group(1)
    name, sep, rest = call.partition("(")
    if not sep or not rest.endswith(")"):
        raise ValueError("no call string in note")
    body = _MASKED.sub("masked", rest[:-1])
    kw = eval("dict(" + body + ")", dict(_NS))  # noqa: S307  (repr of values the harness itself created)
    return [name, [[k, canon(v)] for k, v in kw.items()]]


def notes_obs(e, canon, last=False):
    """Observation of e.__notes__: ["note", fname, kwargs] when there is exactly one well-formed note,
    ["notes", n] for another number of notes, ["badnote", text] when unparsable.
    last=True (histories in which ONE exception instance is raised by several failing calls: add_note appends, so the
    instance legitimately carries the notes of the earlier failures too): the LAST note, i.e. the annotation added by
    the current failure, is the one observed."""
    notes = list(getattr(e, "__notes__", []) or [])
    if len(notes) != 1 and not (last and notes):
        return ["notes", len(notes)]
    try:
        n, kw = parse_note(notes[-1], canon)
    except Exception:  # noqa: BLE001
        return ["badnote", notes[-1][:200]]
    return ["note", n, kw]


def user_funcs(pl):
    """The structural callables (FailSym / MapFunc) behind the PipeFuncs of a pipeline built by build_pipe/build_map
    (local=False): the PipeFunc copies made by Pipeline share them, so a history can re-target the failing call."""
    return [f.func for f in pl.functions]


def retarget(pl, fail_key, shared=None):
    for uf in user_funcs(pl):
        uf.fail_key = fail_key
        uf.shared = shared


# ------------------------------------------------------------------ harness timeout ("returns instead of hanging")
class HarnessTimeout(BaseException):
    """Raised in the main thread by SIGALRM when a run exceeds the harness timeout."""


class time_limit:
    def __init__(self, seconds: float):
        self.seconds = seconds

    def _handler(self, signum, frame):  # noqa: ARG002
        raise HarnessTimeout

    def __enter__(self):
        self.old = signal.signal(signal.SIGALRM, self._handler)
        signal.setitimer(signal.ITIMER_REAL, self.seconds)
        return self

    def __exit__(self, *a):
        signal.setitimer(signal.ITIMER_REAL, 0)
        signal.signal(signal.SIGALRM, self.old)
        return False
