#!/bin/bash
# Developer-side: bring "fix:" commits of a worker's repo worktree into /repo main (pipefunc/ paths only),
# run the pinned suite, print the old->new hash mapping.   usage: integrate_fixes.sh <branch>
set -u
BR="$1"
cd /repo
git diff --quiet || { echo "/repo not clean"; exit 3; }
BASE=$(git merge-base HEAD "$BR")
MAP=""
for c in $(git rev-list --reverse "$BASE..$BR"); do
  subj=$(git log -1 --format=%s "$c")
  case "$subj" in fix:*) ;; *) echo "skip non-fix commit $c $subj"; continue;; esac
  if git show "$c" -- pipefunc | git apply --index --3way 2>/tmp/integ_err; then
    git commit -q -m "$(git log -1 --format=%B "$c")"
    n=$(git log -1 --format=%h)
    echo "picked $(git log -1 --format=%h "$c") -> $n  $subj"
    MAP="$MAP $(git log -1 --format=%h "$c"):$n"
  else
    echo "FAILED to apply $c $subj"; cat /tmp/integ_err; git checkout -q -- .; exit 4
  fi
done
timeout 3000 /venv/bin/python -m pytest -ra -q -p no:cacheprovider --timeout=900 --continue-on-collection-errors --junitxml=/tmp/integ_$$.xml > /dev/null 2>&1
python3 /verif/harness/baseline_check.py /tmp/integ_$$.xml; rc=$?
rm -f /tmp/integ_$$.xml; rm -rf /repo/my_run_folder
echo "MAP:$MAP"
exit $rc
