"""./check entry point."""
from __future__ import annotations

import argparse
import importlib
import os
import sys
import traceback

from . import common


def main():
    ap = argparse.ArgumentParser()
    ap.add_argument("prop", nargs="?")
    ap.add_argument("--tier", default="quick", choices=["quick", "thorough"])
    ap.add_argument("--replay")
    ap.add_argument("--setup", action="store_true")
    a = ap.parse_args()
    if a.setup:
        rc, out = common.build()
        print(out[-3000:])
        bad = common.hygiene()
        if bad:
            print("\n".join(bad))
            return 2
        return 0 if rc == 0 else 2
    tier = os.environ.get("VERIF_TIER") or a.tier
    if tier not in ("quick", "thorough"):
        tier = a.tier
    seed = int(os.environ.get("VERIF_SEED", "0") or 0)
    # every temporary file of this run (run folders, stores, pools of the implementation drivers and of their worker
    # processes) lives under one private directory which is removed when the check ends
    import shutil
    import tempfile
    scratch = tempfile.mkdtemp(prefix="verif_chk_")
    os.environ["TMPDIR"] = scratch
    tempfile.tempdir = scratch
    try:
        mod = importlib.import_module(f"harness.props.{a.prop.lower()}")
        return common.check(mod, tier=tier, seed=seed, replay=a.replay)
    except common.Infra as e:
        print(f"[{a.prop}] INFRASTRUCTURE ERROR (not a verdict): {e}", file=sys.stderr)
        return 2
    except Exception:  # noqa: BLE001
        traceback.print_exc()
        print(f"[{a.prop}] INFRASTRUCTURE ERROR (not a verdict): harness crashed", file=sys.stderr)
        return 2
    finally:
        tempfile.tempdir = None
        os.environ.pop("TMPDIR", None)
        shutil.rmtree(scratch, ignore_errors=True)


if __name__ == "__main__":
    sys.exit(main())
