"""Generator of valid structural map requests (shared by C01, C03, C04, C05, C06, C12, C13, C19) and their Coq literals."""
from __future__ import annotations

from .coqlit import clist, cnat, copt, cpair, cstr

IDX = ["i", "j", "k", "m"]


def gen_request(rng, max_funcs=4, max_size=3, allow_internal=True, allow_single=True, allow_reduce=True,
                allow_multi=True, max_rank=3, storages=("dict", "file_array", "shared_memory_dict"),
                allow_zero_ext=False, allow_wrap=False):
    """Return a JSON-able valid map request (see harness/mapsym.py for the format).

    allow_zero_ext: also produce mapped functions with NO mapped axis (`x[:] -> y[j]`: every input axis is ':', the
    output has internal axes only; the function is called once).  Off by default (the random stream of the other
    options is unchanged when it is off).
    allow_wrap: some functions get fd["wrap"] in {"tuple", "list", "nd"}: their element values are pairs (see
    harness/mapsym.py).  Off by default; drawn after everything else, so the stream is unchanged when it is off."""
    sizes = {}

    def size_of(ix):
        if ix not in sizes:
            sizes[ix] = rng.randint(1, max_size)
        return sizes[ix]

    fresh = iter(f"n{q}" for q in range(100))  # fresh index names for root axes / internal axes
    arrays = {}   # name -> list of axis names
    scalars = []  # names of scalar values available (root scalars / unmapped outputs)
    inputs = []
    funcs = []
    internal_user = []
    # root inputs
    for q in range(rng.randint(1, 3)):
        r = rng.choice([1, 1, 1, 2, 2, 3]) if max_rank >= 3 else rng.choice([1, 1, 2])
        r = min(r, max_rank)
        pool = IDX[:]
        rng.shuffle(pool)
        ax = pool[:r]
        name = f"x{q}"
        sh = [size_of(a) for a in ax]
        n = 1
        for d in sh:
            n *= d
        inputs.append([name, {"sh": sh, "d": [f"{name}_{t}" for t in range(n)],
                              "as": "list" if (r == 1 and rng.random() < 0.6) else "nd"}])
        arrays[name] = ax
    for q in range(rng.randint(0, 2)):
        name = f"c{q}"
        inputs.append([name, name.upper()])
        scalars.append(name)
    used_roots = set()
    nf = rng.randint(1, max_funcs)
    for q in range(nf):
        kinds = ["map", "map", "map", "map"]
        if allow_single:
            kinds += ["single"]
            if allow_internal:
                kinds += ["gen"]
        kind = rng.choice(kinds)
        outs = [f"y{q}"] if not (allow_multi and rng.random() < 0.3) else [f"y{q}", f"z{q}"]
        fd = {"name": f"f{q}", "outs": outs, "params": [], "spec": None, "int": [], "bound": [], "defaults": []}
        if kind == "gen":
            r = rng.randint(1, 2)
            ax = [next(fresh) for _ in range(r)]
            ish = [rng.randint(1, max_size) for _ in range(r)]
            for a, d in zip(ax, ish):
                sizes[a] = d
            fd["spec"] = {"i": [], "o": [[o, ax] for o in outs]}
            if rng.random() < 0.5:
                fd["int"] = ish
            else:
                internal_user += [[o, ish] for o in outs]
            fd["ret"] = ish
            if r == 1 and rng.random() < 0.4:
                fd["intlist"] = True
            for s_ in rng.sample(scalars, min(len(scalars), rng.randint(0, 1))):
                fd["params"].append(s_)
                used_roots.add(s_)
            funcs.append(fd)
            for o in outs:
                arrays[o] = ax
            continue
        if kind == "single":
            cands = list(arrays) + scalars
            ps = rng.sample(cands, min(len(cands), rng.randint(1, 2)))
            fd["params"] = ps
            used_roots.update(ps)
            funcs.append(fd)
            scalars += outs
            continue
        # mapped function
        names = list(arrays)
        k = rng.choice([1, 1, 2, 2, 3]) if len(names) >= 3 else rng.randint(1, min(2, len(names)))
        chosen = rng.sample(names, min(k, len(names)))
        ins = []
        named = []
        ok = True
        local_sizes = {}
        for a in chosen:
            ax = []
            for pos, nm in enumerate(arrays[a]):
                if allow_reduce and rng.random() < 0.25:
                    ax.append(None)
                else:
                    # zipped axes must agree in size
                    if nm in local_sizes or True:
                        ax.append(nm)
                        if nm not in named:
                            named.append(nm)
            ins.append([a, ax])
        zero_ext = False
        if not named and allow_zero_ext and allow_internal and rng.random() < 0.7:
            zero_ext = True  # `x[:] -> y[j]`: no mapped axis at all, the output axes are all internal
        elif not named:  # otherwise a mapped function gets at least one mapped (external) axis
            ins[0][1][0] = arrays[chosen[0]][0]
            named.append(arrays[chosen[0]][0])
        out_axes = named[:]
        rng.shuffle(out_axes)
        ish = []
        if zero_ext or (allow_internal and rng.random() < 0.3):
            for _ in range(rng.randint(1, 2) if rng.random() < 0.3 else 1):
                a = next(fresh)
                d = rng.randint(1, max_size)
                sizes[a] = d
                out_axes.insert(rng.randrange(len(out_axes) + 1), a)
            ish = [sizes[a] for a in out_axes if a not in named]
        if len(out_axes) > max_rank or not out_axes:
            continue
        fd["spec"] = {"i": ins, "o": [[o, list(out_axes)] for o in outs]}
        if ish:
            if rng.random() < 0.5:
                fd["int"] = ish
            else:
                internal_user += [[o, ish] for o in outs]
            fd["ret"] = ish
        fd["params"] = [a for a, _ in ins]
        extra = [n for n in list(arrays) + scalars if n not in fd["params"]]
        for e in rng.sample(extra, min(len(extra), rng.choice([0, 0, 1, 1, 2]))):
            fd["params"].append(e)
        rng.shuffle(fd["params"])
        used_roots.update(fd["params"])
        # an extra scalar parameter with a default or a bound value
        if rng.random() < 0.25:
            p = f"d{q}"
            fd["params"].append(p)
            if rng.random() < 0.5:
                fd["defaults"].append([p, p.upper() + "dflt"])
            else:
                fd["bound"].append([p, p.upper() + "bnd"])
        funcs.append(fd)
        for o in outs:
            arrays[o] = list(out_axes)
    if not funcs:
        return gen_request(rng, max_funcs, max_size, allow_internal, allow_single, allow_reduce, allow_multi,
                           max_rank, storages, allow_zero_ext, allow_wrap)
    # drop unused root inputs (surplus inputs are rejected by map)
    inputs = [kv for kv in inputs if kv[0] in used_roots]
    st = rng.choice(list(storages))
    if allow_wrap:
        for fd in funcs:
            if rng.random() < 0.35:
                fd["wrap"] = rng.choice(["tuple", "list", "nd"])
                fd.pop("intlist", None)  # a list of pairs handed back for an internal axis is read as a 2-d array
    return {"funcs": funcs, "inputs": inputs, "internal": internal_user, "storage": st}


def to_user_level(case, rng, p_strip=0.8, p_perm=0.5):
    """Turn an explicit request into a USER-LEVEL one (auto-generated MapSpecs): the `... -> y[...]` MapSpec of a
    generator function is removed (pipefunc has to generate it from the consumers' axes).  Returns None when no
    consumer indexes an output of such a function.  Adds "order": the order in which the functions are handed to
    Pipeline([...])."""
    import copy
    c = copy.deepcopy(case)
    consumed = {n for f in c["funcs"] if f.get("spec") for n, _ in f["spec"]["i"]}
    stripped = 0
    for f in c["funcs"]:
        sp = f.get("spec")
        if sp and not sp["i"] and (consumed & set(f["outs"])) and rng.random() < p_strip:
            f["spec"] = None
            f["stripped"] = True
            stripped += 1
    if not stripped:
        return None
    order = list(range(len(c["funcs"])))
    if rng.random() < p_perm:
        rng.shuffle(order)
    c["order"] = order
    c["kind"] = "auto"
    return c


def request_size(case):
    n = 0
    for _, v in case["inputs"]:
        n += len(v["d"]) if isinstance(v, dict) else 1
    return n


# ------------------------------------------------------------------ Coq literals
def _axes(ax):
    return clist([copt(a, cstr) for a in ax])


def _spec(sp):
    if sp is None:
        return "None"
    ins = clist(["{| aname := %s; axes := %s |}" % (cstr(n), _axes(ax)) for n, ax in sp["i"]])
    outs = clist(["{| aname := %s; axes := %s |}" % (cstr(n), _axes(ax)) for n, ax in sp["o"]])
    return "(Some {| ins := %s; outs := %s |})" % (ins, outs)


def _val(v):
    if isinstance(v, str):
        return f"(VS {cstr(v)})"
    return "(VA {| shp := %s; dat := %s |})" % (clist([cnat(x) for x in v["sh"]]), clist([cstr(x) for x in v["d"]]))


def _env(kvs):
    return clist([cpair(cstr(k), _val(v)) for k, v in kvs])


def func_lit(fd):
    ret = fd.get("ret") if fd.get("ret") is not None else (fd.get("int") or [])
    return ("{| fname := %s; fouts := %s; fparams := %s; fbound := %s; fdefaults := %s; fspec := %s; "
            "fint := %s; fret := %s |}") % (
        cstr(fd["name"]), clist([cstr(o) for o in fd["outs"]]), clist([cstr(p) for p in fd["params"]]),
        _env(fd.get("bound") or []), _env(fd.get("defaults") or []), _spec(fd.get("spec")),
        clist([cnat(x) for x in (fd.get("int") or [])]), clist([cnat(x) for x in ret]))


def shapes_lit(d):
    return clist([cpair(cstr(k), clist([cnat(x) for x in v])) for k, v in (d or [])])


def request_lit(case):
    return "{| c_funcs := %s; c_inputs := %s; c_internal := %s |}" % (
        clist([func_lit(f) for f in case["funcs"]]), _env(case["inputs"]), shapes_lit(case.get("internal")))
