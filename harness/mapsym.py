"""Structural map pipelines: building real pipefunc Pipelines from JSON cases, running them, canonical observations.

Case format (JSON-able):
  {"funcs": [{"name": "f", "outs": ["y"], "params": ["x", "c"],
              "spec": {"i": [["x", ["i"]]], "o": [["y", ["i"]]]} | None,
              "int": [2] | [],                      # PipeFunc(internal_shape=...) ([] = none)
              "bound": [["c", "B"]], "defaults": [["c", "D"]]}, ...],      # in a topological order
   "inputs": [["x", {"sh": [3], "d": ["x0", "x1", "x2"], "as": "list" | "nd"}], ["c", "C"]],   # arrays or scalar strings
   "internal": [["y", [2]]],                      # internal_shapes argument of map
   "storage": "dict" | "file_array" | "shared_memory_dict"}
Leaf values are strings.  A function returns `name(p=<canon>,...)`; with several outputs a tuple of
`out(<o>;<app>)`; with internal axes an object ndarray (lists for rank 1 if "intlist") of `elem(<base>;j1,j2)`.
Optional fd["wrap"] in {"tuple", "list", "nd"}: every element value is the PAIR (base, "#") - a tuple, a list or a
1-d object ndarray - instead of the string base (canon renders it "[base,#]"); a consumer logs for each
parameter produced by a wrapped function what it was handed: `p~e=` (one pair) or `p~a<ndim>=` (object array of pairs).
"""
from __future__ import annotations

import inspect
import itertools
import os
import shutil
import tempfile

import numpy as np


def canon(v) -> str:
    if v is np.ma.masked:
        return "--"
    if isinstance(v, np.ma.MaskedArray):
        if v.ndim == 0:
            return "--" if v.mask else canon(v.item())
        return "[" + ",".join(canon(x) for x in v) + "]"
    if isinstance(v, np.ndarray):
        if v.ndim == 0:
            return canon(v.item())
        return "[" + ",".join(canon(x) for x in v) + "]"
    if isinstance(v, (list, tuple)):
        return "[" + ",".join(canon(x) for x in v) + "]"
    if v is None:
        return "None"
    return str(v)


def arr_obs_k(v, k):
    """Observation of the result of a WRAPPED function whose array part has k dimensions (elements are pairs):
    k = 0: ["val", canon]; otherwise ["arr", shape, flat canon of the elements] over the first k dimensions - when the
    array does not have exactly k dimensions (pairs merged into an extra axis, ...) its real shape is reported."""
    if k == 0:
        return ["val", canon(v)]
    if not isinstance(v, np.ndarray) or v.ndim != k:
        return arr_obs(v)
    data = np.ma.getdata(v)
    mask = np.ma.getmaskarray(v)
    flat = ["--" if mask[idx] or data[idx] is np.ma.masked else canon(data[idx])
            for idx in itertools.product(*map(range, v.shape))]
    return ["arr", [int(x) for x in v.shape], flat]


def arr_obs(v):
    """Canonical observation of an array-like / scalar: ["arr", shape, flat strings] or ["val", string]."""
    if isinstance(v, (list, tuple)):
        v = _obj_array(v)
    if isinstance(v, np.ndarray) and v.ndim > 0:
        flat = []
        data = np.ma.getdata(v)
        mask = np.ma.getmaskarray(v) if isinstance(v, np.ma.MaskedArray) else np.zeros(v.shape, bool)
        for idx in itertools.product(*map(range, v.shape)):
            flat.append("--" if mask[idx] or data[idx] is np.ma.masked else canon(data[idx]))
        return ["arr", [int(x) for x in v.shape], flat]
    return ["val", canon(v)]


def _obj_array(nested):
    a = np.empty(len(nested), dtype=object)
    for i, x in enumerate(nested):
        a[i] = x
    try:
        return np.array(nested, dtype=object)
    except ValueError:
        return a


def make_input(spec):
    if isinstance(spec, str):
        return spec
    a = np.empty(len(spec["d"]), dtype=object)
    for i, x in enumerate(spec["d"]):
        a[i] = x
    a = a.reshape(spec["sh"])
    if spec.get("as") == "list":
        return a.tolist()
    return a


class CallLog:
    """Append-only call log; in-memory list, or a file (O_APPEND) usable from worker processes."""

    def __init__(self, path=None):
        self.path = path
        self.items = []

    def add(self, line):
        if self.path is None:
            self.items.append(line)
        else:
            fd = os.open(self.path, os.O_WRONLY | os.O_APPEND | os.O_CREAT)
            try:
                os.write(fd, (line + "\n").encode())
            finally:
                os.close(fd)

    def read(self):
        if self.path is None:
            return list(self.items)
        if not os.path.exists(self.path):
            return []
        with open(self.path) as f:
            return [x for x in f.read().split("\n") if x]


def wrap_value(base: str, kind):
    """The element value of a wrapped function: the pair (base, "#") as tuple / list / 1-d object ndarray
    (the second component is constant to keep the rendered strings short)."""
    if not kind:
        return base
    if kind == "tuple":
        return (base, "#")
    if kind == "list":
        return [base, "#"]
    a = np.empty(2, dtype=object)
    a[0], a[1] = base, "#"
    return a


def _is_pair(v, kind) -> bool:
    if kind == "tuple":
        ok = isinstance(v, tuple)
    elif kind == "list":
        ok = isinstance(v, list)
    else:
        ok = isinstance(v, np.ndarray) and not isinstance(v, np.ma.MaskedArray) and v.ndim == 1 and v.dtype == object
    return bool(ok) and len(v) == 2 and all(isinstance(x, str) for x in v)


def arg_tag(v, kind) -> str:
    """What a consumer was handed for a parameter produced by a wrapped function: `~e` one pair of the producer's
    kind, `~a<k>` a k-d object array whose (unmasked) elements are such pairs; anything else is tagged `~?...`."""
    if _is_pair(v, kind):
        return "~e"
    if isinstance(v, np.ndarray) and v.dtype == object and v.ndim > 0:
        data = np.ma.getdata(v)
        mask = np.ma.getmaskarray(v)
        good = all(mask[i] or data[i] is np.ma.masked or _is_pair(data[i], kind) for i in np.ndindex(*v.shape))
        return f"~a{v.ndim}" if good else f"~?a{v.ndim}"
    return "~?" + type(v).__name__


def make_callable(fd, log: CallLog, fail_at=None, wkinds=None):
    """fail_at: optional (call_index, exception factory) to raise at the n-th call of this function.
    wkinds: {parameter name: wrap kind of its producer} for parameters produced by wrapped functions."""
    name, params, outs = fd["name"], fd["params"], fd["outs"]
    ish = tuple(fd.get("ret") if fd.get("ret") is not None else fd.get("int") or ())
    aslist = fd.get("intlist", False)
    wrap = fd.get("wrap")
    wkinds = wkinds or {}
    counter = itertools.count()

    def body(**kw):
        app = name + "(" + ",".join(
            f"{p}{arg_tag(kw[p], wkinds[p]) if p in wkinds else ''}={canon(kw[p])}" for p in params) + ")"
        log.add(app)
        n = next(counter)
        if fail_at is not None and fail_at[0] == n:
            raise fail_at[1]()

        def value(base):
            if not ish:
                return wrap_value(base, wrap)
            a = np.empty(ish, dtype=object)
            for j in itertools.product(*map(range, ish)):
                a[j] = wrap_value("elem(" + base + ";" + ",".join(map(str, j)) + ")", wrap)
            return a.tolist() if (aslist and len(ish) == 1) else a

        if len(outs) == 1:
            return value(app)
        return tuple(value(f"out({o};{app})") for o in outs)

    # a default may be an array (a mapped root argument with a default value): {"sh", "d", "as"} like an input
    dflt = {k: (make_input(v) if isinstance(v, dict) else v) for k, v in (fd.get("defaults") or [])}
    has = [p in dflt for p in params]
    # a default on a parameter that is not trailing is only legal for keyword-only parameters (pipefunc calls by keyword)
    kind = (inspect.Parameter.KEYWORD_ONLY if any(a and not b for a, b in zip(has, has[1:]))
            else inspect.Parameter.POSITIONAL_OR_KEYWORD)
    body.__signature__ = inspect.Signature([
        inspect.Parameter(p, kind, default=dflt.get(p, inspect.Parameter.empty)) for p in params])
    body.__name__ = name
    body.__qualname__ = name
    return body


def spec_str(sp):
    if sp is None:
        return None

    def arr(n, ax):
        return f"{n}[{', '.join(':' if a is None else a for a in ax)}]"

    left = ", ".join(arr(n, ax) for n, ax in sp["i"]) if sp["i"] else "..."
    return left + " -> " + ", ".join(arr(n, ax) for n, ax in sp["o"])


def build_pipeline(case, log: CallLog, fail=None, **pipeline_kw):
    """fail: optional {func name: (call_index, exc factory)}"""
    from pipefunc import PipeFunc, Pipeline

    funcs = []
    wkinds = {o: fd["wrap"] for fd in case["funcs"] if fd.get("wrap") for o in fd["outs"]}
    for fd in case["funcs"]:
        outs = fd["outs"]
        f = PipeFunc(
            make_callable(fd, log, (fail or {}).get(fd["name"]), wkinds=wkinds),
            output_name=outs[0] if len(outs) == 1 else tuple(outs),
            mapspec=spec_str(fd.get("spec")),
            internal_shape=tuple(fd["int"]) if fd.get("int") else None,
            bound=dict(fd.get("bound") or []) or None,
        )
        funcs.append(f)
    return Pipeline(funcs, **pipeline_kw)


class TempRun:
    """A run folder that is always removed."""

    def __enter__(self):
        self.dir = tempfile.mkdtemp(prefix="verif_run_")
        return self.dir

    def __exit__(self, *a):
        shutil.rmtree(self.dir, ignore_errors=True)


def map_inputs(case):
    return {k: make_input(v) for k, v in case["inputs"]}


def internal_arg(case):
    d = {k: tuple(v) for k, v in (case.get("internal") or [])}
    return d or None


def results_obs(case, results):
    """Per output (in function/output order): [name, Result.output obs, stored obs]."""
    out = []
    for fd in case["funcs"]:
        for o in fd["outs"]:
            if o not in results:
                out.append([o, ["missing"], ["missing"]])
                continue
            r = results[o]
            store = r.store
            if fd.get("wrap"):
                sp = fd.get("spec")
                k = len(sp["o"][0][1]) if sp else len(fd.get("ret") or fd.get("int") or [])
                obs = lambda v: arr_obs_k(v, k)  # noqa: E731
            else:
                obs = arr_obs
            if hasattr(store, "to_array"):
                stored = obs(store.to_array())
            elif hasattr(store, "value"):
                stored = obs(store.value)
            else:
                from pipefunc._utils import load
                stored = obs(load(store))
            out.append([o, obs(r.output), stored])
    return out
