#!/bin/bash
# Developer-side: merge a worker branch into /verif main, rewrite fix hashes in known_findings.jsonl, drop worktrees.
# usage: merge_worker.sh <branch> [old:new ...]
set -u
BR="$1"; shift
cd /verif
git diff --quiet && git diff --cached --quiet || { echo "/verif not clean"; exit 3; }
git merge --no-edit "$BR" > /tmp/merge_$$.log 2>&1 || { cat /tmp/merge_$$.log; echo "MERGE CONFLICT"; exit 4; }
for m in "$@"; do old=${m%%:*}; new=${m##*:}; sed -i "s/$old/$new/g" known_findings.jsonl; done
git add -A; git commit -q -m "merge $BR: fix hashes rewritten to /repo main" 2>/dev/null
git worktree remove --force /work/$BR 2>/dev/null; git branch -D "$BR" -q
git -C /repo worktree remove --force /work/repo_$BR 2>/dev/null; git -C /repo branch -D "$BR" -q 2>/dev/null
git log --oneline | head -1
