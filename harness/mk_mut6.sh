#!/bin/bash
# Developer-side: prepare a scratch worktree + prompt for a seeded-change sub-agent.  usage: mk_mut.sh C20
ID="$1"
mkdir -p /tmp/mut6
git -C /repo worktree add -q --detach /tmp/mut6/$ID HEAD || exit 3
python3 - "$ID" <<'PY'
import json, sys
id = sys.argv[1]
for l in open('/verif/properties.jsonl'):
    d = json.loads(l)
    if d['id'] == id:
        prop = f"{d['id']}: {d['title']}\n\n{d['statement']}\n\nQuantified over: {d['quantifier']['text']}\n"
t = open('/verif/harness/mutant_prompt.tmpl').read().replace('__DIR__', f'/tmp/mut6/{id}').replace('__ID__', id).replace('__PROP__', prop)
open(f'/tmp/mut6/{id}.prompt.txt', 'w').write(t)
PY
echo "/tmp/mut6/$ID.prompt.txt"
