"""Regenerate the generated region of DESIGN.md (status per property, fixes, known findings, seeded changes)."""
import json
import re
import subprocess
from pathlib import Path

V = Path(__file__).resolve().parent.parent
out = []
man = json.loads((V / "MANIFEST.json").read_text())
out.append("### G.1 Status per property (from the last committed evidence files)\n")
out.append("| id | theorems in Props/ (closed) | refuted / partial theorems | quick cases | known findings | technique |")
out.append("|---|---|---|---|---|---|")
for c in man["checks"]:
    pid = c["property_id"]
    ev = json.loads((V / "evidence" / f"{pid}.json").read_text())
    th = ev["coverage"]["theorems"]
    closed = sum(1 for v in th.values() if v == "closed")
    special = [k.replace(pid + "_", "") for k in th if re.search(r"refuted|partial", k)]
    out.append(f"| {pid} | {closed}/{len(th)} | {', '.join(special) or '-'} | {ev['coverage']['evaluations']} | "
               f"{', '.join(ev['coverage'].get('known_findings_reported', [])) or '-'} | {c.get('technique','')} |")
out.append("")
known, fixed = [], []
for line in (V / "known_findings.jsonl").read_text().splitlines():
    line = line.strip()
    if line.startswith("fixed:"):
        m = re.match(r"fixed:\s*property=(\S+)\s+(\S+)\s+(.*)", line)
        fixed.append(m.groups())
    elif line.startswith("{"):
        d = json.loads(line)
        if d.get("status") == "known":
            known.append(d)
out.append("### G.2 Genuine defects repaired in /repo (`fix:` commits; each re-run against the pinned suite: 492/492 stable tests)\n")
out.append("| property | commit | what failed |")
out.append("|---|---|---|")
for p, h, w in fixed:
    out.append(f"| {p} | `{h}` | {w.replace('|', '/')[:400]} |")
out.append("")
out.append("### G.3 Known findings (genuine defects recorded, not repaired; `KNOWN-FINDING` lines)\n")
out.append("| property | id | site | what fails |")
out.append("|---|---|---|---|")
for d in known:
    out.append(f"| {d['property']} | `{d['id']}` | {d.get('site','')} | {d['what'].replace('|', '/')[:500]} |")
out.append("")
res = json.loads((V / "seeded" / "RESULTS.json").read_text())
out.append("### G.4 Seeded changes (written by independent sub-agents from the property text only; each confirmed: demo fails with / passes without the change, 492 stable tests pass with it)\n")
out.append("| seeded change | breaks | caught by | how / history |")
out.append("|---|---|---|---|")
for name in sorted(res):
    meta = json.loads((V / "seeded" / name / "meta.json").read_text())
    r = res[name]
    out.append(f"| seeded/{name} | {meta['property']} | {', '.join(r['caught_by']) or '**not yet**'} | {r['how']} |")
out.append("")
text = "\n".join(out)
p = V / "DESIGN.md"
t = p.read_text()
B, E = "<!-- GENERATED:BEGIN -->", "<!-- GENERATED:END -->"
if B not in t:
    t += f"\n\n---------------------------------------------------------------------------------------------------\n\n## Appendix G. Generated status tables (python -m harness.mkdesign_tables)\n\n{B}\n{E}\n"
t = t[: t.index(B) + len(B)] + "\n" + text + "\n" + t[t.index(E):]
p.write_text(t)
print("DESIGN.md tables regenerated:", len(fixed), "fixes,", len(known), "known findings,", len(res), "seeded")
