"""Regenerate /verif/MANIFEST.json and fingerprints.json from harness/registry.py."""
import importlib
import json
import sys
from pathlib import Path

from . import common
from .registry import CLAIMED, NOT_YET
try:
    from .registry import SUSPENDED
except ImportError:
    SUSPENDED = {}
CLAIMED = {k: v for k, v in CLAIMED.items() if k not in SUSPENDED}

V = common.VERIF
props = [json.loads(l) for l in (V / "properties.jsonl").read_text().splitlines() if l.strip()]
base = json.load(open("/root/.vp/BASELINE.json"))
checks = []
for p in props:
    pid = p["id"]
    if pid not in CLAIMED:
        continue
    c = CLAIMED[pid]
    checks.append({
        "property_id": pid,
        "quick_cmd": f"./check {pid} --tier quick",
        "thorough_cmd": f"./check {pid} --tier thorough",
        "evidence_file": f"/verif/evidence/{pid}.json",
        "replay_cmd_template": f"./check {pid} --replay {{path}}",
        "engine": "coq-model+correspondence",
        "level_claimed": {"category": "proof", "text": c["text"], "design_ref": c["design_ref"]},
        "level_note": c["note"],
        "technique": c["technique"],
    })
man = {
    "version": 1,
    "setup_cmd": "cd /verif && ./check --setup",
    "hooks": {"guard": "PIPEFUNC_VERIF", "enable": "none needed: no source hooks; checks import /repo's working tree directly",
              "baseline_off_cmd": base["cmd"].replace("--junitxml=<file>", "--junitxml=/tmp/verif_baseline.xml"),
              "source_commits": [], "add_only": True},
    "engines": [{"name": "coq-model+correspondence", "path": "/verif/check",
                 "serves_properties": [c["property_id"] for c in checks],
                 "kind_free_text": "Coq 8.16 theorems over hand-written Gallina models; models evaluated by vm_compute against the "
                                   "implementation's observations on generated cases on every run"}],
    "checks": checks,
    "not_applicable": [{"property_id": p["id"], "reason": SUSPENDED.get(p["id"], NOT_YET)} for p in props if p["id"] not in CLAIMED],
    "notes": "See DESIGN.md. Exit codes: 0 held, 1 VIOLATION, 2 infrastructure error of the checker itself.",
}
(V / "MANIFEST.json").write_text(json.dumps(man, indent=1))
if "--fingerprints" in sys.argv:
    fps = {}
    for pid in CLAIMED:
        mod = importlib.import_module(f"harness.props.{pid.lower()}")
        fps[pid] = common.fingerprint(mod.ANCHORS)
    (V / "fingerprints.json").write_text(json.dumps(fps, indent=1, sort_keys=True))
import jsonschema  # noqa: E402
jsonschema.validate(man, json.load(open("/root/.vp/MANIFEST.schema.json")))
print("MANIFEST ok:", [c["property_id"] for c in checks])
