"""Shared generator / builder for pipeline-level checks (C02, C18, C11, reusable by C09/C10/C12/C13).

A pipeline description is JSON-able:
  {"funcs": [ {"name": "f0", "outs": ["a", "b"], "params": [[current, original], ...],
               "sigd": {original: value},       # signature defaults (trailing parameters only)
               "defs": {current: value},        # PipeFunc(defaults=...)
               "bound": {current: value}}, ... ]}
The listing order of "funcs" is the order given to Pipeline([...]).
"""
from __future__ import annotations

import itertools

from .coqlit import cbool, clist, cpair, cstr
from .symfuncs import ListLog, SymFunc, canon

ROOTS = ["x", "y", "z", "w"]
NONE_PREFIX = "nil"     # functions / tuple members with such a name return None (symfuncs.py, Model/SymNone.v)


def func_defaults(fd) -> list:
    """PipeFunc.defaults as [(current name, value)] in parameter order (mirrors PipeFunc.defaults)."""
    out = []
    for cur, orig in fd["params"]:
        if cur in fd["defs"]:
            out.append([cur, fd["defs"][cur]])
        elif orig in fd["sigd"] and cur not in fd["bound"]:
            out.append([cur, fd["sigd"][orig]])
    return out


# ------------------------------------------------------------------ Coq literals
def alist_lit(items) -> str:
    return clist([cpair(cstr(k), cstr(canon(v))) for k, v in items])


def func_lit(fd) -> str:
    return ("(mkf " + cstr(fd["name"]) + " " + clist([cstr(o) for o in fd["outs"]]) + " "
            + clist([cpair(cstr(c), cstr(o)) for c, o in fd["params"]]) + " "
            + alist_lit(func_defaults(fd)) + " " + alist_lit(list(fd["bound"].items())) + " "
            + cbool(bool(fd.get("cached", False))) + ")")


def pipeline_lit(pd) -> str:
    return clist([func_lit(f) for f in pd["funcs"]])


# ------------------------------------------------------------------ building the real objects
class Built:
    def __init__(self, pipeline, log, funcs):
        self.pipeline = pipeline
        self.log = log
        self.funcs = funcs


def build(pd, log=None, **pipeline_kwargs) -> Built:
    """Construct the real Pipeline for a description (raises whatever pipefunc raises)."""
    from pipefunc import PipeFunc, Pipeline

    log = ListLog() if log is None else log
    pfs = []
    for fd in pd["funcs"]:
        origs = [o for _, o in fd["params"]]
        sf = SymFunc(fd["name"], origs, fd["outs"] if len(fd["outs"]) > 1 else None, log, fd["sigd"],
                     none_prefix=NONE_PREFIX)
        renames = {o: c for c, o in fd["params"] if o != c}
        pf = PipeFunc(sf, output_name=tuple(fd["outs"]) if len(fd["outs"]) > 1 else fd["outs"][0],
                      renames=renames or None, defaults=dict(fd["defs"]) or None, bound=dict(fd["bound"]) or None,
                      cache=bool(fd.get("cached", False)))
        exp = {k: v for k, v in func_defaults(fd)}
        if dict(pf.defaults) != exp:
            raise AssertionError(f"harness func_defaults mismatch: {pf.defaults} vs {exp}")
        pfs.append(pf)
    return Built(Pipeline(pfs, **pipeline_kwargs), log, pfs)


_last = {}


def build_cached(pd, slot="default", **pipeline_kwargs) -> Built:
    import json

    key = json.dumps([pd, sorted(pipeline_kwargs.items())], sort_keys=True, default=str)
    hit = _last.get(slot)
    if hit is not None and hit[0] == key:
        hit[1].log.clear()
        return hit[1]
    b = build(pd, **pipeline_kwargs)
    _last[slot] = (key, b)
    return b


# ------------------------------------------------------------------ random well-formed pipelines
def gen_pipeline(rng, nmax=6, nmin=1, none_prob=0.0):
    """Random acyclic pipeline: nullary and tuple-output functions, shared parameters, defaults (signature and
    explicit), bound values (also for names that are outputs of other functions), parameter renames.
    none_prob > 0: that fraction of the single-output functions / tuple members returns None (names nil...)."""
    n = rng.randint(nmin, nmax)
    funcs = []
    avail = []          # output names of earlier functions (topological construction order)
    out_i = 0
    for i in range(n):
        k = rng.choice([1, 1, 1, 1, 2, 2, 3]) if n > 1 or rng.random() < 0.5 else 1
        outs = [f"o{out_i + j}" for j in range(k)]
        out_i += k
        fname = f"f{i}"
        if none_prob:
            if k == 1:
                if rng.random() < none_prob:
                    fname = NONE_PREFIX + fname
            else:
                outs = [NONE_PREFIX + o if rng.random() < none_prob else o for o in outs]
        npar = rng.choice([0, 1, 1, 2, 2, 2, 3, 3])
        pool = list(ROOTS[: rng.randint(1, 4)])
        names = []
        tuples = [g["outs"] for g in funcs if len(g["outs"]) > 1]
        if tuples and npar >= 2 and rng.random() < 0.35:      # read two outputs of one tuple function
            names = rng.sample(rng.choice(tuples), 2)
        for _ in range(npar - len(names)):
            if avail and rng.random() < 0.6:
                c = rng.choice(avail)
            else:
                c = rng.choice(pool)
            if c not in names:
                names.append(c)
        # the signature: defaults only on a trailing block
        rename = rng.random() < 0.3
        params = [[c, (f"p{j}" if rename and rng.random() < 0.7 else c)] for j, c in enumerate(names)]
        sigd, defs, bound = {}, {}, {}
        ntrail = rng.choice([0, 0, 1, 1, 2]) if names else 0
        for c, o in params[len(params) - ntrail:] if ntrail else []:
            sigd[o] = "d_" + c                     # consistent across functions: the value depends on the name only
        for c, _o in params:
            r = rng.random()
            if r < 0.12:
                bound[c] = f"B{i}_{c}"
            elif r < 0.22:
                defs[c] = "d_" + c
        funcs.append({"name": fname, "outs": outs, "params": params, "sigd": sigd, "defs": defs, "bound": bound})
        avail += outs
    return {"funcs": funcs}


def listing_orders(rng, pd, max_full=4, nrand=3):
    fs = pd["funcs"]
    if len(fs) <= max_full:
        perms = list(itertools.permutations(range(len(fs))))
    else:
        perms = [tuple(range(len(fs)))]
        for _ in range(nrand):
            q = list(range(len(fs)))
            rng.shuffle(q)
            perms.append(tuple(q))
    return [{"funcs": [fs[i] for i in q]} for q in perms]


def outputs_of(pd):
    return [o for f in pd["funcs"] for o in f["outs"]]


def root_names(pd):
    outs = set(outputs_of(pd))
    seen = []
    for f in pd["funcs"]:
        for c, _ in f["params"]:
            if c not in outs and c not in seen:
                seen.append(c)
    return seen


def gen_none_diamond(rng):
    """A diamond over a value that is None: a producer N (None-returning function, or the None member of a tuple
    output, optionally behind a second None producer), >= 2 consumers of N, and a join."""
    P = NONE_PREFIX
    funcs = []
    if rng.random() < 0.5:
        funcs.append({"name": P + "f0", "outs": ["o0"], "params": [["x", "x"]], "sigd": {}, "defs": {}, "bound": {}})
        n = "o0"
    else:
        outs = ["o0", P + "o1"] if rng.random() < 0.5 else [P + "o1", "o0"]
        funcs.append({"name": "f0", "outs": outs, "params": [["x", "x"]], "sigd": {}, "defs": {}, "bound": {}})
        n = P + "o1"
    if rng.random() < 0.4:      # a second None value computed from the first (transitive re-execution)
        funcs.append({"name": P + "f9", "outs": ["o9"], "params": [[n, n]], "sigd": {}, "defs": {}, "bound": {}})
        n2 = "o9"
    else:
        n2 = n
    c1 = [[n2, "p0" if rng.random() < 0.3 else n2]] + ([["y", "y"]] if rng.random() < 0.5 else [])
    c2 = ([["z", "z"]] if rng.random() < 0.3 else []) + [[n2, n2]] + ([[n, n]] if n != n2 and rng.random() < 0.5 else [])
    funcs.append({"name": "f1", "outs": ["o2"], "params": c1, "sigd": {}, "defs": {}, "bound": {}})
    funcs.append({"name": "f2", "outs": ["o3"] if rng.random() < 0.6 else ["o3", "o5"], "params": c2,
                  "sigd": {}, "defs": {}, "bound": {}})
    j = [["o2", "o2"], ["o3", "o3"]] + ([[n2, n2]] if rng.random() < 0.5 else [])
    rng.shuffle(j)
    funcs.append({"name": "f3", "outs": ["o4"], "params": j, "sigd": {}, "defs": {}, "bound": {}})
    rng.shuffle(funcs)
    return {"funcs": funcs}


def value_for(rng, name, allow_none=False):
    if allow_none and rng.random() < 0.06:
        return None
    r = rng.random()
    if r < 0.15:
        return rng.randint(0, 99)        # ints travel as their decimal string
    if r < 0.2:
        return "S_" + name
    return "v_" + name
