"""C01 - Map results equal the MapSpec denotation for every pipeline and input."""
from __future__ import annotations

import contextlib
import io
import json

from .. import mapgen, mapsym
from ..coqlit import Err

PROP = "C01"
RUN = "Run_C01"
THEOREMS = "Props/C01.v"
ANCHORS = [
    ("pipefunc/map/_run.py", ["run_map", "_func_kwargs", "_select_kwargs", "_run_iteration_and_process", "_update_array",
                              "_indices_to_flat_index", "_set_output", "_update_result_array", "_existing_and_missing_indices",
                              "_prepare_submit_map_spec", "_submit_func", "_output_from_mapspec_task", "_process_task",
                              "_execute_single", "_dump_single_output", "_load_from_store", "_pick_output"]),
    ("pipefunc/map/_shapes.py", ["map_shapes", "internal_shape_from_mask", "external_shape_from_mask"]),
    ("pipefunc/map/_run_info.py", ["RunInfo.create", "RunInfo.init_store", "_construct_internal_shapes", "_init_arrays"]),
    ("pipefunc/map/_storage_array/_base.py", ["select_by_mask", "iterate_shape_indices"]),
    ("pipefunc/map/_mapspec.py", ["MapSpec.input_keys", "MapSpec.output_key", "MapSpec.shape", "_shape_to_key"]),
]
RULE = ("random valid map requests: DAGs of 1..4 structural functions (single/tuple outputs, mapped / unmapped / "
        "'... -> v[j]' generators), arrays of rank<=3 with axis sizes 1..3, zip / outer product / ':' reductions / "
        "internal axes at any position, list vs ndarray inputs, bound and default scalars, each storage backend, "
        "parallel=False; non-trivial = some function with >=2 output axes or a ':' axis or an internal axis; distinct by "
        "(specs, shapes, storage)")
ASSUMPTIONS = ["sequential semantics (parallel=False); executors/schedules are C03",
               "user functions are deterministic and return arrays of the declared internal shape",
               "MapSpecs are written explicitly (auto-generated specs for unannotated producers are not modelled)"]
TRUSTED = ["Model/MapRun.v mirrors pipefunc/map/_run.py (sequential path) by hand; storage modelled as the abstract masked array of C07",
           "harness/mapsym.py structural user functions and canonicalisation of arrays"]


def emit_case(c) -> str:
    return mapgen.request_lit(c)


def run_impl(c):
    log = mapsym.CallLog()
    sink = io.StringIO()
    with contextlib.redirect_stdout(sink):
        try:
            p = mapsym.build_pipeline(c, log)
        except Exception as e:  # noqa: BLE001
            return Err(e)
        with mapsym.TempRun() as d:
            try:
                r = p.map(mapsym.map_inputs(c), run_folder=d, internal_shapes=mapsym.internal_arg(c),
                          storage=c.get("storage", "dict"), parallel=False)
                return ["ok", mapsym.results_obs(c, r), len(log.read())]
            except Exception as e:  # noqa: BLE001
                return Err(e)


def generate(rng, tier, mult):
    n = (220 if tier == "quick" else 4000) * mult
    out = []
    while len(out) < n:
        c = mapgen.gen_request(rng)
        if mapgen.request_size(c) <= 40:
            out.append(c)
    return out


def _nontrivial(c):
    for f in c["funcs"]:
        sp = f.get("spec")
        if sp and (len(sp["o"][0][1]) >= 2 or any(a is None for _, ax in sp["i"] for a in ax) or f.get("ret")):
            return True
    return False


def nontrivial_key(c):
    if not _nontrivial(c):
        return None
    return ([mapsym.spec_str(f.get("spec")) for f in c["funcs"]],
            [v["sh"] if isinstance(v, dict) else 0 for _, v in c["inputs"]], c.get("storage"))


def distribution(c):
    kinds = sorted({"map" if (f.get("spec") and f["spec"]["i"]) else ("gen" if f.get("spec") else "single")
                    for f in c["funcs"]})
    return {"nfuncs": len(c["funcs"]), "kinds": "+".join(kinds), "storage": c.get("storage"),
            "internal_first": any(f.get("ret") and f.get("spec") and f["spec"]["i"] and
                                  f["spec"]["o"][0][1][0] not in {a for _, ax in f["spec"]["i"] for a in ax}
                                  for f in c["funcs"])}


def finding_id(c, impl_obs, kind):
    return None


def shrink(c):
    out = []
    fs = c["funcs"]
    for j in range(len(fs) - 1, -1, -1):
        produced = set(fs[j]["outs"])
        if any(produced & set(g["params"]) for g in fs[j + 1:]):
            continue
        d = json.loads(json.dumps(c))
        d["funcs"] = fs[:j] + fs[j + 1:]
        used = {p for g in d["funcs"] for p in g["params"]}
        d["inputs"] = [kv for kv in d["inputs"] if kv[0] in used]
        if d["funcs"]:
            out.append(d)
    for st in ("dict",):
        if c.get("storage") != st:
            d = json.loads(json.dumps(c))
            d["storage"] = st
            out.append(d)
    return out
