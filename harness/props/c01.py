"""C01 - Map results equal the MapSpec denotation for every pipeline and input."""
from __future__ import annotations

import contextlib
import io
import json

from .. import mapgen, mapsym
from ..coqlit import Err, clist, cnat, cstr

PROP = "C01"
RUN = "Run_C01x"
THEOREMS = "Props/C01.v"
ANCHORS = [
    ("pipefunc/map/_run.py", ["run_map", "_func_kwargs", "_select_kwargs", "_run_iteration_and_process", "_update_array",
                              "_indices_to_flat_index", "_set_output", "_update_result_array", "_existing_and_missing_indices",
                              "_prepare_submit_map_spec", "_submit_func", "_output_from_mapspec_task", "_process_task",
                              "_execute_single", "_dump_single_output", "_load_from_store", "_pick_output"]),
    ("pipefunc/map/_shapes.py", ["map_shapes", "internal_shape_from_mask", "external_shape_from_mask"]),
    ("pipefunc/map/_run_info.py", ["RunInfo.create", "RunInfo.init_store", "_construct_internal_shapes", "_init_arrays"]),
    ("pipefunc/map/_storage_array/_base.py", ["select_by_mask", "iterate_shape_indices"]),
    ("pipefunc/map/_mapspec.py", ["MapSpec.input_keys", "MapSpec.output_key", "MapSpec.shape", "_shape_to_key",
                                  "validate_consistent_axes", "mapspec_dimensions"]),
    ("pipefunc/_pipeline/_mapspec.py", ["find_non_root_axes", "replace_none_in_axes", "create_missing_mapspecs"]),
    ("pipefunc/_pipeline/_base.py", ["Pipeline.add", "Pipeline._validate_mapspec", "Pipeline._autogen_mapspec_axes",
                                     "Pipeline.defaults"]),
    ("pipefunc/map/_prepare.py", ["_validate_complete_inputs"]),
    ("pipefunc/map/_run_info.py", ["_check_inputs"]),
]
RULE = ("(1) random valid explicit map requests: DAGs of 1..4 structural functions (single/tuple outputs, mapped / unmapped / "
        "'... -> v[j]' generators), arrays of rank<=3 with axis sizes 1..3, zip / outer product / ':' reductions / "
        "internal axes at any position, mapped functions with ZERO mapped axes (x[:] -> y[j]), list vs ndarray inputs, "
        "bound and default scalars, each storage backend, parallel=False; "
        "(2) USER-LEVEL lists: the same requests with the MapSpec of generator functions removed (incl. tuple-output "
        "producers and consumers with ':' axes), handed to Pipeline([...]) in a random order - the model constructs the "
        "pipeline itself and must report the same MapSpecs (structured and as strings) and results; 20% with a "
        "conflicting consumer (renamed axis / other rank); "
        "in all streams about a third of the functions return PAIRS as element values (tuple / list / 1-d ndarray; "
        "consumers log whether they were handed one pair or a k-d object array of pairs); "
        "(3) input variants: missing / surplus input, input for a bound parameter, 2-d input as nested lists "
        "(ValueError before anything runs), input supplied for a defaulted parameter (the input wins), a MAPPED root "
        "argument with a list default of another length that is overridden by the input (shapes and values from the input); "
        "non-trivial = some function with >=2 output axes or a ':' axis or an internal axis; distinct by "
        "(kind, specs, order, shapes, storage)")
ASSUMPTIONS = ["sequential semantics (parallel=False); executors/schedules are C03",
               "user functions are deterministic and return arrays of the declared internal shape",
               "construction: only the MapSpec side of Pipeline.add/_validate is modelled (scopes, consistent defaults, "
               "cycle detection, type annotations: C12/C16)"]
TRUSTED = ["Model/MapRun.v mirrors pipefunc/map/_run.py (sequential path) by hand; storage modelled as the abstract masked array of C07 "
           "(tied to the FileArray/DictArray models by Proofs/MapStoreLink.v)",
           "Model/AutoGen.v mirrors Pipeline.add/_validate_mapspec/_autogen_mapspec_axes and pipefunc/_pipeline/_mapspec.py by hand",
           "Model/MapPrepare.v mirrors _validate_complete_inputs/_check_inputs by hand",
           "harness/mapsym.py structural user functions and canonicalisation of arrays"]


def emit_case(c) -> str:
    if c.get("kind") == "auto":
        aslist = [k for k, v in c["inputs"] if isinstance(v, dict) and v.get("as") == "list"]
        wrapped = [f["name"] for f in c["funcs"] if f.get("wrap")]
        return "(CAuto %s %s %s %s)" % (mapgen.request_lit(c), clist([cnat(i) for i in c["order"]]),
                                        clist([cstr(k) for k in aslist]), clist([cstr(k) for k in wrapped]))
    return "(CReq %s)" % mapgen.request_lit(c)


def _spec_obs(ms):
    if ms is None:
        return None
    return [str(ms), [[a.name, list(a.axes)] for a in ms.inputs], [[a.name, list(a.axes)] for a in ms.outputs]]


def _run_auto(c):
    """User-level list: Pipeline([...]) in the given order generates the missing MapSpecs."""
    log = mapsym.CallLog()
    sink = io.StringIO()
    with contextlib.redirect_stdout(sink):
        try:
            p = mapsym.build_pipeline(dict(c, funcs=[c["funcs"][i] for i in c["order"]]), log)
            specs = [_spec_obs(f.mapspec) for f in p.functions]
        except Exception as e:  # noqa: BLE001
            return Err(e)
        with mapsym.TempRun() as d:
            try:
                r = p.map(mapsym.map_inputs(c), run_folder=d, internal_shapes=mapsym.internal_arg(c),
                          storage=c.get("storage", "dict"), parallel=False)
                return ["ok", mapsym.results_obs(c, r), len(log.read()), specs]
            except Exception as e:  # noqa: BLE001
                return ["maperr", Err(e), specs]


def run_impl(c):
    if c.get("kind") == "auto":
        return _run_auto(c)
    log = mapsym.CallLog()
    sink = io.StringIO()
    with contextlib.redirect_stdout(sink):
        try:
            p = mapsym.build_pipeline(c, log)
        except Exception as e:  # noqa: BLE001
            return Err(e)
        with mapsym.TempRun() as d:
            try:
                r = p.map(mapsym.map_inputs(c), run_folder=d, internal_shapes=mapsym.internal_arg(c),
                          storage=c.get("storage", "dict"), parallel=False)
                return ["ok", mapsym.results_obs(c, r), len(log.read())]
            except Exception as e:  # noqa: BLE001
                return Err(e)


def _conflict(c, rng):
    """Malformed user-level list: one consumer renames an axis of a spec-less producer's output (conflicting axes for
    the generated MapSpec: ValueError at construction), or gives it another rank."""
    import copy
    c = copy.deepcopy(c)
    stripped = {o for f in c["funcs"] if f.get("stripped") for o in f["outs"]}
    uses = [(f, k) for f in c["funcs"] if f.get("spec") for k, (n, ax) in enumerate(f["spec"]["i"]) if n in stripped]
    if not uses:
        return None
    f, k = rng.choice(uses)
    ax = f["spec"]["i"][k][1]
    named = [q for q, a in enumerate(ax) if a is not None]
    if named and rng.random() < 0.6:
        q = rng.choice(named)
        old = ax[q]
        new = "zz"
        # keep the consumer itself well formed: rename the index everywhere in this MapSpec
        for _, a2 in f["spec"]["i"] + f["spec"]["o"]:
            for t, a in enumerate(a2):
                if a == old:
                    a2[t] = new
    else:
        ax.append(None)
    c["malformed"] = True
    return c


def _inputs_variant(c, rng):
    """Variants of the INPUTS of a request (kind "auto": construction + input validation + run are modelled):
    non-conforming ones (a missing root argument, a surplus input, an input for a bound parameter, a 2-d input passed
    as nested lists: ValueError before anything runs) and conforming ones that exercise the resolution order of
    _func_kwargs (an input supplied for a parameter that also has a default: the input wins)."""
    import copy
    c = copy.deepcopy(c)
    if c.get("kind") != "auto":
        c["kind"] = "auto"
        c["order"] = list(range(len(c["funcs"])))
        if rng.random() < 0.3:
            rng.shuffle(c["order"])
    arrays2 = [kv for kv in c["inputs"] if isinstance(kv[1], dict) and len(kv[1]["sh"]) >= 2]
    bound = [b[0] for f in c["funcs"] for b in f.get("bound") or []]
    dflt = [d[0] for f in c["funcs"] for d in f.get("defaults") or []]
    # rank-1 root arrays that some MapSpec indexes (mapped root arguments)
    mapped = {n for f in c["funcs"] if f.get("spec") for n, ax in f["spec"]["i"] if any(a is not None for a in ax)}
    arrays1 = [kv for kv in c["inputs"] if isinstance(kv[1], dict) and len(kv[1]["sh"]) == 1 and kv[0] in mapped]
    kinds = ["missing", "extra"] + (["list2d"] * 2 if arrays2 else []) + (["bound_supplied"] * 2 if bound else []) \
        + (["default_supplied"] * 3 if dflt else []) + (["mapped_default"] * 5 if arrays1 else [])
    k = rng.choice(kinds)
    if k == "missing" and c["inputs"]:
        c["inputs"].pop(rng.randrange(len(c["inputs"])))
    elif k == "extra":
        c["inputs"].append(["zz_extra", "ZZ"])
    elif k == "list2d":
        rng.choice(arrays2)[1]["as"] = "list"
    elif k == "bound_supplied":
        p = rng.choice(bound)
        c["inputs"].append([p, p.upper() + "inp"])
    elif k == "default_supplied":
        p = rng.choice(dflt)
        c["inputs"].append([p, p.upper() + "inp"])
    elif k == "mapped_default":
        # a MAPPED root argument that has an (array-valued, list) default AND is supplied: the input wins, for the
        # values and for the shapes alike - whatever the length of the default (shorter / longer / equal)
        name, v = rng.choice(arrays1)
        n = v["sh"][0]
        m = rng.choice(([n - 1] if n > 1 else []) + [n + 1, n + 2, n])
        d = {"sh": [m], "d": [f"{name}d_{t}" for t in range(m)], "as": "list"}
        for f in c["funcs"]:
            if name in f["params"] and name not in [b[0] for b in f.get("bound") or []]:
                f.setdefault("defaults", []).append([name, d])
        k = "mapped_default_" + ("shorter" if m < n else "longer" if m > n else "equal")
    c["variant"] = k
    return c


def _est_strlen(c):
    """Rough upper estimate of the longest string an observation of this request contains (an element value embeds
    the rendering of every argument; whole-array arguments of whole-array arguments multiply).  Requests beyond a few
    thousand characters are dropped: coqc overflows its stack on string literals of some 30 KB."""
    def prod(l):
        n = 1
        for d in l:
            n *= d
        return n
    shape, elen = {}, {}
    for name, v in c["inputs"]:
        if isinstance(v, dict):
            shape[name], elen[name] = list(v["sh"]), max([len(x) for x in v["d"]] or [1])
        else:
            shape[name], elen[name] = [], len(v)
    worst = 0
    for f in c["funcs"]:
        sp = f.get("spec")
        ins = {n: ax for n, ax in sp["i"]} if sp else {}
        a = len(f["name"]) + 2
        for p in f["params"]:
            if p not in elen:
                a += len(p) + 16
            elif p in ins and len(ins[p]) == len(shape[p]):
                a += len(p) + 5 + (elen[p] + 3) * prod([d for d, ax in zip(shape[p], ins[p]) if ax is None])
            else:
                a += len(p) + 5 + (elen[p] + 3) * prod(shape[p])
        ret = list(f.get("ret") or f.get("int") or [])
        e = a + (8 + max(len(o) for o in f["outs"]) if len(f["outs"]) > 1 else 0) + (8 + 3 * len(ret) if ret else 0) + 3
        if sp and sp["o"]:
            dims, k = [], 0
            for ax in sp["o"][0][1]:
                d = next((shape[n][q] for n, axs in sp["i"] if n in shape and len(axs) == len(shape[n])
                          for q, x in enumerate(axs) if x == ax), None)
                if d is None:
                    d = ret[k] if k < len(ret) else 1
                    k += 1
                dims.append(d)
        else:
            dims = ret
        for o in f["outs"]:
            shape[o], elen[o] = dims, e
        worst = max(worst, e)
    return worst


def _small(c):
    return mapgen.request_size(c) <= 40 and _est_strlen(c) <= 5000


def generate(rng, tier, mult):
    n = (220 if tier == "quick" else 4000) * mult
    n_auto = (110 if tier == "quick" else 2000) * mult
    out = []
    while len(out) < n:
        c = mapgen.gen_request(rng, allow_zero_ext=True, allow_wrap=True)
        if _small(c):
            if any(f.get("wrap") for f in c["funcs"]):   # wrapped functions are modelled by the CAuto kind only
                c["kind"] = "auto"
                c["order"] = list(range(len(c["funcs"])))
            out.append(c)
    k = 0
    while k < n_auto:
        c = mapgen.gen_request(rng, allow_zero_ext=True, allow_wrap=True)
        if not _small(c):
            continue
        u = mapgen.to_user_level(c, rng)
        if u is None:
            continue
        if rng.random() < 0.2:
            u = _conflict(u, rng) or u
        out.append(u)
        k += 1
    n_var = (60 if tier == "quick" else 1200) * mult
    k = 0
    while k < n_var:
        c = mapgen.gen_request(rng, allow_zero_ext=True, allow_wrap=True)
        if not _small(c):
            continue
        if rng.random() < 0.3:
            c = mapgen.to_user_level(c, rng) or c
        out.append(_inputs_variant(c, rng))
        k += 1
    return out


def _nontrivial(c):
    for f in c["funcs"]:
        sp = f.get("spec")
        if sp and (len(sp["o"][0][1]) >= 2 or any(a is None for _, ax in sp["i"] for a in ax) or f.get("ret")):
            return True
    return False


def nontrivial_key(c):
    if not _nontrivial(c):
        return None
    if c.get("kind") == "auto":
        return ("auto", [mapsym.spec_str(f.get("spec")) for f in c["funcs"]], [f.get("wrap") for f in c["funcs"]], c["order"],
                [v["sh"] if isinstance(v, dict) else 0 for _, v in c["inputs"]], c.get("storage"))
    return ([mapsym.spec_str(f.get("spec")) for f in c["funcs"]],
            [v["sh"] if isinstance(v, dict) else 0 for _, v in c["inputs"]], c.get("storage"))


def distribution(c):
    kinds = sorted({"map" if (f.get("spec") and f["spec"]["i"]) else ("gen" if f.get("spec") else "single")
                    for f in c["funcs"]})
    def zero_ext(f):
        sp = f.get("spec")
        return bool(sp and sp["i"] and not any(a is not None for _, ax in sp["i"] for a in ax))
    return {"nfuncs": len(c["funcs"]), "kinds": "+".join(kinds), "storage": c.get("storage"),
            "case": ("inputs-" + c["variant"] if c.get("variant") else
                     "auto-malformed" if c.get("malformed") else "auto") if c.get("kind") == "auto" else "explicit",
            "auto_tuple": any(f.get("stripped") and len(f["outs"]) > 1 for f in c["funcs"]),
            "auto_colon": any(f.get("spec") and any(n in {o for g in c["funcs"] if g.get("stripped") for o in g["outs"]}
                                                    and None in ax for n, ax in f["spec"]["i"]) for f in c["funcs"]),
            "permuted": c.get("order") is not None and c["order"] != sorted(c["order"]),
            "zero_ext": any(zero_ext(f) for f in c["funcs"]),
            "wrapped": "+".join(sorted({f["wrap"] for f in c["funcs"] if f.get("wrap")})) or "-",
            # a ':' axis on the output of a wrapped MAPPED function (storage slicing of sequence-valued elements)
            "wrapped_partial_reduce": any(
                g.get("spec") and any(None in ax and any(a is not None for a in ax) and n in {
                    o for f in c["funcs"] if f.get("wrap") and f.get("spec") and f["spec"]["i"] for o in f["outs"]}
                    for n, ax in g["spec"]["i"]) for g in c["funcs"]),
            "internal_first": any(f.get("ret") and f.get("spec") and f["spec"]["i"] and
                                  f["spec"]["o"][0][1][0] not in {a for _, ax in f["spec"]["i"] for a in ax}
                                  for f in c["funcs"])}


def finding_id(c, impl_obs, kind):
    return None


def shrink(c):
    out = []
    fs = c["funcs"]
    for j in range(len(fs) - 1, -1, -1):
        produced = set(fs[j]["outs"])
        if any(produced & set(g["params"]) for g in fs[j + 1:]):
            continue
        d = json.loads(json.dumps(c))
        d["funcs"] = fs[:j] + fs[j + 1:]
        if d.get("order") is not None:
            d["order"] = [i - (i > j) for i in d["order"] if i != j]
        used = {p for g in d["funcs"] for p in g["params"]}
        d["inputs"] = [kv for kv in d["inputs"] if kv[0] in used]
        if d["funcs"]:
            out.append(d)
    for st in ("dict",):
        if c.get("storage") != st:
            d = json.loads(json.dumps(c))
            d["storage"] = st
            out.append(d)
    return out
