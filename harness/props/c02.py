"""C02 - Calling a pipeline equals composing its functions along the DAG."""
from __future__ import annotations

import itertools

from .. import pipegen
from ..coqlit import Err, Ok, cbool, clist, cnat, cpair, cstr
from ..symfuncs import canon

PROP = "C02"
RUN = "Run_C02"
THEOREMS = "Props/C02.v"
ANCHORS = [("pipefunc/_pipeline/_base.py",
            ["Pipeline.run", "Pipeline._run", "Pipeline._get_func_args", "Pipeline.__call__", "Pipeline.func",
             "Pipeline.output_to_func", "Pipeline.node_mapping", "Pipeline.graph", "Pipeline.defaults",
             "Pipeline.arg_combinations", "Pipeline.root_args", "Pipeline.func_dependencies",
             "_update_all_results", "_execute_func", "_compute_arg_mapping", "_names", "_unique", "_sort_key",
             "_filter_funcs", "_traverse_graph", "_PipelineAsFunc"]),
           ("pipefunc/_pipefunc.py", ["PipeFunc.__call__", "PipeFunc.defaults", "PipeFunc.parameters",
                                      "PipeFunc.output_picker", "_default_output_picker"])]
RULE = ("random acyclic pipelines of 1..6 structural functions (nullary, tuple-output, functions and tuple members that "
        "return None, diamonds over a None value, shared parameters, signature "
        "and explicit defaults, bound values also for names produced by other functions, parameter renames) x every "
        "listing order (<=4 functions, else 4) x every output x every element of arg_combinations(output) + random "
        "cuts with surplus / missing keywords x entry point (pipeline(...), run(full_output=..), func(o)(..), "
        "call_full_output, call_with_root_args) + arg_combinations/root_args themselves + random digraphs "
        "(incl. cyclic) against networkx; non-trivial = pipeline with >= 2 needed functions or a tuple output or "
        "a bound/default/renamed parameter; distinct by (pipeline, output, keywords, flag)")
ASSUMPTIONS = ["values are strings (structural bodies); user functions do not raise in the generated cases",
               "un-scoped parameter names; no MapSpecs; no cache; requests for single output names only",
               "function names are distinct (they identify calls in the log)"]
TRUSTED = ["Model/Pipe.v mirrors Pipeline.run/_run/_get_func_args/_update_all_results/arg_combinations by hand; "
           "tie = per-run differential execution", "harness/symfuncs.py (structural bodies, call log)",
           "Base/Graph.v vs networkx: compared on random digraphs on every run"]


# ------------------------------------------------------------------ Coq literals
def _graph_lit(g):
    return ("{| nodes := " + clist([cstr(n) for n in g["nodes"]]) + "; edges := "
            + clist([cpair(cstr(a), cstr(b)) for a, b in g["edges"]]) + " |}")


def emit_case(c) -> str:
    k = c["kind"]
    if k == "run":
        return (f"(CRun {pipegen.pipeline_lit(c['p'])} {cstr(c['o'])} {pipegen.alist_lit(c['kw'])} "
                f"{cbool(c['full'])} {cnat(c['entry'])})")
    if k == "args":
        return f"(CArgs {pipegen.pipeline_lit(c['p'])} {cstr(c['o'])})"
    if k == "rootcall":
        return f"(CRootCall {pipegen.pipeline_lit(c['p'])} {cstr(c['o'])} {clist([cstr(canon(v)) for v in c['vals']])})"
    if k == "graph":
        return f"(CGraph {_graph_lit(c['g'])})"
    raise ValueError(k)


# ------------------------------------------------------------------ implementation driver
def _res(f):
    try:
        return Ok(f())
    except Exception as e:  # noqa: BLE001
        return Err(e)


def _dict_obs(d):
    return [[k, canon(v)] for k, v in sorted(d.items())]


def run_impl(c):
    k = c["kind"]
    if k == "graph":
        return _graph_impl(c["g"])
    try:
        b = pipegen.build_cached(c["p"])
    except Exception:  # noqa: BLE001
        return ["bad-case"]
    pl, log = b.pipeline, b.log
    o = c["o"]
    if k == "args":
        return [_res(lambda: sorted([list(t) for t in pl.arg_combinations(o)])),
                _res(lambda: list(pl.root_args(o)))]
    if k == "rootcall":
        r = _res(lambda: pl.func(o).call_with_root_args(*c["vals"]))
        if isinstance(r, Ok):
            r = Ok(canon(r.v))
        return [r, log.read()]
    kw = dict(c["kw"])
    full, entry = c["full"], c["entry"]
    if entry == 0:
        assert not full
        r = _res(lambda: pl(o, **kw))
    elif entry == 1:
        r = _res(lambda: pl.run(o, full_output=full, kwargs=kw))
    else:
        r = _res(lambda: pl.func(o).call_full_output(**kw) if full else pl.func(o)(**kw))
    if isinstance(r, Ok):
        r = Ok(_dict_obs(r.v)) if full else Ok(canon(r.v))     # a value may be None (canonical string "None")
    return [r, log.read()]


def _graph_impl(g):
    import networkx as nx

    G = nx.DiGraph()
    G.add_nodes_from(g["nodes"])
    G.add_edges_from([tuple(e) for e in g["edges"]])
    try:
        topo = ["ok", [sorted(layer) for layer in nx.topological_generations(G)]]
    except nx.NetworkXUnfeasible:
        topo = "cycle"
    return [topo, [[n, sorted(nx.descendants(G, n)), sorted(nx.ancestors(G, n))] for n in g["nodes"]]]


# ------------------------------------------------------------------ generator
def _gen_graph(rng):
    n = rng.randint(0, 6)
    nodes = [f"n{i}" for i in range(n)]
    edges = []
    dag = rng.random() < 0.6
    for i in range(n):
        for j in range(n):
            if dag and j <= i:
                continue
            if rng.random() < (0.35 if dag else 0.18):
                edges.append([nodes[i], nodes[j]])
    perm = list(nodes)
    rng.shuffle(perm)
    rng.shuffle(edges)
    return {"nodes": perm, "edges": edges}


def calls_for(rng, pd, o, budget):
    """Keyword sets for output o: every arg combination + random cuts, surplus and missing keywords."""
    try:
        pl = pipegen.build_cached(pd, slot="gen").pipeline
        combos = sorted(pl.arg_combinations(o))
    except Exception:  # noqa: BLE001
        combos = []
    outs = pipegen.outputs_of(pd)
    roots = pipegen.root_names(pd)
    universe = roots + [x for x in outs if x != o]
    kws = []
    for cmb in combos:
        kws.append(("combo", list(cmb)))
    rootc = [list(c) for c in combos if all(n not in outs for n in c)]
    prod = {x: f for f in pd["funcs"] for x in f["outs"]}
    needed, stack = [], [o]
    while stack:                                   # functions o depends on (through unbound parameters)
        f = prod.get(stack.pop())
        if f is not None and f not in needed:
            needed.append(f)
            stack += [c for c, _ in f["params"] if c not in f["bound"]]
    read = {c for f in needed for c, _ in f["params"] if c not in f["bound"]}
    for f in needed:
        if len(f["outs"]) > 1 and rootc:          # supply a strict part of a tuple function's outputs
            used = [x for x in f["outs"] if x in read and x != o]
            others = [x for x in f["outs"] if x == o or x in read]
            if used and len(others) > 1:
                part = rng.sample(used, rng.randint(1, len(used)))
                if len(part) == len(others):
                    part = part[:-1]
                if part:
                    kws.append(("partial-tuple", list(rootc[0]) + part))
    for _ in range(budget):
        r = rng.random()
        base = list(rng.choice(combos)) if combos and rng.random() < 0.8 else rng.sample(universe, rng.randint(0, len(universe)))
        if r < 0.3 and universe:      # surplus keyword
            extra = rng.choice(universe + ["q", "fresh", o])
            if extra not in base:
                base.append(extra)
            kws.append(("surplus", base))
        elif r < 0.5 and base:        # missing keyword
            base.pop(rng.randrange(len(base)))
            kws.append(("missing", base))
        elif r < 0.75 and universe:   # supply an additional intermediate / replace a root by nothing
            extra = rng.choice(universe)
            if extra not in base:
                base.append(extra)
            kws.append(("cut", base))
        else:
            kws.append(("random", base))
    out = []
    for tag, names in kws:
        names = list(dict.fromkeys(names))
        rng.shuffle(names)
        out.append((tag, [[n, pipegen.value_for(rng, n, allow_none=True)] for n in names]))
    return out


def generate(rng, tier, mult):
    n_pipes = (40 if tier == "quick" else 400) * mult
    cases = []
    n_diamonds = (8 if tier == "quick" else 80) * mult
    for k in range(n_pipes + n_diamonds):
        if k < n_diamonds:      # a value that is None with >= 2 consumers (memoisation must not depend on the value)
            base = pipegen.gen_none_diamond(rng)
        else:
            base = pipegen.gen_pipeline(rng, none_prob=rng.choice([0.0, 0.0, 0.2, 0.4]))
        orders = pipegen.listing_orders(rng, base)
        if tier == "quick" and len(orders) > 4:
            orders = [orders[0]] + rng.sample(orders[1:], 3)
        elif len(orders) > 8:
            orders = [orders[0]] + rng.sample(orders[1:], 7)
        outs = pipegen.outputs_of(base)
        plan = {o: calls_for(rng, base, o, budget=2 if tier == "quick" else 4) for o in outs}
        for oi, pd in enumerate(orders):
            for o in outs:
                if oi == 0 or rng.random() < 0.5:
                    cases.append({"kind": "args", "p": pd, "o": o})
                for tag, kw in plan[o]:
                    if oi > 0 and rng.random() < 0.6:
                        continue                     # every call on the first order, a sample on the others
                    entry = rng.choice([0, 1, 1, 2, 2])
                    full = entry != 0 and rng.random() < 0.5
                    cases.append({"kind": "run", "p": pd, "o": o, "kw": kw, "full": full, "entry": entry, "tag": tag})
            if oi == 0:
                o = rng.choice(outs)
                try:
                    ra = list(pipegen.build_cached(pd, slot="gen").pipeline.root_args(o))
                except Exception:  # noqa: BLE001
                    ra = []
                vals = [pipegen.value_for(rng, n) for n in ra]
                if rng.random() < 0.15:
                    vals = vals[:-1] if vals and rng.random() < 0.5 else vals + ["extra"]
                cases.append({"kind": "rootcall", "p": pd, "o": o, "vals": vals})
                # requests for names that are not outputs
                bad = rng.choice(pipegen.root_names(base) + ["nope"])
                cases.append({"kind": "run", "p": pd, "o": bad, "kw": [], "full": False, "entry": 1, "tag": "badout"})
                cases.append({"kind": "args", "p": pd, "o": bad})
    for _ in range((60 if tier == "quick" else 2000) * mult):
        cases.append({"kind": "graph", "g": _gen_graph(rng)})
    return cases


def nontrivial_key(c):
    if c["kind"] == "graph":
        return ("graph", c["g"]) if len(c["g"]["edges"]) >= 2 else None
    fs = c["p"]["funcs"]
    rich = (len(fs) >= 2 or any(len(f["outs"]) > 1 or f["bound"] or f["defs"] or f["sigd"]
                                or any(a != b for a, b in f["params"]) for f in fs))
    if not rich:
        return None
    return (c["kind"], c["p"], c["o"], c.get("kw"), c.get("full"), c.get("vals"))


def distribution(c):
    d = {"kind": c["kind"]}
    if c["kind"] != "graph":
        d["nfuncs"] = len(c["p"]["funcs"])
    if c["kind"] == "run":
        d["tag"] = c.get("tag", "")
        d["entry"] = f"{c['entry']}{'F' if c['full'] else ''}"
    return d


def finding_id(c, impl_obs, kind):
    return None


def shrink(c):
    out = []
    if c["kind"] == "graph":
        g = c["g"]
        for j in range(len(g["edges"])):
            out.append({"kind": "graph", "g": {"nodes": g["nodes"], "edges": g["edges"][:j] + g["edges"][j + 1:]}})
        return out
    fs = c["p"]["funcs"]
    for j in range(len(fs)):
        d = dict(c)
        d["p"] = {"funcs": fs[:j] + fs[j + 1:]}
        out.append(d)
    if c["kind"] == "run":
        for j in range(len(c["kw"])):
            d = dict(c)
            d["kw"] = c["kw"][:j] + c["kw"][j + 1:]
            out.append(d)
    for j, f in enumerate(fs):
        for key in ("bound", "defs", "sigd"):
            for k in list(f[key]):
                f2 = dict(f)
                f2[key] = {a: b for a, b in f[key].items() if a != k}
                d = dict(c)
                d["p"] = {"funcs": fs[:j] + [f2] + fs[j + 1:]}
                out.append(d)
    return out
