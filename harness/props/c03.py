"""C03 - Map results and call counts are independent of executor, storage and schedule.

Case (JSON) = one request with a bundle of runs (one literal of the request and one string table per bundle keeps
the Coq literals small; model and implementation are compared for EACH run):
  {"req":   a structural map request (harness/mapsym.py format; its "storage" entry is ignored here; a function with
            "nullable": true returns a real None -- canonical string "None" -- for some calls, see make_callable),
   "gens":  [[position in req.funcs, ...], ...]   generation structure of the REAL pipeline (submission order),
   "resume": [{"pre": [part | None, ...], "fx": part | None, "run": <run>}]   runs on an existing store: the folder is
            pre-filled by sequential map(fixed_indices=part, cleanup=first only) runs, the observed run uses
            cleanup=False and fixed_indices=fx (part = [[axis, int | ["s", a, b, c]], ...] as in harness/props/c06.py),
   "runs":  [{"pis":  [[slot, ...], ...]           one execution order per generation (controlled executor),
              "eager": [[slot, ...], ...]          optional: slots that start at submission time (a prefix of pis),
              "stor": {function name: storage id}, "stor_form": "str" | "each" | "default",
              "exec": "ctl" | "thread" | "process" | "default", "exec_form": "single" | "each" | "default",
              "entry": "map" | "async", "seed": int (per-call delays in the real-pool modes),
              "folder": bool (False: run_folder=None, only with dict storage)}, ...]}
Observation: [sorted table of all distinct strings, distinct output blocks, [run observation, ...]] with
  output block    = [[Result.output, live store, value re-opened from the run folder AFTER the run (load_outputs on
                     fresh storage objects; = live store when run_folder=None)] per output]
  run observation = [1, index of its output block, log, dumps] | Err(class);
                    a run that does not finish within TIMEOUT seconds is Err("Timeout");
  values = [0, string index] | [1, shape, [string index ...]];
  log    = string indices of "f(p=<canon>,...)" per invocation: raw execution order under the controlled executor,
           otherwise the canonical form (maximal runs of calls of one generation, each run sorted);
  dumps  = dump_code(output position, key, 1 if dumped while a task ran else 0) per StorageBase.dump: raw order
           (controlled), sorted (thread pools), [] (process pools: the workers' dumps are not visible to the recorder).
"""
from __future__ import annotations

import asyncio
import contextlib
import inspect
import io
import itertools
import json
import math
import os
import random
import tempfile
import threading
import time
from concurrent.futures import Executor, Future, ProcessPoolExecutor, ThreadPoolExecutor

from .. import mapgen, mapsym
from ..coqlit import Err, cbool, clist, cstr

PROP = "C03"
RUN = "Run_C03"
THEOREMS = "Props/C03.v"
ANCHORS = [
    ("pipefunc/map/_run.py", ["run_map", "run_map_async", "_run_and_process_generation",
                              "_run_and_process_generation_async", "_submit_generation", "_submit_func",
                              "_prepare_submit_map_spec", "_maybe_parallel_map", "_maybe_execute_single", "_submit",
                              "_process_generation", "_process_generation_async", "_process_task", "_process_task_async",
                              "_output_from_mapspec_task", "_update_array", "_update_result_array",
                              "_run_iteration_and_process", "_execute_single", "_dump_single_output",
                              "_executor_for_func", "_maybe_executor", "_func_kwargs", "_existing_and_missing_indices",
                              "_result", "_result_async"]),
    ("pipefunc/map/_prepare.py", ["prepare_run", "_check_parallel", "_cannot_be_parallelized"]),
    ("pipefunc/map/_storage_array/_dict.py", ["DictArray.dump", "DictArray.dump_in_subprocess",
                                              "SharedMemoryDictArray.dump_in_subprocess"]),
    ("pipefunc/map/_storage_array/_file.py", ["FileArray.dump", "FileArray.dump_in_subprocess"]),
]
RULE = ("random valid map requests (DAGs of 1..4 structural functions, generators, reductions, tuple outputs, internal "
        "axes at any position, scalar functions returning a real None for some indices; plus fixed 'None chains' x -> y "
        "(None for some i) -> z element-wise) x { controlled executor: every permutation of the submitted tasks of each "
        "generation with <= 4 tasks (others: random permutations), sync and async entry point; real thread pools with "
        "per-call delays; real process pools (quick: on the None chains for every storage and on a few requests with "
        "shared_memory_dict; thorough: everywhere, plus the default executor); the data left in the run folder is "
        "re-opened after every run; runs on an existing store: complete folder / resume after fixed_indices parts / "
        "fixed_indices on an empty folder or after another part, under the controlled executor (incl. eager starts), "
        "thread pools and (chains, thorough) process pools; structural functions that raise for some calls (error "
        "class compared); fixed families on every seed: 'race' (thread pools with >= 3 workers and a slow disk over "
        "file_array intermediates that are read repeatedly: outer product, broadcast, two consumers) and 'stale folder' "
        "(partial folder left by fixed_indices runs or by a sequential run in which functions raised, then "
        "shared_memory_dict x real process pools, folder re-opened) } x { dict, file_array, shared_memory_dict, "
        "per-function mixes; executor single / per output / default+overrides }; non-trivial = a generation with >= 2 "
        "tasks executed in a non-submission order, or a real pool; distinct by (specs, shapes, storages, executor, "
        "entry, schedules)")
ASSUMPTIONS = [
    "a task executes atomically in the model: pre-emptive interleavings of two tasks inside worker threads/processes "
    "are not modelled (sampled by the real thread/process pool runs with injected delays)",
    "the manager process behind shared_memory_dict, pickling of tasks/results, the file system and OS scheduling are "
    "not modelled (sampled by the real-pool runs)",
    "a task that starts while later tasks of its generation are still being submitted is modelled as a task that runs "
    "first (the controlled executor's `eager` slots and the real pools exercise this interleaving with the parent's "
    "submission code)",
    "runs on an existing store (cleanup=False on a folder pre-filled by sequential fixed_indices runs, fixed_indices "
    "under an executor) are modelled by Model/ParResume.v on C06's Model/MapResume.v; torn / interrupted folders are C05",
    "user functions are deterministic and return arrays of the declared internal shape",
    "generation structure and order inside a generation are taken from the real pipeline (networkx) and validated as a "
    "layering inside Coq",
]
TRUSTED = ["Model/ParGen.v mirrors the generation loop of pipefunc/map/_run.py by hand (on top of Model/MapRun.v); "
           "Model/ParResume.v the same loop on an existing store (on top of Model/MapResume.v)",
           "harness/props/c03.py: controlled concurrent.futures.Executor, dump recorder (wrapping DictArray.dump / "
           "FileArray.dump), canonical log order",
           "harness/mapsym.py structural user functions and canonicalisation of arrays",
           "slow-disk injection: FileArray's `load` is delayed by 1-2 ms in the 'race' thread-pool runs (harness only)",
           "Corr/Resume_C03.store_of_trace: the folder left by a FAILED sequential run with storages that dump inside "
           "the task = the dumps of MapResume's trace up to the failure (compared with the real folder on every run)"]

TIMEOUT = 60.0
DIS = {"dict": False, "file_array": True, "shared_memory_dict": True}
STORAGES = ("dict", "file_array", "shared_memory_dict")


# ------------------------------------------------------------------ controlled executor
class Sched:
    """Collects submitted tasks.  Slots listed in `eager` (per generation) start as soon as they are submitted (while
    later tasks of the generation are still being submitted); the others run, in the order given for the batch, when
    a result is first needed."""

    def __init__(self, pis, eager=(), gen_of=None):
        self.cur = []
        self.pis = list(pis)
        self.eager = [set(e) for e in eager]
        self.gen_of = gen_of          # function name -> generation (a generation without tasks opens no batch)
        self.batches = []
        self.batch_gens = []
        self.in_task = False

    def _gen(self, entry):
        if self.gen_of is None or entry[5] not in self.gen_of:
            return len(self.batches)
        return self.gen_of[entry[5]]

    def _run(self, entry):
        fut, fn, args, kwargs = entry[:4]
        entry[4] = True
        self.in_task = True
        try:
            r = fn(*args, **kwargs)
        except BaseException as e:  # noqa: BLE001
            Future.set_exception(fut, e)
        else:
            Future.set_result(fut, r)
        finally:
            self.in_task = False

    def submit(self, fut, fn, args, kwargs):
        fut._batch = len(self.batches)
        slot = len(self.cur)
        entry = [fut, fn, args, kwargs, False, _task_name(fn, args)]
        self.cur.append(entry)
        g = self._gen(entry)
        if g < len(self.eager) and slot in self.eager[g]:
            self._run(entry)

    def run_batch(self, fut):
        """The parent asks for `fut`: if it belongs to the open batch, the submission of that generation is over."""
        if fut._batch != len(self.batches) or not self.cur or self.in_task:
            return
        batch, self.cur = self.cur, []
        g = self._gen(batch[0])
        self.batch_gens.append(g)
        pi = self.pis[g] if g < len(self.pis) else []
        n = len(batch)
        if sorted(pi) != list(range(n)):     # not a permutation of the slots: submission order (as Model/ParGen.order)
            pi = list(range(n))
        self.batches.append(n)
        for slot in pi:
            if not batch[slot][4]:
                self._run(batch[slot])


def _task_name(fn, args):
    """Name of the PipeFunc a submitted task belongs to (_run_iteration_and_process partial / _execute_single)."""
    kw = getattr(fn, "keywords", None)
    if kw and "func" in kw:
        return getattr(kw["func"], "__name__", None)
    if args:
        return getattr(args[0], "__name__", None)
    return None


class LazyFuture(Future):
    def __init__(self, sched):
        super().__init__()
        self._sched = sched
        self._batch = -1

    def result(self, timeout=None):
        self._sched.run_batch(self)
        return super().result(timeout)

    def exception(self, timeout=None):
        self._sched.run_batch(self)
        return super().exception(timeout)

    def add_done_callback(self, fn):      # asyncio.wrap_future (map_async) never calls result() on a pending future
        self._sched.run_batch(self)
        return super().add_done_callback(fn)


class CtlExecutor(Executor):
    def __init__(self, sched):
        self.sched = sched

    def submit(self, fn, /, *args, **kwargs):
        f = LazyFuture(self.sched)
        self.sched.submit(f, fn, args, kwargs)
        return f


# ------------------------------------------------------------------ pipeline construction (variant of mapsym.build_pipeline)
def _delay(seed, name, kw, k):
    return random.Random(f"{seed}:{k}:{name}:{sorted((p, mapsym.canon(v)) for p, v in kw.items())}").choice(
        [0.0, 0.0, 0.001, 0.003, 0.008])


def _with_delays(body, name, seed):
    def delayed(**kw):
        time.sleep(_delay(seed, name, kw, 0))
        r = body(**kw)
        time.sleep(_delay(seed, name, kw, 1))
        return r

    delayed.__signature__ = body.__signature__
    delayed.__name__ = body.__name__
    delayed.__qualname__ = body.__qualname__
    return delayed


def code_parity(x):
    """As Corr/Run_C03.code_parity: the sum of the character codes is even."""
    return sum(map(ord, x)) % 2 == 0


def make_callable(fd, log, pre_state=None):
    """Variant of mapsym.make_callable: a function with fd["nullable"] returns a real None instead of a scalar value
    whose text has an even sum of character codes (None is a perfectly valid element value)."""
    import numpy as np

    name, params, outs = fd["name"], fd["params"], fd["outs"]
    ish = tuple(fd.get("ret") if fd.get("ret") is not None else fd.get("int") or ())
    aslist = fd.get("intlist", False)
    nullable = bool(fd.get("nullable"))
    raises = bool(fd.get("raises"))
    state = pre_state          # {"on": bool, "names": [...]}: raise (same rule) only during the pre-filling run

    def body(**kw):
        app = name + "(" + ",".join(f"{p}={mapsym.canon(kw[p])}" for p in params) + ")"
        log.add(app)
        pre = state is not None and state["on"] and name in state["names"]
        if (raises or pre) and sum(map(ord, app)) % 3 == 0:     # as Corr/Run_C03.code_mod3
            msg = "structural failure"
            raise ZeroDivisionError(msg)

        def value(base):
            if not ish:
                return None if (nullable and code_parity(base)) else base
            a = np.empty(ish, dtype=object)
            for j in itertools.product(*map(range, ish)):
                a[j] = "elem(" + base + ";" + ",".join(map(str, j)) + ")"
            return a.tolist() if (aslist and len(ish) == 1) else a

        if len(outs) == 1:
            return value(app)
        return tuple(value(f"out({o};{app})") for o in outs)

    dflt = dict(fd.get("defaults") or [])
    body.__signature__ = inspect.Signature([
        inspect.Parameter(p, inspect.Parameter.POSITIONAL_OR_KEYWORD,
                          default=dflt.get(p, inspect.Parameter.empty)) for p in params])
    body.__name__ = name
    body.__qualname__ = name
    return body


def build_pipeline(req, log, delay_seed=None, pre_state=None):
    from pipefunc import PipeFunc, Pipeline

    funcs = []
    for fd in req["funcs"]:
        outs = fd["outs"]
        body = make_callable(fd, log, pre_state)
        if delay_seed is not None:
            body = _with_delays(body, fd["name"], delay_seed)
        funcs.append(PipeFunc(
            body,
            output_name=outs[0] if len(outs) == 1 else tuple(outs),
            mapspec=mapsym.spec_str(fd.get("spec")),
            internal_shape=tuple(fd["int"]) if fd.get("int") else None,
            bound=dict(fd.get("bound") or []) or None,
        ))
    return Pipeline(funcs)


def _oname(fd):
    return fd["outs"][0] if len(fd["outs"]) == 1 else tuple(fd["outs"])


def real_gens(p, req):
    names = [f["name"] for f in req["funcs"]]
    return [[names.index(f.__name__) for f in g] for g in p.topological_generations.function_lists]


def storage_arg(req, run):
    stor, form = run["stor"], run["stor_form"]
    if form == "str":
        return stor[req["funcs"][0]["name"]]
    if form == "each":
        return {_oname(fd): stor[fd["name"]] for fd in req["funcs"]}
    first = stor[req["funcs"][0]["name"]]
    d = {"": first}
    for fd in req["funcs"][1:]:
        if stor[fd["name"]] != first:
            d[_oname(fd)] = stor[fd["name"]]
    return d


def executor_arg(req, run, make):
    """make() creates an executor; returns (argument for executor=, list of created executors)."""
    form = run["exec_form"]
    if form == "single":
        ex = make()
        return ex, [ex]
    if form == "each":
        d = {_oname(fd): make() for fd in req["funcs"]}
        return d, list(d.values())
    d = {"": make()}
    for k, fd in enumerate(req["funcs"]):
        if k % 2 == 1:
            d[_oname(fd)] = make()
    return d, list(d.values())


# ------------------------------------------------------------------ dump recorder
def dump_code(o, key, w):
    """One integer per dump (as Corr/Run_C03.dump_code)."""
    acc = 1
    for k in key:
        acc = acc * 16 + int(k)
    return 2 * (o + 32 * acc) + w


class DumpRecorder:
    def __init__(self, is_worker, linear=False):
        self.events = []
        self.is_worker = is_worker
        self.linear = linear

    def __enter__(self):
        from pipefunc.map._storage_array._dict import DictArray
        from pipefunc.map._storage_array._file import FileArray

        self.saved = [(cls, cls.dump) for cls in (DictArray, FileArray)]
        rec = self

        def wrap(orig):
            def dump(self, key, value):
                rec.events.append((id(self), tuple(int(k) for k in key), 1 if rec.is_worker() else 0,
                                   tuple(int(x) for x in self.shape)))
                return orig(self, key, value)
            return dump

        for cls, orig in self.saved:
            cls.dump = wrap(orig)
        return self

    def __exit__(self, *a):
        for cls, orig in self.saved:
            cls.dump = orig

    def obs(self, req, results):
        outs = [o for f in req["funcs"] for o in f["outs"]]
        pos = {id(results[o].store): k for k, o in enumerate(outs) if o in results}
        if self.linear:   # runs on an existing store: 2 * (output + 32 * (1 + linear external index)), who not recorded
            import numpy as np

            return [2 * (pos.get(i, len(outs)) + 32 * (1 + (int(np.ravel_multi_index(key, sh)) if key else 0)))
                    for i, key, _, sh in self.events]
        return [dump_code(pos.get(i, len(outs)), key, w) for i, key, w, _ in self.events]


# ------------------------------------------------------------------ canonical log
def canon_log(c, lines):
    rank = {}
    for k, g in enumerate(c["gens"]):
        for pos in g:
            rank[c["req"]["funcs"][pos]["name"]] = k
    out, cur, r = [], [], None
    for ln in lines:
        re_ = rank.get(ln.split("(", 1)[0], len(c["gens"]))
        if cur and re_ != r:
            out += sorted(cur)
            cur = []
        cur.append(ln)
        r = re_
    return out + sorted(cur)


# ------------------------------------------------------------------ running the implementation
_POOL = {"p": None}


def _shared_process_pool():
    if _POOL["p"] is None:
        _POOL["p"] = ProcessPoolExecutor(max_workers=4)
    return _POOL["p"]


def _drop_process_pool():
    p, _POOL["p"] = _POOL["p"], None
    if p is not None:
        with contextlib.suppress(Exception):
            p.shutdown(wait=False, cancel_futures=True)


def _call_map(p, req, run, d, executor, cleanup=True, fixed=None):
    kw = dict(run_folder=d, internal_shapes=mapsym.internal_arg(req), storage=storage_arg(req, run), executor=executor,
              cleanup=cleanup, fixed_indices=fixed)
    inputs = mapsym.map_inputs(req)
    if run["entry"] == "map":
        return p.map(inputs, parallel=True, **kw)

    async def go():
        return await p.map_async(inputs, **kw).task

    return asyncio.run(go())


def _values(req, r, folder):
    """Per output [Result.output, live store, value re-opened from the run folder after the run]."""
    obs = mapsym.results_obs(req, r)
    names = [o for o, _, _ in obs]
    if folder is None:          # nothing was left on disk: the live store is all there is
        return [[a, b, b] for _, a, b in obs]
    from pipefunc.map import load_outputs

    loaded = load_outputs(*names, run_folder=folder)
    if len(names) == 1:
        loaded = [loaded]
    return [[a, b, mapsym.arr_obs(v)] for (_, a, b), v in zip(obs, loaded)]


_LAST = {}


@contextlib.contextmanager
def _slow_disk(seconds):
    """A slow disk: FileArray's element reads take `seconds` longer (widens the window in which several tasks of a
    thread pool read the same storage object at the same time; results must not depend on it)."""
    if not seconds:
        yield
        return
    import pipefunc.map._storage_array._file as F

    orig = F.load

    def slow_load(*a, **k):
        time.sleep(seconds)
        return orig(*a, **k)

    F.load = slow_load
    try:
        yield
    finally:
        F.load = orig


def _gen_of(c):
    return {c["req"]["funcs"][pos]["name"]: k for k, g in enumerate(c["gens"]) for pos in g}


def _run(c, run, resume=None):
    """One run of the real implementation: [values, log lines, dumps, sorted log of the pre-filling runs]
    (strings not yet interned).  resume = {"pre": [part | None, ...], "fx": part | None}: the run folder is first
    filled by sequential runs with these fixed_indices, the observed run then uses cleanup=False."""
    from . import c06

    req = c["req"]
    mode = run["exec"]
    lin = resume is not None
    with tempfile.TemporaryDirectory(prefix="verif_c03_", ignore_cleanup_errors=True) as tmp:
        log = mapsym.CallLog(os.path.join(tmp, "calls.log") if mode in ("process", "default") else None)
        pre_state = {"on": False, "names": list((resume or {}).get("prefail") or [])}
        p = build_pipeline(req, log, delay_seed=None if mode == "ctl" else run.get("seed", 0),
                           pre_state=pre_state if pre_state["names"] else None)
        if real_gens(p, req) != c["gens"]:
            return Err("GenerationMismatch")
        d = os.path.join(tmp, "run") if (run.get("folder", True) or lin) else None
        created = []
        mk = dict(cleanup=True, fixed=None)
        prelog = []
        if lin and pre_state["names"]:       # ONE full sequential run in which some calls raise
            pre_state["on"] = True
            try:
                p.map(mapsym.map_inputs(req), run_folder=d, internal_shapes=mapsym.internal_arg(req),
                      storage=storage_arg(req, run), parallel=False, cleanup=True)
            except ZeroDivisionError:
                pass
            finally:
                pre_state["on"] = False
            # either the SAME Pipeline object that just raised is run again (its PipeFuncs carry an ErrorSnapshot with
            # the raw function: it must still be serialisable for a process pool), or a new one as a later session
            # would build it
            if not resume.get("same_pipeline"):
                p = build_pipeline(req, log, delay_seed=None if mode == "ctl" else run.get("seed", 0),
                                   pre_state=pre_state)
            prelog = log.read()
            mk = dict(cleanup=False, fixed=None if resume["fx"] is None else c06._fixed(resume["fx"]))
        elif lin:
            for k, part in enumerate(resume["pre"]):
                p.map(mapsym.map_inputs(req), run_folder=d, internal_shapes=mapsym.internal_arg(req),
                      storage=storage_arg(req, run), parallel=False, cleanup=(k == 0),
                      fixed_indices=None if part is None else c06._fixed(part))
            prelog = log.read()
            mk = dict(cleanup=not resume["pre"], fixed=None if resume["fx"] is None else c06._fixed(resume["fx"]))
        n0 = len(prelog)
        prelog = sorted(prelog)
        try:
            if mode == "ctl":
                sched = Sched(run["pis"], run.get("eager") or (), _gen_of(c))
                _LAST["sched"] = sched
                ex, _ = executor_arg(req, run, lambda: CtlExecutor(sched))
                with DumpRecorder(lambda: sched.in_task, lin) as rec:
                    r = _call_map(p, req, run, d, ex, **mk)
                return [_values(req, r, d), log.read()[n0:], rec.obs(req, r), prelog]
            if mode == "thread":
                me = threading.get_ident()
                ex, created = executor_arg(req, run,
                                           lambda: ThreadPoolExecutor(max_workers=1 + run.get("seed", 0) % 4))
                with DumpRecorder(lambda: threading.get_ident() != me, lin) as rec, _slow_disk(run.get("slow_load")):
                    r = _call_map(p, req, run, d, ex, **mk)
                return [_values(req, r, d), canon_log(c, log.read()[n0:]),
                        sorted(rec.obs(req, r)), prelog]
            if mode == "process":
                k = itertools.count()

                def make():  # first executor: the shared process pool; further ones alternate thread / process
                    n = next(k)
                    if n % 2 == 0:
                        return _shared_process_pool()
                    t = ThreadPoolExecutor(max_workers=2)
                    created.append(t)
                    return t

                ex, _ = executor_arg(req, run, make)
                r = _call_map(p, req, run, d, ex, **mk)
            else:  # pipefunc's own default executor (ProcessPoolExecutor created by _maybe_executor)
                r = _call_map(p, req, run, d, None, **mk)
            return [_values(req, r, d), canon_log(c, log.read()[n0:]), [], prelog]
        finally:
            for e in created:     # wait: tasks still writing into the run folder must not race with its removal
                e.shutdown(wait=True, cancel_futures=True)


def _run_guarded(c, run, resume=None):
    box = {}

    def target():
        import warnings

        try:
            with warnings.catch_warnings():
                warnings.simplefilter("ignore")     # "Errors comparing keys and values" on object arrays (resume)
                box["r"] = _run(c, run, resume)
        except BaseException as e:  # noqa: BLE001
            box["r"] = Err(e)

    t = threading.Thread(target=target, daemon=True)
    with contextlib.redirect_stdout(io.StringIO()):   # pipefunc's own prints; restored even if the run hangs
        t.start()
        t.join(TIMEOUT)
    if t.is_alive():
        if run["exec"] == "process":
            _drop_process_pool()
        return Err("Timeout")
    return box.get("r", Err("NoResult"))


def _val_strings(v):
    return v[2] if v[0] == "arr" else ([v[1]] if v[0] == "val" else [])


def run_impl(c):
    raw, timeouts = [], 0
    for run, resume in [(r_, None) for r_ in c["runs"]] + [(s_["run"], s_) for s_ in c.get("resume") or []]:
        o = Err("Timeout") if timeouts >= 2 else _run_guarded(c, run, resume)
        if isinstance(o, Err) and o.name == "OtherError" and o.detail == "":
            timeouts += 1
        raw.append(o)
    strings = set()
    for o in raw:
        if not isinstance(o, Err):
            for vs in o[0]:
                for v in vs:
                    strings.update(_val_strings(v))
            strings.update(o[1])
            strings.update(o[3])
    table = sorted(strings)
    idx = {x: k for k, x in enumerate(table)}

    def enc(v):
        if v[0] == "arr":
            return [1, v[1], [idx[x] for x in v[2]]]
        if v[0] == "val":
            return [0, idx[v[1]]]
        return None

    blocks, out = [], []
    for o in raw:
        if isinstance(o, Err):
            out.append(o)
            continue
        vals = []
        for vs in o[0]:
            es = [enc(v) for v in vs]
            vals.append([] if any(e is None for e in es) else es)
        if vals not in blocks:
            blocks.append(vals)
        out.append([1, blocks.index(vals), [idx[x] for x in o[1]], o[2], [idx[x] for x in o[3]]])
    return [table, blocks, out]


# ------------------------------------------------------------------ generation of cases
def _request(rng):
    while True:
        req = mapgen.gen_request(rng)
        if mapgen.request_size(req) <= 30:
            req.pop("storage", None)
            for f in req["funcs"]:      # scalar-valued functions that return a real None for some calls
                mapped = bool(f.get("spec") and f["spec"]["i"])
                if not f.get("ret") and not f.get("int") and rng.random() < (0.35 if mapped else 0.15):
                    f["nullable"] = True
            if rng.random() < 0.12:     # a user function that raises for some calls: the error class must agree
                rng.choice(req["funcs"])["raises"] = True
            return req


def _none_chain(rng, reduce_ok=True):
    """x -> y (None for some indices) -> z consumed ELEMENT-WISE (-> optional reduction): the values a consumer is
    handed for complete elements that hold None must not depend on the storage backend."""
    rank = rng.choice([1, 1, 2])
    axes = ["i", "j"][:rank]
    sh = [rng.randint(2, 4) if rank == 1 else rng.randint(2, 3) for _ in axes]
    n = 1
    for d in sh:
        n *= d
    f = lambda name, outs, params, spec, **kw: dict(  # noqa: E731
        {"name": name, "outs": outs, "params": params, "spec": spec, "int": [], "bound": [], "defaults": []}, **kw)
    funcs = [f("f0", ["y0"], ["x0"], {"i": [["x0", axes]], "o": [["y0", axes]]}, nullable=True),
             f("f1", ["y1"], ["y0"], {"i": [["y0", axes]], "o": [["y1", axes]]}, nullable=rng.random() < 0.5)]
    if reduce_ok and rng.random() < 0.5:
        funcs.append(f("f2", ["y2"], ["y1", "y0"], None))
    return {"funcs": funcs, "internal": [],
            "inputs": [["x0", {"sh": sh, "d": [f"x0_{k}" for k in range(n)],
                               "as": "list" if rank == 1 and rng.random() < 0.5 else "nd"}]]}


def _fd(name, outs, params, spec, **kw):
    return dict({"name": name, "outs": outs, "params": params, "spec": spec, "int": [], "bound": [], "defaults": []}, **kw)


def _arr(name, sh, as_="nd"):
    n = 1
    for d in sh:
        n *= d
    return [name, {"sh": sh, "d": [f"{name}_{k}" for k in range(n)], "as": as_}]


def _outer_request(rng, small=False):
    """Two stored intermediates consumed as an OUTER PRODUCT (every element is read several times), optionally a second
    consumer of one of them in the same generation."""
    ni, nj = (2, 2) if small else (rng.randint(2, 3), rng.randint(2, 4))
    funcs = [_fd("f0", ["a"], ["x0"], {"i": [["x0", ["i"]]], "o": [["a", ["i"]]]}, nullable=rng.random() < 0.3),
             _fd("f1", ["b"], ["x1"], {"i": [["x1", ["j"]]], "o": [["b", ["j"]]]}),
             _fd("f2", ["z"], ["a", "b"], {"i": [["a", ["i"]], ["b", ["j"]]], "o": [["z", ["i", "j"]]]})]
    if not small and rng.random() < 0.6:
        funcs.append(_fd("f3", ["u"], ["a"], {"i": [["a", ["i"]]], "o": [["u", ["i"]]]}))
    return {"funcs": funcs, "internal": [],
            "inputs": [_arr("x0", [ni], rng.choice(["list", "nd"])), _arr("x1", [nj], rng.choice(["list", "nd"]))]}


def _broadcast_request(rng):
    """A stored intermediate a[i] broadcast along a second axis of a root input, plus a second consumer of a."""
    ni, nk = rng.randint(2, 3), rng.randint(2, 4)
    funcs = [_fd("f0", ["a"], ["x0"], {"i": [["x0", ["i"]]], "o": [["a", ["i"]]]}),
             _fd("f1", ["w"], ["a", "x1"], {"i": [["a", ["i"]], ["x1", ["i", "k"]]], "o": [["w", ["i", "k"]]]}),
             _fd("f2", ["u"], ["a"], {"i": [["a", ["i"]]], "o": [["u", ["i"]]]}, nullable=rng.random() < 0.3)]
    return {"funcs": funcs, "internal": [], "inputs": [_arr("x0", [ni], "list"), _arr("x1", [ni, nk])]}


def _plain_chain(rng):
    n = rng.randint(3, 5)
    funcs = [_fd("f0", ["y0"], ["x0"], {"i": [["x0", ["i"]]], "o": [["y0", ["i"]]]}),
             _fd("f1", ["y1"], ["y0"], {"i": [["y0", ["i"]]], "o": [["y1", ["i"]]]}, nullable=rng.random() < 0.3)]
    return {"funcs": funcs, "internal": [], "inputs": [_arr("x0", [n], rng.choice(["list", "nd"]))]}


def _uniform_run(rng, req, pis, storage, exec_, entry, seed=0, exec_form="single", **kw):
    return dict(pis=pis, stor={f["name"]: storage for f in req["funcs"]}, stor_form=rng.choice(["str", "each"]),
                exec=exec_, entry=entry, seed=seed, folder=True, exec_form=exec_form, **kw)


def _race_case(rng, req, reps):
    """Thread pools with >= 3 workers over file_array intermediates that are read repeatedly, on a slow disk."""
    gens, sizes = _probe(req)
    runs = []
    for k in range(reps):
        seed = 4 * rng.randrange(10 ** 5) + rng.choice([2, 3])        # 1 + seed % 4 workers: 3 or 4
        r_ = _uniform_run(rng, req, [], "file_array", "thread", rng.choice(["map", "map", "async"]), seed=seed,
                          exec_form=rng.choice(["single", "single", "each"]), slow_load=rng.choice([0.001, 0.002]))
        if k == reps - 1:      # the consumers on another backend, the intermediates stay file arrays
            last = req["funcs"][-1]["name"]
            r_["stor"] = dict(r_["stor"], **{last: rng.choice(["dict", "shared_memory_dict"])})
            r_["stor_form"] = "each"
        runs.append(r_)
    return {"req": req, "gens": gens, "runs": runs}


def _stale_folder_case(rng, req, thorough):
    """Runs on a PARTIAL folder (left by fixed_indices runs / by a run in which a function raised) with
    shared_memory_dict on a real process pool: what is in the folder afterwards is re-opened."""
    from . import c06

    gens, _ = _probe(req)
    scen = []
    good = sorted(set(c06.root_axes(req)) - c06.reduced_axes_py(req))
    parts, _ = c06.gen_parts(rng, req, good) if good else (None, None)
    if parts:
        scen.append((parts[:rng.randint(1, max(1, len(parts) - 1))], None, None))
    mapped = [f["name"] for f in req["funcs"] if f.get("spec") and f["spec"]["i"]]
    scen.append(([None], None, mapped if rng.random() < 0.6 else [rng.choice(mapped)]))
    resume = []
    for pre, fx, prefail in scen:
        try:
            sizes = _probe_resume(req, gens, pre, fx, prefail)
        except Exception:  # noqa: BLE001
            continue
        plan = [("process", "shared_memory_dict", "map"), ("process", "shared_memory_dict", "async"),
                ("ctl", rng.choice(["shared_memory_dict", "file_array"]), rng.choice(["map", "async"]))]
        if prefail:       # after a run that raised: also file_array on the process pool, both entry points
            plan += [("process", "file_array", "map"), ("process", "file_array", "async")]
        if thorough:
            plan.append(("thread", "shared_memory_dict", rng.choice(["map", "async"])))
        if thorough:
            plan += [("process", "file_array", "map"), ("default", "shared_memory_dict", "map")]
        flip = rng.randrange(2)
        for j, (exec_, storage, entry) in enumerate(plan):
            r_ = _uniform_run(rng, req, _random_pis(rng, sizes) if exec_ == "ctl" else [], storage, exec_, entry,
                              seed=rng.randrange(10 ** 6))
            # half of the runs after a raising run re-use the Pipeline object that raised, half build a new one;
            # (shared, map) and (file, async) get one choice, (shared, async) and (file, map) the other
            same = bool(prefail) and ((j + flip) % 2 == 0 if exec_ != "ctl" else rng.random() < 0.5)
            resume.append({"pre": pre, "fx": fx, "prefail": prefail or [], "same_pipeline": same, "run": r_})
    return {"req": req, "gens": gens, "runs": [], "resume": resume}


def _probe(req):
    """Generation structure of the real pipeline and the number of tasks submitted per generation."""
    log = mapsym.CallLog()
    sink = io.StringIO()
    with contextlib.redirect_stdout(sink):
        p = build_pipeline(req, log)
        gens = real_gens(p, req)
        sched = Sched([])
        run = {"stor": {f["name"]: "dict" for f in req["funcs"]}, "stor_form": "str", "entry": "map"}
        try:
            _call_map(p, req, run, None, CtlExecutor(sched))
        except ZeroDivisionError:     # a raising structural function: later generations are never submitted
            if not any(f.get("raises") for f in req["funcs"]):
                raise
    return gens, sched.batches + [0] * (len(gens) - len(sched.batches))


def _probe_resume(req, gens, pre, fx, prefail=None):
    """Number of tasks each generation submits in the observed run of a scenario on a pre-filled folder."""
    st = "file_array" if prefail else "dict"     # what a failed run leaves depends on dump_in_subprocess
    run = {"pis": [], "stor": {f["name"]: st for f in req["funcs"]}, "stor_form": "str", "entry": "map",
           "exec": "ctl", "exec_form": "single", "folder": True}
    import warnings

    with contextlib.redirect_stdout(io.StringIO()), warnings.catch_warnings():
        warnings.simplefilter("ignore")
        o = _run({"req": req, "gens": gens}, run, {"pre": pre, "fx": fx, "prefail": prefail})
    if isinstance(o, Err):
        raise RuntimeError(o.detail)
    sched = _LAST["sched"]
    sizes = [0] * len(gens)
    for n, g in zip(sched.batches, sched.batch_gens):
        sizes[g] = n
    return sizes


def _resume_scenarios(rng, req, k):
    """(pre-filling fixed_indices runs, fixed_indices of the observed run); None = a full run."""
    from . import c06

    scen = [([None], None)]                      # a complete folder: the observed run computes nothing
    axes = c06.root_axes(req)
    good = sorted(set(axes) - c06.reduced_axes_py(req))
    if good:
        parts, _ = c06.gen_parts(rng, req, good)
        if parts:
            scen.append((parts[:rng.randint(1, max(1, len(parts) - 1))], None))    # resume what is left
            scen.append(([], parts[0]))                                            # a part on an empty folder
            if len(parts) > 1:
                scen.append((parts[:1], parts[1]))                                 # a part after another part
    if len(scen) > k:
        scen = [scen[1]] + rng.sample([scen[0]] + scen[2:], k - 1)
    return scen


def _stor(rng, req, kind):
    if kind in STORAGES:
        return {f["name"]: kind for f in req["funcs"]}, rng.choice(["str", "str", "each", "default"])
    return ({f["name"]: rng.choice(["dict", "dict", "file_array", "file_array", "shared_memory_dict"])
             for f in req["funcs"]}, rng.choice(["each", "default"]))


def _perms(rng, n, k_random):
    if n <= 4:
        return [list(p) for p in itertools.permutations(range(n))]
    out = [list(range(n)), list(range(n - 1, -1, -1))]
    while len(out) < k_random:
        p = list(range(n))
        rng.shuffle(p)
        out.append(p)
    return out


def _random_pis(rng, sizes):
    pis = []
    for n in sizes:
        p = list(range(n))
        rng.shuffle(p)
        pis.append(p)
    return pis


MAX_RUNS = 40
KINDS = list(STORAGES) + ["mix"]
SWEEP_KINDS = ["dict", "dict", "file_array", "file_array", "mix", "mix", "shared_memory_dict"]  # (manager processes are slow)


def generate(rng, tier, mult):
    thorough = tier != "quick"
    n_req = (12 if not thorough else 120) * mult
    k_random = 4 if not thorough else 10
    cases = []
    n_chain = 2 if not thorough else 8
    n_proc_quick = 4          # quick: real process pools on the chains and on a few random requests
    n_resume = 8 if not thorough else n_req    # requests that also get runs on an existing store
    for q in range(n_chain + n_req):
        chain = q < n_chain
        req = _none_chain(rng, reduce_ok=(q % 2 == 1)) if chain else _request(rng)
        try:
            gens, sizes = _probe(req)
        except Exception:  # noqa: BLE001  (a request the sequential property C01 already reports)
            continue
        if len(sizes) != len(gens) or sum(sizes) > 40:
            continue

        def run(pis, stor_kind, exec_, entry, exec_form=None, seed=0):
            stor, sform = _stor(rng, req, stor_kind)
            folder = not (set(stor.values()) == {"dict"} and rng.random() < 0.5)   # run_folder=None: in-memory values
            return dict(pis=pis, stor=stor, stor_form=sform, exec=exec_, entry=entry, seed=seed, folder=folder,
                        exec_form=exec_form or rng.choice(["single", "single", "each", "default"]))

        runs = []
        # controlled executor: every completion order of one generation at a time
        sweep_kinds = SWEEP_KINDS if thorough else SWEEP_KINDS[:-1]   # quick: no all-shared-memory sweep (slow)
        kind0 = rng.choice(sweep_kinds)
        for g, n in enumerate(sizes):
            for perm in _perms(rng, n, k_random):
                if perm == list(range(n)) and g > 0:
                    continue
                pis = _random_pis(rng, sizes) if thorough else [list(range(m)) for m in sizes]
                pis[g] = perm
                runs.append(run(pis, kind0 if rng.random() < 0.7 else rng.choice(sweep_kinds), "ctl",
                                "map" if rng.random() < 0.75 else "async"))
        # tasks that start while the rest of their generation is still being submitted (effective order: the
        # eager slots in submission order, then the others as permuted)
        for _ in range(2 if not thorough else 4):
            pis, eager = [], []
            for n in sizes:
                e = sorted(rng.sample(range(n), rng.randint(0, n)))
                rest = [s_ for s_ in range(n) if s_ not in e]
                rng.shuffle(rest)
                eager.append(e)
                pis.append(e + rest)
            r_ = run(pis, rng.choice(sweep_kinds), "ctl", rng.choice(["map", "async"]))
            r_["eager"] = eager
            runs.append(r_)
        # every storage with all generations permuted, both entry points
        for st in KINDS:
            runs.append(run(_random_pis(rng, sizes), st, "ctl", rng.choice(["map", "async"])))
        # real thread pools with delays
        for st in rng.sample(KINDS, 2 if not thorough else 4):
            runs.append(run([], st, "thread", rng.choice(["map", "async"]), seed=rng.randrange(10 ** 6)))
        has_mapped = any(f.get("spec") and f["spec"]["i"] for f in req["funcs"])
        if chain:
            # the data left in the run folder by a process pool, for every storage (run folder always given)
            for st in KINDS:
                r_ = run([], st, "process", rng.choice(["map", "async"]), seed=rng.randrange(10 ** 6),
                         exec_form="single" if st != "mix" else None)
                r_["folder"] = True
                runs.append(r_)
        elif thorough:
            for st in rng.sample(KINDS, 2):
                runs.append(run([], st, "process", rng.choice(["map", "async"]), seed=rng.randrange(10 ** 6)))
        elif has_mapped and n_proc_quick > 0:
            n_proc_quick -= 1
            for st in ("shared_memory_dict", rng.choice(["dict", "file_array", "mix"])):
                r_ = run([], st, "process", rng.choice(["map", "async"]), seed=rng.randrange(10 ** 6))
                r_["folder"] = True
                runs.append(r_)
        if thorough:
            if rng.random() < 0.1:
                runs.append(run([], rng.choice(STORAGES), "default", rng.choice(["map", "async"]),
                                exec_form="single", seed=rng.randrange(10 ** 6)))
        for k in range(0, len(runs), MAX_RUNS):
            cases.append({"req": req, "gens": gens, "runs": runs[k:k + MAX_RUNS]})
        # runs on an existing store: pre-filled run folder (cleanup=False) and / or fixed_indices
        scen = _resume_scenarios(rng, req, 2 if not thorough else 4)
        rich = len(scen) > 1        # fixed_indices can be used on this request (an axis that is not reduced)
        if chain or (rich and n_resume > 0) or (not rich and rng.random() < 0.15):
            n_resume -= 1 if (rich and not chain) else 0
            resume = []
            for pre, fx in scen:
                try:
                    rsizes = _probe_resume(req, gens, pre, fx)
                except Exception:  # noqa: BLE001
                    continue
                execs = ["ctl", "ctl", "thread"] + (["process", "process"] if (thorough or chain) else [])
                for j, exec_ in enumerate(execs):
                    # a resumed process-pool run with shared_memory_dict: the storage must stay shared after load()
                    kind = ("shared_memory_dict" if j == 3 else rng.choice(KINDS if exec_ == "process" else sweep_kinds))
                    r_ = run(_random_pis(rng, rsizes) if exec_ == "ctl" else [], kind, exec_,
                             rng.choice(["map", "async"]), seed=rng.randrange(10 ** 6),
                             exec_form="single" if j == 3 else None)
                    r_["folder"] = True
                    if exec_ == "ctl" and j == 1:
                        eager = [sorted(rng.sample(range(n), rng.randint(0, n))) for n in rsizes]
                        r_["eager"] = eager
                        r_["pis"] = [e + [s_ for s_ in pi if s_ not in e] for e, pi in zip(eager, r_["pis"])]
                    resume.append({"pre": pre, "fx": fx, "run": r_})
            if resume:
                cases.append({"req": req, "gens": gens, "runs": [], "resume": resume})
    # fixed families (every seed, both tiers)
    for make in (_outer_request, _broadcast_request, _outer_request) * ((1 if not thorough else 2) * mult):
        with contextlib.suppress(Exception):
            cases.append(_race_case(rng, make(rng), 4 if not thorough else 8))
    for make in (_plain_chain, lambda r: _outer_request(r, small=True), _plain_chain) * ((1 if not thorough else 2) * mult):
        with contextlib.suppress(Exception):
            cases.append(_stale_folder_case(rng, make(rng), thorough))
    return cases


# ------------------------------------------------------------------ Coq literals
def _nats(l):
    return "[" + ";".join(str(int(k)) for k in l) + "]"


def emit_case(c) -> str:
    req = c["req"]
    runs = []
    for r in c["runs"]:
        mode = {"ctl": 0, "thread": 1}.get(r["exec"], 2)
        runs.append("{| r_pis := %s; r_dis := %s; r_mode := %d |}" % (
            clist([_nats(pi) for pi in r["pis"]]), clist([cbool(DIS[r["stor"][f["name"]]]) for f in req["funcs"]]), mode))
    none = clist([cstr(f["name"]) for f in req["funcs"] if f.get("nullable")])
    from . import c06

    def cfg(r):
        mode = {"ctl": 0, "thread": 1}.get(r["exec"], 2)
        return "{| r_pis := %s; r_dis := %s; r_mode := %d |}" % (
            clist([_nats(pi) for pi in r["pis"]]), clist([cbool(DIS[r["stor"][f["name"]]]) for f in req["funcs"]]), mode)

    def ofx(part):
        return "None" if part is None else "(Some %s)" % c06.fixed_lit(part)

    resume = clist(["{| s_pre := %s; s_fx := %s; s_cfg := %s; s_prefail := %s |}" % (
        clist([ofx(q) for q in s_["pre"]]), ofx(s_["fx"]), cfg(s_["run"]),
        clist([cstr(x) for x in s_.get("prefail") or []])) for s_ in c.get("resume") or []])
    fail = clist([cstr(f["name"]) for f in req["funcs"] if f.get("raises")])
    return ("{| q_funcs := %s; q_inputs := %s; q_internal := %s; q_gens := %s; q_runs := %s; q_none := %s; "
            "q_resume := %s; q_fail := %s |}") % (
        clist([mapgen.func_lit(f) for f in req["funcs"]]), mapgen._env(req["inputs"]),
        mapgen.shapes_lit(req.get("internal")), clist([_nats(g) for g in c["gens"]]), clist(runs), none, resume, fail)


# ------------------------------------------------------------------ evidence helpers
def _run_nontrivial(r):
    return r["exec"] != "ctl" or any(pi != list(range(len(pi))) for pi in r["pis"])


def nontrivial_key(c):
    if not (any(_run_nontrivial(r) for r in c["runs"]) or c.get("resume")):
        return None
    return ([[mapsym.spec_str(f.get("spec")), bool(f.get("nullable"))] for f in c["req"]["funcs"]],
            [v["sh"] if isinstance(v, dict) else 0 for _, v in c["req"]["inputs"]],
            [[sorted(r["stor"].items()), r["stor_form"], r["exec"], r["exec_form"], r["entry"], r["pis"],
              r.get("folder", True), r.get("eager")] for r in c["runs"]],
            [[s_["pre"], s_["fx"], s_.get("prefail"), bool(s_.get("same_pipeline")), s_["run"]["exec"], s_["run"]["pis"], sorted(s_["run"]["stor"].items())]
             for s_ in c.get("resume") or []])


def _bucket(n):
    for lo, hi in ((0, 0), (1, 1), (2, 4), (5, 9), (10, 19), (20, 40)):
        if lo <= n <= hi:
            return f"{lo}-{hi}"
    return ">40"


def distribution(c):
    runs = c["runs"] + [s_["run"] for s_ in c.get("resume") or []]
    d = {"runs_per_case": _bucket(len(runs)), "generations": len(c["gens"]),
         "max_gen_width": max(len(g) for g in c["gens"]),
         "max_tasks_in_generation": max([len(pi) for r in runs for pi in r["pis"]] or [0]),
         "nontrivial_runs": _bucket(sum(1 for r in runs if _run_nontrivial(r)))}
    for k in sorted({r["exec"] + "/" + r["entry"] for r in runs}):
        d["has " + k] = _bucket(sum(1 for r in runs if r["exec"] + "/" + r["entry"] == k))
    for k in sorted({"+".join(sorted(set(r["stor"].values()))) for r in runs}):
        d["has storage " + k] = "yes"
    for k in sorted({r["exec_form"] for r in runs}):
        d["has exec_form " + k] = "yes"
    for k in sorted({r["stor_form"] for r in runs}):
        d["has stor_form " + k] = "yes"
    if any(f.get("nullable") for f in c["req"]["funcs"]):
        d["has None-returning function"] = "yes"
    if any(f.get("raises") for f in c["req"]["funcs"]):
        d["has raising function"] = "yes"
    for k in sorted({r["exec"] + " x " + "+".join(sorted(set(r["stor"].values()))) for r in runs
                     if r["exec"] in ("process", "default")}):
        d["has " + k] = "yes"
    if any(any(r.get("eager") or []) for r in runs):
        d["has eager starts"] = "yes"
    if any(not r.get("folder", True) for r in runs):
        d["has run_folder=None"] = "yes"
    if any(r.get("slow_load") for r in runs):
        d["has slow-disk thread runs over file_array intermediates"] = _bucket(sum(1 for r in runs if r.get("slow_load")))
    for s_ in c.get("resume") or []:
        kind = (("after a raising run, same Pipeline object" if s_.get("same_pipeline") else
                 "after a raising run, new Pipeline object") if s_.get("prefail") else
                "complete folder" if s_["pre"] == [None] else
                ("resume after parts" if s_["fx"] is None else
                 ("fixed_indices on empty folder" if not s_["pre"] else "fixed_indices after a part")))
        d["existing store: " + kind + " / " + s_["run"]["exec"]] = "yes"
    return d


def finding_id(c, impl_obs, kind):
    return None


def shrink(c):
    out = []
    req = c["req"]
    if len(c["runs"]) > 1:
        half = len(c["runs"]) // 2
        out.append(dict(c, runs=c["runs"][:half]))
        out.append(dict(c, runs=c["runs"][half:]))
        return out
    res = c.get("resume") or []
    if res:
        if c["runs"]:
            return [dict(c, resume=[]), dict(c, runs=[])]
        if len(res) > 1:
            half = len(res) // 2
            return [dict(c, resume=res[:half]), dict(c, resume=res[half:])]
        s_ = res[0]
        if s_["run"]["exec_form"] != "single":
            out.append(dict(c, resume=[dict(s_, run=dict(s_["run"], exec_form="single"))]))
        if s_["run"]["entry"] != "map":
            out.append(dict(c, resume=[dict(s_, run=dict(s_["run"], entry="map"))]))
        if len(s_["pre"]) > 1:
            out.append(dict(c, resume=[dict(s_, pre=s_["pre"][:-1])]))
        return out
    if not c["runs"]:
        return out
    run = c["runs"][0]
    fs = req["funcs"]
    for j in range(len(fs) - 1, -1, -1):
        produced = set(fs[j]["outs"])
        if any(produced & set(g["params"]) for g in fs[:j] + fs[j + 1:]):
            continue
        r2 = json.loads(json.dumps(req))
        r2["funcs"] = fs[:j] + fs[j + 1:]
        if not r2["funcs"]:
            continue
        used = {p for g in r2["funcs"] for p in g["params"]}
        r2["inputs"] = [kv for kv in r2["inputs"] if kv[0] in used]
        outs = {o for g in r2["funcs"] for o in g["outs"]}
        r2["internal"] = [kv for kv in (r2.get("internal") or []) if kv[0] in outs]
        try:
            gens, sizes = _probe(r2)
        except Exception:  # noqa: BLE001
            continue
        run2 = dict(run, stor={f["name"]: run["stor"][f["name"]] for f in r2["funcs"]})
        run2["pis"] = [list(range(n - 1, -1, -1)) for n in sizes] if run["exec"] == "ctl" else []
        out.append({"req": r2, "gens": gens, "runs": [run2]})
    if len(set(run["stor"].values())) > 1 or run["stor_form"] != "str":
        for st in STORAGES:
            out.append(dict(c, runs=[dict(run, stor={f["name"]: st for f in fs}, stor_form="str")]))
    if run["exec_form"] != "single":
        out.append(dict(c, runs=[dict(run, exec_form="single")]))
    if run["entry"] != "map":
        out.append(dict(c, runs=[dict(run, entry="map")]))
    return out
