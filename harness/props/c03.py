"""C03 - Map results and call counts are independent of executor, storage and schedule.

Case (JSON):
  {"req":   a structural map request (harness/mapsym.py format; its "storage" entry is ignored here),
   "gens":  [[position in req.funcs, ...], ...]   generation structure of the REAL pipeline (submission order),
   "pis":   [[slot, ...], ...]                    one execution order per generation (controlled modes),
   "stor":  {function name: storage id}, "stor_form": "str" | "each" | "default",
   "exec":  "ctl" | "thread" | "process" | "default", "exec_form": "single" | "each" | "default",
   "entry": "map" | "async", "seed": int (per-call delays in the real-pool modes)}
Observation: ["ok", [[output, Result.output, stored]...], log, dumps] | Err(class) ; a run that does not finish within
TIMEOUT seconds is Err("Timeout").
  log   = [[function, "f(p=<canon>,...)"], ...]: raw execution order under the controlled executor, otherwise the
          canonical form (maximal runs of calls of one generation, each run sorted)
  dumps = [[output, "k1,k2", 1 if dumped while a task ran else 0], ...] of the storage arrays: raw order (controlled),
          sorted (thread pools), [] (process pools: the workers' dumps are not visible to the parent's recorder)
"""
from __future__ import annotations

import asyncio
import contextlib
import inspect
import io
import itertools
import json
import math
import os
import random
import tempfile
import threading
import time
from concurrent.futures import Executor, Future, ProcessPoolExecutor, ThreadPoolExecutor

from .. import mapgen, mapsym
from ..coqlit import Err, cbool, clist, cnat, cpair, cstr

PROP = "C03"
RUN = "Run_C03"
THEOREMS = "Props/C03.v"
ANCHORS = [
    ("pipefunc/map/_run.py", ["run_map", "run_map_async", "_run_and_process_generation",
                              "_run_and_process_generation_async", "_submit_generation", "_submit_func",
                              "_prepare_submit_map_spec", "_maybe_parallel_map", "_maybe_execute_single", "_submit",
                              "_process_generation", "_process_generation_async", "_process_task", "_process_task_async",
                              "_output_from_mapspec_task", "_update_array", "_update_result_array",
                              "_run_iteration_and_process", "_execute_single", "_dump_single_output",
                              "_executor_for_func", "_maybe_executor", "_func_kwargs", "_existing_and_missing_indices",
                              "_result", "_result_async"]),
    ("pipefunc/map/_prepare.py", ["prepare_run", "_check_parallel", "_cannot_be_parallelized"]),
    ("pipefunc/map/_storage_array/_dict.py", ["DictArray.dump", "DictArray.dump_in_subprocess",
                                              "SharedMemoryDictArray.dump_in_subprocess"]),
    ("pipefunc/map/_storage_array/_file.py", ["FileArray.dump", "FileArray.dump_in_subprocess"]),
]
RULE = ("random valid map requests (DAGs of 1..4 structural functions, generators, reductions, tuple outputs, internal "
        "axes after the mapped ones) x { controlled executor: every permutation of the submitted tasks of each "
        "generation with <= 4 tasks (others: random permutations), sync and async entry point; real thread pools with "
        "per-call delays; thorough: process pools and the default executor } x { dict, file_array, shared_memory_dict, "
        "per-function mixes; executor single / per output / default+overrides }; non-trivial = a generation with >= 2 "
        "tasks executed in a non-submission order, or a real pool; distinct by (specs, shapes, storages, executor, "
        "entry, schedules)")
ASSUMPTIONS = [
    "a task executes atomically in the model: pre-emptive interleavings of two tasks inside worker threads/processes "
    "are not modelled (sampled by the real thread/process pool runs with injected delays)",
    "the manager process behind shared_memory_dict, pickling of tasks/results, the file system and OS scheduling are "
    "not modelled (sampled by the real-pool runs)",
    "tasks that start while later tasks of the same generation are still being submitted are not modelled separately "
    "(the controlled executor starts a batch at the first Future.result()/add_done_callback of the generation)",
    "fresh run folder (no existing results: args.existing = []); resume is C05",
    "user functions are deterministic and return arrays of the declared internal shape; requests with an internal axis "
    "before a mapped axis are filtered out until the known normalize_key(for_dump=True) defect is repaired",
    "generation structure and order inside a generation are taken from the real pipeline (networkx) and validated as a "
    "layering inside Coq",
]
TRUSTED = ["Model/ParGen.v mirrors the generation loop of pipefunc/map/_run.py by hand (on top of Model/MapRun.v)",
           "harness/props/c03.py: controlled concurrent.futures.Executor, dump recorder (wrapping DictArray.dump / "
           "FileArray.dump), canonical log order",
           "harness/mapsym.py structural user functions and canonicalisation of arrays"]

TIMEOUT = 60.0
DIS = {"dict": False, "file_array": True, "shared_memory_dict": True}
STORAGES = ("dict", "file_array", "shared_memory_dict")


# ------------------------------------------------------------------ controlled executor
class Sched:
    """Collects submitted tasks; runs the pending batch in the order given for it when a result is first needed."""

    def __init__(self, pis):
        self.pending = []
        self.pis = list(pis)
        self.batches = []
        self.in_batch = False

    def run_batch(self):
        if not self.pending or self.in_batch:
            return
        batch, self.pending = self.pending, []
        pi = self.pis.pop(0) if self.pis else []
        n = len(batch)
        if sorted(pi) != list(range(n)):     # not a permutation of the slots: submission order (as Model/ParGen.order)
            pi = list(range(n))
        self.batches.append(n)
        self.in_batch = True
        try:
            for slot in pi:
                fut, fn, args, kwargs = batch[slot]
                try:
                    r = fn(*args, **kwargs)
                except BaseException as e:  # noqa: BLE001
                    Future.set_exception(fut, e)
                else:
                    Future.set_result(fut, r)
        finally:
            self.in_batch = False


class LazyFuture(Future):
    def __init__(self, sched):
        super().__init__()
        self._sched = sched

    def result(self, timeout=None):
        if not self.done():
            self._sched.run_batch()
        return super().result(timeout)

    def exception(self, timeout=None):
        if not self.done():
            self._sched.run_batch()
        return super().exception(timeout)

    def add_done_callback(self, fn):      # asyncio.wrap_future (map_async) never calls result() on a pending future
        if not self.done():
            self._sched.run_batch()
        return super().add_done_callback(fn)


class CtlExecutor(Executor):
    def __init__(self, sched):
        self.sched = sched

    def submit(self, fn, /, *args, **kwargs):
        f = LazyFuture(self.sched)
        self.sched.pending.append((f, fn, args, kwargs))
        return f


# ------------------------------------------------------------------ pipeline construction (variant of mapsym.build_pipeline)
def _delay(seed, name, kw, k):
    return random.Random(f"{seed}:{k}:{name}:{sorted((p, mapsym.canon(v)) for p, v in kw.items())}").choice(
        [0.0, 0.0, 0.001, 0.003, 0.008])


def _with_delays(body, name, seed):
    def delayed(**kw):
        time.sleep(_delay(seed, name, kw, 0))
        r = body(**kw)
        time.sleep(_delay(seed, name, kw, 1))
        return r

    delayed.__signature__ = body.__signature__
    delayed.__name__ = body.__name__
    delayed.__qualname__ = body.__qualname__
    return delayed


def build_pipeline(req, log, delay_seed=None):
    from pipefunc import PipeFunc, Pipeline

    funcs = []
    for fd in req["funcs"]:
        outs = fd["outs"]
        body = mapsym.make_callable(fd, log)
        if delay_seed is not None:
            body = _with_delays(body, fd["name"], delay_seed)
        funcs.append(PipeFunc(
            body,
            output_name=outs[0] if len(outs) == 1 else tuple(outs),
            mapspec=mapsym.spec_str(fd.get("spec")),
            internal_shape=tuple(fd["int"]) if fd.get("int") else None,
            bound=dict(fd.get("bound") or []) or None,
        ))
    return Pipeline(funcs)


def _oname(fd):
    return fd["outs"][0] if len(fd["outs"]) == 1 else tuple(fd["outs"])


def real_gens(p, req):
    names = [f["name"] for f in req["funcs"]]
    return [[names.index(f.__name__) for f in g] for g in p.topological_generations.function_lists]


def storage_arg(c):
    req, stor, form = c["req"], c["stor"], c["stor_form"]
    if form == "str":
        return stor[req["funcs"][0]["name"]]
    if form == "each":
        return {_oname(fd): stor[fd["name"]] for fd in req["funcs"]}
    first = stor[req["funcs"][0]["name"]]
    d = {"": first}
    for fd in req["funcs"][1:]:
        if stor[fd["name"]] != first:
            d[_oname(fd)] = stor[fd["name"]]
    return d


def executor_arg(c, make):
    """make() creates an executor; returns (argument for executor=, list of created executors)."""
    req, form = c["req"], c["exec_form"]
    if form == "single":
        ex = make()
        return ex, [ex]
    if form == "each":
        d = {_oname(fd): make() for fd in req["funcs"]}
        return d, list(d.values())
    d = {"": make()}
    for k, fd in enumerate(req["funcs"]):
        if k % 2 == 1:
            d[_oname(fd)] = make()
    return d, list(d.values())


# ------------------------------------------------------------------ dump recorder
class DumpRecorder:
    def __init__(self, is_worker):
        self.events = []
        self.is_worker = is_worker

    def __enter__(self):
        from pipefunc.map._storage_array._dict import DictArray
        from pipefunc.map._storage_array._file import FileArray

        self.saved = [(cls, cls.dump) for cls in (DictArray, FileArray)]
        rec = self

        def wrap(orig):
            def dump(self, key, value):
                rec.events.append((id(self), tuple(int(k) for k in key), 1 if rec.is_worker() else 0))
                return orig(self, key, value)
            return dump

        for cls, orig in self.saved:
            cls.dump = wrap(orig)
        return self

    def __exit__(self, *a):
        for cls, orig in self.saved:
            cls.dump = orig

    def obs(self, results):
        names = {id(r.store): o for o, r in results.items()}
        return [[names.get(i, "?"), ",".join(map(str, key)), w] for i, key, w in self.events]


# ------------------------------------------------------------------ canonical log
def log_pairs(lines):
    return [[ln.split("(", 1)[0], ln] for ln in lines]


def canon_log(c, pairs):
    rank = {}
    for k, g in enumerate(c["gens"]):
        for pos in g:
            rank[c["req"]["funcs"][pos]["name"]] = k
    out, cur, r = [], [], None
    for e in pairs:
        re_ = rank.get(e[0], len(c["gens"]))
        if cur and re_ != r:
            out += sorted(cur, key=lambda x: x[1])
            cur = []
        cur.append(e)
        r = re_
    return out + sorted(cur, key=lambda x: x[1])


# ------------------------------------------------------------------ running the implementation
_POOL = {"p": None}


def _shared_process_pool():
    if _POOL["p"] is None:
        _POOL["p"] = ProcessPoolExecutor(max_workers=4)
    return _POOL["p"]


def _drop_process_pool():
    p, _POOL["p"] = _POOL["p"], None
    if p is not None:
        with contextlib.suppress(Exception):
            p.shutdown(wait=False, cancel_futures=True)


def _call_map(p, c, d, executor, parallel=True):
    kw = dict(run_folder=d, internal_shapes=mapsym.internal_arg(c["req"]), storage=storage_arg(c), executor=executor)
    inputs = mapsym.map_inputs(c["req"])
    if c["entry"] == "map":
        return p.map(inputs, parallel=parallel, **kw)

    async def go():
        return await p.map_async(inputs, **kw).task

    return asyncio.run(go())


def _run(c):
    req = c["req"]
    mode = c["exec"]
    with tempfile.TemporaryDirectory(prefix="verif_c03_") as tmp:
        log = mapsym.CallLog(os.path.join(tmp, "calls.log") if mode in ("process", "default") else None)
        p = build_pipeline(req, log, delay_seed=None if mode == "ctl" else c.get("seed", 0))
        if real_gens(p, req) != c["gens"]:
            return Err("GenerationMismatch")
        d = os.path.join(tmp, "run")
        created = []
        try:
            if mode == "ctl":
                sched = Sched(c["pis"])
                ex, _ = executor_arg(c, lambda: CtlExecutor(sched))
                with DumpRecorder(lambda: sched.in_batch) as rec:
                    r = _call_map(p, c, d, ex)
                pairs = log_pairs(log.read())
                return ["ok", mapsym.results_obs(req, r), pairs, rec.obs(r)]
            if mode == "thread":
                me = threading.get_ident()
                ex, created = executor_arg(c, lambda: ThreadPoolExecutor(max_workers=1 + c.get("seed", 0) % 4))
                with DumpRecorder(lambda: threading.get_ident() != me) as rec:
                    r = _call_map(p, c, d, ex)
                return ["ok", mapsym.results_obs(req, r), canon_log(c, log_pairs(log.read())),
                        sorted(rec.obs(r), key=lambda x: f"{x[0]}:{x[1]}:{x[2]}")]
            if mode == "process":
                k = itertools.count()

                def make():  # first executor: the shared process pool; further ones alternate thread / process
                    n = next(k)
                    if n % 2 == 0:
                        return _shared_process_pool()
                    t = ThreadPoolExecutor(max_workers=2)
                    created.append(t)
                    return t

                ex, _ = executor_arg(c, make)
                r = _call_map(p, c, d, ex)
            else:  # pipefunc's own default executor (ProcessPoolExecutor created by _maybe_executor)
                r = _call_map(p, c, d, None)
            return ["ok", mapsym.results_obs(req, r), canon_log(c, log_pairs(log.read())), []]
        finally:
            for e in created:
                e.shutdown(wait=False)


def run_impl(c):
    box = {}

    def target():
        try:
            box["r"] = _run(c)
        except BaseException as e:  # noqa: BLE001
            box["r"] = Err(e)

    t = threading.Thread(target=target, daemon=True)
    with contextlib.redirect_stdout(io.StringIO()):   # pipefunc's own prints; restored even if the run hangs
        t.start()
        t.join(TIMEOUT)
    if t.is_alive():
        if c["exec"] == "process":
            _drop_process_pool()
        return Err("Timeout")
    return box.get("r", Err("NoResult"))


# ------------------------------------------------------------------ generation of cases
def _internal_last(req):
    """Known defect (normalize_key(for_dump=True), repaired elsewhere): internal axes only after all mapped axes."""
    for f in req["funcs"]:
        sp = f.get("spec")
        if not sp or not sp["i"]:
            continue
        named = {a for _, ax in sp["i"] for a in ax if a is not None}
        seen_internal = False
        for a in sp["o"][0][1]:
            if a not in named:
                seen_internal = True
            elif seen_internal:
                return False
    return True


def _request(rng):
    while True:
        req = mapgen.gen_request(rng)
        if mapgen.request_size(req) <= 30 and _internal_last(req):
            req.pop("storage", None)
            return req


def _probe(req):
    """Generation structure of the real pipeline and the number of tasks submitted per generation."""
    log = mapsym.CallLog()
    sink = io.StringIO()
    with contextlib.redirect_stdout(sink):
        p = build_pipeline(req, log)
        gens = real_gens(p, req)
        sched = Sched([])
        c = {"req": req, "stor": {f["name"]: "dict" for f in req["funcs"]}, "stor_form": "str", "entry": "map"}
        _call_map(p, c, None, CtlExecutor(sched))
    return gens, sched.batches


def _stor(rng, req, kind):
    if kind in STORAGES:
        return {f["name"]: kind for f in req["funcs"]}, rng.choice(["str", "str", "each", "default"])
    return {f["name"]: rng.choice(STORAGES) for f in req["funcs"]}, rng.choice(["each", "default"])


def _perms(rng, n, k_random):
    if n <= 4:
        return [list(p) for p in itertools.permutations(range(n))]
    out = [list(range(n)), list(range(n - 1, -1, -1))]
    while len(out) < k_random:
        p = list(range(n))
        rng.shuffle(p)
        out.append(p)
    return out


def _random_pis(rng, sizes):
    pis = []
    for n in sizes:
        p = list(range(n))
        rng.shuffle(p)
        pis.append(p)
    return pis


def generate(rng, tier, mult):
    thorough = tier != "quick"
    n_req = (26 if not thorough else 160) * mult
    k_random = 4 if not thorough else 10
    cases = []
    for _ in range(n_req):
        req = _request(rng)
        try:
            gens, sizes = _probe(req)
        except Exception:  # noqa: BLE001  (a request the sequential property C01 already reports)
            continue
        if len(sizes) != len(gens) or sum(sizes) > 40:
            continue
        base = {"req": req, "gens": gens}

        def case(pis, stor_kind, exec_, entry, exec_form=None, seed=0):
            stor, sform = _stor(rng, req, stor_kind)
            return dict(base, pis=pis, stor=stor, stor_form=sform, exec=exec_, entry=entry, seed=seed,
                        exec_form=exec_form or rng.choice(["single", "single", "each", "default"]))

        # controlled executor: every completion order of one generation at a time
        kind0 = rng.choice(list(STORAGES) + ["mix"])
        for g, n in enumerate(sizes):
            for perm in _perms(rng, n, k_random):
                if perm == list(range(n)) and g > 0:
                    continue
                pis = _random_pis(rng, sizes) if thorough else [list(range(m)) for m in sizes]
                pis[g] = perm
                cases.append(case(pis, kind0 if rng.random() < 0.7 else rng.choice(list(STORAGES) + ["mix"]), "ctl",
                                  "map" if rng.random() < 0.75 else "async"))
        # every storage with all generations permuted, both entry points
        for st in list(STORAGES) + ["mix"]:
            cases.append(case(_random_pis(rng, sizes), st, "ctl", rng.choice(["map", "async"])))
        # real thread pools with delays
        for st in rng.sample(list(STORAGES) + ["mix"], 2 if not thorough else 4):
            cases.append(case([], st, "thread", rng.choice(["map", "async"]), seed=rng.randrange(10 ** 6)))
        if thorough:
            for st in rng.sample(list(STORAGES) + ["mix"], 2):
                cases.append(case([], st, "process", rng.choice(["map", "async"]), seed=rng.randrange(10 ** 6)))
            if rng.random() < 0.08:
                cases.append(case([], rng.choice(STORAGES), "default", rng.choice(["map", "async"]),
                                  exec_form="single", seed=rng.randrange(10 ** 6)))
    return cases


# ------------------------------------------------------------------ Coq literals
def emit_case(c) -> str:
    req = c["req"]
    dis = [(o, DIS[c["stor"][f["name"]]]) for f in req["funcs"] for o in f["outs"]]
    mode = {"ctl": 0, "thread": 1}.get(c["exec"], 2)
    return ("{| q_funcs := %s; q_inputs := %s; q_internal := %s; q_gens := %s; q_pis := %s; q_dis := %s; "
            "q_mode := %s |}") % (
        clist([mapgen.func_lit(f) for f in req["funcs"]]), mapgen._env(req["inputs"]),
        mapgen.shapes_lit(req.get("internal")),
        clist([clist([cnat(k) for k in g]) for g in c["gens"]]),
        clist([clist([cnat(k) for k in pi]) for pi in c["pis"]]),
        clist([cpair(cstr(o), cbool(b)) for o, b in dis]), cnat(mode))


# ------------------------------------------------------------------ evidence helpers
def nontrivial_key(c):
    permuted = any(pi != list(range(len(pi))) for pi in c["pis"])
    if not (permuted or c["exec"] != "ctl"):
        return None
    return ([mapsym.spec_str(f.get("spec")) for f in c["req"]["funcs"]],
            [v["sh"] if isinstance(v, dict) else 0 for _, v in c["req"]["inputs"]],
            sorted(c["stor"].items()), c["stor_form"], c["exec"], c["exec_form"], c["entry"], c["pis"])


def distribution(c):
    sizes = [len(pi) for pi in c["pis"]]
    return {"exec": c["exec"] + "/" + c["entry"], "exec_form": c["exec_form"],
            "storage": "+".join(sorted(set(c["stor"].values()))), "stor_form": c["stor_form"],
            "generations": len(c["gens"]), "max_gen_width": max(len(g) for g in c["gens"]),
            "max_tasks_in_generation": max(sizes) if sizes else "n/a"}


def finding_id(c, impl_obs, kind):
    return None


def shrink(c):
    out = []
    req = c["req"]
    fs = req["funcs"]
    for j in range(len(fs) - 1, -1, -1):
        produced = set(fs[j]["outs"])
        if any(produced & set(g["params"]) for g in fs[:j] + fs[j + 1:]):
            continue
        r2 = json.loads(json.dumps(req))
        r2["funcs"] = fs[:j] + fs[j + 1:]
        if not r2["funcs"]:
            continue
        used = {p for g in r2["funcs"] for p in g["params"]}
        r2["inputs"] = [kv for kv in r2["inputs"] if kv[0] in used]
        outs = {o for g in r2["funcs"] for o in g["outs"]}
        r2["internal"] = [kv for kv in (r2.get("internal") or []) if kv[0] in outs]
        try:
            gens, sizes = _probe(r2)
        except Exception:  # noqa: BLE001
            continue
        d = dict(c, req=r2, gens=gens, stor={f["name"]: c["stor"][f["name"]] for f in r2["funcs"]})
        d["pis"] = [list(range(n - 1, -1, -1)) for n in sizes] if c["exec"] == "ctl" else []
        out.append(d)
    if len(set(c["stor"].values())) > 1 or c["stor_form"] != "str":
        for st in STORAGES:
            out.append(dict(c, stor={f["name"]: st for f in fs}, stor_form="str"))
    if c["exec_form"] != "single":
        out.append(dict(c, exec_form="single"))
    if c["entry"] != "map":
        out.append(dict(c, entry="map"))
    return out
