"""C04 - Results stored in a run folder reload exactly, from any process."""
from __future__ import annotations

import contextlib
import gc
import io
import json
import multiprocessing
import os
import shutil
import subprocess
import sys
import tempfile
import time
from concurrent.futures import ThreadPoolExecutor
from pathlib import Path

from .. import common, mapgen, mapsym
from ..coqlit import Err, cbool, clist, cnat, cpair, cstr
from . import c04_reload

PROP = "C04"
RUN = "Run_C04"
THEOREMS = "Props/C04.v"
ANCHORS = [
    ("pipefunc/map/_run_info.py", ["RunInfo", "_maybe_str_to_tuple", "_maybe_tuple_to_str", "_construct_internal_shapes",
                                   "_normalize_storage_keys",
                                   "_init_arrays", "_maybe_array_path", "_output_path", "_input_path", "_defaults_path"]),
    ("pipefunc/map/_load.py", ["load_outputs", "load_xarray_dataset"]),
    ("pipefunc/map/_run.py", ["_maybe_persist_memory", "_load_from_store", "_maybe_load_array", "_dump_single_output",
                              "_single_dump_single_output"]),
    ("pipefunc/map/_storage_array/_dict.py", ["DictArray.persist", "DictArray.load", "DictArray.to_array", "DictArray.__init__",
                                              "SharedMemoryDictArray"]),
    ("pipefunc/map/_storage_array/_file.py", ["FileArray.__init__", "FileArray.to_array", "FileArray._index_to_file",
                                              "FileArray._key_to_file", "FileArray.mask_linear", "_load_all"]),
    ("pipefunc/map/_storage_array/_base.py", ["get_storage_class"]),
    ("pipefunc/map/_shapes.py", ["map_shapes"]),
    ("pipefunc/_utils.py", ["dump", "load", "at_least_tuple"]),
]
RULE = ("hand-written corpus + valid map requests of the shared generator (DAGs of 1..4 structural functions, tuple outputs, "
        "reductions, internal axes at any position, generators, list/ndarray inputs, bound/default scalars; internal shapes as "
        "tuple or bare int) x storage (each backend uniformly, per-output dict mixes keyed by str / 1-tuple / tuple output "
        "names with and without the '' default; pipelines that would start many manager processes per reload are kept small) "
        "x persist_memory x {the interpreter that ran the request, a fresh /venv/bin/python started after every run worker "
        "has exited, i.e. after all manager processes are gone} x two successive loads; 1/5 of the cases additionally edit "
        "run_info.json between run and reload (deleted / ill-typed fields, another storage or version: error branches of "
        "RunInfo.load, nothing demanded by spec_ok); observed: load_outputs per output, RunInfo.load field-wise, inputs, "
        "defaults, load_xarray_dataset dims, folder listing, folder unchanged; non-trivial = a mapped output with >=2 axes, "
        "a ':' axis or an internal axis; distinct by (specs, shapes, storage, fresh, persist); 1/8 of the requests are also run "
        "as FOLDER RE-USE SEQUENCES in one process: earlier requests (the same pipeline with other input values, other "
        "pipelines/shapes, or the same request followed by cleanup=False) are run into the same folder and reloaded, then "
        "the request itself, then reloads in that interpreter and in a fresh one (xarray coordinate values of 1-D inputs "
        "observed); also a PARTIAL first step (a transient fault in a mapped function, what was stored is persisted) followed "
        "by the same request with cleanup=False computed by a real ProcessPoolExecutor (shared_memory_dict most often); 40% of "
        "the requests give their root inputs and default parameters scoped names (<scope>.<name>, several per scope)")
ASSUMPTIONS = ["cloudpickle round-trips the values used (strings, lists, object ndarrays, dicts keyed by int tuples)",
               "JSON text layout is not modelled: `json` is the value json.load returns for what json.dump wrote",
               "the run folder is not moved between run and reload, and is given as an absolute normalised path",
               "sequential run (parallel=False); executors are C03; interrupted runs are C05",
               "load_xarray_dataset is observed structurally (variable names and dims), relative to whether pipefunc's own "
               "in-memory labelling (xarray_dataset_from_results) succeeds for the same run; labelling itself is C19",
               "only the three importable storage backends (zarr backends cannot be imported in this environment)",
               "theorems: names contain no ',' and no '/', MapSpec arrays have rank >= 1 (valid_request, Corr/Valid_C04.v); "
               "the file system is a finite map with atomic single operations; paths are an abstract type whose rendering "
               "(FSStore.path_rel) is tied to the real file names by the observed folder listing"]
TRUSTED = ["Model/RunInfoCodec.v, Model/FSStore.v mirror _run_info.py / _load.py / _storage_array persist+load by hand",
           "Model/MapRun.v (C01) provides the run whose final state is written to the modelled folder",
           "harness/props/c04_reload.py canonicalisation of RunInfo fields (type-strict: tuple vs list), arrays and folder snapshots",
           "harness/props/c04_child.py worker interpreters (run workers exit before any fresh-interpreter reload starts)"]

STORAGES = ["file_array", "dict", "shared_memory_dict"]
WORKERS = 8


# ------------------------------------------------------------------ Coq literals
def _okey_lit(k):
    if isinstance(k, list):
        return "(KTup %s)" % clist([cstr(x) for x in k])
    return "(KName %s)" % cstr(k)


def _storage_lit(st):
    if "uni" in st:
        return "(StUni %s)" % cstr(st["uni"])
    return "(StDict %s)" % clist([cpair(_okey_lit(k), cstr(v)) for k, v in st["dict"]])


def _json_lit(j):
    if j is None:
        return "JNull"
    if isinstance(j, bool):
        return "(JBool %s)" % cbool(j)
    if isinstance(j, int):
        return "(JInt (%d)%%Z)" % j
    if isinstance(j, str):
        return "(JStr %s)" % cstr(j)
    if isinstance(j, list):
        return "(JArr %s)" % clist([_json_lit(x) for x in j])
    return "(JObj %s)" % clist([cpair(cstr(k), _json_lit(v)) for k, v in j.items()])


def _mut_lit(m):
    if not m:
        return "MNone"
    if m[0] == "del":
        return "(MDel %s)" % cstr(m[1])
    if m[0] == "set":
        return "(MSet %s %s)" % (cstr(m[1]), _json_lit(m[2]))
    if m[0] == "rm":
        if m[1] == "single":
            return "(MRemove (PSingle %s))" % cstr(m[2])
        if m[1] == "dict":
            return "(MRemove (PDictFile %s))" % cstr(m[2])
        return "(MRemove (PElem %s %s))" % (cstr(m[2]), cnat(m[3]))
    return "(MSetIn %s %s %s)" % (cstr(m[1]), cstr(m[2]), _json_lit(m[3]))


def _rm_path(m):
    if m[1] == "single":
        return f"outputs/{m[2]}.cloudpickle"
    if m[1] == "dict":
        return f"outputs/{m[2]}/dict_array.cloudpickle"
    return f"outputs/{m[2]}/__{m[3]}__.pickle"


def apply_mutation(folder, m):
    """Edit run_info.json the way a user (or a partial write) could: json.load, one edit, json.dump."""
    if not m:
        return
    if m[0] == "rm":
        with contextlib.suppress(FileNotFoundError):
            os.remove(os.path.join(folder, _rm_path(m)))
        return
    path = os.path.join(folder, "run_info.json")
    with open(path) as f:
        data = json.load(f)
    if m[0] == "del":
        data.pop(m[1], None)
    elif m[0] == "set":
        data[m[1]] = m[2]
    elif isinstance(data.get(m[1]), dict):
        data[m[1]][m[2]] = m[3]
    with open(path, "w") as f:
        json.dump(data, f, indent=4)


def emit_case(c) -> str:
    return ("{| c_funcs := %s; c_inputs := %s; c_internal := %s; c_user_int := %s; c_func_int := %s; c_storage := %s; "
            "c_persist := %s; c_fresh := %s; c_xr := %s; c_mut := %s; c_xr_coords := %s; c_prev := %s; c_cleanup := %s |}") % (
        clist([mapgen.func_lit(f) for f in c["funcs"]]), mapgen._env(c["inputs"]), mapgen.shapes_lit(c.get("internal")),
        clist([cstr(x) for x in c.get("user_int", [])]), clist([cstr(x) for x in c.get("func_int", [])]),
        _storage_lit(c["st"]), cbool(c.get("persist", True)), cbool(c.get("fresh", False)), cstr(c.get("xr", "ok")), _mut_lit(c.get("mut")),
        clist([cstr(x) for x in c.get("xr_coords", [])]), clist([_request_lit(q) for q in c.get("prev", [])]),
        cbool(c.get("cleanup", True)))


def _request_lit(q) -> str:
    return ("{| q_funcs := %s; q_inputs := %s; q_internal := %s; q_user_int := %s; q_func_int := %s; q_storage := %s; "
            "q_persist := %s |}") % (
        clist([mapgen.func_lit(f) for f in q["funcs"]]), mapgen._env(q["inputs"]), mapgen.shapes_lit(q.get("internal")),
        clist([cstr(x) for x in q.get("user_int", [])]), clist([cstr(x) for x in q.get("func_int", [])]),
        _storage_lit(q["st"]), cbool(q.get("persist", True)))


# ------------------------------------------------------------------ building / running the real pipeline
def _storage_arg(st):
    if "uni" in st:
        return st["uni"]
    return {(tuple(k) if isinstance(k, list) else k): v for k, v in st["dict"]}


def _safe(name):
    """A Python identifier for a (possibly scoped, i.e. dotted) parameter name."""
    return name.replace(".", "__")


def _make_callable(fd, log, fail_at=None):
    """mapsym.make_callable for functions whose parameters may carry scoped names ("s.x0"): the Python signature uses
    identifiers (the PipeFunc renames them back), the structural value prints the scoped names, as the model does.
    fail_at: the call index (of this function, in this run) at which RuntimeError is raised."""
    import inspect
    import itertools

    import numpy as np

    name, params, outs = fd["name"], fd["params"], fd["outs"]
    ish = tuple(fd.get("ret") if fd.get("ret") is not None else fd.get("int") or ())
    aslist = fd.get("intlist", False)
    counter = itertools.count()

    def body(**kw):
        app = name + "(" + ",".join(f"{p}={mapsym.canon(kw[_safe(p)])}" for p in params) + ")"
        log.add(app)
        if fail_at is not None and next(counter) == fail_at:
            raise RuntimeError("boom")

        def value(base):
            if not ish:
                return base
            a = np.empty(ish, dtype=object)
            for j in itertools.product(*map(range, ish)):
                a[j] = "elem(" + base + ";" + ",".join(map(str, j)) + ")"
            return a.tolist() if (aslist and len(ish) == 1) else a

        if len(outs) == 1:
            return value(app)
        return tuple(value(f"out({o};{app})") for o in outs)

    dflt = dict(fd.get("defaults") or [])
    body.__signature__ = inspect.Signature([
        inspect.Parameter(_safe(p), inspect.Parameter.POSITIONAL_OR_KEYWORD,
                          default=dflt.get(p, inspect.Parameter.empty)) for p in params])
    body.__name__ = name
    body.__qualname__ = name
    return body


def _build(c, log, fail=None):
    """mapsym.build_pipeline, with bare-int internal_shape attributes where the case says so, scoped parameter names
    (given to the PipeFunc as renames) and an optional transient fault: fail = (function name, call index)."""
    from pipefunc import PipeFunc, Pipeline

    funcs = []
    for fd in c["funcs"]:
        outs = fd["outs"]
        ish = None
        if fd.get("int"):
            ish = fd["int"][0] if (fd["name"] in c.get("func_int", []) and len(fd["int"]) == 1) else tuple(fd["int"])
        renames = {_safe(p): p for p in fd["params"] if _safe(p) != p}
        funcs.append(PipeFunc(_make_callable(fd, log, fail[1] if fail and fail[0] == fd["name"] else None),
                              output_name=outs[0] if len(outs) == 1 else tuple(outs),
                              mapspec=mapsym.spec_str(fd.get("spec")), internal_shape=ish,
                              renames=renames or None,
                              bound=dict(fd.get("bound") or []) or None))
    return Pipeline(funcs)


def _internal_arg(c):
    d = {}
    for k, v in (c.get("internal") or []):
        d[k] = v[0] if (k in c.get("user_int", []) and len(v) == 1) else tuple(v)
    return d or None


def _out_names(c):
    return [o for fd in c["funcs"] for o in fd["outs"]]


def _xr_reference(c):
    """In-memory run (no folder) + pipefunc's own labelling of its results: ('ok' | exception class, names of the 1-D root
    inputs it turns into coordinates), or None if the run fails."""
    from pipefunc.map.xarray import xarray_dataset_from_results

    try:
        with contextlib.redirect_stdout(io.StringIO()):
            p = _build(c, mapsym.CallLog())
            inputs = mapsym.map_inputs(c)
            r = p.map(inputs, run_folder=None, internal_shapes=_internal_arg(c), storage="dict", parallel=False)
    except Exception:  # noqa: BLE001
        return None
    try:
        ds = xarray_dataset_from_results(inputs, r, p)
        coords = sorted(n for n, v in c["inputs"] if isinstance(v, dict) and len(v["sh"]) == 1
                        and n in ds.coords and ds[n].ndim == 1)
        return "ok", coords
    except Exception as e:  # noqa: BLE001
        return Err(e).name, []


class _Spy:
    """Captures the RunInfo object the run itself constructs (RunInfo.create -> cls(...))."""

    def __enter__(self):
        from pipefunc.map import _run_info

        self.cls = _run_info.RunInfo
        self.orig = self.cls.__post_init__
        self.seen = []
        spy = self

        def post_init(ri):
            spy.seen.append(ri)
            spy.orig(ri)

        self.cls.__post_init__ = post_init
        return self

    def __exit__(self, *a):
        self.cls.__post_init__ = self.orig


def _parent_run(c, folder, cleanup=True, fail=None, pool=False):
    """Run the request into `folder`. Returns (obs of the run, results kept alive) or (Err, None)."""
    import pipefunc

    sink = io.StringIO()
    with contextlib.redirect_stdout(sink):
        try:
            p = _build(c, mapsym.CallLog(), fail)
        except Exception as e:  # noqa: BLE001
            return Err(e), None
        try:
            with _Spy() as spy:
                if pool:      # a real process pool: shared_memory_dict elements are dumped by the worker processes
                    from concurrent.futures import ProcessPoolExecutor

                    with ProcessPoolExecutor(2) as ex:
                        r = p.map(mapsym.map_inputs(c), run_folder=folder, internal_shapes=_internal_arg(c),
                                  storage=_storage_arg(c["st"]), persist_memory=c.get("persist", True), executor=ex,
                                  cleanup=cleanup)
                else:
                    r = p.map(mapsym.map_inputs(c), run_folder=folder, internal_shapes=_internal_arg(c),
                              storage=_storage_arg(c["st"]), persist_memory=c.get("persist", True), parallel=False,
                              cleanup=cleanup)
            ri = spy.seen[-1]          # with cleanup=False the previous RunInfo is loaded (and constructed) first
            ran = [[[o, mapsym.arr_obs(r[o].output)] for o in _out_names(c)]] + c04_reload.info_obs(ri, folder, pipefunc.__version__)
            return [ran, c04_reload.listing(folder)], (r, p)
        except Exception as e:  # noqa: BLE001
            return Err(e), None


def _decode(o):
    """JSON from a worker -> python observation with coqlit.Err markers."""
    if isinstance(o, dict) and "__err__" in o:
        e = Err(o["__err__"])
        e.detail = o.get("detail", "")
        return e
    if isinstance(o, list):
        return [_decode(x) for x in o]
    return o


def _encode(o):
    if isinstance(o, Err):
        return {"__err__": o.name if o.name != "OtherError" else (o.detail.split(":")[0] or "OtherError"), "detail": o.detail}
    if isinstance(o, list):
        return [_encode(x) for x in o]
    return o


def _wait_no_managers(timeout=30.0):
    t0 = time.time()
    while multiprocessing.active_children() and time.time() - t0 < timeout:
        gc.collect()
        time.sleep(0.05)
    return not multiprocessing.active_children()


def worker_run(items):
    """Inside a worker interpreter: run every (case, folder); reload twice in this same interpreter unless the case asks
    for a fresh one.  Returns JSON-able [{"head":..., "tail":...}] and whether all manager processes are gone at the end."""
    out = []
    for c, folder in items:
        # folder re-use: earlier requests are run into the same folder and reloaded in this interpreter first
        alive, head = [], None
        for q in c.get("prev", []):
            # q["fail"] = (function, call index): a transient fault, the step stays partial (what it stored is persisted)
            h, keep = _parent_run(q, folder, fail=tuple(q["fail"]) if q.get("fail") else None)
            alive.append(keep)
            if isinstance(h, Err) and not (q.get("fail") and h.name == "RuntimeError"):
                head = h
                break
            with contextlib.redirect_stdout(io.StringIO()):
                c04_reload.reload_obs(folder, _out_names(q), [n for n, v in q["inputs"] if isinstance(v, dict)])
        if head is None:
            head, keep = _parent_run(c, folder, cleanup=c.get("cleanup", True), pool=bool(c.get("pool")))
        tail = None
        if not isinstance(head, Err):
            apply_mutation(folder, c.get("mut"))
        if not isinstance(head, Err) and not c.get("fresh"):
            with contextlib.redirect_stdout(io.StringIO()):
                tail = c04_reload.two_loads(folder, _out_names(c), c.get("xr_coords", []))   # results still alive
        out.append({"head": _encode(head), "tail": tail})
        del keep, alive
    gc.collect()
    return out, _wait_no_managers()


def _spawn(doc, n):
    env = dict(os.environ)
    env["PYTHONPATH"] = f"{common.REPO}:{common.VERIF}"
    env["VERIF_REPO"] = str(common.REPO)
    env["PYTHONHASHSEED"] = "0"
    env["PYTHONDONTWRITEBYTECODE"] = "1"
    try:
        p = subprocess.run(["/venv/bin/python", "-m", "harness.props.c04_child"], input=json.dumps(doc),
                           capture_output=True, text=True, timeout=1500, env=env, cwd=str(common.VERIF))
    except subprocess.TimeoutExpired:
        return None
    if p.returncode != 0:
        raise common.Infra(f"C04 worker interpreter failed (rc={p.returncode}):\n{p.stderr[-2000:]}")
    res = json.loads(p.stdout)
    if not Path(res["pipefunc"]).resolve().is_relative_to(Path(common.REPO).resolve()):
        raise common.Infra(f"C04 worker imported pipefunc from {res['pipefunc']}")
    assert len(res["results"]) == n
    return res


def _shards(items, k):
    k = max(1, min(k, len(items)))
    return [items[j::k] for j in range(k)]


def _run_batch(cases):
    """Observations for a list of cases.  Phase 1: worker interpreters run the requests (and do the same-interpreter
    reloads).  Phase 2, only after every worker has exited (so every manager process of every run is gone): fresh
    interpreters reload the folders of the cases that ask for it."""
    tmp = tempfile.mkdtemp(prefix="verif_c04_")
    try:
        idx = list(range(len(cases)))
        heads, tails = [None] * len(cases), [None] * len(cases)
        shards = _shards(idx, WORKERS if len(cases) >= 4 else 1)
        with ThreadPoolExecutor(max_workers=WORKERS) as ex:
            results = list(ex.map(lambda sh: _spawn({"mode": "run", "items": [[cases[i], os.path.join(tmp, f"r{i}")] for i in sh]},
                                                    len(sh)), shards))
        for sh, res in zip(shards, results):
            if res is None:
                for i in sh:
                    heads[i] = Err("Timeout")
                continue
            if not res["managers_gone"]:
                raise common.Infra("C04: manager processes of finished runs were still alive when the worker ended")
            for i, r in zip(sh, res["results"]):
                heads[i], tails[i] = _decode(r["head"]), r["tail"]
        fresh = [i for i in idx if cases[i].get("fresh") and not isinstance(heads[i], Err)]
        if fresh:
            shards = _shards(fresh, WORKERS if len(fresh) >= 4 else 1)
            with ThreadPoolExecutor(max_workers=WORKERS) as ex:
                results = list(ex.map(lambda sh: _spawn({"mode": "load", "folders": [[os.path.join(tmp, f"r{i}"), _out_names(cases[i]),
                                                                                      cases[i].get("xr_coords", [])]
                                                                                     for i in sh]}, len(sh)), shards))
            for sh, res in zip(shards, results):
                for k, i in enumerate(sh):
                    tails[i] = {"__err__": "Timeout"} if res is None else res["results"][k]
        out = []
        for c, head, tail in zip(cases, heads, tails):
            if isinstance(head, Err):
                out.append(head)
                continue
            tail = _decode(tail)
            if isinstance(tail, Err):
                out.append(tail)
                continue
            # last two: model-side invariant flag (see Run_C04.run), number of earlier runs into the folder
            out.append(["ok", head + tail + [True, len(c.get("prev", []))]])
        return out
    finally:
        shutil.rmtree(tmp, ignore_errors=True)


_PENDING: dict[str, dict] = {}
_DONE: dict[str, object] = {}


def _key(c):
    return json.dumps(c, sort_keys=True)


def run_impl(c):
    k = _key(c)
    if k not in _DONE:
        batch = [c]
        if k in _PENDING:
            batch = list(_PENDING.values())
            _PENDING.clear()
        for cc, o in zip(batch, _run_batch(batch)):
            _DONE[_key(cc)] = o
    return _DONE.pop(k)


# ------------------------------------------------------------------ generator
FILTER_INTERNAL_FIRST = False   # only for a repo without the normalize_key(for_dump=True) repair (repo commit d50699d)


def _internal_after_mapped(c):
    """Work-around for the known normalize_key(for_dump=True) defect (C01/C07): internal axes only after all mapped axes."""
    for fd in c["funcs"]:
        sp = fd.get("spec")
        if not sp or not sp["i"]:
            continue
        mapped = {a for _, ax in sp["i"] for a in ax if a is not None}
        seen_internal = False
        for a in sp["o"][0][1]:
            if a in mapped:
                if seen_internal:
                    return False
            else:
                seen_internal = True
    return True


def _gen_storage(rng, c):
    if rng.random() < 0.45:
        return {"uni": rng.choice(STORAGES)}
    keys = []
    for fd in c["funcs"]:
        outs = fd["outs"]
        keys.append(outs[0] if len(outs) == 1 else list(outs))
    rng.shuffle(keys)
    mapped = [(fd["outs"][0] if len(fd["outs"]) == 1 else list(fd["outs"])) for fd in c["funcs"]
              if fd.get("spec") and fd["spec"]["i"]]
    d = []
    default = rng.random() < 0.75
    if default and rng.random() < 0.5:
        d.append(["", rng.choice(STORAGES)])
    for k in keys:
        if (not default and k in mapped) or rng.random() < 0.5:
            d.append([k, rng.choice(STORAGES)])
    if default and not any(k == "" for k, _ in d):
        d.insert(rng.randrange(len(d) + 1), ["", rng.choice(STORAGES)])
    if not d:
        d.append(["", rng.choice(STORAGES)])
    for kv in d:                      # an output name written as a 1-tuple names the same output
        if isinstance(kv[0], str) and kv[0] and rng.random() < 0.15:
            kv[0] = [kv[0]]
    return {"dict": d}


def _manager_cost(c):
    """(# mapped outputs stored in a shared_memory_dict) x (# outputs): proportional to the manager processes one reload starts."""
    st = c["st"]
    d = None if "uni" in st else {(tuple(k) if isinstance(k, list) else k): v for k, v in st["dict"]}
    shared = 0
    for fd in c["funcs"]:
        if not (fd.get("spec") and fd["spec"]["i"]):
            continue
        key = fd["outs"][0] if len(fd["outs"]) == 1 else tuple(fd["outs"])
        if d is not None and len(fd["outs"]) == 1 and (key,) in d and key not in d:
            kind = d[(key,)]
        else:
            kind = st["uni"] if d is None else d.get(key, d.get(""))
        if kind == "shared_memory_dict":
            shared += len(fd["outs"])
    return shared * len(_out_names(c))


MAX_MANAGER_COST = 6


def _scope_inputs(rng, c):
    """Give root inputs (and parameters with defaults) scoped names "<scope>.<name>", several in the same scope."""
    names = [n for n, _ in c["inputs"]] + [p for fd in c["funcs"] for p, _ in (fd.get("defaults") or [])]
    scopes = rng.choice([["s"], ["s"], ["s", "t"]])
    ren = {n: rng.choice(scopes) + "." + n for n in names if rng.random() < 0.85}
    if not ren:
        return
    r = lambda n: ren.get(n, n)  # noqa: E731
    for fd in c["funcs"]:
        bound = {p for p, _ in (fd.get("bound") or [])}
        fd["params"] = [p if p in bound else r(p) for p in fd["params"]]
        fd["defaults"] = [[r(p), v] for p, v in (fd.get("defaults") or [])]
        if fd.get("spec"):
            fd["spec"]["i"] = [[r(n), ax] for n, ax in fd["spec"]["i"]]
    c["inputs"] = [[r(n), v] for n, v in c["inputs"]]
    c["scoped"] = True


def _call_counts(c):
    """Calls per function name in an uninterrupted in-memory run."""
    log = mapsym.CallLog()
    try:
        with contextlib.redirect_stdout(io.StringIO()):
            _build(c, log).map(mapsym.map_inputs(c), run_folder=None, internal_shapes=_internal_arg(c), storage="dict",
                               parallel=False)
    except Exception:  # noqa: BLE001
        return {}
    out = {}
    for ln in log.read():
        out[ln.split("(")[0]] = out.get(ln.split("(")[0], 0) + 1
    return out


def gen_case(rng):
    while True:
        c = mapgen.gen_request(rng)
        if mapgen.request_size(c) > 24 or (FILTER_INTERNAL_FIRST and not _internal_after_mapped(c)):
            continue
        c.pop("storage", None)
        if rng.random() < 0.4:
            _scope_inputs(rng, c)
        c["func_int"] = [fd["name"] for fd in c["funcs"] if len(fd.get("int") or []) == 1 and rng.random() < 0.5]
        c["user_int"] = [k for k, v in c.get("internal") or [] if len(v) == 1 and rng.random() < 0.5]
        xr = _xr_reference(c)
        if xr is None:
            continue
        c["xr"], c["xr_coords"] = xr
        c["st"] = _gen_storage(rng, c)
        while _manager_cost(c) > MAX_MANAGER_COST:      # every load_outputs call starts one manager process per
            c["st"] = _gen_storage(rng, c)               # shared_memory_dict array: keep those pipelines small
        c["persist"] = rng.random() < 0.9
        c["fresh"] = rng.random() < 0.5
        return c


FIELDS = ["all_output_names", "shapes", "internal_shapes", "shape_masks", "run_folder", "mapspecs_as_strings", "storage",
          "pipefunc_version", "input_paths", "defaults_path"]


def gen_mutation(rng, c):
    """One edit of run_info.json whose effect on RunInfo.load the model defines (no 'outside the schema' documents)."""
    kind = rng.choice(["del", "del", "bad_dict", "bad_names", "bad_path", "extra", "version", "storage", "entry", "internal",
                       "rm", "rm", "rm"])
    if kind == "rm":      # a missing file: masked element / None / FileNotFoundError, never a wrong value
        fd = rng.choice([f for f in c["funcs"] if not f.get("spec") or f["spec"]["i"]] or [None])
        if fd is None:     # only '... -> v[j]' generators: xarray's error class for a missing array is not modelled
            return ["del", rng.choice(FIELDS)]
        o = rng.choice(fd["outs"])
        if not fd.get("spec"):
            return ["rm", "single", o]
        return rng.choice([["rm", "dict", o], ["rm", "elem", o, rng.randint(0, 2)]])
    if kind == "del":
        return ["del", rng.choice(FIELDS)]
    if kind == "bad_dict":
        return ["set", rng.choice(["shapes", "shape_masks", "input_paths"]), rng.choice([None, 1, "s", [1]])]
    if kind == "internal":
        return ["set", "internal_shapes", rng.choice([None, 1, "s", [1]])]
    if kind == "bad_names":
        return ["set", "all_output_names", rng.choice([None, 1, [["a"]]])]
    if kind == "bad_path":
        return ["set", rng.choice(["run_folder", "defaults_path"]), rng.choice([None, 1, [1]])]
    if kind == "extra":
        return ["set", "not_a_field", 1]
    if kind == "version":
        return ["set", "pipefunc_version", "0.0.0"]
    if kind == "storage":
        return ["set", "storage", rng.choice(STORAGES + ["bogus"])]
    mapped = [fd for fd in c["funcs"] if fd.get("spec")]
    if not mapped:
        return ["del", rng.choice(FIELDS)]
    fd = rng.choice(mapped)
    key = ",".join(fd["outs"])
    return ["setin", rng.choice(["shapes", "shape_masks"]), key, rng.choice([None, 3])]


REQ_KEYS = ["funcs", "inputs", "internal", "func_int", "user_int", "st", "persist"]   # + "fail" for a partial step


def _request_of(c):
    return json.loads(json.dumps({k: c.get(k) for k in REQ_KEYS}))


def _other_values(c, tag):
    """The same request with other input values (same shapes)."""
    d = json.loads(json.dumps(c))
    d["inputs"] = [[n, (dict(v, d=[x + tag for x in v["d"]]) if isinstance(v, dict) else v + tag)] for n, v in d["inputs"]]
    return d


def gen_sequences(rng, c):
    """Folder re-use in one process: earlier requests are run into the same folder (and reloaded) before `c` is run.
    Every variant is reloaded in the interpreter that ran the sequence and in a fresh one."""
    kind = rng.choice(["values", "values", "other", "other", "values+other", "resume", "partial-pool", "partial-pool"])
    base = json.loads(json.dumps(c))
    base.pop("mut", None)
    if kind == "partial-pool":
        # a partial first step (a transient fault in a mapped function; what was stored is persisted), then the same
        # request with cleanup=False and a real process pool; shared_memory_dict most often
        if rng.random() < 0.7:
            base["st"] = {"uni": "shared_memory_dict"}
            if _manager_cost(base) > 2 * MAX_MANAGER_COST:
                base["st"] = c["st"]
        base["persist"] = True
        counts = _call_counts(base)
        fns = [fd["name"] for fd in base["funcs"] if fd.get("spec") and fd["spec"]["i"] and counts.get(fd["name"], 0) >= 2]
        if not fns:
            kind = "resume"
        else:
            fn = rng.choice(fns)
            q = _request_of(base)
            q["fail"] = [fn, rng.randint(1, counts[fn] - 1)]
            base["prev"], base["cleanup"], base["pool"] = [q], False, True
    if kind == "resume":
        base["prev"], base["cleanup"] = [_request_of(base)], False     # the same request, the same storage
    elif kind == "values":
        base["prev"] = [_request_of(_other_values(c, "~"))]
    elif kind == "other":
        base["prev"] = [_request_of(gen_case(rng))]
    elif kind == "values+other":
        base["prev"] = [_request_of(gen_case(rng)), _request_of(_other_values(c, "~"))]
    base["seq"] = kind
    out = []
    for fresh in (False, True):
        d = json.loads(json.dumps(base))
        d["fresh"] = fresh
        out.append(d)
    return out


def generate(rng, tier, mult):
    n = (48 if tier == "quick" else 1200) * mult
    out = [gen_case(rng) for _ in range(n)]
    for c in list(out[: max(1, n // 8)]):     # folder re-use sequences (two reload variants each)
        out += gen_sequences(rng, c)
    for c in out[: max(1, n // 5)]:           # negative stream: the folder is edited before the reload
        c["mut"] = gen_mutation(rng, c)
    rng.shuffle(out)
    _PENDING.clear()
    for c in common.corpus_cases(PROP) + out:     # the corpus cases (run first by the engine) join the batch
        _PENDING[_key(c)] = c
    return out


# ------------------------------------------------------------------ evidence helpers
def _nontrivial(c):
    for f in c["funcs"]:
        sp = f.get("spec")
        if sp and sp["i"] and (len(sp["o"][0][1]) >= 2 or any(a is None for _, ax in sp["i"] for a in ax) or f.get("ret")):
            return True
    return False


def nontrivial_key(c):
    if not _nontrivial(c):
        return None
    return ([mapsym.spec_str(f.get("spec")) for f in c["funcs"]],
            [v["sh"] if isinstance(v, dict) else 0 for _, v in c["inputs"]], c["st"], c.get("fresh"), c.get("persist"), c.get("seq"))


def _kinds(c):
    st = c["st"]
    if "uni" in st:
        return "uniform:" + st["uni"]
    vals = sorted({v for _, v in st["dict"]})
    return "dict:" + "+".join(vals) + (":default" if any(k == "" for k, _ in st["dict"]) else ":nodefault")


def distribution(c):
    return {"storage": _kinds(c), "fresh": bool(c.get("fresh")), "persist": bool(c.get("persist", True)),
            "xr_ref": c.get("xr"), "tuple_key": any(isinstance(k, list) and len(k) > 1 for k, _ in c["st"].get("dict", [])),
            "one_tuple_key": any(isinstance(k, list) and len(k) == 1 for k, _ in c["st"].get("dict", [])),
            "int_internal": bool(c.get("func_int") or c.get("user_int")), "nfuncs": len(c["funcs"]),
            "scoped_inputs": bool(c.get("scoped")), "process_pool": bool(c.get("pool")),
            "edited": (c["mut"][0] + ":" + c["mut"][1]) if c.get("mut") else "no",
            "reuse": c.get("seq", "cleanup=False" if c.get("cleanup") is False else ("yes" if c.get("prev") else "no")),
            "internal_first": not _internal_after_mapped(c)}


def finding_id(c, impl_obs, kind):
    return None


def shrink(c):
    out = []
    fs = c["funcs"]
    for j in range(len(fs) - 1, -1, -1):
        produced = set(fs[j]["outs"])
        if any(produced & set(g["params"]) for g in fs[j + 1:]):
            continue
        d = json.loads(json.dumps(c))
        d["funcs"] = fs[:j] + fs[j + 1:]
        if not d["funcs"]:
            continue
        used = {p for g in d["funcs"] for p in g["params"]}
        d["inputs"] = [kv for kv in d["inputs"] if kv[0] in used]
        names = {o for g in d["funcs"] for o in g["outs"]}
        d["internal"] = [kv for kv in d.get("internal") or [] if kv[0] in names]
        d["user_int"] = [k for k in d.get("user_int", []) if k in names]
        d["func_int"] = [k for k in d.get("func_int", []) if k in {g["name"] for g in d["funcs"]}]
        xr = _xr_reference(d)
        if xr is None:
            continue
        d["xr"], d["xr_coords"] = xr
        out.append(d)
    if "dict" in c["st"]:
        for v in STORAGES:
            d = json.loads(json.dumps(c))
            d["st"] = {"uni": v}
            out.append(d)
    if c.get("fresh"):
        d = json.loads(json.dumps(c))
        d["fresh"] = False
        out.append(d)
    return out
